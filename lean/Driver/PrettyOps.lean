import ScrutModel.Model.Pretty
import Driver.Util
/-! `pdiff`, `hl`, `sections` ops: the renderers' decision logic (C19). -/
open Scrut Scrut.Pretty
namespace Driver.PrettyOps
def parseNatList (s : String) : Option (List Nat) :=
  if s == "" || s == "-" then some [] else (s.splitOn ",").mapM (·.toNat?)

/-- `M<i>:<l,l>` / `U<i>` / `X:<l,l>` -/
def parseDL (s : String) : Option Diff.DL :=
  match s.toList with
  | 'M' :: rest =>
    match (String.ofList rest).splitOn ":" with
    | [i, ls] => do
      let i ← i.toNat?
      let ls ← parseNatList ls
      pure (.matched i ls)
    | _ => none
  | 'U' :: rest => (String.ofList rest).toNat?.map .unmatched
  | 'X' :: ':' :: rest => (parseNatList (String.ofList rest)).map .unexpected
  | _ => none

def parseDiff (s : String) : Option (List Diff.DL) :=
  if s == "-" then some [] else (s.splitOn ";").mapM parseDL

def joinOr (none_ : String) (sep : String) (l : List String) : String :=
  if l.isEmpty then none_ else sep.intercalate l

def sign (b : Bool) : String := if b then "+" else "."

def showLine : Line → String
  | .ctx e m none => s!"M{e}{sign m}:+"
  | .ctx e m (some o) => s!"M{e}{sign m}:{o}"
  | .ell => "E"
  | .unm e m => s!"U{e}{sign m}"
  | .unx o => s!"X{o}"

def showUE : UE → String
  | .hdr a b c d => s!"H{a}/{b}/{c}/{d}"
  | .minus i => s!"-{i}"
  | .plus l => s!"+{l}"

/-- `pdiff <msl> <abs> <lineno> <shlines> <nexp> <mlset> <diff>` -/
def opPDiff (args : List String) : String :=
  match args with
  | [msl, abs, ln, sh, nexp, mls, d] =>
    match msl.toNat?, bool01 abs, ln.toNat?, sh.toNat?, nexp.toNat?, parseNatList mls, parseDiff d with
    | some msl, some abs, some ln, some sh, some nexp, some mls, some d =>
      let cfg : Cfg := { msl, abs, lineNumber := ln, shellLines := sh, nexp, ml := fun i => mls.contains i }
      let p := match prettyRender cfg d with
        | none => "crash"
        | some (w, ls) => if ls.isEmpty then "w? none" else s!"w{w} " ++ ",".intercalate (ls.map showLine)
      let u := joinOr "none" "," ((unifiedEntries (ln + sh) d).map showUE)
      p ++ " | " ++ u
    | _, _, _, _, _, _, _ => "bad-op"
  | _ => "bad-op"

/-- `hl <hex of UTF-8 text>` -/
def opHl (args : List String) : String :=
  match args with
  | [h] =>
    match unhex h with
    | some bs =>
      match String.fromUTF8? (ByteArray.mk bs.toArray) with
      | some s =>
        match highlight s.toList with
        | none => "crash"
        | some r => hex (String.ofList r).toUTF8.toList
      | none => "bad-op"
    | none => "bad-op"
  | _ => "bad-op"

def parseKind (c : Char) : Option Kind :=
  match c with
  | 'o' => some .ok
  | 'm' => some .malformed
  | 'x' => some .exitcode
  | 'i' => some .internal
  | 't' => some .timeout
  | 's' => some .skipped
  | _ => none

/-- `<kind><loc|->:<line>` -/
def parseOC (s : String) (pos : Nat) : Option OC :=
  match s.toList with
  | k :: rest =>
    match (String.ofList rest).splitOn ":" with
    | [loc, line] => do
      let k ← parseKind k
      let loc ← optNat loc
      let line ← line.toNat?
      pure { kind := k, loc, line, pos }
    | _ => none
  | [] => none

def parseOCs : List String → Nat → Option (List OC)
  | [], _ => some []
  | s :: r, k => do
    let o ← parseOC s k
    let os ← parseOCs r (k + 1)
    pure (o :: os)

def showPos (l : List Nat) : String := joinOr "none" "," (l.map toString)

/-- `sections <oc;oc;…>` -/
def opSections (args : List String) : String :=
  match args with
  | [s] =>
    match parseOCs (if s == "-" then [] else s.splitOn ";") 0 with
    | some os =>
      let (f, o, e, k) := summary os
      let d := match diffSections os with
        | none => "error"
        | some l => showPos l
      s!"P:{showPos (prettySections os)} S:{f},{o},{e},{k} D:{d} K:{joinOr "none" "," (os.map (·.kind.name))}"
    | none => "bad-op"
  | _ => "bad-op"

end Driver.PrettyOps