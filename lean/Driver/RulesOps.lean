import ScrutModel.Model.Glob
import ScrutModel.Model.RegexWrap
import ScrutModel.Model.RegexCleanup
import Driver.Util
/-! `glob`, `cglob`, `globl`, `rx`, `rxl` ops: the pattern kinds of expectations (C04).

* `glob  <pat> <alphabet> <maxlen> <nl>`  one character per line of the enumeration (all words over
  the alphabet up to `maxlen`, by length then lexicographically, each followed by `nl` newlines):
  `1`/`0` = `globRuleMatches`; `D` if the transliterated crate loop (`wildMatch`) disagrees with
  the denotational `globMatch`, `F` if it ran out of fuel.
* `cglob …` the same for the Cram-compat glob.
* `globl <pat> <line>` one line: `g=<globMatch> w=<wildMatch> c=<cramMatch>`.
* `rx <polish> <alphabet> <maxlen> <nl>` `regexRuleMatches` over the enumeration; `rxl <polish> <line>` one line.
  Polish notation of the AST: `a`..`z` literal, `.` any, `e` empty, `;xy` seq, `|xy` alt, `*x` star,
  `(x` group, `^`, `$`.
* `rxclean <hex>[,<hex>…]` the expression(s) after the three clean-up passes of `RegexRule::make`
  (`regexClean`), hex, comma separated.
All text fields are hex of UTF-8; invalid UTF-8 is rejected (`bad-op`): decoding is not modelled. -/
open Scrut
namespace Driver.RulesOps
def utf8Chars (s : String) : Option (List Char) := do
  let bs ← unhex s
  let str ← String.fromUTF8? ⟨bs.toArray⟩
  pure str.toList

def wordsOfLen (alpha : List Char) : Nat → List (List Char)
  | 0 => [[]]
  | n + 1 => alpha.flatMap fun c => (wordsOfLen alpha n).map (c :: ·)

def wordsUpTo (alpha : List Char) (n : Nat) : List (List Char) :=
  (List.range (n + 1)).flatMap (wordsOfLen alpha)

def bit (b : Bool) : Char := if b then '1' else '0'

def globCell (p line : List Char) : Char :=
  let g := Glob.globRuleMatches p line
  match Glob.wildMatch p (Glob.trimNewlines line) with
  | none => 'F'
  | some w => if w == g then bit g else 'D'

def enumArgs (alpha maxlen nl : String) : Option (List (List Char)) := do
  let a ← utf8Chars alpha
  let n ← maxlen.toNat?
  let k ← nl.toNat?
  if n > 8 ∨ k > 4 then none
  pure ((wordsUpTo a n).map (· ++ List.replicate k '\n'))

def opGlob (args : List String) : String :=
  match args with
  | [pat, alpha, maxlen, nl] =>
    match utf8Chars pat, enumArgs alpha maxlen nl with
    | some p, some lines =>
      String.ofList (lines.map (globCell p)) ++ " u=" ++ hex (String.ofList (Glob.simplify p)).toUTF8.toList
    | _, _ => "bad-op"
  | _ => "bad-op"

def opCramGlob (args : List String) : String :=
  match args with
  | [pat, alpha, maxlen, nl] =>
    match utf8Chars pat, enumArgs alpha maxlen nl with
    | some p, some lines => String.ofList (lines.map fun l => bit (Glob.cramRuleMatches p l))
    | _, _ => "bad-op"
  | _ => "bad-op"

def opGlobLine (args : List String) : String :=
  match args with
  | [pat, line] =>
    match utf8Chars pat, utf8Chars line with
    | some p, some l =>
      let w := match Glob.wildMatch p (Glob.trimNewlines l) with
        | none => "fuel" | some b => (bit b).toString
      s!"g={bit (Glob.globRuleMatches p l)} w={w} c={bit (Glob.cramRuleMatches p l)}"
    | _, _ => "bad-op"
  | _ => "bad-op"

def opRxClean (args : List String) : String :=
  match args with
  | [es] =>
    match (es.splitOn ",").mapM utf8Chars with
    | some l => ",".intercalate (l.map fun e => hex (String.ofList (RegexCleanup.regexClean e)).toUTF8.toList)
    | none => "bad-op"
  | _ => "bad-op"

/-- cases that only the direct oracle judges (arbitrary regex text, undecodable lines) -/
def opOracleOnly (_ : List String) : String := "oracle-only"

def parseRE : Nat → List Char → Option (Regex.RE × List Char)
  | 0, _ => none
  | _, [] => none
  | fuel + 1, c :: rest =>
    if c = '.' then some (.any, rest)
    else if c = 'e' then some (.eps, rest)
    else if c = '^' then some (.bol, rest)
    else if c = '$' then some (.eol, rest)
    else if c = ';' then do
      let (a, r1) ← parseRE fuel rest
      let (b, r2) ← parseRE fuel r1
      pure (.seq a b, r2)
    else if c = '|' then do
      let (a, r1) ← parseRE fuel rest
      let (b, r2) ← parseRE fuel r1
      pure (.alt a b, r2)
    else if c = '*' then do
      let (a, r1) ← parseRE fuel rest
      pure (.star a, r1)
    else if c = '(' then do
      let (a, r1) ← parseRE fuel rest
      pure (.group a, r1)
    else if c = 'a' ∨ c = 'b' ∨ c = 'c' ∨ c = 'x' ∨ c = 'y' ∨ c = 'z' then some (.chr c, rest)
    else none

def polish (s : String) : Option Regex.RE :=
  match parseRE (s.length + 1) s.toList with
  | some (r, []) => some r
  | _ => none

def opRx (args : List String) : String :=
  match args with
  | [re, alpha, maxlen, nl] =>
    match polish re, enumArgs alpha maxlen nl with
    | some r, some lines => String.ofList (lines.map fun l => bit (Regex.regexRuleMatches r l))
    | _, _ => "bad-op"
  | _ => "bad-op"

def opRxLine (args : List String) : String :=
  match args with
  | [re, line] =>
    match polish re, utf8Chars line with
    | some r, some l => (bit (Regex.regexRuleMatches r l)).toString
    | _, _ => "bad-op"
  | _ => "bad-op"

end Driver.RulesOps