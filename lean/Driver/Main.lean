import Driver.DiffOps
import Driver.ExecOps
import Driver.ConfigOps
import Driver.NamerOps
import Driver.ShellOps
import Driver.MarkdownOps
import Driver.YamlOps
import Driver.TplOps
import Driver.PrettyOps
import Driver.CramOps
import Driver.EscOps
import Driver.RulesOps
import Driver.GrammarOps
import Driver.UpdateOps
import Driver.GenerateOps
import Driver.TestRunOps
import Driver.EnvOps
import Driver.UpdateRunOps
/-! Line-protocol driver: one operation per input line, one canonical line out. -/
namespace Driver
open Driver.CramOps Driver.MarkdownOps Driver.EscOps Driver.RulesOps Driver.YamlOps Driver.TplOps Driver.PrettyOps Driver.GrammarOps Driver.UpdateOps Driver.GenerateOps Driver.TestRunOps Driver.EnvOps Driver.UpdateRunOps

def step (line : String) : String :=
  match line.trimAscii.toString.splitOn " " with
  | "diff" :: args => opDiff args
  | "split" :: args => opSplit args
  | "validate" :: args => opValidate args
  | "exec" :: args => opExec args
  | "rundocs" :: args => opRunDocs args
  | "tcwd" :: args => opTcWd args
  | "dcwd" :: args => opDcWd args
  | "effective" :: args => opEffective args
  | "effectiveflags" :: args => opEffectiveFlags args
  | "namer" :: args => opNamer args
  | "envrun" :: args => opEnvRun args
  | "envapi" :: args => opEnvApi args
  | "shvars" :: args => opShVars args
  | "md" :: args => opMd args
  | "durfmt" :: args => opDurFmt args
  | "durparse" :: args => opDurParse args
  | "oneliner" :: args => opOneLiner args
  | "parseflow" :: args => opParseFlow args
  | "yquote" :: args => opYQuote args
  | "replace" :: args => opReplace args
  | "render" :: args => opRender args
  | "crlf" :: args => opCrlf args
  | "rout" :: args => opRout args
  | "strip" :: args => opStrip args
  | "execall" :: args => opExecAll args
  | "compile" :: args => opCompile args
  | "rmdiv" :: args => opRmDiv args
  | "bash" :: args => opBash args
  | "unmodelled" :: args => opUnmodelled args
  | "pdiff" :: args => opPDiff args
  | "hl" :: args => opHl args
  | "sections" :: args => opSections args
  | "cram" :: args => opCram args
  | "esc" :: args => opEsc args
  | "unesc" :: args => opUnesc args
  | "utf8" :: args => opUtf8 args
  | "rulem" :: args => opRuleM args
  | "glob" :: args => opGlob args
  | "cglob" :: args => opCramGlob args
  | "globl" :: args => opGlobLine args
  | "rx" :: args => opRx args
  | "rxl" :: args => opRxLine args
  | "rxclean" :: args => opRxClean args
  | "oracle-only" :: args => opOracleOnly args
  | "gram" :: args => opGram args
  | "gwhite" :: args => opGWhite args
  | "upd" :: args => opUpd args
  | "gen" :: args => opGen args
  | "genupd" :: args => opGenUpd args
  | "noop" :: args => opNoop args
  | "testdoc" :: args => opTestDoc args
  | "testcram" :: args => opTestCram args
  | "testdocc" :: args => opTestDocCompat args
  | "lossy" :: args => opLossy args
  | "upddoc" :: args => opUpdDoc args
  | _ => "bad-op"

partial def loop (h : IO.FS.Stream) (out : IO.FS.Stream) : IO Unit := do
  let line ← h.getLine
  if line.isEmpty then return ()
  out.putStrLn (step line)
  loop h out

end Driver

def main : IO Unit := do
  let stdin ← IO.getStdin
  let stdout ← IO.getStdout
  Driver.loop stdin stdout
