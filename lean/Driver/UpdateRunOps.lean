import ScrutModel.Model.UpdateRun
import Driver.TestRunOps
import Driver.GenerateOps
import Driver.Util
/-! `upddoc` op: the integrated model of `scrut update --replace --assume-yes <one Markdown document>`
(`Model/UpdateRun.lean`).

`upddoc <doc> <outputs> <others> [<case>]`

* `doc`      bytes of the document file, hex
* `outputs`  `-` (none) or `,`-separated `<stdout hex>:<stderr hex>:<exit code>`, one per test case of the
             document in order (the `runs` of the `testdoc` op): what the COMPLETED command wrote and how it ended
* `others`   `-` or the comma separated hexadecimal code points for which the real `char::is_other()` holds, among
             the characters of the outputs (the `others` of the `gen` / `genupd` ops: the compiled model holds no
             Unicode table)
* `case`     optional, ignored: `<seed>.<index>` of the generated case (the harness replays by it)

Output: `unchanged` (the file is not written) | `unsupported` | `error` (the command fails) | `crash` |
`missing-run` | hex of the bytes the file is overwritten with.
-/
open Scrut Scrut.TestRun Scrut.UpdateRun
namespace Driver.UpdateRunOps
open Driver.TestRunOps Driver.GenerateOps

def showResult : UpdateRun.Result → String
  | .error => "error"
  | .crash => "crash"
  | .unsupported => "unsupported"
  | .missingRun => "missing-run"
  | .unchanged _ => "unchanged"
  | .updated text _ => hex (Utf8.utf8 text)

def updDocOf (doc runs others : String) : String :=
  match unhex doc, parseRuns runs, parseOthers others with
  | some doc, some runs, some oth =>
    let isOther : Char → Bool := fun ch => oth.contains ch.toNat
    showResult (updateDocumentBytes isOther doc runs)
  | _, _, _ => "bad-op"

def opUpdDoc (args : List String) : String :=
  match args with
  | [doc, runs, others] => updDocOf doc runs others
  | [doc, runs, others, _case] => updDocOf doc runs others
  | _ => "bad-op"

end Driver.UpdateRunOps
