import ScrutModel.Model.Exec
import Driver.Util
/-! `validate`, `exec`, `rundocs` ops: verdict, executor loop, result mapping, exit status. -/
open Scrut Scrut.Exec
namespace Driver

def parseStatus (s : String) : Option Status :=
  match s.toList with
  | ['t'] => some .timeout
  | ['s'] => some .skipped
  | ['d'] => some .detached
  | ['u'] => some .unknown
  | 'c' :: rest => (String.ofList rest).toInt?.map Status.code
  | _ => none

def showStatus : Status → String
  | .code c => s!"c{c}"
  | .timeout => "t"
  | .skipped => "s"
  | .detached => "d"
  | .unknown => "u"

def parseStream (s : String) : Option Stream :=
  match s with
  | "u" => some .unset | "o" => some .stdout | "e" => some .stderr | "c" => some .combined
  | _ => none

def showVerdict : Verdict → String
  | .ok => "success"
  | .invalidExit a e => s!"invalid_exit_code:{a}:{e}"
  | .malformed => "malformed_output"
  | .internal => "internal_error"
  | .timeout => "timeout"
  | .skipped => "skipped"

/-- `validate <expected|-> <stream> <status> <accOut> <accErr>` -/
def opValidate (args : List String) : String :=
  match args with
  | [e, st, s, ao, ae] =>
    match optInt e, parseStream st, parseStatus s, bool01 ao, bool01 ae with
    | some e, some st, some s, some ao, some ae =>
      showVerdict (validate ⟨e, st, none, none, true, 0⟩ ⟨s, ao, ae⟩)
    | _, _, _, _, _ => "bad-op"
  | _ => "bad-op"

/-- a scripted test: configuration, prepared output, duration of the command (`none` = the
runner ignores the limit and no time passes) and `config.wait` (ms that pass before the
remaining time of the document is looked at) -/
structure ST where
  tc : TC
  out : Out
  dur : Option Nat
  wait : Nat

/-- one scripted test: `exp,stream,skip,timeout,accEmpty,status,accOut,accErr,dur[,wait]` -/
def parseTest (s : String) : Option ST :=
  let go (e st sk to ae0 status ao ae dur : String) (wait : Option Nat) : Option ST :=
    match optInt e, parseStream st, optInt sk, optNat to, bool01 ae0, parseStatus status, bool01 ao, bool01 ae, optNat dur, wait with
    | some e, some st, some sk, some to, some ae0, some status, some ao, some ae, some dur, some wait =>
      some ⟨⟨e, st, sk, to, ae0, wait⟩, ⟨status, ao, ae⟩, dur, wait⟩
    | _, _, _, _, _, _, _, _, _, _ => none
  match s.splitOn "," with
  | [e, st, sk, to, ae0, status, ao, ae, dur] => go e st sk to ae0 status ao ae dur (some 0)
  | [e, st, sk, to, ae0, status, ao, ae, dur, wait] => go e st sk to ae0 status ao ae dur wait.toNat?
  | _ => none

def showLimit (isGlobal : Bool) (l : Option Nat) : String :=
  match l with
  | none => "-"
  | some v => if isGlobal then "G" else s!"P{v}"

def showResult : ExecResult → String
  | .ok outs => "ok:" ++ ",".intercalate (outs.map (fun o => showStatus o.status))
  | .skipped i => s!"skipped:{i}"
  | .timeout g i outs => s!"timeout:{if g then "G" else "P"}:{i}:" ++ ",".intercalate (outs.map (fun o => showStatus o.status))

def mkRunner (tests : Array ST) : Runner := fun i lim =>
  match tests[i]? with
  | none => (⟨.unknown, false, false⟩, 0)
  | some ⟨_, o, none, _⟩ => (o, 0)               -- scripted: ignores the limit, no time passes
  | some ⟨_, o, some dur, _⟩ => honest (fun _ => (dur, o)) i lim

/-- is the limit handed for test `i` attributed to the document? recomputed for display only -/
def limitsShown (total : Option Nat) (tests : List ST) (limits : List (Option Nat)) : String :=
  -- a limit is shown as `P<ms>` when it equals the test's own timeout, else `G`
  let rec go : List ST → List (Option Nat) → List String
    | ⟨tc, _, _, _⟩ :: ts, l :: ls =>
      (match l with
       | none => "-"
       | some v => if tc.timeout = some v then s!"P{v}" else "G") :: go ts ls
    | _, _ => []
  let _ := total
  ",".intercalate (go tests limits)

/-- a document: `<total>;<test>;…`, total prefixed with `C` for a Cram document (one script) -/
def parseDoc (s : String) : Option (Option (Bool × Option Nat × List ST)) :=
  if s == "ERR" then some none else
  match s.splitOn ";" with
  | total :: tests =>
    let cram := total.startsWith "C"
    let total := if cram then (total.drop 1).toString else total
    match optNat total, (tests.filter (· ≠ "")).mapM parseTest with
    | some total, some tests => some (some (cram, total, tests))
    | _, _ => none
  | _ => none

/-- In a Cram document a test status `c-<n>`… is not used; a test that LEAVES the shell is written
    as status `code n` with `dur = some 1` (marker): the script ends there with that code and no
    divider is printed for it or anything after it. -/
def runExec (cram : Bool) (total : Option Nat) (tests : List ST) : Option (ExecResult × List (Option Nat)) :=
  if cram then
    let before := tests.takeWhile (fun t => t.dur ≠ some 1)
    let script : Status := match tests.find? (fun t => t.dur = some 1) with
      | some t => t.out.status
      | none => .code 0
    (execScript (tests.map (·.tc)) script (before.map (·.out))).map (fun r => (r, []))
  else some (execAll total (mkRunner tests.toArray) (tests.map (·.tc)))

/-- `exec <doc>`: executor loop only -/
def opExec (args : List String) : String :=
  match args with
  | [d] =>
    match parseDoc d with
    | some (some (cram, total, tests)) =>
      match runExec cram total tests with
      | some (r, limits) => showResult r ++ " limits=" ++ limitsShown total tests limits
      | none => "error"
    | _ => "bad-op"
  | _ => "bad-op"

/-- `rundocs <doc>|<doc>|…`: result mapping per document and process exit status -/
def opRunDocs (args : List String) : String :=
  -- an optional `case=<tag>` names the harness scenario that carries the operation; it is not part of the model's input
  let args := match args with
    | [ds, tag] => if tag.startsWith "case=" then [ds] else args
    | _ => args
  match args with
  | [ds] =>
    match (ds.splitOn "|").mapM parseDoc with
    | some docs =>
      let outcomes : List (Option (List Outcome)) := docs.map (fun d => d.bind (fun (cram, total, tests) =>
        (runExec cram total tests).map (fun r => runDocument (tests.map (·.tc)) r.1)))
      let showDoc : Option (List Outcome) → String
        | none => "ERR"
        | some os => ",".intercalate (os.map (fun (i, v) => s!"{i}:{match v with | .invalidExit _ _ => "invalid_exit_code" | v => showVerdict v}"))
      -- a run that hits a document it cannot process reports nothing but the exit status
      if outcomes.any (·.isNone) then s!"ERR exit={exitStatus outcomes}"
      else "|".intercalate (outcomes.map showDoc) ++ s!" exit={exitStatus outcomes}"
    | none => "bad-op"
  | _ => "bad-op"

end Driver
