import ScrutModel.Model.Environment
import Driver.Util
/-!
`envrun` / `envapi`: the model of `TestEnvironment` and of the document loop of `scrut test`,
run with the oracle `longFresh` (which keeps the `Fresh` contract: `longFresh_fresh`).

Paths are hex of their `/`-joined text relative to the scratch root of the case (`-` = the root).
Random name parts are canonicalised on both sides: the directory `execution.XXXX` (`temp.XXXX`)
made for document `i` is shown as `execution.#i` (`temp.#i`), `#?` when the document never got a
working directory.

* `envrun <tmpRoot> <shell> <provided|none> <keep> <parseOk> <observe> <fs0> <docs>` — `runCommand`;
  `docs` = `,`-separated `dir:file:cram:ending:mkWork:mkTmp:scrutPath:line` (`mkWork`/`mkTmp` =
  `+`-separated paths or `.`; ending `c|s|p|x`). Output: `finished` flag, then per document that
  got as far as its test cases `wd`, the variables of its first test case (sorted by name), the
  directories below the observed roots while it runs; then the directories at the end.
* `envapi <tmpRoot> <shell> <provided|none> <keep> <pre> <observe> <fs0> <docs>` — `new`, then the
  directories `pre` (names) appear in the work directory, then `initTestFiles`, then `drop`.
-/
open Scrut Scrut.Namer Scrut.Environment
namespace Driver.EnvOps

def unhexStr (h : String) : Option String := do
  let bs ← unhex h
  String.fromUTF8? (ByteArray.mk bs.toArray)

def parsePath (h : String) : Option Path := do
  let s ← unhexStr h
  pure ((s.splitOn "/").filter (· ≠ "") |>.map String.toList)

def parseList {α : Type} (sep : String) (none : String) (f : String → Option α) (s : String) : Option (List α) :=
  if s == none then some [] else (s.splitOn sep).mapM f

def parseEnding : String → Option Ending
  | "c" => some .completes | "s" => some .shellMissing | "p" => some .prependError | "x" => some .execError
  | _ => none

/-- a document plus what the executor needs for `SCRUT_TEST` of its first test case -/
structure DocX where
  doc : Doc
  scrutPath : List Char
  line : Nat

def parseDoc (s : String) : Option DocX :=
  match s.splitOn ":" with
  | [dir, file, cram, ending, mkw, mkt, sp, line] => do
    let dir ← parsePath dir
    let file ← unhexStr file
    let cram ← bool01 cram
    let ending ← parseEnding ending
    let mkw ← parseList "+" "." parsePath mkw
    let mkt ← parseList "+" "." parsePath mkt
    let sp ← unhexStr sp
    let line ← line.toNat?
    pure ⟨⟨dir, file.toList, cram, mkw, mkt, ending⟩, sp.toList, line⟩
  | _ => none

def showPath (p : Path) : String := if p.isEmpty then "." else "/".intercalate (p.map String.ofList)

/-- replace the random component of a path below one of the labelled roots -/
def canonPath (labels : List (Path × Name)) (p : Path) : Path :=
  match labels.find? (fun l => below l.1 p) with
  | some (root, label) => root.dropLast ++ [label] ++ p.drop root.length
  | none => p

def labelsOf (idx : String) (env : Env) : List (Path × Name) :=
  (if env.work.kind = .userProvided then [] else [(env.work.path, pfxExecution ++ ('#' :: idx.toList))]) ++
  (if env.tmp.kind = .userProvided then [] else [(env.tmp.path, pfxTemp ++ ('#' :: idx.toList))])

def runLabels (i : Nat) (r : DocRun) : List (Path × Name) :=
  labelsOf (if r.workDir.isSome then toString i else "?") r.env

def insertSorted (s : String) : List String → List String
  | [] => [s]
  | x :: xs => if s < x then s :: x :: xs else if s == x then x :: xs else x :: insertSorted s xs

def sortDedup (l : List String) : List String := l.foldr insertSorted []

def insertKeep (s : String) : List String → List String
  | [] => [s]
  | x :: xs => if s < x then s :: x :: xs else x :: insertKeep s xs

/-- sorted, duplicates kept (a variable bound twice must show) -/
def sortKeep (l : List String) : List String := l.foldr insertKeep []

def listing (observe : List Path) (labels : List (Path × Name)) (fs : FS) : String :=
  ",".intercalate (sortDedup ((fs.filter (fun p => observe.any (fun o => below o p))).map (fun p => showPath (canonPath labels p))))

/-- a variable value that is the text of one of the model's paths is shown with that path canonicalised -/
def canonValue (labels : List (Path × Name)) (known : List Path) (v : List Char) : String :=
  match known.find? (fun p => render p == v) with
  | some p => String.ofList (render (canonPath labels p))
  | none => String.ofList v

def showVars (sorted : Bool) (labels : List (Path × Name)) (known : List Path) (vars : Vars) : String :=
  let l := vars.map (fun kv => String.ofList kv.1 ++ "=" ++ canonValue labels known kv.2)
  ";".intercalate (if sorted then sortKeep l else l)

def showKind : DirKind → String
  | .ephemeral => "ephemeral" | .userProvided => "user-provided" | .kept => "kept"

def zipIdx {α : Type} (l : List α) : List (Nat × α) := (List.range l.length).zip l

def parseCommon (tmpRoot shell provided keep observe fs0 docs : String) :
    Option (Cfg × List Path × FS × List DocX) := do
  let tmpRoot ← parsePath tmpRoot
  let shell ← unhexStr shell
  let provided ← if provided == "none" then some none else (parsePath provided).map some
  let keep ← bool01 keep
  let observe ← parseList "," "." parsePath observe
  let fs0 ← parseList "," "." parsePath fs0
  let docs ← parseList "," "." parseDoc docs
  pure (⟨tmpRoot, shell.toList, provided, keep⟩, observe, fs0, docs)

/-- a trailing `case=…` field identifies the case for the harness (replay); the model ignores it -/
def dropCaseTag (args : List String) : List String :=
  match args.getLast? with
  | some l => if l.startsWith "case=" then args.dropLast else args
  | none => args

def opEnvRun (args : List String) : String :=
  match dropCaseTag args with
  | [tmpRoot, shell, provided, keep, parseOk, observe, fs0, docs] =>
    match parseCommon tmpRoot shell provided keep observe fs0 docs, bool01 parseOk with
    | some (cfg, observe, fs0, docs), some parseOk =>
      match runCommand cfg longFresh parseOk fs0 (docs.map (·.doc)) with
      | none => "out-of-fuel"
      | some R =>
        let runs := zipIdx R.runs
        let perDoc := runs.filterMap (fun (i, r) =>
          match r.workDir, docs[i]? with
          | some wd, some dx =>
            -- own names first; directories earlier documents left (keep mode) carry their labels
            let labels := runLabels i r ++ runs.flatMap (fun (j, r') => runLabels j r')
            let vars := executorVars r.doc r.vars dx.scrutPath dx.line
            some s!"doc{i}: wd={showPath (canonPath labels wd)} vars={showVars true labels [r.doc.dir, r.env.tmp.path, r.env.work.path] vars} during={listing observe labels r.fsDuring}"
          | _, _ => none)
        let allLabels := runs.flatMap (fun (i, r) => runLabels i r)
        let head := s!"finished={if R.finished then 1 else 0}"
        " | ".intercalate ([head] ++ perDoc ++ [s!"final={listing observe allLabels R.fs}"])
    | _, _ => "bad-op"
  | _ => "bad-op"

def showNewError : NewError → String
  | .noParent => "no-parent" | .exists => "exists"

def opEnvApi (args : List String) : String :=
  match dropCaseTag args with
  | [tmpRoot, shell, provided, keep, pre, observe, fs0, docs] =>
    match parseCommon tmpRoot shell provided keep observe fs0 docs, parseList "," "." unhexStr pre with
    | some (cfg, observe, fs0, docs), some pre =>
      match new longFresh cfg.tmpRoot cfg.shell cfg.provided cfg.keep fs0 with
      | .error e fs => s!"new=error:{showNewError e} | final={listing observe [] fs}"
      | .ok env fs1 =>
        let labels := labelsOf "0" env
        let fs1 := pre.map (fun n => env.work.path ++ [n.toList]) ++ fs1
        let own := observe ++ [env.work.path, env.tmp.path]
        match initTestFiles (docs.map (·.doc)) env fs1 with
        | none => "out-of-fuel"
        | some (out, env', fs2) =>
          let head := s!"new=ok work={showKind env.work.kind}:{showPath (canonPath labels env.work.path)} tmp={showKind env.tmp.kind}:{showPath (canonPath labels env.tmp.path)}"
          let per := (zipIdx out).filterMap (fun (i, (wd, vars)) =>
            (docs[i]?).map (fun dx =>
              s!"doc{i}: wd={showPath (canonPath labels wd)} vars={showVars false labels [dx.doc.dir, env.tmp.path, env.work.path] vars}"))
          " | ".intercalate ([head] ++ per ++
            [s!"after-init={listing own labels fs2}", s!"after-drop={listing own labels (drop env' fs2)}"])
    | _, _ => "bad-op"
  | _ => "bad-op"

end Driver.EnvOps
