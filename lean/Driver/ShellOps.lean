import ScrutModel.Model.ShellState
import Driver.Util
/-! `shvars <inherited-value-hex> <steps>`: the variable carrier. Steps are comma separated,
`D:` prefix = detached, then `a<n>:<hex>` / `e<n>:<hex>` / `u<n>` / `r<n>:<hex>` / `o`, then `@<tag>` (ignored).
Names: 0 = the inherited (exported) variable, 1 = X, 2 = Y. -/
open Scrut Scrut.Shell
namespace Driver

def parseAction (s : String) : Option Action :=
  match s.toList with
  | ['o'] => some .other
  | 'u' :: n => (String.ofList n).toNat?.map Action.unset
  | c :: rest =>
    match (String.ofList rest).splitOn ":" with
    | [n, h] => do
      let n ← n.toNat?
      let v ← unhex h
      let v := v.map (·.toNat)
      match c with
      | 'a' => some (.assign n v)
      | 'e' => some (.export n v)
      | 'r' => some (.readonly n v)
      | _ => none
    | _ => none
  | _ => none

def showVal (o : Option Val) : String :=
  match o with
  | none => "U"
  | some v => "S:" ++ (if v.isEmpty then "" else hex (v.map UInt8.ofNat))

def opShVars (args : List String) : String :=
  match args with
  | [inh, steps] =>
    match unhex inh, (steps.splitOn ",").mapM (fun s =>
        let (d, s) := if s.startsWith "D:" then (true, (s.drop 2).toString) else (false, s)
        let s := (s.splitOn "@").headD ""
        (parseAction s).map (fun a => (a, d))) with
    | some inh, some hs =>
      let inherited : Vars := [⟨0, inh.map (·.toNat), true, false⟩]
      -- every step is observed, and a final probe-only test case follows
      let outs := runPerProcess (fun _ => false) inherited [0, 1, 2] (hs ++ [(.other, false)]) none
      ";".intercalate (outs.map (fun o => match o with
        | none => "D"
        | some vals => "|".intercalate (vals.map showVal)))
    | _, _ => "bad-op"
  | _ => "bad-op"

end Driver
