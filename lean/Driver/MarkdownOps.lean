import ScrutModel.Model.Markdown
import Driver.Util
/-! `md` op: the Markdown parser model on one document.

`md <doc> <letters> <badexp> <doctable> <testtable>`

* `doc`       UTF-8 bytes of the document, hex
* `letters`   `,`-separated decimal code points: the non-ASCII characters of the document that are
              in `\p{L}` (ASCII letters are built in), `-` = none
* `badexp`    `,`-separated hex texts of lines that `ExpectationMaker::parse` rejects, `-` = none
* `doctable`  `,`-separated `key:value`: front-matter text (hex; the lines joined by `\n`) ↦ `!`
              (serde_yaml rejects that text plus a final `\n`, which is what `parse` hands it) or
              an opaque canonical value of the resulting document configuration; key `default`: no
              front-matter; key `a+b`: front-matter `a` followed by a different front-matter `b`
* `testtable` the same for the text between the braces of a fence line; the key `none` is the
              configuration of a block without inline configuration

Output: `ok doc=<value> n=<count> | t=<title> c=<shell expression> e=<expectations> x=<exit code> l=<line> cfg=<value> | …`,
`err <kind> [<line>]`, or `missing-yaml <key>` if the model needs a verdict that the table lacks.
-/
open Scrut Scrut.Markdown Scrut.LineParser
namespace Driver.MarkdownOps
def utf8Decode (bs : List UInt8) : Option (List Char) :=
  (String.fromUTF8? (ByteArray.mk bs.toArray)).map (·.toList)

def utf8Hex (l : List Char) : String := hex (String.ofList l).toUTF8.toList

def parseList {α} (f : String → Option α) (s : String) : Option (List α) :=
  if s == "-" then some [] else (s.splitOn ",").mapM f

def parseTable (s : String) : Option (List (String × String)) :=
  parseList (fun kv => match kv.splitOn ":" with
    | [k, v] => some (k, v)
    | _ => none) s

def isAsciiLetter (c : Char) : Bool :=
  let n := c.toNat
  (65 ≤ n && n ≤ 90) || (97 ≤ n && n ≤ 122)

def showLpErr : LineParser.Err → String
  | .extenderWithoutCommand l => s!"err extender {l}"
  | .exitCodeTwice l => s!"err exit-code-twice {l}"
  | .exitCodeOutOfRange l => s!"err exit-code-out-of-range {l}"
  | .expectationParse l => s!"err expectation {l}"
  | .noShellExpression l => s!"err no-shell-expression {l}"
  | .exitCodeWithoutCommand l => s!"err exit-code-without-command {l}"
  | .bodyWithoutCommand l => s!"err body-without-command {l}"

def showErr : Markdown.Err → String
  | .crash => "crash"
  | .docConfigYaml => "err doc-config"
  | .testConfigYaml => "err test-config"
  | .missingLanguage l => s!"err missing-language {l}"
  | .lineParser e => showLpErr e

def lookupCfg (table : List (String × String)) (key : String) : Except String String :=
  match table.lookup key with
  | some v => .ok v
  | none => .error key

def showTest (testTable : List (String × String)) (t : TestCase Cfg) : Except String String := do
  let key := match t.config with
    | none => "unset"
    | some none => "none"
    | some (some c) => utf8Hex c
  let cfg ← if key == "unset" then pure "unset" else lookupCfg testTable key
  let exps := if t.expectations.isEmpty then "-" else ",".intercalate (t.expectations.map utf8Hex)
  let code := match t.exitCode with | none => "-" | some c => toString c
  pure s!"t={utf8Hex t.title} c={utf8Hex t.shellExpression} e={exps} x={code} l={t.lineNumber} cfg={cfg}"

def opMd (args : List String) : String :=
  match args with
  | [doc, letters, badexp, docTable, testTable] =>
    match (unhex doc).bind utf8Decode, parseList String.toNat? letters,
          parseList (fun h => (unhex h).bind utf8Decode) badexp, parseTable docTable, parseTable testTable with
    | some text, some letters, some badexp, some docTable, some testTable =>
      let env : Env :=
        { isLetter := fun c => isAsciiLetter c || letters.contains c.toNat
          expOk := fun l => !badexp.contains l
          -- the model asks about the front-matter text plus the final `\n` that `parse` appends; the
          -- table is keyed by the text without it
          docCfgOk := fun t =>
            let key := if t.getLast? = some '\n' then t.dropLast else t
            (docTable.lookup (utf8Hex key)).any (· != "!")
          testCfgOk := fun t => (testTable.lookup (utf8Hex t)).any (· != "!") }
      -- a verdict that is needed but not in the table must not default
      let lines := splitLines text
      let needed : List String :=
        match tokenize env.languages lines with
        | .ok toks => toks.filterMap (fun
            | .docConfig ls => if (docTable.lookup (utf8Hex (joinNumbered ls))).isNone then some ("doc:" ++ utf8Hex (joinNumbered ls)) else none
            | .test _ cfg _ _ => if !cfg.isEmpty && (testTable.lookup (utf8Hex (joinNumbered cfg))).isNone then some ("test:" ++ utf8Hex (joinNumbered cfg)) else none
            | _ => none)
        | .error _ => []
      match needed with
      | k :: _ => s!"missing-yaml {k}"
      | [] =>
        match parseLines env lines with
        | .error e => showErr e
        | .ok p =>
          let docV : Except String String :=
            match p.docConfigs.eraseDups with
            | [] => lookupCfg docTable "default"
            | [t] => lookupCfg docTable (utf8Hex t)
            | [t1, t2] => lookupCfg docTable (utf8Hex t1 ++ "+" ++ utf8Hex t2)
            | _ => .ok "multi"
          match docV, p.tests.mapM (showTest testTable) with
          | .ok d, .ok ts => " | ".intercalate (s!"ok doc={d} n={p.tests.length}" :: ts)
          | .error k, _ => s!"missing-yaml doc:{k}"
          | _, .error k => s!"missing-yaml test:{k}"
    | _, _, _, _, _ => "bad-op"
  | _ => "bad-op"

end Driver.MarkdownOps