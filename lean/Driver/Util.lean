/-! Helpers for the line-protocol driver. -/
namespace Driver

def showNats (l : List Nat) : String := ",".intercalate (l.map toString)

def optNat (s : String) : Option (Option Nat) :=
  if s == "-" then some none else s.toNat?.map some

def optInt (s : String) : Option (Option Int) :=
  if s == "-" then some none else s.toInt?.map some

def bool01 (s : String) : Option Bool :=
  if s == "1" then some true else if s == "0" then some false else none

def hexVal (c : Char) : Option Nat :=
  if '0' ≤ c ∧ c ≤ '9' then some (c.toNat - '0'.toNat)
  else if 'a' ≤ c ∧ c ≤ 'f' then some (c.toNat - 'a'.toNat + 10)
  else none

/-- `-` is the empty byte string, otherwise lowercase hex pairs -/
def unhex (s : String) : Option (List UInt8) :=
  if s == "-" then some [] else
  let rec go : List Char → Option (List UInt8)
    | [] => some []
    | [_] => none
    | a :: b :: rest => do
      let x ← hexVal a
      let y ← hexVal b
      let r ← go rest
      pure (UInt8.ofNat (x * 16 + y) :: r)
  go s.toList

def hexDigit (n : Nat) : Char :=
  if n < 10 then Char.ofNat ('0'.toNat + n) else Char.ofNat ('a'.toNat + n - 10)

def hex (bs : List UInt8) : String :=
  if bs.isEmpty then "-" else
  String.ofList (bs.flatMap (fun b => [hexDigit (b.toNat / 16), hexDigit (b.toNat % 16)]))

end Driver
