import ScrutModel.Model.Cram
import Driver.Util
/-! `cram` op: the Cram document parser.

`cram <indention> <hex of the UTF-8 document> fail=<hex,hex,…>`: the last field instantiates the
parameter `expOk`: the texts for which `ExpectationMaker::parse` fails (evaluated by the harness on
the real maker, independently of the Cram parser). -/
open Scrut Scrut.LineParser Scrut.Cram
namespace Driver.CramOps
def utf8Chars (bs : List UInt8) : Option (List Char) :=
  (String.fromUTF8? (ByteArray.mk bs.toArray)).map (·.toList)

def hexChars (cs : List Char) : String := hex (String.ofList cs).toUTF8.toList

def showErr : Err → String
  | .extenderWithoutCommand l => s!"error:extender:{l}"
  | .exitCodeTwice l => s!"error:exit-twice:{l}"
  | .exitCodeOutOfRange l => s!"error:exit-range:{l}"
  | .expectationParse l => s!"error:exp-parse:{l}"
  | .noShellExpression l => s!"error:no-shell:{l}"
  | .exitCodeWithoutCommand l => s!"error:exit-no-shell:{l}"
  | .bodyWithoutCommand l => s!"error:body-no-shell:{l}"

def showOB : Option Bool → String
  | none => "-" | some true => "1" | some false => "0"

def showStreamC : Option Stream → String
  | none => "-" | some .stdout => "stdout" | some .stderr => "stderr" | some .combined => "combined"

def showTCConfig (c : TCConfig) : String :=
  let env := if c.environment.isEmpty then "-" else "set"
  let t := match c.timeoutSecs with | none => "-" | some v => toString v
  let sk := match c.skipDocumentCode with | none => "-" | some v => toString v
  s!"d={showOB c.detached},k={showOB c.keepCrlf},o={showStreamC c.outputStream},s={sk},a={showOB c.stripAnsiEscaping},t={t},w={if c.waitSet then "set" else "-"},e={env}"

def showDocConfig (c : DocConfig) : String :=
  let t := match c.totalTimeoutSecs with | none => "-" | some v => toString v
  s!"shell={if c.shellSet then "set" else "-"},total={t},pre={c.prepend.length},app={c.append.length},defaults=[{showTCConfig c.defaults}]"

def showTest (t : Test) : String :=
  let code := match t.exitCode with | none => "-" | some v => toString v
  let cfg := match t.config with | none => showTCConfig {} | some c => showTCConfig c
  s!"T title={hexChars t.title} cmd={hexChars t.shellExpression} exp=[{",".intercalate (t.expectations.map hexChars)}] code={code} line={t.lineNumber} cfg={cfg}"

def parseFailSet (s : String) : Option (List (List Char)) :=
  match s.splitOn "=" with
  | ["fail", ""] => some []
  | ["fail", items] => (items.splitOn ",").mapM (fun h => unhex h >>= utf8Chars)
  | _ => none

def opCram (args : List String) : String :=
  match args with
  | [n, doc, fails] =>
    match n.toNat?, unhex doc >>= utf8Chars, parseFailSet fails with
    | some n, some text, some fs =>
      let expOk : List Char → Bool := fun l => !fs.contains l
      match parseCram expOk n text with
      | .error e => showErr e
      | .ok (dc, ts) => " ".intercalate (s!"ok doc={showDocConfig dc} n={ts.length}" :: ts.map showTest)
    | _, _, _ => "bad-op"
  | _ => "bad-op"

end Driver.CramOps