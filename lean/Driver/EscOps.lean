import ScrutModel.Model.RulesStr
import Driver.Util
/-! `esc`, `unesc`, `utf8`, `rule` ops: escaper, escaped-filter decoder, UTF-8 decoder, string rules.

`esc <a|u> <hex line> <bits>`: `bits` is one `0`/`1` per character of the (valid UTF-8) line —
the value of the real `char::is_other()` computed by the harness — or `-` when the line is not
UTF-8 / empty. The compiled model contains no Unicode table. -/
open Scrut Scrut.Utf8 Scrut.Esc Scrut.EscF Scrut.Rules
namespace Driver.EscOps
def hexText (cs : List Char) : String := hex (utf8 cs)

def parseBits (s : String) : Option (List Bool) :=
  if s == "-" then some [] else s.toList.mapM (fun c => if c = '1' then some true else if c = '0' then some false else none)

def lookupOther (tbl : List (Char × Bool)) (c : Char) : Bool :=
  match tbl.find? (·.1 == c) with
  | some (_, b) => b
  | none => false

def b01 (b : Bool) : String := if b then "1" else "0"

def showOB (o : Option Bool) : String := match o with | some b => b01 b | none => "err"

/-- `esc` → `<has_unprintable> <escaped_printable> <escaped_expectation> <kind> <bytes of the rule read back|err> <matches line+LF> <matches line>` -/
def opEsc (args : List String) : String :=
  match args with
  | [m, h, bits] =>
    match (if m == "a" then some Mode.ascii else if m == "u" then some Mode.unicode else none), unhex h, parseBits bits with
    | some mode, some bs, some bl =>
      let tbl : Option (List (Char × Bool)) :=
        match utf8Decode bs with
        | some cs => if cs.length == bl.length then some (cs.zip bl) else none
        | none => if bl.isEmpty then some [] else none
      match tbl with
      | none => "bad-op"
      | some tbl =>
        let isOther := lookupOther tbl
        let t := trimNewlines bs
        let k := (written mode isOther t).1
        let e := writtenText mode isOther t
        let made : String := match k with
          | .equal => "eq " ++ hexText e
          | .escaped => "es " ++ (match escapedMake e with | some b => hex b | none => "err")
        s!"{b01 (hasUnprintable mode isOther bs)} {hexText (escapedPrintable mode isOther bs)} {hexText (escapedExpectation mode isOther bs)} {made} {showOB (readBack k e (t ++ [10]))} {showOB (readBack k e t)}"
    | _, _, _ => "bad-op"
  | _ => "bad-op"

/-- `unesc <hex utf8 of expression>` → `ok <hex>` | `err` (through `EscapedRule::make`) -/
def opUnesc (args : List String) : String :=
  match args with
  | [h] =>
    match (unhex h).bind utf8Decode with
    | some e => (match escapedMake e with | some b => "ok " ++ hex b | none => "err")
    | none => "bad-op"
  | _ => "bad-op"

/-- `utf8 <hex>` → `ok <code points>` | `invalid` -/
def opUtf8 (args : List String) : String :=
  match args with
  | [h] =>
    match unhex h with
    | some bs => (match utf8Decode bs with
      | some cs => "ok " ++ (if cs.isEmpty then "-" else ",".intercalate (cs.map (fun c => toString c.toNat)))
      | none => "invalid")
    | none => "bad-op"
  | _ => "bad-op"

/-- `rulem <eq|ne|es> <hex utf8 of expression> <hex line>/<hex line>/…` → one `0`/`1` per line | `err` -/
def opRuleM (args : List String) : String :=
  match args with
  | [k, he, hls] =>
    match (unhex he).bind utf8Decode, (hls.splitOn "/").mapM unhex with
    | some e, some lines =>
      if k == "eq" then String.join (lines.map (fun l => b01 (equalMatches e l)))
      else if k == "ne" then String.join (lines.map (fun l => b01 (noEolMatches e l)))
      else if k == "es" then
        match escapedMake e with
        | some b => String.join (lines.map (fun l => b01 (escapedMatches b l)))
        | none => "err"
      else "bad-op"
    | _, _ => "bad-op"
  | _ => "bad-op"

end Driver.EscOps