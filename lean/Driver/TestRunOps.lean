import ScrutModel.Model.TestRun
import Driver.ExecOps
import Driver.Util
/-! `testdoc` op: the integrated model of `scrut test -r json <one Markdown document>`.

`testdoc <doc> <runs> [<case>]`

* `doc`   bytes of the document file, hex
* `runs`  `-` (none) or `,`-separated `<stdout hex>:<stderr hex>:<exit code>`, one per test case of the
          document in order: what the COMPLETED command of the test wrote and how it ended
* `case`  optional, ignored: `<seed>.<index>` of the generated case (the harness replays by it)

Output: `parse-error` | `crash` | `unsupported` | `missing-run` |
`<index>:<verdict>,… exit=<status>` with the verdicts of `showVerdict` (`success`,
`malformed_output`, `invalid_exit_code:<actual>:<expected>`, `skipped`), an empty list as `-`.
-/
open Scrut Scrut.TestRun
namespace Driver.TestRunOps

def parseRun (s : String) : Option Ran :=
  match s.splitOn ":" with
  | [o, e, c] => do
    let o ← unhex o
    let e ← unhex e
    let c ← c.toInt?
    -- an exit code is an `i32`
    if c < -2147483648 ∨ c > 2147483647 then none
    pure ⟨o, e, c⟩
  | _ => none

def parseRuns (s : String) : Option (List Ran) :=
  if s == "-" then some [] else (s.splitOn ",").mapM parseRun

def showResult : Result → String
  | .parseError => "parse-error"
  | .crash => "crash"
  | .unsupported => "unsupported"
  | .missingRun => "missing-run"
  | .report outcomes exit =>
    let os := if outcomes.isEmpty then "-" else ",".intercalate (outcomes.map (fun (i, v) => s!"{i}:{showVerdict v}"))
    s!"{os} exit={exit}"

def testDocOf (doc runs : String) : String :=
  match unhex doc, parseRuns runs with
  | some doc, some runs => showResult (testDocumentBytes doc runs)
  | _, _ => "bad-op"

def opTestDoc (args : List String) : String :=
  match args with
  | [doc, runs] => testDocOf doc runs
  -- a third field names the generated case (`<seed>.<index>`) for the harness' replay; not an input of the model
  | [doc, runs, _case] => testDocOf doc runs
  | _ => "bad-op"

/-- `lossy <hex>`: `String::from_utf8_lossy`, the result UTF-8 encoded in hex -/
def opLossy (args : List String) : String :=
  match args with
  | [h] =>
    match unhex h with
    | some bs =>
      match fromUtf8Lossy bs with
      | some cs => hex (Utf8.utf8 cs)
      | none => "fuel"
    | none => "bad-op"
  | _ => "bad-op"

end Driver.TestRunOps
