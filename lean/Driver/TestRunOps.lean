import ScrutModel.Model.TestRun
import Driver.ExecOps
import Driver.Util
/-! `testdoc` op: the integrated model of `scrut test -r json <one Markdown document>`.

`testdoc <doc> <runs> [<case>]`

* `doc`   bytes of the document file, hex
* `runs`  `-` (none) or `,`-separated `<stdout hex>:<stderr hex>:<exit code>`, one per test case of the
          document in order: what the COMPLETED command of the test wrote and how it ended
* `case`  optional, ignored: `<seed>.<index>` of the generated case (the harness replays by it)

Output: `parse-error` | `crash` | `unsupported` | `missing-run` |
`<index>:<verdict>,… exit=<status>` with the verdicts of `showVerdict` (`success`,
`malformed_output`, `invalid_exit_code:<actual>:<expected>`, `skipped`), an empty list as `-`.

`testcram <doc> <sruns> [<case>]`  the same for a Cram document (`scrut test -r json doc.t`), and
`testdocc <doc> <sruns> [<case>]`  for a Markdown document under `--cram-compat`: both are run by the
single-script executor.  `sruns` is `-` or `,`-separated `<stdout hex>:<stderr hex>:<exit code>[:x]`;
a trailing `:x` says that the command of the test LEAVES the shell (`exit N`, the script ends there).
Additional output: `exec-error` (exit status 1, nothing reported: the executor gave up).
-/
open Scrut Scrut.TestRun
namespace Driver.TestRunOps

def parseRun (s : String) : Option Ran :=
  match s.splitOn ":" with
  | [o, e, c] => do
    let o ← unhex o
    let e ← unhex e
    let c ← c.toInt?
    -- an exit code is an `i32`
    if c < -2147483648 ∨ c > 2147483647 then none
    pure ⟨o, e, c⟩
  | _ => none

def parseRuns (s : String) : Option (List Ran) :=
  if s == "-" then some [] else (s.splitOn ",").mapM parseRun

def showResult : Result → String
  | .parseError => "parse-error"
  | .crash => "crash"
  | .unsupported => "unsupported"
  | .missingRun => "missing-run"
  | .execError => "exec-error"
  | .report outcomes exit =>
    let os := if outcomes.isEmpty then "-" else ",".intercalate (outcomes.map (fun (i, v) => s!"{i}:{showVerdict v}"))
    s!"{os} exit={exit}"

def testDocOf (doc runs : String) : String :=
  match unhex doc, parseRuns runs with
  | some doc, some runs => showResult (testDocumentBytes doc runs)
  | _, _ => "bad-op"

def opTestDoc (args : List String) : String :=
  match args with
  | [doc, runs] => testDocOf doc runs
  -- a third field names the generated case (`<seed>.<index>`) for the harness' replay; not an input of the model
  | [doc, runs, _case] => testDocOf doc runs
  | _ => "bad-op"

def parseSRun (s : String) : Option SRan :=
  match s.splitOn ":" with
  | [o, e, c] => (parseRun s!"{o}:{e}:{c}").map (fun r => ⟨r, false⟩)
  | [o, e, c, "x"] => (parseRun s!"{o}:{e}:{c}").map (fun r => ⟨r, true⟩)
  | _ => none

def parseSRuns (s : String) : Option (List SRan) :=
  if s == "-" then some [] else (s.splitOn ",").mapM parseSRun

def scriptDocOf (f : Bytes → List SRan → Result) (doc runs : String) : String :=
  match unhex doc, parseSRuns runs with
  | some doc, some runs => showResult (f doc runs)
  | _, _ => "bad-op"

def opScriptDoc (f : Bytes → List SRan → Result) (args : List String) : String :=
  match args with
  | [doc, runs] => scriptDocOf f doc runs
  -- a third field names the generated case (`<seed>.<index>`) for the harness' replay; not an input of the model
  | [doc, runs, _case] => scriptDocOf f doc runs
  | _ => "bad-op"

/-- `testcram`: a Cram document -/
def opTestCram (args : List String) : String := opScriptDoc testCramDocumentBytes args

/-- `testdocc`: a Markdown document under `--cram-compat` -/
def opTestDocCompat (args : List String) : String := opScriptDoc testDocumentCompatBytes args

/-- `lossy <hex>`: `String::from_utf8_lossy`, the result UTF-8 encoded in hex -/
def opLossy (args : List String) : String :=
  match args with
  | [h] =>
    match unhex h with
    | some bs =>
      match fromUtf8Lossy bs with
      | some cs => hex (Utf8.utf8 cs)
      | none => "fuel"
    | none => "bad-op"
  | _ => "bad-op"

end Driver.TestRunOps
