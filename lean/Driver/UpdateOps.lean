import ScrutModel.Model.Update
import Driver.Util
/-! `upd` op: the model of `MarkdownUpdateGenerator::generate_update` on one document.

`upd <doc> <gens>`

* `doc`   UTF-8 bytes of the original document, hex (`-` = empty)
* `gens`  `-` = no outcomes; otherwise `,`-separated, one entry per outcome: the hex of the text
          that the real `generate_testcase` returns for it, `e` = the empty text, `!` = it fails

Output: `ok <hex of the updated document>`, `err no-outcome <i>`, `err generate <i>` (0-based
testcase index), `crash`.
-/
open Scrut Scrut.Markdown Scrut.Update
namespace Driver.UpdateOps

def utf8Decode (bs : List UInt8) : Option (List Char) :=
  (String.fromUTF8? (ByteArray.mk bs.toArray)).map (·.toList)

def utf8Hex (l : List Char) : String := hex (String.ofList l).toUTF8.toList

def parseGen (s : String) : Option (Option (List Char)) :=
  if s == "!" then some none
  else if s == "e" then some (some [])
  else if s == "-" || s == "" then none
  else ((unhex s).bind utf8Decode).map some

def parseGens (s : String) : Option (List (Option (List Char))) :=
  if s == "-" then some [] else (s.splitOn ",").mapM parseGen

def opUpd (args : List String) : String :=
  match args with
  | [doc, gens] =>
    match (unhex doc).bind utf8Decode, parseGens gens with
    | some text, some gens =>
      match generateUpdate [['s', 'c', 'r', 'u', 't']] text gens with
      | .ok out => s!"ok {utf8Hex out}"
      | .error .crash => "crash"
      | .error (.noOutcome i) => s!"err no-outcome {i}"
      | .error (.generate i) => s!"err generate {i}"
    | _, _ => "bad-op"
  | _ => "bad-op"

end Driver.UpdateOps
