import ScrutModel.Model.Generate
import Driver.Util
/-! `gen`, `noop` ops: the test generators on the `scrut create` path (C09).

`gen <m|c> <a|u> <code> <hex cmd> <hex out> <others> <o|e>` → hex of the generated document |
`crash`. `others` = `-` or the comma separated hexadecimal code points of the characters of the
valid-UTF-8 lines of `out` for which the real `char::is_other()` holds (the compiled model contains
no Unicode table); `o|e` = the test validates stdout (no inline configuration) or stderr
(` {output_stream: stderr}`); `c` = the test was read from a Cram document and is written as
Markdown (`update --convert markdown`: ` {output_stream: combined, keep_crlf: true}`). -/
open Scrut Scrut.Utf8 Scrut.Esc Scrut.Gen
namespace Driver.GenerateOps

def parseHexNat (s : String) : Option Nat :=
  if s.isEmpty then none else
  s.toList.foldlM (fun acc c => (hexVal c).map (fun v => acc * 16 + v)) 0

def parseOthers (s : String) : Option (List Nat) :=
  if s == "-" then some [] else (s.splitOn ",").mapM parseHexNat

def opGen (args : List String) : String :=
  match args with
  | [f, m, code, hcmd, hout, others, stream] =>
    match (if f == "m" then some Format.markdown else if f == "c" then some Format.cram else none),
          (if m == "a" then some Mode.ascii else if m == "u" then some Mode.unicode else none),
          code.toInt?, (unhex hcmd).bind utf8Decode, unhex hout, parseOthers others,
          (if stream == "o" then some ConfigDiff.empty else if stream == "e" then some ConfigDiff.stderr
           else if stream == "c" then some ConfigDiff.cramDefaults else none) with
    | some fmt, some mode, some c, some cmd, some out, some oth, some cfg =>
      let isOther : Char → Bool := fun ch => oth.contains ch.toNat
      match create fmt mode isOther cfg cmd out c with
      | some doc => hex (utf8 doc)
      | none => "crash"
    | _, _, _, _, _, _, _ => "bad-op"
  | _ => "bad-op"

/-- `noop` → `ok` (cases that only run a direct oracle) -/
def opNoop (args : List String) : String :=
  match args with
  | [] => "ok"
  | _ => "bad-op"

end Driver.GenerateOps
