import ScrutModel.Model.Generate
import Driver.Util
/-! `gen`, `noop` ops: the test generators on the `scrut create` path (C09).

`gen <m|c> <a|u> <code> <hex cmd> <hex out> <others> <o|e>` → hex of the generated document |
`crash`. `others` = `-` or the comma separated hexadecimal code points of the characters of the
valid-UTF-8 lines of `out` for which the real `char::is_other()` holds (the compiled model contains
no Unicode table); `o|e` = the test validates stdout (no inline configuration) or stderr
(` {output_stream: stderr}`); `c` = the test was read from a Cram document and is written as
Markdown (`update --convert markdown`: ` {output_stream: combined, keep_crlf: true}`).

`genupd <a|u> <others> <hex cmd> <origs> <result> <diff> <hex out> <code>` → hex of the text
`generate_testcase` returns for a test WITH expectations (`Gen.generateTestcaseUpd`) | `crash`.
`origs` = `_` (no expectations) or the comma separated original texts of the expectations (hex, `-`
= empty text); `result` = `ok` | `mal` | `inv:<actual>`; `diff` = `_` (no entries; required unless
`mal`) or comma separated entries `m<ei>:<l>.<l>…` (MatchedExpectation `ei` holding these lines),
`u<ei>` (UnmatchedExpectation), `x<l>.<l>…` (UnexpectedLines), lines as indices into
`split_at_newline(out)`; `out` = the stream the test is validated against; `code` = `output.exit_code`. -/
open Scrut Scrut.Utf8 Scrut.Esc Scrut.Gen
namespace Driver.GenerateOps

def parseHexNat (s : String) : Option Nat :=
  if s.isEmpty then none else
  s.toList.foldlM (fun acc c => (hexVal c).map (fun v => acc * 16 + v)) 0

def parseOthers (s : String) : Option (List Nat) :=
  if s == "-" then some [] else (s.splitOn ",").mapM parseHexNat

def opGen (args : List String) : String :=
  match args with
  | [f, m, code, hcmd, hout, others, stream] =>
    match (if f == "m" then some Format.markdown else if f == "c" then some Format.cram else none),
          (if m == "a" then some Mode.ascii else if m == "u" then some Mode.unicode else none),
          code.toInt?, (unhex hcmd).bind utf8Decode, unhex hout, parseOthers others,
          (if stream == "o" then some ConfigDiff.empty else if stream == "e" then some ConfigDiff.stderr
           else if stream == "c" then some ConfigDiff.cramDefaults else none) with
    | some fmt, some mode, some c, some cmd, some out, some oth, some cfg =>
      let isOther : Char → Bool := fun ch => oth.contains ch.toNat
      match create fmt mode isOther cfg cmd out c with
      | some doc => hex (utf8 doc)
      | none => "crash"
    | _, _, _, _, _, _, _ => "bad-op"
  | _ => "bad-op"

/-- `_` = empty list, otherwise comma separated items -/
def parseList {α : Type} (item : String → Option α) (s : String) : Option (List α) :=
  if s == "_" then some [] else (s.splitOn ",").mapM item

/-- `<l>.<l>…` (decimal), the empty string = no lines -/
def parseLineIdx (s : String) : Option (List Nat) :=
  if s.isEmpty then some [] else (s.splitOn ".").mapM String.toNat?

def parseDL (s : String) : Option Diff.DL :=
  match s.toList with
  | 'm' :: rest =>
    match (String.ofList rest).splitOn ":" with
    | [ei, ls] => do
      let ei ← ei.toNat?
      let ls ← parseLineIdx ls
      pure (.matched ei ls)
    | _ => none
  | 'u' :: rest => (String.ofList rest).toNat?.map .unmatched
  | 'x' :: rest => (parseLineIdx (String.ofList rest)).map .unexpected
  | _ => none

def parseUpdResult (kind diff : String) : Option UpdResult :=
  if kind == "ok" then (if diff == "_" then some .ok else none)
  else if kind == "mal" then (parseList parseDL diff).map .malformed
  else match kind.splitOn ":" with
    | ["inv", a] => if diff == "_" then a.toInt?.map .invalidExit else none
    | _ => none

def opGenUpd (args : List String) : String :=
  match args with
  | [m, others, hcmd, origs, kind, diff, hout, code] =>
    match (if m == "a" then some Mode.ascii else if m == "u" then some Mode.unicode else none),
          parseOthers others, (unhex hcmd).bind utf8Decode,
          parseList (fun h => (unhex h).bind utf8Decode) origs,
          parseUpdResult kind diff, unhex hout, code.toInt? with
    | some mode, some oth, some cmd, some origs, some res, some out, some c =>
      let isOther : Char → Bool := fun ch => oth.contains ch.toNat
      match generateTestcaseUpd mode isOther cmd origs res (Newline.splitAtNewline out) c with
      | some t => hex (utf8 t)
      | none => "crash"
    | _, _, _, _, _, _, _ => "bad-op"
  | _ => "bad-op"

/-- `noop` → `ok` (cases that only run a direct oracle) -/
def opNoop (args : List String) : String :=
  match args with
  | [] => "ok"
  | _ => "bad-op"

end Driver.GenerateOps
