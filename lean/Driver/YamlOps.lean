import ScrutModel.Model.ConfigRender
import Driver.Util
/-! `durfmt`, `durparse`, `oneliner`, `parseflow`, `yquote` ops (C17). Text travels as hex of its
UTF-8 bytes. A config is `os;kc;to;de;sk;sa;wait;env` with `-` for unset. -/
open Scrut Scrut.Dur Scrut.Yaml
namespace Driver.YamlOps
def textOfHex (s : String) : Option (List Char) := do
  let bs ← unhex s
  let str ← String.fromUTF8? (ByteArray.mk bs.toArray)
  pure str.toList

def hexOfText (t : List Char) : String := hex (String.ofList t).toUTF8.toList

def yParseDurField (s : String) : Option (Nat × Nat) :=
  match s.splitOn "." with
  | [a, b] => do pure (← a.toNat?, ← b.toNat?)
  | _ => none

def yShowDur (d : Nat × Nat) : String := s!"{d.1}.{d.2}"

def yOptField {α : Type} (p : String → Option α) (s : String) : Option (Option α) :=
  if s == "-" then some none else (p s).map some

def yParseStream (s : String) : Option Stream :=
  if s == "stdout" then some .stdout else if s == "stderr" then some .stderr
  else if s == "combined" then some .combined else none

def yParseWait (s : String) : Option Wait :=
  match s.splitOn "/" with
  | [d, p] => do
    let d ← yParseDurField d
    let p ← if p == "-" then some none else
      match p.splitOn ":" with
      | ["P", h] => (textOfHex h).map some
      | _ => none
    pure ⟨d, p⟩
  | _ => none

def parseEnvY (s : String) : Option (List (List Char × List Char)) :=
  if s == "-" then some [] else
  (s.splitOn ",").mapM fun kv =>
    match kv.splitOn "=" with
    | [k, v] => do pure (← textOfHex k, ← textOfHex v)
    | _ => none

def yParseCfg (s : String) : Option Cfg :=
  match s.splitOn ";" with
  | [os, kc, to, de, sk, sa, w, e] => do
    let os ← yOptField yParseStream os
    let kc ← yOptField bool01 kc
    let to ← yOptField yParseDurField to
    let de ← yOptField bool01 de
    let sk ← yOptField String.toInt? sk
    let sa ← yOptField bool01 sa
    let w ← yOptField yParseWait w
    let e ← parseEnvY e
    pure { outputStream := os, keepCrlf := kc, timeout := to, detached := de, skipCode := sk, stripAnsi := sa, wait := w, env := e }
  | _ => none

def yShowO {α : Type} (f : α → String) : Option α → String
  | none => "-"
  | some a => f a

def yShowB (b : Bool) : String := if b then "1" else "0"

def yShowStream : Stream → String
  | .stdout => "stdout" | .stderr => "stderr" | .combined => "combined"

def yShowWait (w : Wait) : String :=
  yShowDur w.timeout ++ "/" ++ (match w.path with | none => "-" | some p => "P:" ++ hexOfText p)

def ltChars : List Char → List Char → Bool
  | [], [] => false
  | [], _ :: _ => true
  | _ :: _, [] => false
  | a :: x, b :: y => if a.toNat < b.toNat then true else if a.toNat > b.toNat then false else ltChars x y

/-- what a `BTreeMap` holds after inserting the pairs in order: last binding wins, keys ascending
(UTF-8 byte order = code point order) -/
def canonEnv (e : List (List Char × List Char)) : List (List Char × List Char) :=
  let ins (m : List (List Char × List Char)) (kv : List Char × List Char) :=
    (m.filter (·.1 ≠ kv.1)) ++ [kv]
  let m := e.foldl ins []
  m.mergeSort (fun a b => !ltChars b.1 a.1)

def showEnvY (e : List (List Char × List Char)) : String :=
  let m := canonEnv e
  if m.isEmpty then "-" else ",".intercalate (m.map fun kv => hexOfText kv.1 ++ "=" ++ hexOfText kv.2)

def yShowCfg (c : Cfg) : String :=
  ";".intercalate [yShowO yShowStream c.outputStream, yShowO yShowB c.keepCrlf, yShowO yShowDur c.timeout,
    yShowO yShowB c.detached, yShowO toString c.skipCode, yShowO yShowB c.stripAnsi, yShowO yShowWait c.wait,
    showEnvY c.env]

def opDurFmt (args : List String) : String :=
  match args with
  | [a, b] =>
    match a.toNat?, b.toNat? with
    | some s, some n => hexOfText (formatDuration s n)
    | _, _ => "bad-op"
  | _ => "bad-op"

def opDurParse (args : List String) : String :=
  match args with
  | [h] =>
    match textOfHex h with
    | some t =>
      match parseDuration t with
      | .ok o => s!"ok {o.secs}.{o.nanos}"
      | .error .err => "err"
      | .error .crash => "crash"
    | none => "bad-op"
  | _ => "bad-op"

def opOneLiner (args : List String) : String :=
  match args with
  | [c] =>
    match yParseCfg c with
    | some c => hexOfText (toOneLiner c)
    | none => "bad-op"
  | _ => "bad-op"

def opParseFlow (args : List String) : String :=
  match args with
  | [h] =>
    match textOfHex h with
    | some t =>
      match parseFlow t with
      | .ok c => "ok " ++ yShowCfg c
      | .error => "err"
      | .crash => "crash"
      | .outside => "outside"
    | none => "bad-op"
  | _ => "bad-op"

/-- `yquote q <hex>` = yaml_quoted, `yquote p <hex>` = yaml_plain_or_quoted -/
def opYQuote (args : List String) : String :=
  match args with
  | [m, h] =>
    match textOfHex h with
    | some t =>
      if m == "q" then hexOfText (jsonQuote t)
      else if m == "p" then hexOfText (plainOrQuoted t).render
      else "bad-op"
    | none => "bad-op"
  | _ => "bad-op"

end Driver.YamlOps