import ScrutModel.Model.Namer
import Driver.Util
/-! `namer <existing> <requests> [case=<tag>]`: comma-separated hex names (`-` = none); the optional tag names the
end-to-end scenario of the harness that carries this operation and is ignored here. -/
open Scrut Scrut.Namer
namespace Driver

def parseNames (s : String) : Option (List Name) :=
  if s == "-" then some [] else
  (s.splitOn ",").mapM (fun h => (unhex h).map (fun bs => (String.fromUTF8! (ByteArray.mk bs.toArray)).toList))

def opNamer (args : List String) : String :=
  let args := match args with
    | [ex, reqs, tag] => if tag.startsWith "case=" then [ex, reqs] else args
    | _ => args
  match args with
  | [ex, reqs] =>
    match parseNames ex, parseNames reqs with
    | some ex, some reqs =>
      match nextNames (fun n => ex.contains n) (ex.length + reqs.length + 2) [] reqs with
      | some out => ",".intercalate (out.map (fun n => hex (String.ofList n).toUTF8.toList))
      | none => "out-of-fuel"
    | _, _ => "bad-op"
  | _ => "bad-op"

end Driver
