import ScrutModel.Model.Config
import Driver.Util
/-! `tcwd`, `dcwd`, `effective` ops: configuration layering. -/
open Scrut Scrut.Config
namespace Driver

def parseEnv (s : String) : Option Env :=
  if s == "-" then some [] else
  (s.splitOn "/").mapM (fun kv =>
    match kv.splitOn "=" with
    | [k, v] => do
      let k ← k.toNat?
      let v ← v.toNat?
      pure (k, v)
    | _ => none)

def parseTCC (s : String) : Option TCC :=
  match s.splitOn "," with
  | [d, k, o, sk, a, t, w, e] => do
    let d ← optNat d; let k ← optNat k; let o ← optNat o; let sk ← optNat sk
    let a ← optNat a; let t ← optNat t; let w ← optNat w; let e ← parseEnv e
    pure { detached := d, keepCrlf := k, outputStream := o, skipCode := sk, stripAnsi := a, timeout := t, wait := w, env := e }
  | _ => none

def showOpt (o : Option Nat) : String := match o with | none => "-" | some v => toString v

/-- the map a `BTreeMap` would hold: keys ascending, last binding wins -/
def showEnv (e : Env) : String :=
  let keys := (e.map (·.1)).eraseDups.mergeSort (· ≤ ·)
  if keys.isEmpty then "-" else
  "/".intercalate (keys.map (fun k => s!"{k}={showOpt (e.get k)}"))

def showTCC (c : TCC) : String :=
  ",".intercalate [showOpt c.detached, showOpt c.keepCrlf, showOpt c.outputStream, showOpt c.skipCode,
    showOpt c.stripAnsi, showOpt c.timeout, showOpt c.wait, showEnv c.env]

def parseNats (s : String) : Option (List Nat) :=
  if s == "-" then some [] else (s.splitOn "/").mapM (·.toNat?)

def showNatsSlash (l : List Nat) : String :=
  if l.isEmpty then "-" else "/".intercalate (l.map toString)

def parseDC (s : String) : Option DC :=
  match s.splitOn ";" with
  | [a, p, sh, t, tc] => do
    let a ← parseNats a; let p ← parseNats p; let sh ← optNat sh; let t ← optNat t; let tc ← parseTCC tc
    pure { append := a, prepend := p, shell := sh, totalTimeout := t, defaults := tc }
  | _ => none

def showDC (c : DC) : String :=
  ";".intercalate [showNatsSlash c.append, showNatsSlash c.prepend, showOpt c.shell, showOpt c.totalTimeout, showTCC c.defaults]

def opTcWd (args : List String) : String :=
  match args.mapM parseTCC with
  | some [a, b] => showTCC (a.wd b)
  | some [a, b, c] => showTCC ((a.wd b).wd c) ++ " " ++ showTCC (a.wd (b.wd c))
  | _ => "bad-op"

def opDcWd (args : List String) : String :=
  match args.mapM parseDC with
  | some [a, b] => showDC (a.wd b)
  | some [a, b, c] => showDC ((a.wd b).wd c) ++ " " ++ showDC (a.wd (b.wd c))
  | _ => "bad-op"

/-- `effective <cli> <inline> <docDefaults> <fmt> <scrutEnv>` -/
def opEffective (args : List String) : String :=
  match args with
  | [cli, inl, dd, fmt, se] =>
    match parseTCC cli, parseTCC inl, parseTCC dd, parseTCC fmt, parseEnv se with
    | some cli, some inl, some dd, some fmt, some se =>
      showTCC (effectiveTC cli inl { defaults := dd } {} fmt se)
    | _, _, _, _, _ => "bad-op"
  | _ => "bad-op"

/-- `effectiveflags <noCombine><combine><noKeepCrlf><keepCrlf> <inline> <docDefaults> <fmt> <scrutEnv> [case=<tag>]`:
as `effective`, with the command-line layer computed from the four output flags (`0`/`1` each) -/
def opEffectiveFlags (args : List String) : String :=
  let args := match args with
    | [f, inl, dd, fmt, se, tag] => if tag.startsWith "case=" then [f, inl, dd, fmt, se] else args
    | _ => args
  match args with
  | [flags, inl, dd, fmt, se] =>
    let bit (c : Char) : Option Bool := if c = '1' then some true else if c = '0' then some false else none
    match flags.toList.mapM bit, parseTCC inl, parseTCC dd, parseTCC fmt, parseEnv se with
    | some [nc, c, nk, k], some inl, some dd, some fmt, some se =>
      showTCC (effectiveTC (cliLayer nc c nk k) inl { defaults := dd } {} fmt se)
    | _, _, _, _, _ => "bad-op"
  | _ => "bad-op"

end Driver
