import ScrutModel.Model.Template
import ScrutModel.Model.Divider
import ScrutModel.Model.Crlf
import ScrutModel.Model.StripAnsi
import Driver.Util
/-! C13 ops: `replace`, `render`, `crlf`, `rout`, `strip`, `execall`, `compile`, `rmdiv`, `bash`, `unmodelled`. -/
open Scrut Scrut.Template Scrut.Divider Scrut.Crlf
namespace Driver.TplOps
/-- hex of UTF-8 text → characters -/
def untext (s : String) : Option (List Char) := do
  let bs ← unhex s
  let str ← String.fromUTF8? (ByteArray.mk bs.toArray)
  pure str.toList

def text (cs : List Char) : String := hex (String.ofList cs).toUTF8.toList

/-- `a,b,c` (items hex, `-` = empty item), `_` = empty list -/
def unlist {α : Type} (f : String → Option α) (s : String) : Option (List α) :=
  if s == "_" then some [] else (s.splitOn ",").mapM f

/-- `replace <pat> <rep> <s>` : Rust `s.replace(pat, rep)` -/
def opReplace (args : List String) : String :=
  match args.mapM untext with
  | some [p, r, s] => text (replaceAll p r s)
  | _ => "bad-op"

/-- `render <template> <stateDir> <name> <excluded> <envNames> <detached> <expr>` -/
def opRender (args : List String) : String :=
  match args with
  | [t, sd, n, ex, en, d, e] =>
    match untext t, untext sd, untext n, untext ex, untext en, bool01 d, untext e with
    | some t, some sd, some n, some ex, some en, some d, some e =>
      let once := exprOnce (substOthers t sd n ex en d)
      text (render t sd n ex en d e) ++ (if once then " once=1" else " once=0")
    | _, _, _, _, _, _, _ => "bad-op"
  | _ => "bad-op"

def showOptBytes : Option (List UInt8) → String
  | some b => hex b
  | none => "crash"

/-- `crlf <bytes>` → `<replace_crlf> <spec>` -/
def opCrlf (args : List String) : String :=
  match args.mapM unhex with
  | some [b] => showOptBytes (replaceCrlf b) ++ " " ++ hex (replaceCrlfSpec b)
  | _ => "bad-op"

def optBool (s : String) : Option (Option Bool) :=
  if s == "-" then some none else (bool01 s).map some

/-- `rout <keep_crlf> <strip_ansi> <bytes>`: `TestCase::render_output` with scrut's own stripper
(`strip_ansi_sequences_bytes`, `Model/StripAnsi.lean`) -/
def opRout (args : List String) : String :=
  match args with
  | [k, s, b] =>
    match optBool k, optBool s, unhex b with
    | some k, some s, some b =>
      match renderOutput k s (fun x => some (Scrut.StripAnsi.strip x)) b with
      | some x => hex x
      | none => "crash"
    | _, _, _ => "bad-op"
  | _ => "bad-op"

/-- `strip <bytes>`: `strip_ansi_sequences_bytes` -/
def opStrip (args : List String) : String :=
  match args with
  | [b] =>
    match unhex b with
    | some b => hex (Scrut.StripAnsi.strip b)
    | none => "bad-op"
  | _ => "bad-op"

def showOut (o : Out) : String := s!"{hex o.stdout}:{hex o.stderr}:{o.code}"

def showExec : ExecResult → String
  | .ok outs => "ok " ++ (if outs.isEmpty then "_" else ",".intercalate (outs.map showOut))
  | .failed i => s!"failed {i}"
  | .skipped i => s!"skipped {i}"
  | .aborted => "aborted"
  | .crash => "crash"

/-- `execall <n> <combined> <skipCode> <scriptExit> <salt> <stdout> <stderr>` -/
def opExecAll (args : List String) : String :=
  match args with
  | [n, c, sk, se, sa, o, e] =>
    match n.toNat?, bool01 c, sk.toInt?, se.toInt?, unhex sa, unhex o, unhex e with
    | some n, some c, some sk, some se, some sa, some o, some e => showExec (executeAll sa n c sk se o e)
    | _, _, _, _, _, _, _ => "bad-op"
  | _ => "bad-op"

/-- `compile <combined> <salt> <exports> <exprs>` -/
def opCompile (args : List String) : String :=
  match args with
  | [c, s, ex, es] =>
    match bool01 c, untext s, unlist untext ex, unlist untext es with
    | some c, some s, some ex, some es => text (compileScript s c ex es)
    | _, _, _, _ => "bad-op"
  | _ => "bad-op"

/-- `rmdiv <bytes>` -/
def opRmDiv (args : List String) : String :=
  match args.mapM unhex with
  | some [b] => hex (removeDividers b)
  | _ => "bad-op"

def parsePayload (s : String) : Option (List UInt8 × List UInt8 × Nat) :=
  match s.splitOn ":" with
  | [o, e, c] => do
    let o ← unhex o; let e ← unhex e; let c ← c.toNat?
    pure (o, e, c)
  | _ => none

def orCrash (x : Option (List UInt8)) (k : List UInt8 → ExecResult) : ExecResult :=
  match x with | some b => k b | none => .crash

/-- per-process mode: every test is its own shell; `render_output` on each stream; the skip code
ends the document -/
def perProcess (combined : Bool) (keep strip : Option Bool) (skip : Int) :
    List (List UInt8 × List UInt8 × Nat) → Nat → List Out → ExecResult
  | [], _, acc => .ok acc.reverse
  | (o, e, c) :: r, i, acc =>
    let (so, se) := if combined then (o ++ e, []) else (o, e)
    orCrash (renderOutput keep strip some so) fun so =>
    orCrash (renderOutput keep strip some se) fun se =>
    if (c : Int) = skip then .skipped i else perProcess combined keep strip skip r (i + 1) (⟨so, se, c⟩ :: acc)

/-- `bash <s|p> <combined> <keep_crlf> <skip> <out:err:code,…>`: prediction of what the executor
returns when test `i` writes `out` then `err` and ends with `code` (the shell itself is not
modelled: in script mode the streams are `joinStream` of the payloads) -/
def opBash (args : List String) : String :=
  match args with
  | [mode, c, k, sk, ts] =>
    match bool01 c, optBool k, sk.toInt?, unlist parsePayload ts with
    | some c, some k, some sk, some ts =>
      if mode == "p" then showExec (perProcess c k none sk ts 0 [])
      else if mode == "s" then
        -- the real salt is random; any salt that is not in the payloads predicts the same
        let salt : List UInt8 := "MODELsaltMODELsalt00".toUTF8.toList
        let so := joinStream salt 0 (ts.map fun (o, e, code) => ((if c then o ++ e else o), code))
        let se := if c then [] else joinStream salt 0 (ts.map fun (_, e, code) => (e, code))
        showExec (orCrash (renderOutput k none some so) fun so =>
          orCrash (renderOutput k none some se) fun se =>
          executeAll salt ts.length c sk 0 so se)
      else "bad-op"
    | _, _, _, _ => "bad-op"
  | _ => "bad-op"

/-- cases that only the direct oracle can judge (megabyte payloads) -/
def opUnmodelled (_ : List String) : String := "unmodelled"

end Driver.TplOps