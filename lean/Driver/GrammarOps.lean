import ScrutModel.Model.Grammar
import Driver.Util
/-! `gram`, `gwhite` ops: expectation grammar, rule construction table, canonical rendering. -/
open Scrut Scrut.Grammar
namespace Driver.GrammarOps
/-- strict UTF-8 decoder for the line protocol (`none` on malformed input) -/
def utf8Decode : List UInt8 → Option (List Char)
  | [] => some []
  | b0 :: rest =>
    let n0 := b0.toNat
    let cont (b : UInt8) : Option Nat := if b.toNat / 64 == 2 then some (b.toNat % 64) else none
    if n0 < 0x80 then (utf8Decode rest).map (Char.ofNat n0 :: ·)
    else if n0 / 32 == 6 then
      match rest with
      | b1 :: r => do let c1 ← cont b1; let t ← utf8Decode r; pure (Char.ofNat ((n0 % 32) * 64 + c1) :: t)
      | _ => none
    else if n0 / 16 == 14 then
      match rest with
      | b1 :: b2 :: r => do
        let c1 ← cont b1; let c2 ← cont b2; let t ← utf8Decode r
        pure (Char.ofNat ((n0 % 16) * 4096 + c1 * 64 + c2) :: t)
      | _ => none
    else if n0 / 8 == 30 then
      match rest with
      | b1 :: b2 :: b3 :: r => do
        let c1 ← cont b1; let c2 ← cont b2; let c3 ← cont b3; let t ← utf8Decode r
        pure (Char.ofNat ((n0 % 8) * 262144 + c1 * 4096 + c2 * 64 + c3) :: t)
      | _ => none
    else none

def unhexText (s : String) : Option (List Char) := do
  let b ← unhex s
  let t ← utf8Decode b
  if utf8 t == b then some t else none

def parseKind (s : String) : Option Kind :=
  match s with
  | "equal" => some .equal | "no-eol" => some .noEol | "escaped" => some .escaped
  | "glob" => some .glob | "regex" => some .regex | _ => none

def showKind (k : Kind) : String := String.ofList k.name

/-- one entry `kind:exprhex=resulthex` or `kind:exprhex=!` (make failed); for `escaped` the text is
    the one after the ` (no-eol)` strip and the result that of `apply_escaped_filter_bytes` -/
def parseMkEntry (s : String) : Option ((Kind × List Char) × Option (List UInt8)) :=
  match s.splitOn "=" with
  | [lhs, rhs] =>
    match lhs.splitOn ":" with
    | [k, e] => do
      let k ← parseKind k
      let e ← unhexText e
      let r ← if rhs == "!" then some none else (unhex rhs).map some
      pure ((k, e), r)
    | _ => none
  | _ => none

abbrev MkTable := List ((Kind × List Char) × Option (List UInt8))

def parseMkTable (s : String) : Option MkTable :=
  if s == "-" then some [] else (s.splitOn ",").mapM parseMkEntry

/-- one entry `bytehex>hasUnprintable01:texthex` of the escaper table
    (`has_unprintable`, `escaped_printable`) -/
def parseEscEntry (s : String) : Option (List UInt8 × Bool × List Char) :=
  match s.splitOn ">" with
  | [b, rhs] =>
    match rhs.splitOn ":" with
    | [u, t] => do
      let b ← unhex b
      let u ← bool01 u
      let t ← unhexText t
      pure (b, u, t)
    | _ => none
  | _ => none

abbrev EscTable := List (List UInt8 × Bool × List Char)

def parseEscTable (s : String) : Option EscTable :=
  if s == "-" then some [] else (s.splitOn ",").mapM parseEscEntry

def needsMk (k : Kind) : Bool := k != .equal && k != .noEol

/-- is the rule construction the model is about to ask for in the table? -/
def mkMissing (tbl : MkTable) (l : List Char) : Bool :=
  match extract unicodeWhite l with
  | .ok (e, k, _) =>
    match lookupKind k with
    | some kind => needsMk kind && (tbl.lookup (kind, if kind == .escaped then stripNoEol e else e)).isNone
    | none => false
  | .error _ => false

def paramsOf (mk : MkTable) (esc : EscTable) : Params :=
  { isWhite := unicodeWhite,
    make := fun k e => (mk.lookup (k, e)).join,
    escPrintable := fun b => match esc.lookup b with | some (_, t) => t | none => [],
    hasUnprintable := fun b => match esc.lookup b with | some (u, _) => u | none => false,
    isSpaceStd := unicodeWhite }

def showErr : Err → String
  | .crash => "crash" | .noMaker => "err no-maker" | .makeError => "err make"

def b01 (b : Bool) : String := if b then "1" else "0"

def showParse (r : Except Err Expectation) : String :=
  match r with
  | .error e => showErr e
  | .ok x => s!"ok {showKind x.kind} {hex x.expr} {b01 x.optional} {b01 x.multiline}"

/-- `gram <linehex> <mktable> <esctable> <rt01>`:
    parse; with rt=1 and a successful parse also `| <rendered hex> | <parse of the rendering>` -/
def opGram (args : List String) : String :=
  match args with
  | [l, mk, esc, rt] =>
    match unhexText l, parseMkTable mk, parseEscTable esc, bool01 rt with
    | some l, some mk, some esc, some rt =>
      if mkMissing mk l then "make-missing" else
      let P := paramsOf mk esc
      let r := parse P l
      match r, rt with
      | .ok x, true =>
        if (esc.lookup x.expr).isNone then "esc-missing" else
        let s := toExpressionString P x
        if mkMissing mk s then showParse r ++ " | " ++ hex (utf8 s) ++ " | make-missing" else
        showParse r ++ " | " ++ hex (utf8 s) ++ " | " ++ showParse (parse P s)
      | _, _ => showParse r
    | _, _, _, _ => "bad-op"
  | _ => "bad-op"

/-- `gwhite <codepoint>` : is the character in the model's `\s` class -/
def opGWhite (args : List String) : String :=
  match args with
  | [n] =>
    match n.toNat? with
    | some n => if n < 0xD800 || (0xE000 ≤ n && n < 0x110000) then b01 (unicodeWhite (Char.ofNat n)) else "bad-op"
    | none => "bad-op"
  | _ => "bad-op"

end Driver.GrammarOps