import ScrutModel.Model.Diff
import ScrutModel.Model.Newline
import Driver.Util
/-! `diff` op: the matcher on a quantifier vector and a match matrix. -/
open Scrut
namespace Driver

def parseQuant (c : Char) : Option Diff.Exp :=
  match c with
  | '.' => some ⟨false, false⟩
  | '?' => some ⟨true, false⟩
  | '*' => some ⟨true, true⟩
  | '+' => some ⟨false, true⟩
  | _ => none

def showDL : Diff.DL → String
  | .matched i ls => s!"M{i}:{showNats ls}"
  | .unmatched i => s!"U{i}"
  | .unexpected ls => s!"X:{showNats ls}"

/-- `diff <quants> <m> <bits>`: `quants` has one char per expectation, `bits` is the row-major
    `n*m` match matrix. -/
def opDiff (args : List String) : String :=
  match args with
  | [qs, ms, bits] =>
    let qs := if qs == "-" then "" else qs
    let bits := if bits == "-" then "" else bits
    match qs.toList.mapM parseQuant, ms.toNat? with
    | some exps, some m =>
      let n := exps.length
      let ea := exps.toArray
      let ba := bits.toList.toArray
      if ba.size ≠ n * m then "bad-op" else
      let es : Nat → Diff.Exp := fun i => ea.getD i ⟨false, false⟩
      let mt : Nat → Nat → Bool := fun i j => ba.getD (i * m + j) '0' == '1'
      let d := Diff.diff n m es mt
      (if Diff.hasDiff d then "D " else "S ") ++ ";".intercalate (d.map showDL)
    | _, _ => "bad-op"
  | _ => "bad-op"

/-- `split <hex>`: lengths of the lines `split_at_newline` cuts the output into -/
def opSplit (args : List String) : String :=
  match args with
  | [h] =>
    match unhex h with
    | some bs =>
      let ls := Newline.splitAtNewline bs
      if ls.isEmpty then "-" else showNats (ls.map List.length)
    | none => "bad-op"
  | _ => "bad-op"

end Driver
