import ScrutModel.Props.C01
import ScrutModel.Props.C02
import ScrutModel.Props.C03
import ScrutModel.Props.C05
import ScrutModel.Props.C14
import ScrutModel.Props.C15
import ScrutModel.Props.C16
import ScrutModel.Props.C20
