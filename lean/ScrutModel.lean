import ScrutModel.Props.C01
import ScrutModel.Props.C02
import ScrutModel.Props.C03
