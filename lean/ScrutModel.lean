import ScrutModel.Props.C01
import ScrutModel.Props.C02
import ScrutModel.Props.C03
import ScrutModel.Props.C05
import ScrutModel.Props.C14
import ScrutModel.Props.C15
import ScrutModel.Props.C16
import ScrutModel.Props.C20
import ScrutModel.Props.C18
import ScrutModel.Props.C12
import ScrutModel.Props.C06
import ScrutModel.Props.C17
import ScrutModel.Props.C13
import ScrutModel.Props.C19
import ScrutModel.Props.C07
import ScrutModel.Props.C11
import ScrutModel.Props.C04
import ScrutModel.Props.C08
import ScrutModel.Props.C10
import ScrutModel.Props.C09
-- bridging lemmas about the integrated model of `scrut test` (Model/TestRun.lean); the property theorems about
-- the integrated model (Lemmas/TestRunProps.lean) are stated in Props/C01, C05, C15, C20
import ScrutModel.Lemmas.TestRun
import ScrutModel.Lemmas.TestRunProps
-- the single-script path without guards (keep_crlf, commands that leave the shell, skip decision)
import ScrutModel.Lemmas.TestRunScript
-- the integrated executable model of `scrut update --replace` (Model/UpdateRun.lean); tied to the binary by the harness (op `upddoc`);
-- its theorems (Lemmas/UpdateRunProps, UpdateRunAlign, UpdateRunRejudge, UpdateRunReparse, UpdateRunWitness) are stated in Props/C10 and Props/C09
import ScrutModel.Model.UpdateRun
import ScrutModel.Lemmas.UpdateRunWitness
