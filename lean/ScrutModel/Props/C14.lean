import ScrutModel.Lemmas.Exec
/-!
# C14 — Timeouts bound execution time and surface as failures

`effective` is the limit handed to the runner; `execLoop` the executor loop; `honest cmds` a runner
for commands that run `(cmds i).1` ms and then end with `(cmds i).2`, and that reports a timeout
iff the limit it was handed is reached first. Wall-clock enforcement itself (the runner really
stops waiting at the limit) is runtime behaviour, exercised with real processes by the harness.

`TC.wait` is `config.wait` of a test case: the time that passes before its command is started.
Since fix 5800e20 the wait passes BEFORE the remaining document time is looked at, so it counts
against the document limit: the limit handed to the runner for a test case is
`min(per-test limit, document limit − (time elapsed before + its own wait))`
(`C14_wait_counts`, `C14_limits_honest`). `busy cmds tcs idx` adds up the waits and the command
durations of `tcs`.

The wait is sat out no longer than what is left of the document limit (`cappedWait`, `startOf`):
the runner of a test case reached at time `now` is called at `min (now + wait) (max now L)` under a
document limit `L` (`C14_wait_capped`). `clockTrace` lists the start and end time of every runner
call of the loop (`C14_clock_is_loop` ties it to `execLoop`); with a runner that is back by the time
its limit is up the clock of a document never passes `L` (`C14_clock_within_document_limit`). What
is left of `L` after the capped wait is what is left after the whole wait, so results, outputs and
limits are those of the loop with uncapped waits (`C14_cap_changes_only_time`).
-/
namespace Scrut.Props.C14
open Scrut.Exec

/-- **C14**: the limit in force is the smaller of the per-test limit and what is left of the
document limit — whichever is reached first, whatever other limit is configured — and it is
attributed to the document exactly when the document limit is the strictly smaller one. -/
theorem C14_effective_is_min (p r : Option Nat) :
    (effective p r).2 = Scrut.Exec.minOpt p r ∧
    ((effective p r).1 = true ↔ ∃ rv, r = some rv ∧ ∀ pv, p = some pv → rv < pv) :=
  Scrut.Exec.effective_is_min p r

/-- the document limit: absent → 900 s, 0 → unlimited -/
theorem C14_total_limit (t : Option Nat) :
    totalLimit t = (match t with | none => some 900000 | some 0 => none | some (k+1) => some (k+1)) :=
  Scrut.Exec.totalLimit_spec t

/-- **C14** (abort and skip): when execution stops with a timeout at test case `i`, that test case
is reported as failed (timeout), every later one as skipped, none of them as passed. -/
theorem C14_abort_and_skip (total : Option Nat) (runner : Runner) (tcs : List TC)
    (g : Bool) (i : Nat) (outs : List Out)
    (h : (execAll total runner tcs).1 = .timeout g i outs) :
    i < tcs.length ∧
    (∀ v, (i, v) ∈ runDocument tcs (.timeout g i outs) → v = .timeout) ∧
    (i, Verdict.timeout) ∈ runDocument tcs (.timeout g i outs) ∧
    (∀ j, i < j → j < tcs.length → (j, Verdict.skipped) ∈ runDocument tcs (.timeout g i outs)) ∧
    (∀ j v, i < j → (j, v) ∈ runDocument tcs (.timeout g i outs) → v = .skipped) :=
  Scrut.Exec.abort_and_skip total runner tcs g i outs h

/-- **C14** (no spurious timeout): with an honest runner a timeout at test case `i` is reported
only if the command really ran at least as long as the limit it was handed. -/
theorem C14_no_spurious (total : Option Nat) (cmds : Nat → Nat × Out) (tcs : List TC)
    (hfin : ∀ i, (cmds i).2.status ≠ .timeout)
    (g : Bool) (i : Nat) (outs : List Out)
    (h : (execAll total (honest cmds) tcs).1 = .timeout g i outs) :
    ∃ l, (execAll total (honest cmds) tcs).2[i]? = some (some l) ∧ l ≤ (cmds i).1 :=
  Scrut.Exec.no_spurious_timeout total cmds tcs hfin g i outs h

/-- **C14** (enforced): with an honest runner, a command that runs at least as long as the limit
it is handed is reported as timed out. -/
theorem C14_enforced (cmds : Nat → Nat × Out) (i l : Nat) (h : l ≤ (cmds i).1) :
    ((honest cmds i (some l)).1).status = .timeout :=
  Scrut.Exec.honest_enforced cmds i l h

/-- the first limit handed to the runner: `effective perTest (total − its own wait)` (nothing has
elapsed before the first test case; without a wait this is `effective perTest total`) -/
theorem C14_first_limit (total : Option Nat) (runner : Runner) (tc : TC) (rest : List TC) :
    (execAll total runner (tc :: rest)).2[0]? =
      some (effective tc.timeout ((totalLimit total).map (· - tc.wait))).2 :=
  Scrut.Exec.first_limit total runner tc rest

/-- **C14** (the wait counts, fix 5800e20; it is capped by the document limit), one step of the
loop for ANY runner: the limit handed to the runner for the head test case `tc` reached at time
`now` is `effective tc.timeout (limit − (now + tc.wait))`; when the command completes (exit code
other than the skip code, or detached) the loop goes on with the clock at
`startOf limit tc now + elapsed` (CHANGED with the cap: was `now + tc.wait + elapsed`; `startOf` is
spelled out by `C14_wait_capped`); when the runner reports a timeout the loop ends with it,
attributed to the document iff `effective` says so. -/
theorem C14_wait_counts (limit : Option Nat) (runner : Runner) (tc : TC) (rest : List TC)
    (idx now : Nat) (acc : List Out) (limits : List (Option Nat)) :
    let eff := effective tc.timeout (limit.map (· - (now + tc.wait)))
    let r := runner idx eff.2
    (execLoop limit runner (tc :: rest) idx now acc limits).2[limits.length]? = some eff.2 ∧
    (∀ c, r.1.status = .code c → c ≠ skipCodeOf tc →
      execLoop limit runner (tc :: rest) idx now acc limits =
        execLoop limit runner rest (idx + 1) (startOf limit tc now + r.2) (acc ++ [r.1])
          (limits ++ [eff.2])) ∧
    (r.1.status = .detached →
      execLoop limit runner (tc :: rest) idx now acc limits =
        execLoop limit runner rest (idx + 1) (startOf limit tc now + r.2) (acc ++ [detachedOut])
          (limits ++ [eff.2])) ∧
    (r.1.status = .timeout →
      execLoop limit runner (tc :: rest) idx now acc limits =
        (.timeout eff.1 idx (acc ++ [r.1]), limits ++ [eff.2])) :=
  Scrut.Exec.wait_counts limit runner tc rest idx now acc limits

/-- **C14** (the wait is capped): the runner of a test case that the loop reaches at time `now` is
called at `now + wait`, but under a document limit `l` not after `max now l`: a wait never moves
the clock past the document limit (a clock that is already past it — a runner that came back late
— does not move at all). In particular the start is `≤ l` whenever `now ≤ l`, it is `now + wait`
whenever that is `≤ l`, and the limit then handed to the runner is the smaller of the per-test limit
and `l − start` (which is the `l − (now + wait)` of `C14_wait_counts`, saturating). -/
theorem C14_wait_capped (limit : Option Nat) (tc : TC) (now : Nat) :
    startOf limit tc now =
      (match limit with
       | some l => min (now + tc.wait) (max now l)
       | none => now + tc.wait) ∧
    (∀ l, limit = some l → startOf limit tc now ≤ max now l) ∧
    (∀ l, limit = some l → now + tc.wait ≤ l → startOf limit tc now = now + tc.wait) ∧
    effective tc.timeout (limit.map (· - startOf limit tc now)) =
      effective tc.timeout (limit.map (· - (now + tc.wait))) := by
  refine ⟨Scrut.Exec.startOf_spec limit tc now, ?_, ?_, by rw [Scrut.Exec.sub_startOf]⟩
  · rintro l rfl
    rw [Scrut.Exec.startOf_spec]
    exact Nat.min_le_right _ _
  · rintro l rfl h
    rw [Scrut.Exec.startOf_spec]
    show min (now + tc.wait) (max now l) = now + tc.wait
    omega

/-- `clockTrace` — `(start, end)` of every runner call — is the clock of `execLoop`: one entry per
runner call, and the limit handed over at the `d`-th call is
`min(per-test limit, document limit − d-th start)`. -/
theorem C14_clock_is_loop (limit : Option Nat) (runner : Runner) (tcs : List TC)
    (idx now : Nat) (acc : List Out) (limits : List (Option Nat)) :
    (execLoop limit runner tcs idx now acc limits).2 =
      limits ++ (tcs.zip (clockTrace limit runner tcs idx now)).map
        (fun p => (effective p.1.timeout (limit.map (· - p.2.1))).2) :=
  Scrut.Exec.clockTrace_limits limit runner tcs idx now acc limits

/-- shape of the trace, ANY runner: the first call is started at `startOf limit tc now`, ends
`elapsed` later, and the trace goes on from that end (or stops there). -/
theorem C14_clock_step (limit : Option Nat) (runner : Runner) (tc : TC) (rest : List TC)
    (idx now : Nat) :
    ∃ e tl, clockTrace limit runner (tc :: rest) idx now = (startOf limit tc now, e) :: tl ∧
      e = startOf limit tc now +
        (runner idx (effective tc.timeout (limit.map (· - startOf limit tc now))).2).2 ∧
      (tl = [] ∨ tl = clockTrace limit runner rest (idx + 1) e) :=
  Scrut.Exec.clockTrace_head limit runner tc rest idx now

/-- **C14** (a document stops once its limit has elapsed, waits included): under a document limit
`L` and a runner that is back by the time its limit is up (`Punctual`; `honest cmds` is), no
runner call of the document starts or ends after `L` on the document's clock — whatever the waits,
the per-test limits and the outcomes are. Before the cap a `wait` longer than what was left of `L`
was sat out in full and the call started (and ended) after `L`. -/
theorem C14_clock_within_document_limit (total : Option Nat) (runner : Runner)
    (hp : Punctual runner) (tcs : List TC) (L : Nat) (hL : totalLimit total = some L) :
    ∀ se ∈ clockTrace (totalLimit total) runner tcs 0 0, se.1 ≤ se.2 ∧ se.2 ≤ L := by
  intro se hse
  rw [hL] at hse
  exact (Scrut.Exec.clockTrace_within L runner hp tcs 0 0 (Nat.zero_le _) se hse).2

theorem C14_honest_punctual (cmds : Nat → Nat × Out) : Punctual (honest cmds) :=
  Scrut.Exec.honest_punctual cmds

/-- **C14** (the cap changes the time that passes and nothing else): result, outputs, attribution
of a timeout and every limit handed to the runner are those of the loop that sits every wait out
in full (`execLoopUncapped`), for every runner. -/
theorem C14_cap_changes_only_time (limit : Option Nat) (runner : Runner) (tcs : List TC)
    (idx now : Nat) (acc : List Out) (limits : List (Option Nat)) :
    execLoop limit runner tcs idx now acc limits =
      execLoopUncapped limit runner tcs idx now acc limits :=
  Scrut.Exec.execLoop_eq_uncapped limit runner tcs idx now acc limits

/-- **C14** (every limit, honest runner): the limit handed to the runner for test case `d` is
`min(per-test limit, document limit − (waits and durations of the test cases before + its own
wait))`. -/
theorem C14_limits_honest (total : Option Nat) (cmds : Nat → Nat × Out) (tcs : List TC)
    (d : Nat) (lim : Option Nat) (h : (execAll total (honest cmds) tcs).2[d]? = some lim) :
    ∃ tc, tcs[d]? = some tc ∧
      lim = (effective tc.timeout
        ((totalLimit total).map (· - (busy cmds (tcs.take d) 0 + tc.wait)))).2 :=
  Scrut.Exec.honest_limits total cmds tcs d lim h

/-- **C14** (the document limit bounds the document's clock, waits included): with an honest
runner and a document limit `L`, every command that was started and run to its end — every started
command `d`, except a last one that was stopped by a timeout — ended strictly before `L` on the
document's clock: waits plus durations of the test cases `0..d` are `< L`. -/
theorem C14_within_document_limit (total : Option Nat) (cmds : Nat → Nat × Out) (tcs : List TC)
    (L : Nat) (hL : totalLimit total = some L) (d : Nat)
    (hd : d < (execAll total (honest cmds) tcs).2.length)
    (hc : d + 1 < (execAll total (honest cmds) tcs).2.length ∨
      ∀ g i outs, (execAll total (honest cmds) tcs).1 ≠ .timeout g i outs) :
    busy cmds (tcs.take (d + 1)) 0 < L :=
  Scrut.Exec.honest_within_limit total cmds tcs L hL d hd hc

/-- corollary: a document that ends regularly (no timeout, no skip, no aborted execution) took
less than its limit, all waits and all durations added up -/
theorem C14_ok_within_document_limit (total : Option Nat) (cmds : Nat → Nat × Out) (tcs : List TC)
    (L : Nat) (hL : totalLimit total = some L) (outs : List Out)
    (h : (execAll total (honest cmds) tcs).1 = .ok outs)
    (hu : ∀ o ∈ outs, o.status ≠ .unknown) (hne : tcs ≠ []) :
    busy cmds tcs 0 < L :=
  Scrut.Exec.honest_ok_total total cmds tcs L hL outs h hu hne

/-- **C14** (the command that is stopped): with an honest runner whose commands do not end as
timeouts by themselves, a timeout at test case `i` means: the command ran at least as long as the
limit `l` it was handed; `l` and the attribution `g` are
`effective perTest (document limit − (waits and durations before + its own wait))`; so under a
document limit `L` the command was given at most what was left of `L` after its wait (nothing, if
the wait alone used `L` up). -/
theorem C14_stopped_within_limit (total : Option Nat) (cmds : Nat → Nat × Out) (tcs : List TC)
    (hfin : ∀ i, (cmds i).2.status ≠ .timeout)
    (g : Bool) (i : Nat) (outs : List Out)
    (h : (execAll total (honest cmds) tcs).1 = .timeout g i outs) :
    ∃ tc l, tcs[i]? = some tc ∧ (execAll total (honest cmds) tcs).2[i]? = some (some l) ∧
      l ≤ (cmds i).1 ∧
      (g, some l) = effective tc.timeout
        ((totalLimit total).map (· - (busy cmds (tcs.take i) 0 + tc.wait))) ∧
      ∀ L, totalLimit total = some L → l ≤ L - (busy cmds (tcs.take i) 0 + tc.wait) :=
  Scrut.Exec.honest_timeout_limit total cmds tcs hfin g i outs h

/-- **C14** (witness of the repaired defect): document limit 2 s; a 10 ms command, a command that
waits 1.5 s and then runs 1.5 s, a 10 ms command (`overrunTcs`, `overrunCmds`). The second command
is handed `2000 − (10 + 1500) = 490` ms, is stopped, the timeout is attributed to the document, the
third command is not run and is reported as skipped. -/
theorem C14_wait_overrun_witness :
    execAll (some 2000) (honest overrunCmds) overrunTcs =
      (.timeout true 1 [⟨.code 0, true, true⟩, ⟨.timeout, false, false⟩], [some 2000, some 490]) ∧
    runDocument overrunTcs (execAll (some 2000) (honest overrunCmds) overrunTcs).1 =
      [(0, .ok), (1, .timeout), (2, .skipped)] :=
  Scrut.Exec.wait_overrun_witness

/-- the same document on the loop as it was BEFORE the fix (`execLoopOld`: remaining time first,
wait afterwards): the second command was handed `2000 − 10 = 1990` ms ≥ 1500 ms and passed; the
document's clock stood at 3010 ms (limit 2000 ms) when the third command was stopped at once. -/
theorem C14_wait_overrun_before_fix :
    execLoopOld (totalLimit (some 2000)) (honest overrunCmds) overrunTcs 0 0 [] [] =
      (.timeout true 2 [⟨.code 0, true, true⟩, ⟨.code 0, true, true⟩, ⟨.timeout, false, false⟩],
        [some 2000, some 1990, some 0]) :=
  Scrut.Exec.wait_overrun_old

/-- the fix changes nothing for documents in which no test case waits -/
theorem C14_fix_only_affects_waits (limit : Option Nat) (runner : Runner) (tcs : List TC)
    (h : ∀ tc ∈ tcs, tc.wait = 0) (idx now : Nat) (acc : List Out) (limits : List (Option Nat)) :
    execLoopOld limit runner tcs idx now acc limits = execLoop limit runner tcs idx now acc limits :=
  Scrut.Exec.execLoopOld_eq_of_no_wait limit runner tcs h idx now acc limits

/-! The two limits of the bug report side by side: after 10 ms, with a wait of 1.5 s. -/
example : effective none (some (2000 - 10)) = (true, some 1990) := by decide
example : effective none (some (2000 - (10 + 1500))) = (true, some 490) := by decide

/-! Non-vacuity of `C14_within_document_limit` / `C14_ok_within_document_limit`: a wait of 1 s and
a command of 0.5 s fit into 2 s; `busy` adds them up. -/
example :
    (execAll (some 2000) (honest (fun _ => (500, ⟨.code 0, true, true⟩)))
      [⟨none, .stdout, none, none, true, 1000⟩]) = (.ok [⟨.code 0, true, true⟩], [some 1000]) ∧
    busy (fun _ => (500, (⟨.code 0, true, true⟩ : Out))) [⟨none, .stdout, none, none, true, 1000⟩] 0
      = 1500 := by
  decide

/-! A wait that alone uses the document limit up: the command is handed 0 ms and stopped at once. -/
example :
    (execAll (some 1000) (honest (fun _ => (5, ⟨.code 0, true, true⟩)))
      [⟨none, .stdout, none, none, true, 3000⟩]) =
      (.timeout true 0 [⟨.timeout, false, false⟩], [some 0]) := by
  decide

/-! Non-vacuity of `C14_wait_capped` / `C14_clock_within_document_limit`: document limit 1 s, a
5 ms command behind a wait of 3 s, then a 5 ms command. The wait alone exceeds the limit: it is
sat out for 1 s, the runner is called at 1000 ms (not at 3000 ms) with 0 ms left, is stopped at
once, the timeout is attributed to the document, the second test case is skipped. -/
example :
    startOf (some 1000) ⟨none, .stdout, none, none, true, 3000⟩ 0 = 1000 ∧
    clockTrace (totalLimit (some 1000)) (honest (fun _ => (5, ⟨.code 0, true, true⟩)))
      [⟨none, .stdout, none, none, true, 3000⟩, ⟨none, .stdout, none, none, true, 0⟩] 0 0
      = [(1000, 1000)] ∧
    execAll (some 1000) (honest (fun _ => (5, ⟨.code 0, true, true⟩)))
      [⟨none, .stdout, none, none, true, 3000⟩, ⟨none, .stdout, none, none, true, 0⟩]
      = (.timeout true 0 [⟨.timeout, false, false⟩], [some 0]) ∧
    runDocument [⟨none, .stdout, none, none, true, 3000⟩, ⟨none, .stdout, none, none, true, 0⟩]
      (.timeout true 0 [⟨.timeout, false, false⟩]) = [(0, .timeout), (1, .skipped)] := by
  decide

/-! ... and a wait that fits is sat out in full, also after time has passed: 200 ms command, then
wait 500 ms + 100 ms command under 1 s: calls at 0–200 and 700–800. -/
example :
    clockTrace (totalLimit (some 1000)) (honest (fun i => (if i = 0 then 200 else 100, ⟨.code 0, true, true⟩)))
      [⟨none, .stdout, none, none, true, 0⟩, ⟨none, .stdout, none, none, true, 500⟩] 0 0
      = [(0, 200), (700, 800)] := by
  decide

/-! Non-vacuity: per-test 5 s, document 1 s, command 3 s → timeout attributed to the document. -/
example :
    (execAll (some 1000) (honest (fun _ => (3000, ⟨.code 0, true, true⟩)))
      [⟨none, .stdout, none, some 5000, true, 0⟩]).1 = .timeout true 0 [⟨.timeout, false, false⟩] := by
  decide

end Scrut.Props.C14
