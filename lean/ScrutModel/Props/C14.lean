import ScrutModel.Lemmas.Exec
/-!
# C14 — Timeouts bound execution time and surface as failures

`effective` is the limit handed to the runner; `execLoop` the executor loop; `honest cmds` a runner
for commands that run `(cmds i).1` ms and then end with `(cmds i).2`, and that reports a timeout
iff the limit it was handed is reached first. Wall-clock enforcement itself (the runner really
stops waiting at the limit) is runtime behaviour, exercised with real processes by the harness.
-/
namespace Scrut.Props.C14
open Scrut.Exec

/-- **C14**: the limit in force is the smaller of the per-test limit and what is left of the
document limit — whichever is reached first, whatever other limit is configured — and it is
attributed to the document exactly when the document limit is the strictly smaller one. -/
theorem C14_effective_is_min (p r : Option Nat) :
    (effective p r).2 = Scrut.Exec.minOpt p r ∧
    ((effective p r).1 = true ↔ ∃ rv, r = some rv ∧ ∀ pv, p = some pv → rv < pv) :=
  Scrut.Exec.effective_is_min p r

/-- the document limit: absent → 900 s, 0 → unlimited -/
theorem C14_total_limit (t : Option Nat) :
    totalLimit t = (match t with | none => some 900000 | some 0 => none | some (k+1) => some (k+1)) :=
  Scrut.Exec.totalLimit_spec t

/-- **C14** (abort and skip): when execution stops with a timeout at test case `i`, that test case
is reported as failed (timeout), every later one as skipped, none of them as passed. -/
theorem C14_abort_and_skip (total : Option Nat) (runner : Runner) (tcs : List TC)
    (g : Bool) (i : Nat) (outs : List Out)
    (h : (execAll total runner tcs).1 = .timeout g i outs) :
    i < tcs.length ∧
    (∀ v, (i, v) ∈ runDocument tcs (.timeout g i outs) → v = .timeout) ∧
    (i, Verdict.timeout) ∈ runDocument tcs (.timeout g i outs) ∧
    (∀ j, i < j → j < tcs.length → (j, Verdict.skipped) ∈ runDocument tcs (.timeout g i outs)) ∧
    (∀ j v, i < j → (j, v) ∈ runDocument tcs (.timeout g i outs) → v = .skipped) :=
  Scrut.Exec.abort_and_skip total runner tcs g i outs h

/-- **C14** (no spurious timeout): with an honest runner a timeout at test case `i` is reported
only if the command really ran at least as long as the limit it was handed. -/
theorem C14_no_spurious (total : Option Nat) (cmds : Nat → Nat × Out) (tcs : List TC)
    (hfin : ∀ i, (cmds i).2.status ≠ .timeout)
    (g : Bool) (i : Nat) (outs : List Out)
    (h : (execAll total (honest cmds) tcs).1 = .timeout g i outs) :
    ∃ l, (execAll total (honest cmds) tcs).2[i]? = some (some l) ∧ l ≤ (cmds i).1 :=
  Scrut.Exec.no_spurious_timeout total cmds tcs hfin g i outs h

/-- **C14** (enforced): with an honest runner, a command that runs at least as long as the limit
it is handed is reported as timed out. -/
theorem C14_enforced (cmds : Nat → Nat × Out) (i l : Nat) (h : l ≤ (cmds i).1) :
    ((honest cmds i (some l)).1).status = .timeout :=
  Scrut.Exec.honest_enforced cmds i l h

/-- the limits handed to the runner are exactly `effective perTest (total − elapsed)` -/
theorem C14_first_limit (total : Option Nat) (runner : Runner) (tc : TC) (rest : List TC) :
    (execAll total runner (tc :: rest)).2[0]? = some (effective tc.timeout (totalLimit total)).2 :=
  Scrut.Exec.first_limit total runner tc rest

/-! Non-vacuity: per-test 5 s, document 1 s, command 3 s → timeout attributed to the document. -/
example :
    (execAll (some 1000) (honest (fun _ => (3000, ⟨.code 0, true, true⟩)))
      [⟨none, .stdout, none, some 5000, true⟩]).1 = .timeout true 0 [⟨.timeout, false, false⟩] := by
  decide

end Scrut.Props.C14
