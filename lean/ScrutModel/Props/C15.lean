import ScrutModel.Lemmas.Exec
/-!
# C15 — The skip exit code skips the whole document, and nothing else does
-/
namespace Scrut.Props.C15
open Scrut.Exec

/-- **C15**: execution ends as "skipped at `i`" only because test case `i` exited with its own
skip code (default 80) or the runner reported it skipped. -/
theorem C15_skip_cause (total : Option Nat) (runner : Runner) (tcs : List TC) (i : Nat)
    (h : (execAll total runner tcs).1 = .skipped i) :
    ∃ tc lim, tcs[i]? = some tc ∧
      (((runner i lim).1).status = .code (skipCodeOf tc) ∨ ((runner i lim).1).status = .skipped) :=
  Scrut.Exec.skip_cause total runner tcs i h

/-- **C15**: a skipped document reports every test case as skipped, none failed or passed, and
does not make the run fail. -/
theorem C15_skip_all (tcs : List TC) (i : Nat) :
    runDocument tcs (.skipped i) = (List.range tcs.length).map (fun j => (j, Verdict.skipped)) ∧
    (∀ o ∈ runDocument tcs (.skipped i), isFailure o.2 = false) :=
  Scrut.Exec.skip_all tcs i

/-- other documents are unaffected: the exit status with a skipped document in the run is the
exit status without it -/
theorem C15_others_unaffected (pre post : List (Option (List Outcome))) (tcs : List TC) (i : Nat) :
    exitStatus (pre ++ [some (runDocument tcs (.skipped i))] ++ post) = exitStatus (pre ++ post) :=
  Scrut.Exec.skip_doc_neutral pre post tcs i

/-- **C15** (nothing else skips): when no test case exits with its skip code — the execution ends
regularly — no test case is reported as skipped. -/
theorem C15_no_spurious_skip (total : Option Nat) (runner : Runner) (tcs : List TC)
    (outs : List Out) (h : (execAll total runner tcs).1 = .ok outs) :
    ∀ o ∈ runDocument tcs (.ok outs), o.2 ≠ .skipped :=
  Scrut.Exec.no_spurious_skip total runner tcs outs h

/-- … except those following a timed-out one: after a timeout exactly the later test cases are
skipped -/
theorem C15_skipped_after_timeout (total : Option Nat) (runner : Runner) (tcs : List TC)
    (g : Bool) (i : Nat) (outs : List Out)
    (h : (execAll total runner tcs).1 = .timeout g i outs) :
    ∀ j, (j, Verdict.skipped) ∈ runDocument tcs (.timeout g i outs) ↔ (i < j ∧ j < tcs.length) :=
  Scrut.Exec.skipped_after_timeout total runner tcs g i outs h

/-- **C15** (Cram, one script): a test case that ended with the shared skip code skips the
document even if a later command left the shell (so that fewer results than test cases exist). -/
theorem C15_script_skip_wins (tcs : List TC) (c : Int) (outs : List Out)
    (hc : c ≠ scriptSkip tcs) (h : ∃ o ∈ outs, o.status = .code (scriptSkip tcs)) :
    ∃ i, execScript tcs (.code c) outs = some (.skipped i) ∧
      ∃ o, outs[i]? = some o ∧ o.status = .code (scriptSkip tcs) :=
  Scrut.Exec.execScript_skip_wins tcs c outs hc h

/-- **C15** (Cram): nothing else skips — a skipped result means the script itself or the parsed
output at that index ended with the skip code. -/
theorem C15_script_skip_cause (tcs : List TC) (script : Status) (outs : List Out) (i : Nat)
    (h : execScript tcs script outs = some (.skipped i)) :
    (script = .code (scriptSkip tcs) ∧ i = 0) ∨
    ∃ o, outs[i]? = some o ∧ o.status = .code (scriptSkip tcs) :=
  Scrut.Exec.execScript_skipped_cause tcs script outs i h

/-! Non-vacuity: custom skip code 7 on the second of three test cases. -/
example :
    (execAll none (fun i _ => (⟨.code (if i = 1 then 7 else 0), true, true⟩, 0))
      [⟨none, .stdout, none, none, true⟩, ⟨none, .stdout, some 7, none, true⟩, ⟨none, .stdout, none, none, true⟩]).1
      = .skipped 1 := by decide

end Scrut.Props.C15
