import ScrutModel.Lemmas.Exec
import ScrutModel.Lemmas.TestRunProps
/-!
# C15 — The skip exit code skips the whole document, and nothing else does

The second half (`C15_integrated_…`, `C15_document_…`, `C15_script_…`) states the property about the
INTEGRATED model of `scrut test` (`Model/TestRun.lean`, tied to the binary by `e2e-testdoc`,
`e2e-testcram`, `e2e-testdoc-cram-compat`).  The runs of the integrated model are COMPLETED commands
(exit code, stdout, stderr): no timeouts exist in this fragment, so the only source of a `skipped`
verdict is the skip code (`C15_integrated_nothing_else_skips`).
-/
namespace Scrut.Props.C15
open Scrut.Exec

/-- **C15**: execution ends as "skipped at `i`" only because test case `i` exited with its own
skip code (default 80) or the runner reported it skipped. -/
theorem C15_skip_cause (total : Option Nat) (runner : Runner) (tcs : List TC) (i : Nat)
    (h : (execAll total runner tcs).1 = .skipped i) :
    ∃ tc lim, tcs[i]? = some tc ∧
      (((runner i lim).1).status = .code (skipCodeOf tc) ∨ ((runner i lim).1).status = .skipped) :=
  Scrut.Exec.skip_cause total runner tcs i h

/-- **C15**: a skipped document reports every test case as skipped, none failed or passed, and
does not make the run fail. -/
theorem C15_skip_all (tcs : List TC) (i : Nat) :
    runDocument tcs (.skipped i) = (List.range tcs.length).map (fun j => (j, Verdict.skipped)) ∧
    (∀ o ∈ runDocument tcs (.skipped i), isFailure o.2 = false) :=
  Scrut.Exec.skip_all tcs i

/-- other documents are unaffected: the exit status with a skipped document in the run is the
exit status without it -/
theorem C15_others_unaffected (pre post : List (Option (List Outcome))) (tcs : List TC) (i : Nat) :
    exitStatus (pre ++ [some (runDocument tcs (.skipped i))] ++ post) = exitStatus (pre ++ post) :=
  Scrut.Exec.skip_doc_neutral pre post tcs i

/-- **C15** (nothing else skips): when no test case exits with its skip code — the execution ends
regularly — no test case is reported as skipped. -/
theorem C15_no_spurious_skip (total : Option Nat) (runner : Runner) (tcs : List TC)
    (outs : List Out) (h : (execAll total runner tcs).1 = .ok outs) :
    ∀ o ∈ runDocument tcs (.ok outs), o.2 ≠ .skipped :=
  Scrut.Exec.no_spurious_skip total runner tcs outs h

/-- … except those following a timed-out one: after a timeout exactly the later test cases are
skipped -/
theorem C15_skipped_after_timeout (total : Option Nat) (runner : Runner) (tcs : List TC)
    (g : Bool) (i : Nat) (outs : List Out)
    (h : (execAll total runner tcs).1 = .timeout g i outs) :
    ∀ j, (j, Verdict.skipped) ∈ runDocument tcs (.timeout g i outs) ↔ (i < j ∧ j < tcs.length) :=
  Scrut.Exec.skipped_after_timeout total runner tcs g i outs h

/-- **C15** (Cram, one script): a test case that ended with the shared skip code skips the
document even if a later command left the shell (so that fewer results than test cases exist). -/
theorem C15_script_skip_wins (tcs : List TC) (c : Int) (outs : List Out)
    (hc : c ≠ scriptSkip tcs) (h : ∃ o ∈ outs, o.status = .code (scriptSkip tcs)) :
    ∃ i, execScript tcs (.code c) outs = some (.skipped i) ∧
      ∃ o, outs[i]? = some o ∧ o.status = .code (scriptSkip tcs) :=
  Scrut.Exec.execScript_skip_wins tcs c outs hc h

/-- **C15** (Cram, since fix 03b50b5): the same when the script ran into the time limit after the test case with the
skip code had ended -- the document is skipped, not failed; without such an output the timeout is reported. -/
theorem C15_script_skip_wins_timeout (tcs : List TC) (outs : List Out)
    (h : ∃ o ∈ outs, o.status = .code (scriptSkip tcs)) :
    ∃ i, execScript tcs .timeout outs = some (.skipped i) ∧
      ∃ o, outs[i]? = some o ∧ o.status = .code (scriptSkip tcs) :=
  Scrut.Exec.execScript_skip_wins_timeout tcs outs h

theorem C15_script_timeout_without_skip (tcs : List TC) (outs : List Out)
    (h : ∀ o ∈ outs, o.status ≠ .code (scriptSkip tcs)) :
    execScript tcs .timeout outs = some (.timeout true 0 [⟨.timeout, false, false⟩]) :=
  Scrut.Exec.execScript_timeout_no_skip tcs outs h

/-- **C15** (Cram): nothing else skips — a skipped result means the script itself or the parsed
output at that index ended with the skip code. -/
theorem C15_script_skip_cause (tcs : List TC) (script : Status) (outs : List Out) (i : Nat)
    (h : execScript tcs script outs = some (.skipped i)) :
    (script = .code (scriptSkip tcs) ∧ i = 0) ∨
    ∃ o, outs[i]? = some o ∧ o.status = .code (scriptSkip tcs) :=
  Scrut.Exec.execScript_skipped_cause tcs script outs i h

/-! Non-vacuity: custom skip code 7 on the second of three test cases. -/
example :
    (execAll none (fun i _ => (⟨.code (if i = 1 then 7 else 0), true, true⟩, 0))
      [⟨none, .stdout, none, none, true, 0⟩, ⟨none, .stdout, some 7, none, true, 0⟩, ⟨none, .stdout, none, none, true, 0⟩]).1
      = .skipped 1 := by decide

/-! ## through the composition: `scrut test` on one document (`Model/TestRun.lean`) -/

section Integrated
open Scrut.TestRun

/-- reading aid: `skips tests runs` says that the command of some test of the document ended with
THAT test's skip code (`skip_document_code`, 80 unless configured) -/
theorem C15_skips_iff (tests : List Test) (runs : List Ran) :
    skips tests runs = true ↔
      ∃ (i : Nat) (t : Test) (r : Ran), tests[i]? = some t ∧ runs[i]? = some r ∧
        r.code = t.cfg.skipCode.getD 80 := by
  rw [skips_iff]
  simp only [hitsSkip_iff]

/-- **C15, integrated** (the skip code skips the whole document): if the command of some test ended
with that test's skip code, every test of the document is reported `skipped` -- also those that ran
before it -- and the exit status is 0. -/
theorem C15_integrated_skip_all {tests : List Test} {runs : List Ran} {outcomes : List Outcome}
    {status : Nat} (h : runTests tests runs = .report outcomes status)
    (hs : skips tests runs = true) :
    outcomes = (List.range tests.length).map (fun i => (i, Verdict.skipped)) ∧ status = 0 :=
  runTests_skip_all h hs

/-- **C15, integrated** (nothing else skips): test `i` is reported `skipped` only if some test of
the document ended with its skip code; every other verdict is `success`, wrong output or wrong exit
code -- a completed command is never reported as timed out or as an internal error. -/
theorem C15_integrated_nothing_else_skips {tests : List Test} {runs : List Ran}
    {outcomes : List Outcome} {status : Nat} (h : runTests tests runs = .report outcomes status) :
    (∀ i, (i, Verdict.skipped) ∈ outcomes ↔ (i < tests.length ∧ skips tests runs = true)) ∧
    (∀ o ∈ outcomes, o.2 = .ok ∨ o.2 = .malformed ∨ o.2 = .skipped ∨ ∃ c e, o.2 = .invalidExit c e) :=
  runTests_verdicts h

/-- **C15 from the bytes of the document**: both directions for the prepared tests of the document -/
theorem C15_document_skip {bytes : Bytes} {runs : List Ran} {outcomes : List Outcome}
    {status : Nat} (h : testDocumentBytes bytes runs = .report outcomes status) :
    ∃ tests, DocTests bytes tests ∧
      (skips tests runs = true →
        outcomes = (List.range tests.length).map (fun i => (i, Verdict.skipped)) ∧ status = 0) ∧
      (∀ i, (i, Verdict.skipped) ∈ outcomes ↔ (i < tests.length ∧ skips tests runs = true)) ∧
      (∀ o ∈ outcomes, o.2 = .ok ∨ o.2 = .malformed ∨ o.2 = .skipped ∨ ∃ c e, o.2 = .invalidExit c e) :=
  testDocumentBytes_skip h

/-- **C15, single-script executor** (Cram documents, `--cram-compat`), all or none: one `skipped`
verdict means that every test of the document is reported `skipped`, and the exit status is 0. -/
theorem C15_script_all_or_none {tests : List Test} {runs : List SRan} {outcomes : List Outcome}
    {status : Nat} (h : runScript tests runs = .report outcomes status)
    (hs : ∃ o ∈ outcomes, o.2 = Verdict.skipped) :
    outcomes = (List.range tests.length).map (fun i => (i, Verdict.skipped)) ∧ status = 0 :=
  runScript_skip_all_or_none h hs

/-! Non-vacuity, evaluated by the kernel from the bytes of a document with two test cases: the
second command ends with 80; without a skip code nothing is skipped; a Cram document. -/
example : testDocumentBytes exBytes exRunsSkip = .report [(0, .skipped), (1, .skipped)] 0 := ex_report_skip
example : skips exTests exRunsSkip = true := by decide
example : testDocumentBytes exBytes exRunsBad = .report [(0, .ok), (1, .malformed)] 50 := ex_report_bad
example : skips exTests exRunsBad = false := by decide
example : testCramDocumentBytes exCramBytes exCramRunsSkip = .report [(0, .skipped), (1, .skipped)] 0 :=
  ex_cram_skip

end Integrated

end Scrut.Props.C15
