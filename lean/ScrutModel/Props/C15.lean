import ScrutModel.Lemmas.Exec
import ScrutModel.Lemmas.TestRunProps
import ScrutModel.Lemmas.TestRunScript
/-!
# C15 — The skip exit code skips the whole document, and nothing else does

The second half (`C15_integrated_…`, `C15_document_…`, `C15_script_…`, `C15_cram_document_…`,
`C15_compat_document_…`) states the property about the
INTEGRATED model of `scrut test` (`Model/TestRun.lean`, tied to the binary by `e2e-testdoc`,
`e2e-testcram`, `e2e-testdoc-cram-compat`).  The runs of the integrated model are COMPLETED commands
(exit code, stdout, stderr): no timeouts exist in this fragment, so the only source of a `skipped`
verdict is the skip code (`C15_integrated_nothing_else_skips`).
-/
namespace Scrut.Props.C15
open Scrut.Exec

/-- **C15**: execution ends as "skipped at `i`" only because test case `i` exited with its own
skip code (default 80) or the runner reported it skipped. -/
theorem C15_skip_cause (total : Option Nat) (runner : Runner) (tcs : List TC) (i : Nat)
    (h : (execAll total runner tcs).1 = .skipped i) :
    ∃ tc lim, tcs[i]? = some tc ∧
      (((runner i lim).1).status = .code (skipCodeOf tc) ∨ ((runner i lim).1).status = .skipped) :=
  Scrut.Exec.skip_cause total runner tcs i h

/-- **C15**: a skipped document reports every test case as skipped, none failed or passed, and
does not make the run fail. -/
theorem C15_skip_all (tcs : List TC) (i : Nat) :
    runDocument tcs (.skipped i) = (List.range tcs.length).map (fun j => (j, Verdict.skipped)) ∧
    (∀ o ∈ runDocument tcs (.skipped i), isFailure o.2 = false) :=
  Scrut.Exec.skip_all tcs i

/-- other documents are unaffected: the exit status with a skipped document in the run is the
exit status without it -/
theorem C15_others_unaffected (pre post : List (Option (List Outcome))) (tcs : List TC) (i : Nat) :
    exitStatus (pre ++ [some (runDocument tcs (.skipped i))] ++ post) = exitStatus (pre ++ post) :=
  Scrut.Exec.skip_doc_neutral pre post tcs i

/-- **C15** (nothing else skips): when no test case exits with its skip code — the execution ends
regularly — no test case is reported as skipped. -/
theorem C15_no_spurious_skip (total : Option Nat) (runner : Runner) (tcs : List TC)
    (outs : List Out) (h : (execAll total runner tcs).1 = .ok outs) :
    ∀ o ∈ runDocument tcs (.ok outs), o.2 ≠ .skipped :=
  Scrut.Exec.no_spurious_skip total runner tcs outs h

/-- … except those following a timed-out one: after a timeout exactly the later test cases are
skipped -/
theorem C15_skipped_after_timeout (total : Option Nat) (runner : Runner) (tcs : List TC)
    (g : Bool) (i : Nat) (outs : List Out)
    (h : (execAll total runner tcs).1 = .timeout g i outs) :
    ∀ j, (j, Verdict.skipped) ∈ runDocument tcs (.timeout g i outs) ↔ (i < j ∧ j < tcs.length) :=
  Scrut.Exec.skipped_after_timeout total runner tcs g i outs h

/-- **C15** (Cram, one script): a test case that ended with the shared skip code skips the
document even if a later command left the shell (so that fewer results than test cases exist). -/
theorem C15_script_skip_wins (tcs : List TC) (c : Int) (outs : List Out)
    (hc : c ≠ scriptSkip tcs) (h : ∃ o ∈ outs, o.status = .code (scriptSkip tcs)) :
    ∃ i, execScript tcs (.code c) outs = some (.skipped i) ∧
      ∃ o, outs[i]? = some o ∧ o.status = .code (scriptSkip tcs) :=
  Scrut.Exec.execScript_skip_wins tcs c outs hc h

/-- **C15** (Cram, since fix 03b50b5): the same when the script ran into the time limit after the test case with the
skip code had ended -- the document is skipped, not failed; without such an output the timeout is reported. -/
theorem C15_script_skip_wins_timeout (tcs : List TC) (outs : List Out)
    (h : ∃ o ∈ outs, o.status = .code (scriptSkip tcs)) :
    ∃ i, execScript tcs .timeout outs = some (.skipped i) ∧
      ∃ o, outs[i]? = some o ∧ o.status = .code (scriptSkip tcs) :=
  Scrut.Exec.execScript_skip_wins_timeout tcs outs h

/-- **C15** (Cram, since fix 384369f): … and when the shell was killed after that test case -/
theorem C15_script_skip_wins_killed (tcs : List TC) (outs : List Out)
    (h : ∃ o ∈ outs, o.status = .code (scriptSkip tcs)) :
    ∃ i, execScript tcs .unknown outs = some (.skipped i) ∧
      ∃ o, outs[i]? = some o ∧ o.status = .code (scriptSkip tcs) :=
  Scrut.Exec.execScript_skip_wins_unknown tcs outs h

theorem C15_script_timeout_without_skip (tcs : List TC) (outs : List Out)
    (h : ∀ o ∈ outs, o.status ≠ .code (scriptSkip tcs)) :
    execScript tcs .timeout outs = some (.timeout true 0 [⟨.timeout, false, false⟩]) :=
  Scrut.Exec.execScript_timeout_no_skip tcs outs h

/-- **C15** (Cram): nothing else skips — a skipped result means the script itself or the parsed
output at that index ended with the skip code. -/
theorem C15_script_skip_cause (tcs : List TC) (script : Status) (outs : List Out) (i : Nat)
    (h : execScript tcs script outs = some (.skipped i)) :
    (script = .code (scriptSkip tcs) ∧ i = 0) ∨
    ∃ o, outs[i]? = some o ∧ o.status = .code (scriptSkip tcs) :=
  Scrut.Exec.execScript_skipped_cause tcs script outs i h

/-! Non-vacuity: custom skip code 7 on the second of three test cases. -/
example :
    (execAll none (fun i _ => (⟨.code (if i = 1 then 7 else 0), true, true⟩, 0))
      [⟨none, .stdout, none, none, true, 0⟩, ⟨none, .stdout, some 7, none, true, 0⟩, ⟨none, .stdout, none, none, true, 0⟩]).1
      = .skipped 1 := by decide

/-! ## through the composition: `scrut test` on one document (`Model/TestRun.lean`) -/

section Integrated
open Scrut.TestRun

/-- reading aid: `skips tests runs` says that the command of some test of the document ended with
THAT test's skip code (`skip_document_code`, 80 unless configured) -/
theorem C15_skips_iff (tests : List Test) (runs : List Ran) :
    skips tests runs = true ↔
      ∃ (i : Nat) (t : Test) (r : Ran), tests[i]? = some t ∧ runs[i]? = some r ∧
        r.code = t.cfg.skipCode.getD 80 := by
  rw [skips_iff]
  simp only [hitsSkip_iff]

/-- **C15, integrated** (the skip code skips the whole document): if the command of some test ended
with that test's skip code, every test of the document is reported `skipped` -- also those that ran
before it -- and the exit status is 0. -/
theorem C15_integrated_skip_all {tests : List Test} {runs : List Ran} {outcomes : List Outcome}
    {status : Nat} (h : runTests tests runs = .report outcomes status)
    (hs : skips tests runs = true) :
    outcomes = (List.range tests.length).map (fun i => (i, Verdict.skipped)) ∧ status = 0 :=
  runTests_skip_all h hs

/-- **C15, integrated** (nothing else skips): test `i` is reported `skipped` only if some test of
the document ended with its skip code; every other verdict is `success`, wrong output or wrong exit
code -- a completed command is never reported as timed out or as an internal error. -/
theorem C15_integrated_nothing_else_skips {tests : List Test} {runs : List Ran}
    {outcomes : List Outcome} {status : Nat} (h : runTests tests runs = .report outcomes status) :
    (∀ i, (i, Verdict.skipped) ∈ outcomes ↔ (i < tests.length ∧ skips tests runs = true)) ∧
    (∀ o ∈ outcomes, o.2 = .ok ∨ o.2 = .malformed ∨ o.2 = .skipped ∨ ∃ c e, o.2 = .invalidExit c e) :=
  runTests_verdicts h

/-- **C15 from the bytes of the document**: both directions for the prepared tests of the document -/
theorem C15_document_skip {bytes : Bytes} {runs : List Ran} {outcomes : List Outcome}
    {status : Nat} (h : testDocumentBytes bytes runs = .report outcomes status) :
    ∃ tests, DocTests bytes tests ∧
      (skips tests runs = true →
        outcomes = (List.range tests.length).map (fun i => (i, Verdict.skipped)) ∧ status = 0) ∧
      (∀ i, (i, Verdict.skipped) ∈ outcomes ↔ (i < tests.length ∧ skips tests runs = true)) ∧
      (∀ o ∈ outcomes, o.2 = .ok ∨ o.2 = .malformed ∨ o.2 = .skipped ∨ ∃ c e, o.2 = .invalidExit c e) :=
  testDocumentBytes_skip h

/-- **C15, single-script executor** (Cram documents, `--cram-compat`), all or none: one `skipped`
verdict means that every test of the document is reported `skipped`, and the exit status is 0. -/
theorem C15_script_all_or_none {tests : List Test} {runs : List SRan} {outcomes : List Outcome}
    {status : Nat} (h : runScript tests runs = .report outcomes status)
    (hs : ∃ o ∈ outcomes, o.2 = Verdict.skipped) :
    outcomes = (List.range tests.length).map (fun i => (i, Verdict.skipped)) ∧ status = 0 :=
  runScript_skip_all_or_none h hs

/-- reading aid: `scriptSkipCode tests` is the skip code of the ONE script -- the compiled
`skip_document_code` (80 when no test case sets one); every test case that sets a skip code sets it -/
theorem C15_script_skip_code {tests : List Test} {cfg : Compiled}
    (h : compileTestcase tests = some cfg) :
    scriptSkipCode tests = cfg.skipCode.getD 80 ∧
    ∀ t ∈ tests, t.cfg.skipCode = none ∨ t.cfg.skipCode = cfg.skipCode :=
  ⟨by unfold scriptSkipCode; rw [h], compiled_skipCode h⟩

/-- reading aid: `scriptSkips tests runs` says that the command of some test, in front of which no
command left the shell (`exit N`), ended with the skip code -- it is then on that test's divider
line or, if the command itself leaves the shell, it is the script's own exit status --, OR that the
skip code is 0 and no command left the shell (the script's own exit status is that of its last
`echo`, 0). -/
theorem C15_script_skips_iff (tests : List Test) (runs : List SRan) :
    scriptSkips tests runs = true ↔
      (∃ (i : Nat) (r : SRan), i < tests.length ∧ runs[i]? = some r ∧ r.ran.code = scriptSkipCode tests ∧
        ∀ (j : Nat) (x : SRan), j < i → runs[j]? = some x → x.leaves = false) ∨
      ((∀ x ∈ runs.take tests.length, x.leaves = false) ∧ scriptSkipCode tests = 0) :=
  scriptSkips_iff tests runs

/-! CHANGED with the fix `set_consistent!(strip_ansi_escaping)`: the statements about the single-script
executor "in terms of the runs" below carry the hypothesis `ScriptStripInert tests runs` (no test case
sets `strip_ansi_escaping: true`, or no command wrote an `ESC` byte): with the key set,
`strip_ansi_sequences_bytes` runs over the whole captured stream, and a sequence a command leaves
open can take a divider line -- and the exit code it carries -- with it. -/

/-- **C15, single-script executor** (the skip code skips the whole document): if `scriptSkips`,
every test of the document is reported `skipped` -- also those that ran before -- and the exit
status is 0.  For all documents and runs (no bound on the number of test cases). -/
theorem C15_script_skip_all {tests : List Test} {runs : List SRan} {outcomes : List Outcome}
    {status : Nat} (hstrip : ScriptStripInert tests runs)
    (h : runScript tests runs = .report outcomes status)
    (hs : scriptSkips tests runs = true) :
    outcomes = (List.range tests.length).map (fun i => (i, Verdict.skipped)) ∧ status = 0 :=
  (runScript_skip hstrip h).1 hs

/-- **C15, single-script executor** (nothing else skips): test `i` is reported `skipped` only if
`scriptSkips`; every other verdict is `success`, wrong output or wrong exit code (completed
commands: there are no timeouts in this fragment). -/
theorem C15_script_nothing_else_skips {tests : List Test} {runs : List SRan}
    {outcomes : List Outcome} {status : Nat} (hstrip : ScriptStripInert tests runs)
    (h : runScript tests runs = .report outcomes status) :
    (∀ i, (i, Verdict.skipped) ∈ outcomes ↔ (i < tests.length ∧ scriptSkips tests runs = true)) ∧
    (∀ o ∈ outcomes, o.2 = .ok ∨ o.2 = .malformed ∨ o.2 = .skipped ∨ ∃ c e, o.2 = .invalidExit c e) :=
  (runScript_skip hstrip h).2

/- The statement "a `skipped` verdict means that the command of SOME TEST ended with the skip code",

    theorem C15_script_skipped_cause (h : runScript tests runs = .report outcomes status)
        (hi : (i, Verdict.skipped) ∈ outcomes) :
        ∃ j r, j < tests.length ∧ runs[j]? = some r ∧ r.ran.code = scriptSkipCode tests ∧
          ∀ k x, k < j → runs[k]? = some x → x.leaves = false

is FALSE for the single-script executor when the skip code is 0: the script's own exit status is
compared with the skip code first, and a script that runs to its end ends with the status of its last
`echo`, 0 (`C15_script_skipped_cause_fails_on_witness`).  It holds for every other skip code. -/

/-- … under the guard "the skip code is not 0" -/
theorem C15_script_skipped_cause_partial {tests : List Test} {runs : List SRan}
    {outcomes : List Outcome} {status i : Nat} (hstrip : ScriptStripInert tests runs)
    (h : runScript tests runs = .report outcomes status)
    (h0 : scriptSkipCode tests ≠ 0) (hi : (i, Verdict.skipped) ∈ outcomes) :
    ∃ (j : Nat) (r : SRan), j < tests.length ∧ runs[j]? = some r ∧ r.ran.code = scriptSkipCode tests ∧
      ∀ (k : Nat) (x : SRan), k < j → runs[k]? = some x → x.leaves = false :=
  runScript_skipped_cause hstrip h h0 hi

/-- the witness: one test with `skip_document_code: 0` that expects the exit code 1; its command ends
with 1 and does not leave the shell; the document is reported `skipped` -/
theorem C15_script_skipped_cause_fails_on_witness :
    testDocumentCompatBytes exSkip0Bytes exSkip0Runs = .report [(0, .skipped)] 0 ∧
    CompatDocTests exSkip0Bytes exSkip0Tests ∧
    runScript exSkip0Tests exSkip0Runs = .report [(0, .skipped)] 0 ∧ scriptSkipCode exSkip0Tests = 0 ∧
    ∀ r ∈ exSkip0Runs, r.ran.code ≠ scriptSkipCode exSkip0Tests :=
  ⟨ex_skip0_report, ex_skip0_docTests, ex_skip0_runScript⟩

/-- **C15 from the bytes of a Cram document**: both directions for its prepared tests -/
theorem C15_cram_document_skip {bytes : Bytes} {runs : List SRan} {outcomes : List Outcome}
    {status : Nat} (hstrip : ∀ tests, CramDocTests bytes tests → ScriptStripInert tests runs)
    (h : testCramDocumentBytes bytes runs = .report outcomes status) :
    ∃ tests, CramDocTests bytes tests ∧
      (scriptSkips tests runs = true →
        outcomes = (List.range tests.length).map (fun i => (i, Verdict.skipped)) ∧ status = 0) ∧
      (∀ i, (i, Verdict.skipped) ∈ outcomes ↔ (i < tests.length ∧ scriptSkips tests runs = true)) ∧
      (∀ o ∈ outcomes, o.2 = .ok ∨ o.2 = .malformed ∨ o.2 = .skipped ∨ ∃ c e, o.2 = .invalidExit c e) :=
  testCramDocumentBytes_skip hstrip h

/-- **C15 from the bytes of a Markdown document read under `--cram-compat`** -/
theorem C15_compat_document_skip {bytes : Bytes} {runs : List SRan} {outcomes : List Outcome}
    {status : Nat} (hstrip : ∀ tests, CompatDocTests bytes tests → ScriptStripInert tests runs)
    (h : testDocumentCompatBytes bytes runs = .report outcomes status) :
    ∃ tests, CompatDocTests bytes tests ∧
      (scriptSkips tests runs = true →
        outcomes = (List.range tests.length).map (fun i => (i, Verdict.skipped)) ∧ status = 0) ∧
      (∀ i, (i, Verdict.skipped) ∈ outcomes ↔ (i < tests.length ∧ scriptSkips tests runs = true)) ∧
      (∀ o ∈ outcomes, o.2 = .ok ∨ o.2 = .malformed ∨ o.2 = .skipped ∨ ∃ c e, o.2 = .invalidExit c e) :=
  testDocumentCompatBytes_skip hstrip h

/-! Non-vacuity, evaluated by the kernel from the bytes of a document with two test cases: the
second command ends with 80; without a skip code nothing is skipped; a Cram document. -/
example : testDocumentBytes exBytes exRunsSkip = .report [(0, .skipped), (1, .skipped)] 0 := ex_report_skip
example : skips exTests exRunsSkip = true := by decide
example : testDocumentBytes exBytes exRunsBad = .report [(0, .ok), (1, .malformed)] 50 := ex_report_bad
example : skips exTests exRunsBad = false := by decide
example : testCramDocumentBytes exCramBytes exCramRunsSkip = .report [(0, .skipped), (1, .skipped)] 0 :=
  ex_cram_skip
/-- the Cram document: skip code 80; the second command ends with 80; the first command leaves the
shell with 80 (`exit 80`); no skip code -/
example : testCramDocumentBytes exCramBytes exCramRunsLeaveSkip = .report [(0, .skipped), (1, .skipped)] 0 :=
  ex_cram_leave_skip
example : scriptSkipCode exCramTests = 80 ∧ scriptSkips exCramTests exCramRunsSkip = true ∧
    scriptSkips exCramTests exCramRunsLeaveSkip = true ∧ scriptSkips exCramTests exCramRuns = false :=
  ex_cram_scriptSkips
example : CramDocTests exCramBytes exCramTests := ex_cramDocTests

end Integrated

end Scrut.Props.C15
