import ScrutModel.Lemmas.DiffC03iff
/-!
# C03 — No false failure when the expectations are deterministic

Configurations `(i, o)`: expectations before `i` are done; `o = true` means expectation `i` is
multiline and already holds a line. `Cand i o k`: expectation `k` may legally take the next line.
`Det i o j`: reading lines `j..m` from `(i, o)`, at every step at most one candidate matches the
current line (one-line lookahead). `NAcc` is acceptance by the NFA of `e1{q1} … en{qn}`;
`Assignment` is the declarative notion used by C01.
-/
namespace Scrut.Props.C03
open Scrut.Diff

/-- **C03** (completeness): deterministic ∧ described by the expectations ⇒ reported as a match. -/
theorem C03_complete (n m : Nat) (es : Nat → Exp) (mt : Nat → Nat → Bool)
    (hacc : NAcc n m es mt 0 false 0) (hdet : Det n m es mt 0 false 0) :
    hasDiff (diff n m es mt) = false :=
  Scrut.Diff.C03_complete n m es mt hacc hdet

/-- **C03**: under determinism, a match is reported exactly when the output is described. -/
theorem C03_iff (n m : Nat) (es : Nat → Exp) (mt : Nat → Nat → Bool)
    (hdet : Det n m es mt 0 false 0) :
    hasDiff (diff n m es mt) = false ↔ ∃ a, Assignment n m es mt a :=
  Scrut.Diff.C03_iff n m es mt hdet

/-- every list without quantifiers is deterministic -/
theorem det_of_no_quantifiers (n m : Nat) (es : Nat → Exp) (mt : Nat → Nat → Bool)
    (hq : ∀ i, es i = ⟨false, false⟩) : ∀ d j, m - j = d → Det n m es mt j false j := by
  intro d
  induction d with
  | zero => intro j h; exact Det.done (by omega)
  | succ d ih =>
    intro j h
    have cand_eq : ∀ k, Cand n es j false k → k = j := by
      intro k hk
      simp only [Cand] at hk
      obtain ⟨h1, _, h3⟩ := hk
      by_cases hkj : k = j
      · exact hkj
      · have := h3 j (Nat.le_refl _) (by omega)
        rw [hq j] at this; cases this
    refine Det.step (by omega) ?_ ?_
    · intro k k' hk _ hk' _
      rw [cand_eq k hk, cand_eq k' hk']
    · intro k hk _
      have := cand_eq k hk
      subst this
      simp only [nextI, nextO, hq k]
      exact ih (k+1) (by omega)

/-- **C03** (own lines): expectations that are simply the output's own lines always pass. -/
theorem C03_own_lines (n : Nat) (es : Nat → Exp) (mt : Nat → Nat → Bool)
    (hq : ∀ i, es i = ⟨false, false⟩) (hown : ∀ i, i < n → mt i i = true) :
    hasDiff (diff n n es mt) = false := by
  apply Scrut.Diff.C03_complete
  · have : ∀ d j, n - j = d → j ≤ n → NAcc n n es mt j false j := by
      intro d
      induction d with
      | zero =>
        intro j h hle
        have : j = n := by omega
        subst this
        exact NAcc.done (by intro t h1 h2; simp at h1; omega)
      | succ d ih =>
        intro j h hle
        have hlt : j < n := by omega
        refine NAcc.step (k := j) hlt (cand_self n es hlt) (hown j hlt) ?_
        simp only [nextI, nextO, hq j]
        exact ih (j+1) (by omega) (by omega)
    exact this n 0 rfl (Nat.zero_le _)
  · exact det_of_no_quantifiers n n es mt hq n 0 rfl

/-- The determinism hypothesis cannot be dropped: the greedy matcher is incomplete in general.
`foo (*)`, `foo` against two lines `foo`: the language contains the output, the matcher reports
differences. -/
theorem greedy_incomplete_witness :
    ∃ (es : Nat → Exp) (mt : Nat → Nat → Bool),
      (∃ a, Assignment 2 2 es mt a) ∧ hasDiff (diff 2 2 es mt) = true := by
  refine ⟨fun i => if i = 0 then ⟨true, true⟩ else ⟨false, false⟩, fun _ _ => true, ⟨[0, 1], ?_⟩, ?_⟩
  · refine ⟨rfl, by simp, by simp, ?_, ?_, ?_⟩
    · intro j hj; rfl
    · intro i hi ho
      have : i = 1 := by
        rcases i with _ | _ | i
        · simp at ho
        · rfl
        · omega
      subst this; simp
    · intro i hi hm
      rcases i with _ | _ | i
      · simp at hm
      · simp
      · omega
  · simp [diff, loop, rangeFrom, unmatchedOf, hasDiff, List.range, List.range.loop]

/-! Non-vacuity of `Det`/`NAcc`: `C03_own_lines` instantiates both hypotheses for every `n`. -/
example : hasDiff (diff 3 3 (fun _ => ⟨false, false⟩) (fun i j => i == j)) = false :=
  C03_own_lines 3 _ _ (fun _ => rfl) (by intro i _; simp)

end Scrut.Props.C03
