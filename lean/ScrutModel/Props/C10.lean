import ScrutModel.Lemmas.UpdateRetok
/-!
# C10 — `update` rewrites only scrut blocks, keeps everything else, and is idempotent

Model: `Model/Update.lean` (`generateUpdate` = `MarkdownUpdateGenerator::generate_update`) on top of
the tokenizer model of C06.  Parameter: `gens`, the text `Outcome::generate_testcase` returns per
outcome (`none` = it fails); vocabulary: `Model/UpdateSpec.lean` (`Rewritten`, `BlockOut`,
`blockText`, `sameTexts`).

Proved here for **all** documents (any characters, malformed constructs included), all languages
lists and all generated texts:

* `C10_no_outcomes_untouched`, `C10_fails_only_for_outcomes` – without outcomes the document is
  returned as it is; the update never panics and fails only because an outcome is missing or
  cannot be rendered;
* `C10_outside_preserved` – the updated text arises from the lines of the document
  (`str::lines()`) by the rules of `Rewritten`: every line outside scrut blocks – prose,
  front-matter, foreign code blocks, also unterminated ones, also everything behind the last test –
  is written back as it is, in order, terminated by LF; nothing is dropped (the rules consume the
  whole document, `C06_tokens_cover`); every scrut block is replaced by exactly one block.  The
  full-strength statement

      theorem C10_outside_preserved_full : generateUpdate L doc gens = .ok out → Rewritten L gens true 0 (splitLines doc) out

  is **false**: an unterminated front-matter gains a closing `---`
  (`C10_front_matter_unterminated_fails_on_witness`, open finding
  `C10:front-matter-unterminated-gains-delimiter`); this is the extra rule of `Rewritten … false`.
  `C10_outside_preserved_partial` is the strict statement under the decidable guard `frontClosed`
  (every front-matter is closed).  Repaired by fix cdbfbca: a front-matter without lines gained an
  empty line (regression example `C10_front_matter_empty_kept`);
* `C10_blocks_kept` – every rewritten block is `fence + language + {config}` as read from the old
  fence line (white space after `{` dropped, a configuration of white space only is none), a prefix of the old body lines (the comment lines),
  the generated text, the fence, with a fence of at least three backticks; a block without code
  keeps all its lines and uses no outcome (`BlockOut`);
* `C10_passing_verbatim` – if the generated text is the code of the block as written (which is
  what `generate_testcase` produces for a passing test: `$`/`>` lines, the expectation lines as
  written, the exit code line), the whole body is reproduced line for line;
* `C10_same_commands` – the updated document is tokenized into the same tokens in the same order
  (`Reread`): the same texts outside scrut blocks, every scrut block with its language, its
  configuration as `update` writes it and its comment lines; a block without code stays without
  code, the code lines of every other block are exactly the lines of the text generated for its
  outcome (so what the parser reads as command lines is what `generate_testcase` wrote);
* `C10_idempotent` – `update (update doc gens) gens = update doc gens`.
  Both under the decidable guards
  - no line of the document ends in a carriage return (the open finding
    `C10:not-idempotent-stray-carriage-return`, `C10_not_idempotent_stray_cr_witness`),
  - every front-matter is closed (`frontClosed`; open finding
    `C10:front-matter-unterminated-gains-delimiter`),
  - the test languages hold no backtick, `{` or white space (`LangOK`; true of `scrut`),
  - every generated text ends in LF and does not start with a comment line (`GenOK`; true of every
    text of `generate_testcase`, which starts with `$ `; needed: `C10_idempotent_needs_GenOK`).
  That no line of a generated text starts with the fence chosen for it is not a guard but proved
  from `max_backtick_size` (`C10_fence_safe`).  The remaining exception to idempotence is
  `gen' ≠ gen`: a block rewritten from retained quantified expectations can still fail on the same
  output, so the *outcomes* of the second run differ (C09 finding
  `update-retained-quantified-expectations`, harness class
  `C10:not-idempotent-retained-quantified-expectations`);
* `C10_idempotent_partial` – the token-level core: token streams with the same texts are written
  identically; `C10_lines_read_back`, `C10_fence_line_read_back` – the two read-back steps
  (repaired by fix cdbfbca: `{  }` became `{}` and then disappeared; regression example
  `C10_blank_config_idempotent`).

Normalisations that are part of the statement: line terminators become LF (CRLF is read as a
terminator, a final line without terminator gets one).

Not proved (oracle only): that the real parser, fed these code lines, yields the same shell
expressions as the original document (re-parse oracle of the well-formed stream; for the generated
texts that is C09's round trip).
-/
namespace Scrut.Props.C10
open Scrut Scrut.Markdown Scrut.Update

/-- Without outcomes nothing is written: the document is returned byte for byte. -/
theorem C10_no_outcomes_untouched (L : List Line) (doc : List Char) :
    generateUpdate L doc [] = .ok doc :=
  generateUpdate_no_outcomes L doc

/-- The update never panics; it fails only if the outcome for a test block with code is missing or
cannot be rendered – never because of the shape of the document. -/
theorem C10_fails_only_for_outcomes (L : List Line) (doc : List Char) (gens : List (Option (List Char)))
    (e : Update.Err) (h : generateUpdate L doc gens = .error e) :
    (∃ i, e = .noOutcome i ∧ gens[i]? = none) ∨ (∃ i, e = .generate i ∧ gens[i]? = some none) :=
  generateUpdate_error L doc gens e h

/-- Everything outside scrut blocks is written back line by line, in order, nothing is dropped or
truncated; the only addition is the closing `---` of an unterminated front-matter (`Rewritten … false`). -/
theorem C10_outside_preserved (L : List Line) (doc : List Char) (gens : List (Option (List Char)))
    (hne : gens ≠ []) (out : List Char) (h : generateUpdate L doc gens = .ok out) :
    Rewritten L gens false 0 (splitLines doc) out :=
  generateUpdate_rewritten L doc gens hne out h

/-- The strict reading (no line added anywhere outside scrut blocks) for documents whose
front-matter, if any, is closed. -/
theorem C10_outside_preserved_partial (L : List Line) (doc : List Char) (gens : List (Option (List Char)))
    (hne : gens ≠ []) (out : List Char) (h : generateUpdate L doc gens = .ok out)
    (toks : List Tok) (ht : tokenize L (splitLines doc) = .ok toks)
    (hf : frontClosed (splitLines doc).length 0 toks = true) :
    Rewritten L gens true 0 (splitLines doc) out :=
  generateUpdate_rewritten_strict L doc gens hne out h toks ht hf

/-- Language, inline configuration and the lines in front of the code are kept, the fence has at
least three backticks, the block is closed. -/
theorem C10_blocks_kept (gens : List (Option (List Char))) (k k' : Nat) (body : List Line)
    (language config : Line) (blockOut : List Char) (h : BlockOut gens k body language config blockOut k') :
    ∃ n head text, 3 ≤ n ∧ head <+: body ∧ blockOut = blockText (backticks n) language config head text :=
  blockOut_shape h

/-- the text `generate_testcase` writes for a passing test: its code lines as written -/
def passingText (b : Block) : List Char := unlines b.code

/-- A block rewritten from its own code lines has its whole body (comments, command, expectation
lines, exit code line) reproduced line for line. -/
theorem C10_passing_verbatim (bt : Line) (b : Block) :
    blockText bt b.language b.config b.comments (passingText b)
      = bt ++ b.language ++ configSuffix (cfgLines 0 b.config) ++ ['\n'] ++ unlines b.body ++ bt ++ ['\n'] :=
  blockText_unlines bt b.language b.config b.comments b.code

/-- Idempotence reduces to (1) the generator reproducing its own texts (`gens` is the same – C09's
business) and (2) the updated document being read back with the same texts per token. -/
theorem C10_idempotent_partial (gens : List (Option (List Char))) (toks toks' : List Tok)
    (h : AllSame toks toks') (k : Nat) : emit gens k toks' = emit gens k toks :=
  emit_sameTexts gens toks toks' h k

/-- What `update` writes – lines terminated by LF – is read back by `str::lines()` line for line,
provided no line ends in a carriage return. -/
theorem C10_lines_read_back (ls : List Line) (h : ∀ l ∈ ls, '\n' ∉ l ∧ l.getLast? ≠ some '\r') :
    splitLines (unlines ls) = ls :=
  splitLines_unlines ls h

/-- The fence line of a rewritten block (at least three backticks, a language without backtick,
`{` and white space, the configuration as `update` writes it) is read back with the same backticks
and language, and with a configuration that the next update writes identically. -/
theorem C10_fence_line_read_back (n : Nat) (hn : 3 ≤ n) (lang : Line) (hl : LangOK lang) (cfg : Numbered) :
    ∃ config', extractCodeBlockStart (backticks n ++ lang ++ configSuffix cfg) = .ok (some (backticks n, lang, config')) ∧
      ∀ j, configSuffix (cfgLines j config') = configSuffix cfg := by
  obtain ⟨c, h1, h2⟩ := fence_line_reread n hn lang hl cfg
  exact ⟨c, by rw [extractCodeBlockStart_eq, h1], h2⟩

/-- No line of a generated text starts with the fence that `update` chooses for its block
(`max_backtick_size + 1` backticks): the text cannot close its own block early. -/
theorem C10_fence_safe (g : List Char) :
    ∀ l ∈ splitLines g, startsWith l (backticks (maxBacktickSize g + 1)) = false :=
  gen_lines_fence_safe g

/-- The updated document is tokenized into the same tokens, in the same order: same texts outside
scrut blocks, same language / configuration / comment lines per block, code lines = the lines of
the generated text. -/
theorem C10_same_commands (L : List Line) (hL : ∀ lang, L.contains lang = true → LangOK lang)
    (gens : List (Option (List Char))) (hne : gens ≠ [])
    (hg : ∀ (k : Nat) (g : List Char), gens[k]? = some (some g) → GenOK g)
    (doc out : List Char) (hcr : ∀ l ∈ splitLines doc, l.getLast? ≠ some '\r')
    (toks : List Tok) (ht : tokenize L (splitLines doc) = .ok toks)
    (hfc : frontClosed (splitLines doc).length 0 toks = true)
    (h : generateUpdate L doc gens = .ok out) :
    ∃ toks', tokenize L (splitLines out) = .ok toks' ∧ Reread gens 0 toks toks' :=
  generateUpdate_reread L hL gens hne hg doc out hcr toks ht hfc h

/-- **Idempotence**: updating the updated document with the same generated texts changes nothing. -/
theorem C10_idempotent (L : List Line) (hL : ∀ lang, L.contains lang = true → LangOK lang)
    (gens : List (Option (List Char))) (hne : gens ≠ [])
    (hg : ∀ (k : Nat) (g : List Char), gens[k]? = some (some g) → GenOK g)
    (doc out : List Char) (hcr : ∀ l ∈ splitLines doc, l.getLast? ≠ some '\r')
    (toks : List Tok) (ht : tokenize L (splitLines doc) = .ok toks)
    (hfc : frontClosed (splitLines doc).length 0 toks = true)
    (h : generateUpdate L doc gens = .ok out) :
    generateUpdate L out gens = .ok out :=
  generateUpdate_idempotent L hL gens hne hg doc out hcr toks ht hfc h

/-! ## witnesses and non-vacuity -/

/-- the default language satisfies `LangOK` -/
example : LangOK ['s', 'c', 'r', 'u', 't'] := by
  intro c hc
  simp only [List.mem_cons, List.not_mem_nil, or_false] at hc
  rcases hc with rfl | rfl | rfl | rfl | rfl <;> decide


def scrut : List Line := [['s', 'c', 'r', 'u', 't']]

def docEmptyFront : List Char := ['-', '-', '-', '\n', '-', '-', '-', '\n', 't', 'e', 'x', 't', '\n']
def docOpenFront : List Char := ['-', '-', '-', '\n', 'a', ':', ' ', '1', '\n']
def outOpenFront : List Char := ['-', '-', '-', '\n', 'a', ':', ' ', '1', '\n', '-', '-', '-', '\n']
def docBlankCfg : List Char := ['`', '`', '`', 's', 'c', 'r', 'u', 't', ' ', '{', ' ', ' ', '}', '\n', '$', ' ', 'x', '\n', '`', '`', '`', '\n']
def out2BlankCfg : List Char := ['`', '`', '`', 's', 'c', 'r', 'u', 't', '\n', '$', ' ', 'x', '\n', '`', '`', '`', '\n']
def docStrayCr : List Char := ['a', '\r', '\r', '\n', '`', '`', '`', 's', 'c', 'r', 'u', 't', '\n', '$', ' ', 'x', '\n', '`', '`', '`', '\n']
def out1StrayCr : List Char := ['a', '\r', '\n', '`', '`', '`', 's', 'c', 'r', 'u', 't', '\n', '$', ' ', 'x', '\n', '`', '`', '`', '\n']
def out2StrayCr : List Char := ['a', '\n', '`', '`', '`', 's', 'c', 'r', 'u', 't', '\n', '$', ' ', 'x', '\n', '`', '`', '`', '\n']
def genX : List Char := ['$', ' ', 'x', '\n']
def docNormal : List Char := ['-', '-', '-', '\n', 'a', ':', ' ', '1', '\n', '-', '-', '-', '\n', '#', ' ', 'T', '\n', '\n', '`', '`', '`', '`', 's', 'c', 'r', 'u', 't', ' ', '{', ' ', 't', 'i', 'm', 'e', 'o', 'u', 't', ':', ' ', '5', 's', '}', '\n', '#', ' ', 'c', '\n', '$', ' ', 'x', '\n', 'o', 'l', 'd', '\n', '`', '`', '`', '`', '\n', '`', '`', '`', 'p', 'y', '\n', '$', ' ', 'n', 'o', '\n', '`', '`', '`', '\n', 'e', 'n', 'd']
def outNormal : List Char := ['-', '-', '-', '\n', 'a', ':', ' ', '1', '\n', '-', '-', '-', '\n', '#', ' ', 'T', '\n', '\n', '`', '`', '`', 's', 'c', 'r', 'u', 't', ' ', '{', 't', 'i', 'm', 'e', 'o', 'u', 't', ':', ' ', '5', 's', '}', '\n', '#', ' ', 'c', '\n', '$', ' ', 'x', '\n', 'n', 'e', 'w', '\n', '`', '`', '`', '\n', '`', '`', '`', 'p', 'y', '\n', '$', ' ', 'n', 'o', '\n', '`', '`', '`', '\n', 'e', 'n', 'd', '\n']
def genNew : List Char := ['$', ' ', 'x', '\n', 'n', 'e', 'w', '\n']

/-- Repaired by fix cdbfbca (was harness class `C10:front-matter-empty-gains-blank-line`): a
front-matter without lines is written back as it is. -/
theorem C10_front_matter_empty_kept :
    generateUpdate scrut docEmptyFront [some genX] = .ok docEmptyFront := by rfl

/-- DEVIATION (harness class `C10:front-matter-unterminated-gains-delimiter`) -/
theorem C10_front_matter_unterminated_fails_on_witness :
    generateUpdate scrut docOpenFront [some genX] = .ok outOpenFront := by rfl

/-- Repaired by fix cdbfbca (was harness class `C10:not-idempotent-blank-inline-config`): a
configuration of white space only is written as none, and the second update changes nothing. -/
theorem C10_blank_config_idempotent :
    generateUpdate scrut docBlankCfg [some genX] = .ok out2BlankCfg ∧
    generateUpdate scrut out2BlankCfg [some genX] = .ok out2BlankCfg := by
  refine ⟨by rfl, by rfl⟩

/-- DEVIATION (harness classes `C10:not-idempotent-stray-carriage-return`,
`C10:stray-carriage-return-dropped`) -/
theorem C10_not_idempotent_stray_cr_witness :
    generateUpdate scrut docStrayCr [some genX] = .ok out1StrayCr ∧
    generateUpdate scrut out1StrayCr [some genX] = .ok out2StrayCr ∧ out2StrayCr ≠ out1StrayCr := by
  refine ⟨by rfl, by rfl, by decide⟩

/-- a normal document: front-matter, title, a four-backtick block with configuration and comment,
a foreign block, a last line without terminator -/
theorem C10_example_document :
    generateUpdate scrut docNormal [some genNew] = .ok outNormal := by rfl

/-- the guard of `C10_outside_preserved_partial` holds for it -/
example : ∃ toks, tokenize scrut (splitLines docNormal) = .ok toks ∧
    frontClosed (splitLines docNormal).length 0 toks = true := by
  refine ⟨_, by rfl, by rfl⟩

/-- `AllSame` is satisfiable by token streams with different line numbers -/
example : AllSame [.line 0 ['a'], .test ['s'] [] [(1, ['#'])] [(2, ['x'])]]
    [.line 5 ['a'], .test ['s'] [] [(7, ['#'])] [(8, ['y']), (9, ['z'])]] :=
  .cons rfl (.cons ⟨rfl, rfl, rfl, rfl⟩ .nil)

def docOneBlock : List Char := ['`', '`', '`', 's', 'c', 'r', 'u', 't', '\n', '$', ' ', 'x', '\n', '`', '`', '`', '\n']
def genComment : List Char := ['#', ' ', 'c', '\n', '$', ' ', 'x', '\n']
def out1Comment : List Char := ['`', '`', '`', 's', 'c', 'r', 'u', 't', '\n', '#', ' ', 'c', '\n', '$', ' ', 'x', '\n', '`', '`', '`', '\n']
def out2Comment : List Char := ['`', '`', '`', 's', 'c', 'r', 'u', 't', '\n', '#', ' ', 'c', '\n', '#', ' ', 'c', '\n', '$', ' ', 'x', '\n', '`', '`', '`', '\n']

/-- `GenOK` is needed: a generated text that starts with a comment line is read back as a comment
in front of the code, and the next update writes it twice.  (No text of `generate_testcase` starts
like that.) -/
theorem C10_idempotent_needs_GenOK :
    generateUpdate scrut docOneBlock [some genComment] = .ok out1Comment ∧
    generateUpdate scrut out1Comment [some genComment] = .ok out2Comment ∧ out2Comment ≠ out1Comment := by
  refine ⟨by rfl, by rfl, by decide⟩

/-- the guards of `C10_idempotent` hold for the example document and its generated text -/
example : GenOK genNew := ⟨by rfl, by rfl⟩
example : ∀ l ∈ splitLines docNormal, l.getLast? ≠ some '\r' := by decide
example : ∀ lang, scrut.contains lang = true → LangOK lang := by
  intro lang h
  have : lang = ['s', 'c', 'r', 'u', 't'] := by simpa [scrut] using h
  subst this
  intro c hc
  simp only [List.mem_cons, List.not_mem_nil, or_false] at hc
  rcases hc with rfl | rfl | rfl | rfl | rfl <;> decide

end Scrut.Props.C10
