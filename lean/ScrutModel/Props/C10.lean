import ScrutModel.Lemmas.UpdateRetok
import ScrutModel.Lemmas.UpdateRunWitness
/-!
# C10 — `update` rewrites only scrut blocks, keeps everything else, and is idempotent

Model: `Model/Update.lean` (`generateUpdate` = `MarkdownUpdateGenerator::generate_update`) on top of
the tokenizer model of C06.  Parameter: `gens`, the text `Outcome::generate_testcase` returns per
outcome (`none` = it fails); vocabulary: `Model/UpdateSpec.lean` (`Rewritten`, `BlockOut`,
`blockText`, `sameTexts`).

Proved here for **all** documents (any characters, malformed constructs included), all languages
lists and all generated texts:

* `C10_no_outcomes_untouched`, `C10_fails_only_for_outcomes` – without outcomes the document is
  returned as it is; the update never panics and fails only because an outcome is missing or
  cannot be rendered;
* `C10_outside_preserved` – the updated text arises from the lines of the document
  (`str::lines()`) by the rules of `Rewritten`: every line outside scrut blocks – prose,
  front-matter, foreign code blocks, also unterminated ones, also everything behind the last test –
  is written back as it is, in order, terminated by LF; nothing is dropped (the rules consume the
  whole document, `C06_tokens_cover`); every scrut block is replaced by exactly one block.  The
  full-strength statement

      theorem C10_outside_preserved_full : generateUpdate L doc gens = .ok out → Rewritten L gens true 0 (splitLines doc) out

  is **false**: an unterminated front-matter gains a closing `---`
  (`C10_front_matter_unterminated_fails_on_witness`, open finding
  `C10:front-matter-unterminated-gains-delimiter`); this is the extra rule of `Rewritten … false`.
  `C10_outside_preserved_partial` is the strict statement under the decidable guard `frontClosed`
  (every front-matter is closed).  Repaired by fix cdbfbca: a front-matter without lines gained an
  empty line (regression example `C10_front_matter_empty_kept`);
* `C10_blocks_kept` – every rewritten block is `fence + language + {config}` as read from the old
  fence line (spaces and tabs after `{` dropped, a configuration of white space only is none), a prefix of the old body lines (the comment lines),
  the generated text, the fence, with a fence of at least three backticks; a block without code
  keeps all its lines and uses no outcome (`BlockOut`);
* `C10_passing_verbatim` – if the generated text is the code of the block as written (which is
  what `generate_testcase` produces for a passing test: `$`/`>` lines, the expectation lines as
  written, the exit code line), the whole body is reproduced line for line;
* `C10_same_commands` – the updated document is tokenized into the same tokens in the same order
  (`Reread`): the same texts outside scrut blocks, every scrut block with its language, its
  configuration as `update` writes it and its comment lines; a block without code stays without
  code, the code lines of every other block are exactly the lines of the text generated for its
  outcome (so what the parser reads as command lines is what `generate_testcase` wrote);
* `C10_idempotent` – `update (update doc gens) gens = update doc gens`.
  Both under the decidable guards
  - no line of the document ends in a carriage return (the open finding
    `C10:not-idempotent-stray-carriage-return`, `C10_not_idempotent_stray_cr_witness`),
  - every front-matter is closed (`frontClosed`; open finding
    `C10:front-matter-unterminated-gains-delimiter`),
  - the test languages hold no backtick, `{` or white space (`LangOK`; true of `scrut`),
  - every generated text ends in LF and does not start with a comment line (`GenOK`; true of every
    text of `generate_testcase`, which starts with `$ `; needed: `C10_idempotent_needs_GenOK`).
  That no line of a generated text starts with the fence chosen for it is not a guard but proved
  from `max_backtick_size` (`C10_fence_safe`).  The remaining exception to idempotence is
  `gen' ≠ gen`: a block rewritten from retained quantified expectations can still fail on the same
  output, so the *outcomes* of the second run differ (C09 finding
  `update-retained-quantified-expectations`, harness class
  `C10:not-idempotent-retained-quantified-expectations`);
* `C10_idempotent_partial` – the token-level core: token streams with the same texts are written
  identically; `C10_lines_read_back`, `C10_fence_line_read_back` – the two read-back steps
  (repaired by fix cdbfbca: `{  }` became `{}` and then disappeared; regression example
  `C10_blank_config_idempotent`).

Normalisations that are part of the statement: line terminators become LF (CRLF is read as a
terminator, a final line without terminator gets one).

Not proved (oracle only): that the real parser, fed these code lines, yields the same shell
expressions as the original document (re-parse oracle of the well-formed stream; for the generated
texts that is C09's round trip).  [Now proved for the integrated model, see below, provided the
written document parses.]

## The integrated model of `scrut update --replace --assume-yes` (`Model/UpdateRun.lean`)

`UpdateRun.updateDocument isOther content runs` composes read → parse → prepare → execute → validate
→ `generate_testcase` → `generate_update` → compare / write and is tied to the real BINARY by the
stream `e2e-upddoc`.  The theorems `C10_run_*` are the theorems above lifted through that
composition (proofs: `Lemmas/UpdateRunProps.lean`, `UpdateRunAlign.lean`, `UpdateRunRejudge.lean`,
`UpdateRunReparse.lean`, concrete documents: `UpdateRunWitness.lean`), for all documents and all
runs:

* `C10_run_bytes` – `updateDocumentBytes` is `updateDocument` behind `read_file`; every theorem
  below is a theorem about the bytes of the file through it;
* `C10_run_unfolded` – the text written is `generate_update` of the document with the texts that
  `generate_testcase` returned for the judged tests (`docGens`): one per test, none failing, each
  `GenOK` (proved, not assumed: `$ …` first, LF last) – so every theorem about `generateUpdate`
  above applies to the integrated function with its guards `LangOK` / `GenOK` discharged;
* **passing documents** – the statement

      theorem C10_run_passing_untouched : AllPass content runs → ∃ rs, updateDocument isOther content runs = .unchanged rs

  is **false** (`C10_run_passing_untouched_fails_on_witness`: a passing document whose last line has
  no line feed is written; finding `C10:passing-document-rewritten`, confirmed on the binary): a
  passing test is re-rendered (command, expectation lines as written, `[code]`), the rest of the
  document is normalised by `generate_update`.  `C10_run_passing_rerendered` is what is true
  without guard (the text written depends on the document only, not on the outputs),
  `C10_run_passing_untouched_partial` the statement under the decidable guard `Settled` (the
  document is its own re-rendering; `C10_run_idempotent_partial` says that the documents `update`
  writes are of that kind).  Repaired by fix cfef990 (was finding `C10:expectation-read-as-continuation`,
  witness `C10_run_passing_corrupts_command_witness`, now deleted): the re-rendering of the passing test
  `$ x` / `[1]` / `> a` put `> a` directly behind the command, whose continuation it then was (`x⏎a`); now the
  exit code line stays in front of it and the document is not written at all
  (`C10_run_passing_cont_kept`; the general statement: `C10_exit_code_first`, `C10_written_block_command`);
* `C10_run_outside_preserved`, `C10_run_outside_preserved_partial`, `C10_run_same_tokens` – lines
  outside scrut blocks, number and order of blocks, language / configuration / comment lines
  (`Rewritten`, `BlockOut`, `Reread` as above);
* **same commands, at the level of the parser** – the statement

      theorem C10_run_same_commands : updateDocument … = .updated text rs → parse content = .ok p → parse text = .ok p' →
          p'.tests.map (·.shellExpression) = p.tests.map (·.shellExpression)

  is still **false**, for one reason only: `C10_run_same_commands_fails_on_witness` (a command line ending in
  a stray carriage return, `$ x␍␍⏎`, is the command `x␍` and is written `$ x␍⏎`, which `str::lines()` reads as
  `x`: the root cause of the open finding `C10:stray-carriage-return-dropped`).  The two witnesses this item
  had before are repaired and deleted: `$ x` / `> ` (the command `x⏎`) was written back as `$ x` (finding
  `C10:trailing-empty-continuation-dropped`, fix 961e96b, regression `C10_run_trailing_continuation_kept`) and
  the one of the previous item.
  `C10_run_same_commands_partial` proves the statement under the decidable guard `NoStrayCR` alone
  (the guards `CmdClosed`, `NoContLike` it had are dropped: EVERY command, also one ending
  in an empty continuation line, and EVERY expectation line, also `> x`; the guard `FrontClosed` is dropped:
  a document that `update` writes has a test, and behind an unterminated front-matter there is none --
  `C10_run_front_closed`), for any `isOther` with
  `AsciiContract` (C11), IF the written document parses (it does under the guards of U4:
  `C10_run_written_parses_partial`).  Underneath: `C10_expression_roundtrip` (the lines
  written for ANY command text are read back by the line parser as that command) and
  `C10_written_block_command` (whatever is written behind them, no line of it is taken for a continuation);
* **idempotence** – `C10_run_idempotent_same_texts_partial`: the second update writes nothing if
  it generates the same texts; `C10_run_idempotent_partial`: it does so – hence
  `update (update doc) = unchanged` – under the decidable guards `NoStrayCR`, exit codes 0..255, `QuantFree` (a test
  with `MalformedOutput` has no quantified expectation: the open finding
  `C10:not-idempotent-retained-quantified-expectations`).  No hypothesis about the
  WRITTEN document is left: the former hypothesis `SameConfigs` ("the written document is read -- it parses,
  its lines compile -- with the same test configurations") is discharged:
  - the written document parses (`C10_run_written_parses_partial`: tokens as in `Reread`, every rewritten block is
    the command lines, expectation lines that compile, at most one exit code line);
  - the tokenizer reads from the fence line `update` wrote exactly the configuration text `update` wrote
    (`writtenCfg`: the original text without its leading spaces and tabs, none if it was white space only:
    `C10_config_text_read_back`), and `Yaml.parseFlow` does not see spaces and tabs behind the opening brace
    (`C10_flow_blanks_skipped`, for ALL texts, proved through the fuel of the flow parser), so the configuration
    read back is the original one (`C10_config_read_back`; a text of Unicode white space only, written back as
    no configuration, is the empty mapping if it is read at all);
  - the guard `FrontClosed` follows from `… = .updated …` (`C10_run_front_closed`).
  REPAIRED (fix 15b47d2; finding `C10:config-leading-white-space-changes-configuration`): the theorem carried the
  guard `CfgBlankLed` ("the white space `update` drops in front of every inline configuration is spaces and
  tabs") and was false without it, because `update` dropped that white space with `trim_start()` -- Unicode
  `White_Space` -- while YAML skips spaces and tabs only: `{<U+00A0>output_stream: stderr}` holds the unknown
  key `<U+00A0>output_stream` (ignored: the test validates STDOUT) and was written back as
  `{output_stream: stderr}`, so that the PASSING test `$ echo a; echo b >&2` / `a` failed after the first update
  and was rewritten to `b` by the second.  `update` now drops spaces and tabs only
  (`trim_start_matches([' ', '\t'])`, `Update.blankStart`), the guard is gone, and the witness is the regression
  theorem `C10_run_config_white_space_kept`.
-/
namespace Scrut.Props.C10
open Scrut Scrut.Markdown Scrut.Update

/-- Without outcomes nothing is written: the document is returned byte for byte. -/
theorem C10_no_outcomes_untouched (L : List Line) (doc : List Char) :
    generateUpdate L doc [] = .ok doc :=
  generateUpdate_no_outcomes L doc

/-- The update never panics; it fails only if the outcome for a test block with code is missing or
cannot be rendered – never because of the shape of the document. -/
theorem C10_fails_only_for_outcomes (L : List Line) (doc : List Char) (gens : List (Option (List Char)))
    (e : Update.Err) (h : generateUpdate L doc gens = .error e) :
    (∃ i, e = .noOutcome i ∧ gens[i]? = none) ∨ (∃ i, e = .generate i ∧ gens[i]? = some none) :=
  generateUpdate_error L doc gens e h

/-- Everything outside scrut blocks is written back line by line, in order, nothing is dropped or
truncated; the only addition is the closing `---` of an unterminated front-matter (`Rewritten … false`). -/
theorem C10_outside_preserved (L : List Line) (doc : List Char) (gens : List (Option (List Char)))
    (hne : gens ≠ []) (out : List Char) (h : generateUpdate L doc gens = .ok out) :
    Rewritten L gens false 0 (splitLines doc) out :=
  generateUpdate_rewritten L doc gens hne out h

/-- The strict reading (no line added anywhere outside scrut blocks) for documents whose
front-matter, if any, is closed. -/
theorem C10_outside_preserved_partial (L : List Line) (doc : List Char) (gens : List (Option (List Char)))
    (hne : gens ≠ []) (out : List Char) (h : generateUpdate L doc gens = .ok out)
    (toks : List Tok) (ht : tokenize L (splitLines doc) = .ok toks)
    (hf : frontClosed (splitLines doc).length 0 toks = true) :
    Rewritten L gens true 0 (splitLines doc) out :=
  generateUpdate_rewritten_strict L doc gens hne out h toks ht hf

/-- Language, inline configuration and the lines in front of the code are kept, the fence has at
least three backticks, the block is closed. -/
theorem C10_blocks_kept (gens : List (Option (List Char))) (k k' : Nat) (body : List Line)
    (language config : Line) (blockOut : List Char) (h : BlockOut gens k body language config blockOut k') :
    ∃ n head text, 3 ≤ n ∧ head <+: body ∧ blockOut = blockText (backticks n) language config head text :=
  blockOut_shape h

/-- the text `generate_testcase` writes for a passing test: its code lines as written -/
def passingText (b : Block) : List Char := unlines b.code

/-- A block rewritten from its own code lines has its whole body (comments, command, expectation
lines, exit code line) reproduced line for line. -/
theorem C10_passing_verbatim (bt : Line) (b : Block) :
    blockText bt b.language b.config b.comments (passingText b)
      = bt ++ b.language ++ configSuffix (cfgLines 0 b.config) ++ ['\n'] ++ unlines b.body ++ bt ++ ['\n'] :=
  blockText_unlines bt b.language b.config b.comments b.code

/-- Idempotence reduces to (1) the generator reproducing its own texts (`gens` is the same – C09's
business) and (2) the updated document being read back with the same texts per token. -/
theorem C10_idempotent_partial (gens : List (Option (List Char))) (toks toks' : List Tok)
    (h : AllSame toks toks') (k : Nat) : emit gens k toks' = emit gens k toks :=
  emit_sameTexts gens toks toks' h k

/-- What `update` writes – lines terminated by LF – is read back by `str::lines()` line for line,
provided no line ends in a carriage return. -/
theorem C10_lines_read_back (ls : List Line) (h : ∀ l ∈ ls, '\n' ∉ l ∧ l.getLast? ≠ some '\r') :
    splitLines (unlines ls) = ls :=
  splitLines_unlines ls h

/-- The fence line of a rewritten block (at least three backticks, a language without backtick,
`{` and white space, the configuration as `update` writes it) is read back with the same backticks
and language, and with a configuration that the next update writes identically. -/
theorem C10_fence_line_read_back (n : Nat) (hn : 3 ≤ n) (lang : Line) (hl : LangOK lang) (cfg : Numbered) :
    ∃ config', extractCodeBlockStart (backticks n ++ lang ++ configSuffix cfg) = .ok (some (backticks n, lang, config')) ∧
      ∀ j, configSuffix (cfgLines j config') = configSuffix cfg := by
  obtain ⟨c, h1, h2⟩ := fence_line_reread n hn lang hl cfg
  exact ⟨c, by rw [extractCodeBlockStart_eq, h1], h2⟩

/-- … also a configuration that holds a backtick (the fence recogniser looks for a backtick only
in front of the first `{`; between the fix "the info string of a fence holds no backtick" and its
follow-up this line was read as prose): the fence line written for the configuration text
`environment: {K: "`"}` is read back. -/
theorem C10_fence_line_backtick_config_read_back :
    extractCodeBlockStart (backticks 3 ++ "scrut".toList ++ configSuffix [(0, "environment: {K: \"`\"}".toList)])
      = .ok (some (backticks 3, "scrut".toList, "{environment: {K: \"`\"}}".toList)) := by
  rfl

/-- No line of a generated text starts with the fence that `update` chooses for its block
(`max_backtick_size + 1` backticks): the text cannot close its own block early. -/
theorem C10_fence_safe (g : List Char) :
    ∀ l ∈ splitLines g, startsWith l (backticks (maxBacktickSize g + 1)) = false :=
  gen_lines_fence_safe g

/-- The updated document is tokenized into the same tokens, in the same order: same texts outside
scrut blocks, same language / configuration / comment lines per block, code lines = the lines of
the generated text. -/
theorem C10_same_commands (L : List Line) (hL : ∀ lang, L.contains lang = true → LangOK lang)
    (gens : List (Option (List Char))) (hne : gens ≠ [])
    (hg : ∀ (k : Nat) (g : List Char), gens[k]? = some (some g) → GenOK g)
    (doc out : List Char) (hcr : ∀ l ∈ splitLines doc, l.getLast? ≠ some '\r')
    (toks : List Tok) (ht : tokenize L (splitLines doc) = .ok toks)
    (hfc : frontClosed (splitLines doc).length 0 toks = true)
    (h : generateUpdate L doc gens = .ok out) :
    ∃ toks', tokenize L (splitLines out) = .ok toks' ∧ Reread gens 0 toks toks' :=
  generateUpdate_reread L hL gens hne hg doc out hcr toks ht hfc h

/-- **Idempotence**: updating the updated document with the same generated texts changes nothing. -/
theorem C10_idempotent (L : List Line) (hL : ∀ lang, L.contains lang = true → LangOK lang)
    (gens : List (Option (List Char))) (hne : gens ≠ [])
    (hg : ∀ (k : Nat) (g : List Char), gens[k]? = some (some g) → GenOK g)
    (doc out : List Char) (hcr : ∀ l ∈ splitLines doc, l.getLast? ≠ some '\r')
    (toks : List Tok) (ht : tokenize L (splitLines doc) = .ok toks)
    (hfc : frontClosed (splitLines doc).length 0 toks = true)
    (h : generateUpdate L doc gens = .ok out) :
    generateUpdate L out gens = .ok out :=
  generateUpdate_idempotent L hL gens hne hg doc out hcr toks ht hfc h

/-! ## witnesses and non-vacuity -/

/-- the default language satisfies `LangOK` -/
example : LangOK ['s', 'c', 'r', 'u', 't'] := by
  intro c hc
  simp only [List.mem_cons, List.not_mem_nil, or_false] at hc
  rcases hc with rfl | rfl | rfl | rfl | rfl <;> decide


def scrut : List Line := [['s', 'c', 'r', 'u', 't']]

def docEmptyFront : List Char := ['-', '-', '-', '\n', '-', '-', '-', '\n', 't', 'e', 'x', 't', '\n']
def docOpenFront : List Char := ['-', '-', '-', '\n', 'a', ':', ' ', '1', '\n']
def outOpenFront : List Char := ['-', '-', '-', '\n', 'a', ':', ' ', '1', '\n', '-', '-', '-', '\n']
def docBlankCfg : List Char := ['`', '`', '`', 's', 'c', 'r', 'u', 't', ' ', '{', ' ', ' ', '}', '\n', '$', ' ', 'x', '\n', '`', '`', '`', '\n']
def out2BlankCfg : List Char := ['`', '`', '`', 's', 'c', 'r', 'u', 't', '\n', '$', ' ', 'x', '\n', '`', '`', '`', '\n']
def docStrayCr : List Char := ['a', '\r', '\r', '\n', '`', '`', '`', 's', 'c', 'r', 'u', 't', '\n', '$', ' ', 'x', '\n', '`', '`', '`', '\n']
def out1StrayCr : List Char := ['a', '\r', '\n', '`', '`', '`', 's', 'c', 'r', 'u', 't', '\n', '$', ' ', 'x', '\n', '`', '`', '`', '\n']
def out2StrayCr : List Char := ['a', '\n', '`', '`', '`', 's', 'c', 'r', 'u', 't', '\n', '$', ' ', 'x', '\n', '`', '`', '`', '\n']
def genX : List Char := ['$', ' ', 'x', '\n']
def docNormal : List Char := ['-', '-', '-', '\n', 'a', ':', ' ', '1', '\n', '-', '-', '-', '\n', '#', ' ', 'T', '\n', '\n', '`', '`', '`', '`', 's', 'c', 'r', 'u', 't', ' ', '{', ' ', 't', 'i', 'm', 'e', 'o', 'u', 't', ':', ' ', '5', 's', '}', '\n', '#', ' ', 'c', '\n', '$', ' ', 'x', '\n', 'o', 'l', 'd', '\n', '`', '`', '`', '`', '\n', '`', '`', '`', 'p', 'y', '\n', '$', ' ', 'n', 'o', '\n', '`', '`', '`', '\n', 'e', 'n', 'd']
def outNormal : List Char := ['-', '-', '-', '\n', 'a', ':', ' ', '1', '\n', '-', '-', '-', '\n', '#', ' ', 'T', '\n', '\n', '`', '`', '`', 's', 'c', 'r', 'u', 't', ' ', '{', 't', 'i', 'm', 'e', 'o', 'u', 't', ':', ' ', '5', 's', '}', '\n', '#', ' ', 'c', '\n', '$', ' ', 'x', '\n', 'n', 'e', 'w', '\n', '`', '`', '`', '\n', '`', '`', '`', 'p', 'y', '\n', '$', ' ', 'n', 'o', '\n', '`', '`', '`', '\n', 'e', 'n', 'd', '\n']
def genNew : List Char := ['$', ' ', 'x', '\n', 'n', 'e', 'w', '\n']

/-- Repaired by fix cdbfbca (was harness class `C10:front-matter-empty-gains-blank-line`): a
front-matter without lines is written back as it is. -/
theorem C10_front_matter_empty_kept :
    generateUpdate scrut docEmptyFront [some genX] = .ok docEmptyFront := by rfl

/-- DEVIATION (harness class `C10:front-matter-unterminated-gains-delimiter`) -/
theorem C10_front_matter_unterminated_fails_on_witness :
    generateUpdate scrut docOpenFront [some genX] = .ok outOpenFront := by rfl

/-- Repaired by fix cdbfbca (was harness class `C10:not-idempotent-blank-inline-config`): a
configuration of white space only is written as none, and the second update changes nothing. -/
theorem C10_blank_config_idempotent :
    generateUpdate scrut docBlankCfg [some genX] = .ok out2BlankCfg ∧
    generateUpdate scrut out2BlankCfg [some genX] = .ok out2BlankCfg := by
  refine ⟨by rfl, by rfl⟩

/-- DEVIATION (harness classes `C10:not-idempotent-stray-carriage-return`,
`C10:stray-carriage-return-dropped`) -/
theorem C10_not_idempotent_stray_cr_witness :
    generateUpdate scrut docStrayCr [some genX] = .ok out1StrayCr ∧
    generateUpdate scrut out1StrayCr [some genX] = .ok out2StrayCr ∧ out2StrayCr ≠ out1StrayCr := by
  refine ⟨by rfl, by rfl, by decide⟩

/-- a normal document: front-matter, title, a four-backtick block with configuration and comment,
a foreign block, a last line without terminator -/
theorem C10_example_document :
    generateUpdate scrut docNormal [some genNew] = .ok outNormal := by rfl

/-- the guard of `C10_outside_preserved_partial` holds for it -/
example : ∃ toks, tokenize scrut (splitLines docNormal) = .ok toks ∧
    frontClosed (splitLines docNormal).length 0 toks = true := by
  refine ⟨_, by rfl, by rfl⟩

/-- `AllSame` is satisfiable by token streams with different line numbers -/
example : AllSame [.line 0 ['a'], .test ['s'] [] [(1, ['#'])] [(2, ['x'])]]
    [.line 5 ['a'], .test ['s'] [] [(7, ['#'])] [(8, ['y']), (9, ['z'])]] :=
  .cons rfl (.cons ⟨rfl, rfl, rfl, rfl⟩ .nil)

def docOneBlock : List Char := ['`', '`', '`', 's', 'c', 'r', 'u', 't', '\n', '$', ' ', 'x', '\n', '`', '`', '`', '\n']
def genComment : List Char := ['#', ' ', 'c', '\n', '$', ' ', 'x', '\n']
def out1Comment : List Char := ['`', '`', '`', 's', 'c', 'r', 'u', 't', '\n', '#', ' ', 'c', '\n', '$', ' ', 'x', '\n', '`', '`', '`', '\n']
def out2Comment : List Char := ['`', '`', '`', 's', 'c', 'r', 'u', 't', '\n', '#', ' ', 'c', '\n', '#', ' ', 'c', '\n', '$', ' ', 'x', '\n', '`', '`', '`', '\n']

/-- `GenOK` is needed: a generated text that starts with a comment line is read back as a comment
in front of the code, and the next update writes it twice.  (No text of `generate_testcase` starts
like that.) -/
theorem C10_idempotent_needs_GenOK :
    generateUpdate scrut docOneBlock [some genComment] = .ok out1Comment ∧
    generateUpdate scrut out1Comment [some genComment] = .ok out2Comment ∧ out2Comment ≠ out1Comment := by
  refine ⟨by rfl, by rfl, by decide⟩

/-- the guards of `C10_idempotent` hold for the example document and its generated text -/
example : GenOK genNew := ⟨by rfl, by rfl⟩
example : ∀ l ∈ splitLines docNormal, l.getLast? ≠ some '\r' := by decide
example : ∀ lang, scrut.contains lang = true → LangOK lang := by
  intro lang h
  have : lang = ['s', 'c', 'r', 'u', 't'] := by simpa [scrut] using h
  subst this
  intro c hc
  simp only [List.mem_cons, List.not_mem_nil, or_false] at hc
  rcases hc with rfl | rfl | rfl | rfl | rfl <;> decide

/-! ## the integrated model of `scrut update` (`Model/UpdateRun.lean`) -/

section Integrated
open Scrut.UpdateRun Scrut.UpdateRun.Witness
open Scrut.EscLemmas (AsciiContract)

/-- `updateDocumentBytes` is `updateDocument` on what `read_file` returns. -/
theorem C10_run_bytes (isOther : Char → Bool) (bytes : List UInt8) (runs : List TestRun.Ran) (content : List Char)
    (hread : TestRun.readFile bytes = .ok content) :
    updateDocumentBytes isOther bytes runs = updateDocument isOther content runs :=
  updateDocumentBytes_of_read isOther bytes runs content hread

/-- The file is overwritten with `generate_update` of the document and the texts of the judged
tests: one text per test, none missing, each `GenOK`; the text differs from the document. -/
theorem C10_run_unfolded (isOther : Char → Bool) (content : List Char) (runs : List TestRun.Ran)
    (text : List Char) (results : List Gen.UpdResult)
    (h : updateDocument isOther content runs = .updated text results) :
    ∃ gens, docGens isOther content runs = some gens ∧ gens ≠ [] ∧ gens.length = results.length ∧
      (∀ (k : Nat) (x : Option (List Char)), gens[k]? = some x → ∃ g, x = some g ∧ GenOK g) ∧
      generateUpdate [Gen.language] content gens = .ok text ∧ text ≠ content :=
  updateDocument_updated h

/-! ### U1: passing documents

FALSE as first stated (the full-strength statement is kept here):

    theorem C10_run_passing_untouched (isOther) (content) (runs) (hp : AllPass content runs) :
        ∃ rs, updateDocument isOther content runs = .unchanged rs
-/

/-- DEVIATION (finding `C10:passing-document-rewritten`): the only test of the document passes,
and the file is written: its last line gains a line feed. -/
theorem C10_run_passing_untouched_fails_on_witness :
    AllPass docNoLf [runA] ∧
    ∀ isOther, updateDocument isOther docNoLf [runA] = .updated (docNoLf ++ ['\n']) [.ok] :=
  ⟨allPass_noLf, noLf_written⟩

/-- Repaired by fix cfef990 (was finding `C10:expectation-read-as-continuation`, witness
`C10_run_passing_corrupts_command_witness`: the passing test `$ x` / `[1]` / `> a` was rewritten to `$ x` /
`> a` / `[1]`, whose command is `x⏎a`): the text of a passing test keeps the exit code line -- also `[0]` -- in
front of an expectation line that starts with `> `, so these documents are not written at all. -/
theorem C10_run_passing_cont_kept :
    AllPass docCont [runCont] ∧
    (∀ isOther, updateDocument isOther docCont [runCont] = .unchanged [.ok]) ∧
    (∀ isOther, updateDocument isOther docCont0 [runCont0] = .unchanged [.ok]) ∧
    (parseMarkdown TestRun.parseEnv docCont).toOption.map (fun p => p.tests.map (·.command)) = some [[['x']]] :=
  ⟨allPass_cont, cont_kept, cont0_kept, by decide⟩

/-- What is true of every passing document: if it is written at all, the text written is the
re-rendering of the document from its own lines (`passText`: command, expectation lines as written,
exit code) – it does not depend on the outputs –, and every result is `Ok`. -/
theorem C10_run_passing_rerendered (isOther : Char → Bool) (content : List Char) (runs : List TestRun.Ran)
    (hp : AllPass content runs) (text : List Char) (results : List Gen.UpdResult)
    (h : updateDocument isOther content runs = .updated text results) :
    ∃ tests, docTests content = some tests ∧
      generateUpdate [Gen.language] content (tests.map passText) = .ok text ∧
      results = tests.map (fun _ => .ok) :=
  run_passing_rerendered isOther content runs hp text results h

/-- **Passing documents stay untouched** – under the decidable guard `Settled`: the document is
written the way `update` writes passing tests. -/
theorem C10_run_passing_untouched_partial (isOther : Char → Bool) (content : List Char) (runs : List TestRun.Ran)
    (hp : AllPass content runs) (hs : Settled content) :
    ∃ rs, updateDocument isOther content runs = .unchanged rs :=
  run_passing_untouched isOther content runs hp hs

/-- … and the same about the bytes of the file. -/
theorem C10_run_passing_untouched_bytes_partial (isOther : Char → Bool) (bytes : List UInt8) (content : List Char)
    (runs : List TestRun.Ran) (hread : TestRun.readFile bytes = .ok content)
    (hp : AllPass content runs) (hs : Settled content) :
    ∃ rs, updateDocumentBytes isOther bytes runs = .unchanged rs := by
  rw [updateDocumentBytes_of_read isOther bytes runs content hread]
  exact run_passing_untouched isOther content runs hp hs

/-- the guards hold for the witness document with its final line feed; they fail without it -/
example : AllPass docLf [runA] ∧ Settled docLf ∧ ¬ Settled docNoLf := ⟨allPass_lf, settled_lf, noLf_not_settled⟩
example (isOther : Char → Bool) : ∃ rs, updateDocument isOther docLf [runA] = .unchanged rs :=
  C10_run_passing_untouched_partial isOther docLf [runA] allPass_lf settled_lf

/-! ### U2: lines outside scrut blocks, block structure -/

/-- Everything outside scrut blocks is written back line by line, in order; every scrut block is
replaced by one block (`Rewritten`, with the texts `docGens` of the judged tests). -/
theorem C10_run_outside_preserved (isOther : Char → Bool) (content : List Char) (runs : List TestRun.Ran)
    (text : List Char) (results : List Gen.UpdResult)
    (h : updateDocument isOther content runs = .updated text results) :
    ∃ gens, docGens isOther content runs = some gens ∧
      Rewritten [Gen.language] gens false 0 (splitLines content) text :=
  run_outside_preserved h

/-- A document that `update` writes has no unterminated front-matter: the front-matter is recognised only in
front of the first content and an unterminated one extends to the end of the document, so there is no test
behind it and the document is skipped ("no testcases").  The open finding
`C10:front-matter-unterminated-gains-delimiter` is about `generate_update` as a library function; the command
`scrut update` cannot reach it.  The guard `FrontClosed` of the theorems below is therefore dropped. -/
theorem C10_run_front_closed (isOther : Char → Bool) (content : List Char) (runs : List TestRun.Ran)
    (text : List Char) (results : List Gen.UpdResult)
    (h : updateDocument isOther content runs = .updated text results) : FrontClosed content :=
  frontClosed_of_updated h

/-- The strict reading for documents whose front-matter is closed (every document that is written:
`C10_run_front_closed`). -/
theorem C10_run_outside_preserved_partial (isOther : Char → Bool) (content : List Char) (runs : List TestRun.Ran)
    (text : List Char) (results : List Gen.UpdResult)
    (h : updateDocument isOther content runs = .updated text results) (hf : FrontClosed content) :
    ∃ gens, docGens isOther content runs = some gens ∧
      Rewritten [Gen.language] gens true 0 (splitLines content) text :=
  run_outside_preserved_strict h hf

/-- The written document is tokenized into the same tokens in the same order (number and order of
blocks, language, configuration as written, comment lines); the code lines of a rewritten block are
the lines of the text of its outcome.  The guards `LangOK` and `GenOK` of `C10_same_commands` are
discharged. -/
theorem C10_run_same_tokens (isOther : Char → Bool) (content : List Char) (runs : List TestRun.Ran)
    (text : List Char) (results : List Gen.UpdResult)
    (h : updateDocument isOther content runs = .updated text results)
    (hcr : NoStrayCR content) :
    ∃ gens, docGens isOther content runs = some gens ∧ Reread gens 0 (docToks content) (docToks text) :=
  run_reread h hcr (frontClosed_of_updated h)

/-! ### U3: same commands

FALSE as first stated (the full-strength statement is kept here):

    theorem C10_run_same_commands … (h : updateDocument isOther content runs = .updated text results)
        (hp : parseMarkdown parseEnv content = .ok p) (hp' : parseMarkdown parseEnv text = .ok p') :
        p'.tests.map (·.shellExpression) = p.tests.map (·.shellExpression)
-/

/-- DEVIATION, the one left (root cause of the open finding `C10:stray-carriage-return-dropped`): the command
line `$ x␍␍⏎` is the command `x␍` (`str::lines()` strips one carriage return); the passing test is written
back as `$ x␍⏎`, which reads as the command `x`.  The document violates the guard `NoStrayCR`. -/
theorem C10_run_same_commands_fails_on_witness :
    (∀ isOther, updateDocument isOther docCrCmd [runA] = .updated docCrCmdOut [.ok]) ∧
    (parseMarkdown TestRun.parseEnv docCrCmd).toOption.map (fun p => p.tests.map (·.shellExpression)) = some [['x', '\r']] ∧
    (parseMarkdown TestRun.parseEnv docCrCmdOut).toOption.map (fun p => p.tests.map (·.shellExpression)) = some [['x']] ∧
    ¬ NoStrayCR docCrCmd :=
  ⟨crCmd_written, crCmd_commands.1, crCmd_commands.2, crCmd_strayCR⟩

/-- Repaired by fix 961e96b (was finding `C10:trailing-empty-continuation-dropped`, the former witness of
`C10_run_same_commands_fails_on_witness`: `$ x` / `> ` was written back as `$ x`): the command `x⏎` keeps its
empty continuation line. -/
theorem C10_run_trailing_continuation_kept :
    updateDocument ctrl docTrail [runA] = .updated docTrailOut [.malformed [.unmatched 0, .unexpected [0]]] ∧
    (parseMarkdown TestRun.parseEnv docTrail).toOption.map (fun p => p.tests.map (·.shellExpression)) = some [['x', '\n']] ∧
    (parseMarkdown TestRun.parseEnv docTrailOut).toOption.map (fun p => p.tests.map (·.shellExpression)) = some [['x', '\n']] :=
  ⟨trail_written, trail_commands.1, trail_commands.2⟩

/-- **Same commands, at the level of the parser**: if the written document parses, it parses to
the same command lines (hence the same shell expressions), test by test – for documents without
stray carriage return; every command (also the empty continuation line at its
end), every expectation line (also `> x`).  Missing for the full statement: the guard `NoStrayCR` cannot be
dropped (`C10_run_same_commands_fails_on_witness`).  (The guard `FrontClosed` it had is dropped:
`C10_run_front_closed`.) -/
theorem C10_run_same_commands_partial (isOther : Char → Bool) (hC : AsciiContract isOther) (content : List Char)
    (runs : List TestRun.Ran) (text : List Char) (results : List Gen.UpdResult)
    (h : updateDocument isOther content runs = .updated text results)
    (hcr : NoStrayCR content) (p p' : Parsed)
    (hp : parseMarkdown TestRun.parseEnv content = .ok p) (hp' : parseMarkdown TestRun.parseEnv text = .ok p') :
    p'.tests.map (·.command) = p.tests.map (·.command) :=
  run_same_commands_final hC h hcr hp hp'

/-- the guards hold for an ordinary document (title, blank line, one block, text behind it), whose
written form parses -/
example : updateDocument ctrl docOrd [runNew] = .updated docOrdOut [.malformed [.unmatched 0, .unexpected [0]]] ∧
    AsciiContract ctrl ∧ NoStrayCR docOrd ∧
    parseMarkdown TestRun.parseEnv docOrd = .ok parsedOrd ∧
    (parseMarkdown TestRun.parseEnv docOrdOut).toOption.isSome = true :=
  ⟨ord_written, ctrl_contract, ord_noStrayCR, parse_ord, by decide⟩

/-- … and for the document whose command ends in an empty continuation line (the former witness) -/
example : NoStrayCR docTrail ∧
    (parseMarkdown TestRun.parseEnv docTrail).toOption.isSome = true ∧
    (parseMarkdown TestRun.parseEnv docTrailOut).toOption.isSome = true := by decide

/-! ### the two repairs of `generate_testcase`, for all inputs -/

/-- **The shell expression round trip** (fix 961e96b): for EVERY command text `cmd` -- the empty one, one
ending in line feeds, any characters -- `generate_testcase_expression` does not panic and returns the text of
the lines `exprLines cmd` (`$ ` + the first piece of `split('\n')`, `> ` + every further piece; none holds a
line feed); the line parser between two tests (`Clean s`), fed these lines, takes them all as command lines and
holds the command whose `join("\n")` -- the `shell_expression` -- is exactly `cmd`, no expectation and no exit
code.  (Through `str::lines()` of a whole document a piece ending in a carriage return loses it: the guard
`NoStrayCR` / `hcr` of the document-level theorems.) -/
theorem C10_expression_roundtrip (expOk : Line → Bool) (s : LineParser.State Cfg) (hc : Markdown.Clean s)
    (cmd : List Char) (k : Nat) :
    Gen.expression cmd = some (unlines (exprLines cmd)) ∧ (∀ l ∈ exprLines cmd, '\n' ∉ l) ∧
    ∃ s', addAll expOk s (number k (exprLines cmd)) = .ok s' ∧
      s'.command = Gen.splitNl cmd [] ∧ LineParser.joinNl s'.command = cmd ∧
      s'.expectations = [] ∧ s'.exitCode = none ∧ s'.inCommand = true ∧ s'.testcases = s.testcases :=
  ⟨expression_exprLines cmd, exprLines_no_nl cmd, expression_roundtrip expOk s hc cmd k⟩

/-- **The exit code line goes first where it has to** (fix cfef990), `generate_testcase` for a test with
expectations, any command, any expectations, any diff, any exit code:
* `Ok`: if the first expectation text starts with `> ` (`contHead`), the line directly behind the command
  lines `ex` is `[code]` (also `[0]`), then the texts; otherwise the text is what the old placement gave:
  the texts, then `[code]` iff `code ≠ 0`;
* `MalformedOutput(d)`: the same with `contFirst`: the first entry written is a RETAINED text that starts
  with `> ` (a generated first line never does: C09's `C09_line_roundtrip`). -/
theorem C10_exit_code_first (m : Esc.Mode) (isOther : Char → Bool) (cmd : List Char) (origs : List (List Char))
    (lines : List (List UInt8)) (d : List Diff.DL) (code : Int) :
    ∃ ex, Gen.expression cmd = some ex ∧
    Gen.generateTestcaseUpd m isOther cmd origs .ok lines code =
      some (if GenLemmas.contHead origs then ex ++ Gen.exitCodeLine code ++ origs.flatMap Gen.assureNewlineC
            else ex ++ origs.flatMap Gen.assureNewlineC ++ Gen.exitCodeOpt code) ∧
    Gen.generateTestcaseUpd m isOther cmd origs (.malformed d) lines code =
      (GenLemmas.slotsText m isOther origs lines (GenLemmas.slots d)).map (fun b =>
        if GenLemmas.contFirst origs (GenLemmas.slots d) then ex ++ Gen.exitCodeLine code ++ b
        else ex ++ b ++ Gen.exitCodeOpt code) := by
  obtain ⟨ex, hex⟩ := GenLemmas.expression_isSome cmd
  exact ⟨ex, hex, GenLemmas.generateTestcaseUpd_ok_text m isOther cmd ex origs lines code hex,
    GenLemmas.generateTestcaseUpd_malformed_text m isOther cmd ex origs lines d code hex⟩

/-- … and in the integrated model the placement is that of a passing test whatever the result: the text of an
outcome is the command lines, then `afterLines newOrigs code` = `[code]` in front iff the first written text
starts with `> `, for the written expectation texts `newOrigs` (retained ones and generated ones). -/
theorem C10_run_outcome_lines (isOther : Char → Bool) (hC : AsciiContract isOther) (u : UTest) (r : TestRun.Ran)
    (res : Gen.UpdResult) (g : List Char) (h : outcomeText isOther u r = .ok (res, some g))
    (horigs : ∀ o ∈ u.origs, '\n' ∉ o) :
    ∃ newOrigs, g = unlines (exprLines u.cmd ++ afterLines newOrigs r.code) ∧
      ∀ o ∈ newOrigs, o ∈ u.origs ∨ ∃ l, Newline.IsLine l ∧ Gen.expectationLine .unicode isOther l = some o :=
  outcome_lines hC h horigs

/-- **The written block keeps its command** (the statement the deleted witness
`C10_run_passing_corrupts_command_witness` refuted): whatever the expectation texts `newOrigs` written behind
the command lines are -- also `> x` -- and whatever the exit code, if the line parser (between two tests)
accepts the lines `exprLines cmd ++ afterLines newOrigs code`, the command it reads is `cmd`, and the
lines behind the command lines are read as expectations and exit code: none is taken for a continuation. -/
theorem C10_written_block_command (expOk : Line → Bool) (s s' : LineParser.State Cfg) (hc : Markdown.Clean s)
    (cmd : List Char) (newOrigs : List (List Char)) (code : Int) (k : Nat)
    (h : addAll expOk s (number k (exprLines cmd ++ afterLines newOrigs code)) = .ok s') :
    s'.command = Gen.splitNl cmd [] ∧ LineParser.joinNl s'.command = cmd ∧
      s'.expectations = expLines (afterLines newOrigs code) ∧
      s'.exitCode = (exitCodes (afterLines newOrigs code)).head? :=
  written_block_command expOk s s' hc cmd newOrigs code k h

/-- non-vacuity: the state of a fresh line parser is `Clean`; the lines of the empty command, of `x⏎`; the lines
behind the command for the texts `> a` (exit code 0 and 1), `a` (exit code 0 and 1) and none; the line parser
accepts `$ x` / `[0]` / `> a` and reads the command `x` -/
example : Markdown.Clean (LineParser.State.new false : LineParser.State Cfg) := ⟨rfl, rfl, rfl, rfl, rfl⟩
example : exprLines [] = [['$', ' ']] ∧ exprLines ['x', '\n'] = [['$', ' ', 'x'], ['>', ' ']] ∧
    afterLines [['>', ' ', 'a']] 0 = [['[', '0', ']'], ['>', ' ', 'a']] ∧
    afterLines [['>', ' ', 'a']] 1 = [['[', '1', ']'], ['>', ' ', 'a']] ∧
    afterLines [['a']] 0 = [['a']] ∧ afterLines [['a']] 1 = [['a'], ['[', '1', ']']] ∧ afterLines [] 0 = [] := by decide
/-- the hypotheses of `C10_run_outcome_lines` hold for the test `$ x` / `[1]` / `> a` (the expectation texts of a
test read from a document are lines of the document) on its passing run; its text -/
example : outcomeText ctrl utCont runCont = .ok (.ok, some ("$ x\n[1]\n> a\n".toList)) ∧
    (∀ o ∈ utCont.origs, '\n' ∉ o) := by
  refine ⟨outcomeText_passes ctrl utCont runCont ⟨([62, 32, 97, 10], []), by decide, judge_cont⟩ _ (by rfl), by decide⟩
example : ∃ s', addAll (fun _ => true) (LineParser.State.new false) (number 0 (exprLines ['x'] ++ afterLines [['>', ' ', 'a']] 0)) = .ok s' ∧
    s'.command = [['x']] ∧ s'.expectations = [['>', ' ', 'a']] ∧ s'.exitCode = some 0 := ⟨_, rfl, rfl, rfl, rfl⟩

/-! ### U4: idempotence of the composition

The full-strength statement (no guard) is false where the open findings
`C10:not-idempotent-stray-carriage-return`, `C10:not-idempotent-retained-quantified-expectations` and the
stray-carriage-return witness above say so (`C10:config-leading-white-space-changes-configuration` is repaired:
fix 15b47d2). -/

/-- The second update writes nothing, provided it generates the same texts as the first
(`C10_idempotent` through the composition; the count of tests is proved to be the same). -/
theorem C10_run_idempotent_same_texts_partial (isOther : Char → Bool) (content : List Char)
    (runs : List TestRun.Ran) (text : List Char) (results : List Gen.UpdResult)
    (h : updateDocument isOther content runs = .updated text results)
    (hcr : NoStrayCR content)
    (hsame : docGens isOther text runs = docGens isOther content runs) :
    ∃ rs, updateDocument isOther text runs = .unchanged rs :=
  run_idempotent_of_same_texts h hcr (frontClosed_of_updated h) hsame

/-- the hypothesis holds for the ordinary document: the second run generates the text the first wrote -/
example : docGens ctrl docOrdOut [runNew] = docGens ctrl docOrd [runNew] := ord_sameTexts

/-- **`parseFlow` does not see blanks behind the opening brace**: for EVERY text `t` between the braces of a
fence line, the text without its leading spaces and tabs deserializes to the same result (a configuration, an
error, a panic, or "outside the modelled subset"). -/
theorem C10_flow_blanks_skipped (t : List Char) :
    Yaml.parseFlow ('{' :: (Yaml.skipWs t ++ ['}'])) = Yaml.parseFlow ('{' :: (t ++ ['}'])) :=
  Yaml.parseFlow_skipWs t

/-- **The configuration text read back**: the fence line `update` writes for a block (at least three backticks, a
language `LangOK`, the configuration lines `cfg`) is read by the fence recogniser with the configuration text
`writtenCfg cfg`: none if `cfg` holds white space only, otherwise its text without the leading spaces and tabs
(`trim_start_matches([' ', '\t'])`; until fix 15b47d2: `trim_start`, Unicode `White_Space`). -/
theorem C10_config_text_read_back (n : Nat) (hn : 3 ≤ n) (lang : Line) (hl : LangOK lang) (cfg : Numbered) :
    ∃ config', extractCodeBlockStart (backticks n ++ lang ++ configSuffix cfg) = .ok (some (backticks n, lang, config')) ∧
      ∀ j, (cfgLines j config').map (·.2) = writtenCfg cfg := by
  obtain ⟨c, h1, _, h3⟩ := fence_line_reread_cfg n hn lang hl cfg
  exact ⟨c, by rw [extractCodeBlockStart_eq, h1], h3⟩

/-- … and the test configuration parsed from it is the one parsed from the original text (the spaces and tabs
dropped are what YAML skips behind the brace), provided the original text is read at all (no YAML error).
(Until fix 15b47d2 the guard was "the white space dropped is spaces and tabs".)  The hypothesis matters for a
text of Unicode white space only, which is written back as no configuration: see the example below; where the
text is not white space only it is not needed (`inlineCfg_written_nonwhite`). -/
theorem C10_config_read_back (cfg cfg' : Numbered) (hw : cfg'.map (·.2) = writtenCfg cfg)
    (hr : (TestRun.inlineCfg (some (cfgOf cfg))).isSome = true) :
    TestRun.inlineCfg (some (cfgOf cfg')) = TestRun.inlineCfg (some (cfgOf cfg)) :=
  inlineCfg_written hw hr

/-- the hypothesis holds for `{<U+00A0>output_stream: stderr}`, whose text is read back with the no-break space … -/
example : writtenCfg [(0, cfgNbsp)] = [cfgNbsp] ∧ (TestRun.inlineCfg (some (cfgOf [(0, cfgNbsp)]))).isSome = true := by
  decide

/-- … and cannot be dropped: `{<U+00A0>}` is a YAML error and is written back as no configuration, which is read -/
example : writtenCfg [(0, ['\u00a0'])] = [] ∧ TestRun.inlineCfg (some (cfgOf [(0, ['\u00a0'])])) = none ∧
    TestRun.inlineCfg (some (cfgOf [])) = some {} := inlineCfg_white_unread

/-- **The written document parses** (the hypothesis "IF the written document parses" of
`C10_run_same_commands_partial`, discharged under the guards of U4). -/
theorem C10_run_written_parses_partial (isOther : Char → Bool) (hC : AsciiContract isOther) (content : List Char)
    (runs : List TestRun.Ran) (text : List Char) (results : List Gen.UpdResult)
    (h : updateDocument isOther content runs = .updated text results)
    (hcr : NoStrayCR content) (p : Parsed)
    (hp : parseMarkdown TestRun.parseEnv content = .ok p)
    (hcodes : ∀ r ∈ runs, 0 ≤ r.code ∧ r.code ≤ 255)
    (hq : QuantFree content results) :
    ∃ p', parseMarkdown TestRun.parseEnv text = .ok p' ∧ p'.tests.map (·.command) = p.tests.map (·.command) := by
  obtain ⟨p', hp'⟩ := written_parses hC h hcr hp hcodes hq
  exact ⟨p', hp', run_same_commands_final hC h hcr hp hp'⟩

/-- REGRESSION (finding `C10:config-leading-white-space-changes-configuration`, repaired by fix 15b47d2; formerly
`C10_run_idempotent_configs_fail_on_witness`): the document ```` ```scrut {<U+00A0>output_stream: stderr} ```` /
`$ x` / `a` PASSES on the run that prints `a` to STDOUT and `b` to STDERR (the key `<U+00A0>output_stream` is
unknown and ignored: STDOUT is validated).  The configuration suffix `update` writes for it keeps the no-break
space (spaces and tabs in front of it are dropped), so the document is its own update: nothing is written.  With
a blank in front of the no-break space the document is written, as the former one: the configuration read back
is the same (STDOUT), and the second update writes nothing.  On a run that prints `b` to STDOUT the test fails
and is rewritten to `b` under the SAME fence line, read with the same configuration, and the second update
writes nothing.  (Until the fix: written as `{output_stream: stderr}`, read with ANOTHER configuration, failed on
the same run and was written a second time; `configSuffixOld` keeps the record.) -/
theorem C10_run_config_white_space_kept :
    AllPass docNbsp [runAB] ∧
    configSuffix [(0, cfgNbsp)] = ' ' :: '{' :: (cfgNbsp ++ ['}']) ∧
    configSuffix [(0, ' ' :: '\t' :: cfgNbsp)] = ' ' :: '{' :: (cfgNbsp ++ ['}']) ∧
    (∀ isOther, updateDocument isOther docNbsp [runAB] = .unchanged [.ok]) ∧
    (∀ isOther, updateDocument isOther docSpNbsp [runAB] = .updated docNbsp [.ok]) ∧
    (docTests docSpNbsp).map (·.map (·.test.cfg.outputStream)) = some [some .stdout] ∧
    (docTests docNbsp).map (·.map (·.test.cfg.outputStream)) = some [some .stdout] ∧
    updateDocument ctrl docNbsp [runBA] = .updated docNbspB [.malformed [.unmatched 0, .unexpected [0]]] ∧
    (docTests docNbspB).map (·.map (·.test.cfg.outputStream)) = some [some .stdout] ∧
    (∀ isOther, updateDocument isOther docNbspB [runBA] = .unchanged [.ok]) :=
  ⟨allPass_nbsp, nbsp_suffix_kept.1, nbsp_suffix_kept.2, nbsp_unchanged, spNbsp_written,
    by rw [docTests_spNbsp]; rfl, by rw [docTests_nbsp]; rfl, nbsp_rewritten, by rw [docTests_nbspB]; rfl,
    nbspB_unchanged⟩

/-- the record of the behaviour until fix 15b47d2: the suffix written with `trim_start()` lost the no-break
space, and the document written with it is read with ANOTHER configuration (STDERR), fails on the run the original
passes and is written a second time -/
theorem C10_run_config_white_space_dropped_before_fix :
    configSuffixOld [(0, cfgNbsp)] = ' ' :: '{' :: (cfgNbsp.drop 1 ++ ['}']) ∧
    (docTests docNbspOut).map (·.map (·.test.cfg.outputStream)) = some [some .stderr] ∧
    updateDocument ctrl docNbspOut [runAB] = .updated docNbspOut2 [.malformed [.unmatched 0, .unexpected [0]]] ∧
    docNbspOut2 ≠ docNbspOut :=
  ⟨nbsp_suffix_old, by rw [docTests_nbspOut]; rfl, nbspOut_written, by decide⟩

/-- **Idempotence**: updating the updated document with the same runs writes nothing – under the decidable
guards named in the header, all of them about the ORIGINAL document and the runs: no stray carriage return,
exit codes 0..255, no retained quantified expectation.  (The hypothesis `SameConfigs` about the written document
is discharged; the guard `FrontClosed` is dropped: `C10_run_front_closed`; the guards `CmdClosed` / `NoContLike`
it had before fixes 961e96b / cfef990 and the guard `CfgBlankLed` it had before fix 15b47d2 are dropped.) -/
theorem C10_run_idempotent_partial (isOther : Char → Bool) (hC : AsciiContract isOther) (content : List Char)
    (runs : List TestRun.Ran) (text : List Char) (results : List Gen.UpdResult)
    (h : updateDocument isOther content runs = .updated text results)
    (hcr : NoStrayCR content) (p : Parsed)
    (hp : parseMarkdown TestRun.parseEnv content = .ok p)
    (hcodes : ∀ r ∈ runs, 0 ≤ r.code ∧ r.code ≤ 255)
    (hq : QuantFree content results) :
    ∃ rs, updateDocument isOther text runs = .unchanged rs :=
  run_idempotent_final hC h hcr hp hcodes hq

/-- every hypothesis holds for the ordinary document, so its second update writes nothing -/
example : ∃ rs, updateDocument ctrl docOrdOut [runNew] = .unchanged rs :=
  C10_run_idempotent_partial ctrl ctrl_contract docOrd [runNew] docOrdOut _ ord_written ord_noStrayCR
    parsedOrd parse_ord ord_codes ord_quantFree

/-- … and for a document whose inline configuration starts with a space, which `update` drops
(```` ```scrut { output_stream: stderr} ```` is written ```` ```scrut {output_stream: stderr} ````): the second
update writes nothing -/
example : ∃ rs, updateDocument ctrl docNbspOut2 [runAB] = .unchanged rs := by
  cases hp : parseMarkdown TestRun.parseEnv docSp with
  | error e => have := parse_sp; rw [hp] at this; cases this
  | ok p =>
    exact C10_run_idempotent_partial ctrl ctrl_contract docSp [runAB] docNbspOut2 _ sp_written sp_noStrayCR
      p hp sp_codes sp_quantFree

/-- … and for the document whose inline configuration starts with a no-break space (the former counterexample) -/
example : ∃ rs, updateDocument ctrl docNbspB [runBA] = .unchanged rs := by
  cases hp : parseMarkdown TestRun.parseEnv docNbsp with
  | error e => have := parse_nbsp; rw [hp] at this; cases this
  | ok p =>
    exact C10_run_idempotent_partial ctrl ctrl_contract docNbsp [runBA] docNbspB _ nbsp_rewritten nbsp_noStrayCR
      p hp nbsp_codes nbsp_quantFree

end Integrated

end Scrut.Props.C10
