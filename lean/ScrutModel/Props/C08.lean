import ScrutModel.Lemmas.Grammar
/-!
# C08 — Expectation lines parse per the documented grammar and print back equivalently

Model: `Scrut.Grammar` (`Model/Grammar.lean`). `extract`/`parse` are `ExpectationMaker::extract`/
`parse` with the regex of `RuleRegistry::to_expectation_regex` written out as the string function
it denotes (lazy prefix, suffix group tried at every position, alternation in source order,
capture-count logic incl. the index panic); `toExpressionString` is `Rule::to_expression_string`.
Parameters (`Params`): `isWhite` = the regex crate's `\s` (only `isWhite ' '` is ever assumed),
`make` = `make`+`unmake` of the `escaped`, `glob` and `regex` rules, and the escaper
(`escPrintable`, `hasUnprintable`). All theorems hold for every value of the parameters.

Scope: a line is a text without `'\n'` (callers hand over single lines). What the code does
otherwise is recorded by `C08_newline_out_of_scope` (it panics) and covered by the correspondence.

`Modifier W l p K Q` is the documented grammar, declaratively:
`l = p ++ [w] ++ "(" ++ K ++ Q ++ ")"`, `w` white space, `K` a documented kind name or empty,
`Q` one of `?`, `*`, `+` or empty, not both empty.

Round trip (after fixes 2c946ec and its partial revert): the canonical form of every expectation
reads back as `reread P e` -- `e` itself, except that an `equal` expectation with unprintable
content is deliberately written as `escaped` -- with the same quantifier, exactly when the rule
constructor reproduces the expression from the text it is handed
(`makeRule P (sourceKind P e) (sourceText P e) = some e.expr`, `C08_roundtrip`, `C08_roundtrip_iff`).
That is a contract on the rule constructors and the escaper, parameters here: for `equal` it says
the printable rendering is the text, for `escaped`/`glob` that unescaping inverts escaping
(C04/C11), for `regex` and `no-eol` -- which have no escaped syntax and are written through the
escaper for display -- that the printable rendering is the text (and, `regex`, that making is
idempotent). No guard on the shape of the text is left: `ends_like_modifier` over-approximates the
grammar (`C08_ends_like_modifier_sound`).
`EscapedRule::make` is modelled in two steps (`makeRule`): the Cram-compatibility strip of a
trailing ` (no-eol)` (`stripNoEol`, concrete) and the resolution of escape sequences
(`P.make .escaped`, parameter). Every text written under the `escaped` kind goes through
`guard_tailing_no_eol` (fix c1bf05c), so it never ends in ` (no-eol)` and the strip is the identity
on it (`C08_guard_never_stripped`); for everything written as `escaped` the contract is therefore
the pure escaper contract "resolving the escape sequences of the written text gives the bytes"
(`C08_roundtrip_escaped_iff`; regression example `C08_roundtrip_no_eol_guarded`, the former
witness `a<TAB> (no-eol) (equal)` of class `C08:escaped-no-eol-strip-roundtrip`).
The contract is FALSE today in one known situation (open finding):
* `C08:escaped-pattern-roundtrip`: a `regex` or `no-eol` expression with unprintable characters
  (under `--escaper ascii`: any non-ASCII character) is displayed with escape sequences and read
  back literally -- decidable guard `P.hasUnprintable e.expr = false`
  (`C08_roundtrip_noEol_guarded`), necessity `C08_roundtrip_noEol_iff`, witness `a<TAB> (no-eol)`
  (`C08_roundtrip_fails_on_escaped_pattern_witness`).
-/
namespace Scrut.Props.C08
open Scrut.Grammar

/-- **C08 (total)**: parsing a line never crashes and never reports an unknown kind; it fails only
with the error of a rule constructor, only when the line ends in a modifier naming the `escaped`,
`glob` or `regex` kind, and only because that constructor rejects the expression in front of the
modifier (`makeRule`: for `escaped` after dropping a trailing ` (no-eol)`). (`glob` rejects only
expressions carrying an inner ` (escaped)` marker with a malformed escape: a parameter here,
sampled by the harness.) -/
theorem C08_total (P : Params) (l : List Char) (hl : '\n' ∉ l) :
    (∃ e, parse P l = .ok e) ∨
    (parse P l = .error .makeError ∧ ∃ p K Q kind, Modifier P.isWhite l p K Q ∧
      lookupKind (orEqual K) = some kind ∧ (kind = .escaped ∨ kind = .glob ∨ kind = .regex) ∧
      makeRule P kind p = none) :=
  parse_total hl

/-- **C08 (grammar)**: the modifier recognised by the code is exactly the documented one: the
final ` (<kind><quantifier>)`, everything in front of the white-space character verbatim. -/
theorem C08_grammar (W : Char → Bool) (l p K : List Char) (Q : Option Char) (hl : '\n' ∉ l) :
    Modifier W l p K Q ↔ modifierOf W l = some (p, K, Q) :=
  modifier_iff hl

/-- what `extract` returns, by the recognised modifier: expression, kind (none = `equal`), quantifier -/
theorem C08_extract (W : Char → Bool) (l : List Char) (hl : '\n' ∉ l) :
    extract W l = .ok (match modifierOf W l with
      | some (p, K, Q) => (p, orEqual K, Q.toList)
      | none => (l, equalName, [])) :=
  extract_eq hl

/-- a line with a modifier: the named kind (or `equal`), made from the text in front of it, with
`?` optional, `*` optional and repeated, `+` repeated -/
theorem C08_modifier_parse (P : Params) (l p K : List Char) (Q : Option Char) (kind : Kind)
    (hl : '\n' ∉ l) (h : Modifier P.isWhite l p K Q) (hk : lookupKind (orEqual K) = some kind) :
    parse P l = match makeRule P kind p with
      | none => .error .makeError
      | some b => .ok ⟨kind, b, Q.toList == ['*'] || Q.toList == ['?'], Q.toList == ['*'] || Q.toList == ['+']⟩ :=
  parse_of_modifier hl h hk

/-- **C08 (otherwise equal)**: every other line -- also one ending in `()`, `(foo)`, `( )`,
`(glob)` without white space in front -- is an `equal` expectation for the whole line. -/
theorem C08_otherwise_equal (W : Char → Bool) (l : List Char) (hl : '\n' ∉ l)
    (h : ¬ ∃ p K Q, Modifier W l p K Q) : extract W l = .ok (l, equalName, []) :=
  extract_of_no_modifier hl h

theorem C08_otherwise_equal_parse (P : Params) (l : List Char) (hl : '\n' ∉ l)
    (h : ¬ ∃ p K Q, Modifier P.isWhite l p K Q) : parse P l = .ok ⟨.equal, utf8 l, false, false⟩ :=
  parse_of_no_modifier hl h

/-- **C08 (suffix uniqueness)**: a line decomposes in at most one way. -/
theorem C08_modifier_unique (W : Char → Bool) (l p p' K K' : List Char) (Q Q' : Option Char)
    (hl : '\n' ∉ l) (h : Modifier W l p K Q) (h' : Modifier W l p' K' Q') : p = p' ∧ K = K' ∧ Q = Q' := by
  have := ((modifier_iff hl).mp h).symm.trans ((modifier_iff hl).mp h')
  simpa using this

/-- no proper extension to the left of a suffix group is a suffix group (why laziness of `(.*?)`
never matters) -/
theorem C08_suffix_unique (W : Char → Bool) (s x : List Char) (m : List Char × Option Char)
    (h : suffixAt W s = some m) (hx : x ≠ []) : suffixAt W (x ++ s) = none :=
  suffixAt_extend_none h hx

/-- outside the scope: a line feed that is not the white space in front of a final modifier makes
the real `parse` panic (empty capture vector, `captures[0]`) -/
theorem C08_newline_out_of_scope (W : Char → Bool) : extract W ['f', 'o', 'o', '\n'] = .error .crash :=
  extract_newline_crash W

/-- `ends_like_modifier` (the renderer's test) holds for every text the grammar reads as
expression + modifier, for any `\s` class contained in `char::is_whitespace` -/
theorem C08_ends_like_modifier_sound (W S : Char → Bool) (hsub : ∀ c, W c = true → S c = true)
    (t p K : List Char) (Q : Option Char) (h : Modifier W t p K Q) : endsLikeModifier S t = true :=
  endsLike_of_modifier hsub h

/-- what parsing the canonical form gives, for every expectation: the rule made from
`sourceText` under `sourceKind`, with the same quantifier -/
theorem C08_parse_render (P : Params) (hw : P.isWhite ' ' = true)
    (hsub : ∀ c, P.isWhite c = true → P.isSpaceStd c = true) (e : Expectation)
    (hnl : '\n' ∉ sourceText P e) :
    parse P (toExpressionString P e) =
      match makeRule P (sourceKind P e) (sourceText P e) with
      | none => .error .makeError
      | some b => .ok ⟨sourceKind P e, b, e.optional, e.multiline⟩ :=
  parse_render hw hsub hnl

/-- **C08 (round trip)**: for every expectation of every kind, parsing the canonical form gives
the expectation back (kind, expression, quantifier; `equal` with unprintable content as `escaped`),
provided the rule constructor reproduces the expression from the rendered text (`hmk`, the
constructor/escaper contract). No guard on the text's shape. -/
theorem C08_roundtrip (P : Params) (hw : P.isWhite ' ' = true)
    (hsub : ∀ c, P.isWhite c = true → P.isSpaceStd c = true) (e : Expectation)
    (hnl : '\n' ∉ sourceText P e)
    (hmk : makeRule P (sourceKind P e) (sourceText P e) = some e.expr) :
    parse P (toExpressionString P e) = .ok (reread P e) :=
  roundtrip hw hsub hnl hmk

/-- the contract `hmk` is also necessary: where it fails (today: the ` (no-eol)` strip of the
`escaped` constructor, class `C08:escaped-no-eol-strip-roundtrip`) the round trip fails -/
theorem C08_roundtrip_iff (P : Params) (hw : P.isWhite ' ' = true)
    (hsub : ∀ c, P.isWhite c = true → P.isSpaceStd c = true) (e : Expectation)
    (hnl : '\n' ∉ sourceText P e) :
    parse P (toExpressionString P e) = .ok (reread P e) ↔
      makeRule P (sourceKind P e) (sourceText P e) = some e.expr :=
  roundtrip_iff hw hsub hnl

/-- a text that went through `guard_tailing_no_eol` never ends in ` (no-eol)`: the strip of the
`escaped` constructor is the identity on it and the constructor only resolves escape sequences -/
theorem C08_guard_never_stripped (P : Params) (t : List Char) :
    stripSuffix noEolSuffix (guardTailingNoEol t) = none ∧
    stripNoEol (guardTailingNoEol t) = guardTailingNoEol t ∧
    makeRule P .escaped (guardTailingNoEol t) = P.make .escaped (guardTailingNoEol t) :=
  ⟨stripSuffix_guard t, stripNoEol_guard t, makeRule_escaped_guard P t⟩

/-- everything written under the `escaped` kind (escaped expectations, `equal` ones with
unprintable content) reads back exactly when resolving the escape sequences of the written text
gives the bytes back -- the escaper's contract alone, the ` (no-eol)` strip plays no role -/
theorem C08_roundtrip_escaped_iff (P : Params) (hw : P.isWhite ' ' = true)
    (hsub : ∀ c, P.isWhite c = true → P.isSpaceStd c = true) (e : Expectation)
    (hnl : '\n' ∉ sourceText P e) (hk : sourceKind P e = .escaped) :
    parse P (toExpressionString P e) = .ok (reread P e) ↔
      P.make .escaped (sourceText P e) = some e.expr :=
  roundtrip_escaped_iff hw hsub hnl hk

/-- regression example (the witness of the defect repaired by c1bf05c): the `equal` expectation
`a<TAB> (no-eol)`, displayed `a\\t (no-eol)`, is written `a\\t\\x20(no-eol) (escaped)`; reading that
strips nothing, so it comes back as the `escaped` expectation for the bytes the escape
sequences resolve to -/
theorem C08_roundtrip_no_eol_guarded (P : Params) (hw : P.isWhite ' ' = true)
    (hsub : ∀ c, P.isWhite c = true → P.isSpaceStd c = true) (b : List UInt8)
    (hu : P.hasUnprintable b = true)
    (ht : P.escPrintable b = ['a', '\\', 't', ' ', '(', 'n', 'o', '-', 'e', 'o', 'l', ')'])
    (hmk : P.make .escaped ['a', '\\', 't', '\\', 'x', '2', '0', '(', 'n', 'o', '-', 'e', 'o', 'l', ')'] = some b) :
    toExpressionString P ⟨.equal, b, false, false⟩ =
      ['a', '\\', 't', '\\', 'x', '2', '0', '(', 'n', 'o', '-', 'e', 'o', 'l', ')',
       ' ', '(', 'e', 's', 'c', 'a', 'p', 'e', 'd', ')'] ∧
    parse P (toExpressionString P ⟨.equal, b, false, false⟩) = .ok ⟨.escaped, b, false, false⟩ :=
  roundtrip_no_eol_guarded hw hsub hu ht hmk

/-- `no-eol` keeps its text, so its round trip holds exactly when the displayed text is the text -/
theorem C08_roundtrip_noEol_iff (P : Params) (hw : P.isWhite ' ' = true)
    (hsub : ∀ c, P.isWhite c = true → P.isSpaceStd c = true) (b : List UInt8) (o m : Bool)
    (hnl : '\n' ∉ P.escPrintable b) :
    parse P (toExpressionString P ⟨.noEol, b, o, m⟩) = .ok ⟨.noEol, b, o, m⟩ ↔
      utf8 (P.escPrintable b) = b :=
  roundtrip_noEol_iff hw hsub hnl

/-- under the decidable guard "nothing unprintable" and the escaper's contract (printable bytes are
displayed as they are) a `no-eol` expectation reads back -/
theorem C08_roundtrip_noEol_guarded (P : Params) (hw : P.isWhite ' ' = true)
    (hsub : ∀ c, P.isWhite c = true → P.isSpaceStd c = true) (b : List UInt8) (o m : Bool)
    (hnl : '\n' ∉ P.escPrintable b) (hguard : P.hasUnprintable b = false)
    (hesc : P.hasUnprintable b = false → utf8 (P.escPrintable b) = b) :
    parse P (toExpressionString P ⟨.noEol, b, o, m⟩) = .ok ⟨.noEol, b, o, m⟩ :=
  (roundtrip_noEol_iff hw hsub hnl).mpr (hesc hguard)

/-- the guard is needed (open finding `C08:escaped-pattern-roundtrip`): the `no-eol` expectation
`a<TAB>` is displayed `a\\t (no-eol)`, which reads back as the four characters `a\\t` -/
theorem C08_roundtrip_fails_on_escaped_pattern_witness (P : Params) (hw : P.isWhite ' ' = true)
    (hsub : ∀ c, P.isWhite c = true → P.isSpaceStd c = true)
    (ht : P.escPrintable [0x61, 0x09] = ['a', '\\', 't']) :
    parse P (toExpressionString P ⟨.noEol, [0x61, 0x09], false, false⟩) =
      .ok ⟨.noEol, [0x61, 0x5c, 0x74], false, false⟩ ∧
    parse P (toExpressionString P ⟨.noEol, [0x61, 0x09], false, false⟩) ≠
      .ok ⟨.noEol, [0x61, 0x09], false, false⟩ :=
  roundtrip_fails_escaped_pattern hw hsub ht

/-- `reread` is the identity except for `equal` with unprintable content -/
theorem C08_reread_eq (P : Params) (e : Expectation)
    (h : e.kind = .equal → P.hasUnprintable e.expr = false) : reread P e = e :=
  reread_eq h

/-- consequence for matching, for any rule semantics that is a function of kind and expression -/
theorem C08_roundtrip_matches (P : Params) (hw : P.isWhite ' ' = true)
    (hsub : ∀ c, P.isWhite c = true → P.isSpaceStd c = true) (e : Expectation)
    (hnl : '\n' ∉ sourceText P e)
    (hmk : makeRule P (sourceKind P e) (sourceText P e) = some e.expr)
    (hu : e.kind = .equal → P.hasUnprintable e.expr = false)
    (ruleMatches : Kind → List UInt8 → List UInt8 → Bool) :
    ∃ e', parse P (toExpressionString P e) = .ok e' ∧ e'.optional = e.optional ∧
      e'.multiline = e.multiline ∧ ∀ line, e'.matches ruleMatches line = e.matches ruleMatches line :=
  ⟨e, by rw [roundtrip hw hsub hnl hmk, reread_eq hu], rfl, rfl, fun _ => rfl⟩

/-- regression example (the witness of the defect repaired by 2c946ec): `foo (glob) (equal)`
parses to the `equal` expectation `foo (glob)`; it is now written `foo (glob) (equal)` and reads back -/
theorem C08_roundtrip_equal_modifier_shaped (P : Params) (hw : P.isWhite ' ' = true)
    (hsub : ∀ c, P.isWhite c = true → P.isSpaceStd c = true) (b : List UInt8)
    (hu : P.hasUnprintable b = false)
    (ht : P.escPrintable b = ['f', 'o', 'o', ' ', '(', 'g', 'l', 'o', 'b', ')'])
    (hb : utf8 ['f', 'o', 'o', ' ', '(', 'g', 'l', 'o', 'b', ')'] = b) :
    toExpressionString P ⟨.equal, b, false, false⟩ =
      ['f', 'o', 'o', ' ', '(', 'g', 'l', 'o', 'b', ')', ' ', '(', 'e', 'q', 'u', 'a', 'l', ')'] ∧
    parse P (toExpressionString P ⟨.equal, b, false, false⟩) = .ok ⟨.equal, b, false, false⟩ :=
  roundtrip_equal_modifier_shaped hw hsub hu ht hb

/-! ### non-vacuity -/

/-- a parameter instance: only the blank is white, every construction keeps the text, nothing needs escaping -/
def P0 : Params :=
  { isWhite := fun c => c == ' ', make := fun _ t => some (utf8 t),
    escPrintable := fun _ => ['f', 'o', 'o'], hasUnprintable := fun _ => false,
    isSpaceStd := fun c => c == ' ' }

example : Modifier P0.isWhite ['f', 'o', 'o', ' ', '(', 'g', 'l', '?', ')'] ['f', 'o', 'o'] ['g', 'l'] (some '?') :=
  ⟨' ', by decide, Or.inr (by decide), by simp; decide, by simp, by simp⟩

example : ¬ ∃ p K Q, Modifier P0.isWhite ['f', 'o', 'o', ' ', '(', ')'] p K Q := by
  rintro ⟨p, K, Q, h⟩
  have := (modifier_iff (by decide)).mp h
  simp [modifierOf, scan, suffixAt, alts, kindNames, kindTable, firstAlt, stripPrefix, tail?, P0] at this

/-- the hypotheses of `C08_roundtrip` are satisfiable for every kind and quantifier -/
example (k : Kind) (o m : Bool) :
    let e : Expectation := ⟨k, utf8 ['f', 'o', 'o'], o, m⟩
    P0.isWhite ' ' = true ∧ (∀ c, P0.isWhite c = true → P0.isSpaceStd c = true) ∧
    '\n' ∉ sourceText P0 e ∧ makeRule P0 (sourceKind P0 e) (sourceText P0 e) = some e.expr := by
  refine ⟨rfl, fun _ h => h, ?_, ?_⟩
  · cases k <;> simp [sourceText, P0, doubleBackslash, guardTailingNoEol, stripSuffix, noEolSuffix, stripPrefix]
  · cases k <;> simp [sourceKind, sourceText, P0, doubleBackslash, makeRule, guardTailingNoEol, stripNoEol, stripSuffix, noEolSuffix, stripPrefix]

/-- and of the regression example (`ends_like_modifier` is true of `foo (glob)` but the grammar
    over-approximation is proper: it is also true of `foo (bar)`, which is no modifier) -/
example : endsLikeModifier P0.isSpaceStd ['f', 'o', 'o', ' ', '(', 'b', 'a', 'r', ')'] = true ∧
    modifierOf P0.isWhite ['f', 'o', 'o', ' ', '(', 'b', 'a', 'r', ')'] = none := by
  constructor
  · simp [endsLikeModifier, splitLast, stripQuantRev, isQuantChar, isLowerDash, P0]
  · simp [modifierOf, scan, suffixAt, alts, kindNames, kindTable, firstAlt, stripPrefix, tail?, P0]

end Scrut.Props.C08
