import ScrutModel.Lemmas.Grammar
/-!
# C08 — Expectation lines parse per the documented grammar and print back equivalently

Model: `Scrut.Grammar` (`Model/Grammar.lean`). `extract`/`parse` are `ExpectationMaker::extract`/
`parse` with the regex of `RuleRegistry::to_expectation_regex` written out as the string function
it denotes (lazy prefix, suffix group tried at every position, alternation in source order,
capture-count logic incl. the index panic); `toExpressionString` is `Rule::to_expression_string`.
Parameters (`Params`): `isWhite` = the regex crate's `\s` (only `isWhite ' '` is ever assumed),
`make` = `make`+`unmake` of the `escaped`, `glob` and `regex` rules, and the escaper
(`escPrintable`, `hasUnprintable`). All theorems hold for every value of the parameters.

Scope: a line is a text without `'\n'` (callers hand over single lines). What the code does
otherwise is recorded by `C08_newline_out_of_scope` (it panics) and covered by the correspondence.

`Modifier W l p K Q` is the documented grammar, declaratively:
`l = p ++ [w] ++ "(" ++ K ++ Q ++ ")"`, `w` white space, `K` a documented kind name or empty,
`Q` one of `?`, `*`, `+` or empty, not both empty.

Round trip, full-strength statement (FALSE today, see the `_fails_` theorems and the oracle
classes `C08:equal-modifier-shaped-roundtrip`, `C08:escaped-pattern-roundtrip`,
`C08:escaped-backslash-roundtrip`, `C08:escaped-no-eol-strip-roundtrip`):

    ∀ e, '\n' ∉ P.escPrintable e.expr → ∃ e', parse P (toExpressionString P e) = .ok e' ∧
      e'.optional = e.optional ∧ e'.multiline = e.multiline ∧ ∀ line, e'.matches line = e.matches line

What is proved instead: `C08_roundtrip_partial` (under the decidable guards: re-making the rule
from the rendered text reproduces it, and an `equal` text is printable and -- when it carries no
quantifier -- does not itself end in a modifier), and that each guard is necessary.
-/
namespace Scrut.Props.C08
open Scrut.Grammar

/-- **C08 (total)**: parsing a line never crashes and never reports an unknown kind; it fails only
with the error of a rule constructor, only when the line ends in a modifier naming the `escaped`,
`glob` or `regex` kind, and only because that constructor rejects the expression in front of the
modifier. (`glob` rejects only expressions carrying an inner ` (escaped)` marker with a malformed
escape: a parameter here, sampled by the harness.) -/
theorem C08_total (P : Params) (l : List Char) (hl : '\n' ∉ l) :
    (∃ e, parse P l = .ok e) ∨
    (parse P l = .error .makeError ∧ ∃ p K Q kind, Modifier P.isWhite l p K Q ∧
      lookupKind (orEqual K) = some kind ∧ (kind = .escaped ∨ kind = .glob ∨ kind = .regex) ∧
      P.make kind p = none) :=
  parse_total hl

/-- **C08 (grammar)**: the modifier recognised by the code is exactly the documented one: the
final ` (<kind><quantifier>)`, everything in front of the white-space character verbatim. -/
theorem C08_grammar (W : Char → Bool) (l p K : List Char) (Q : Option Char) (hl : '\n' ∉ l) :
    Modifier W l p K Q ↔ modifierOf W l = some (p, K, Q) :=
  modifier_iff hl

/-- what `extract` returns, by the recognised modifier: expression, kind (none = `equal`), quantifier -/
theorem C08_extract (W : Char → Bool) (l : List Char) (hl : '\n' ∉ l) :
    extract W l = .ok (match modifierOf W l with
      | some (p, K, Q) => (p, orEqual K, Q.toList)
      | none => (l, equalName, [])) :=
  extract_eq hl

/-- a line with a modifier: the named kind (or `equal`), made from the text in front of it, with
`?` optional, `*` optional and repeated, `+` repeated -/
theorem C08_modifier_parse (P : Params) (l p K : List Char) (Q : Option Char) (kind : Kind)
    (hl : '\n' ∉ l) (h : Modifier P.isWhite l p K Q) (hk : lookupKind (orEqual K) = some kind) :
    parse P l = match makeRule P kind p with
      | none => .error .makeError
      | some b => .ok ⟨kind, b, Q.toList == ['*'] || Q.toList == ['?'], Q.toList == ['*'] || Q.toList == ['+']⟩ :=
  parse_of_modifier hl h hk

/-- **C08 (otherwise equal)**: every other line -- also one ending in `()`, `(foo)`, `( )`,
`(glob)` without white space in front -- is an `equal` expectation for the whole line. -/
theorem C08_otherwise_equal (W : Char → Bool) (l : List Char) (hl : '\n' ∉ l)
    (h : ¬ ∃ p K Q, Modifier W l p K Q) : extract W l = .ok (l, equalName, []) :=
  extract_of_no_modifier hl h

theorem C08_otherwise_equal_parse (P : Params) (l : List Char) (hl : '\n' ∉ l)
    (h : ¬ ∃ p K Q, Modifier P.isWhite l p K Q) : parse P l = .ok ⟨.equal, utf8 l, false, false⟩ :=
  parse_of_no_modifier hl h

/-- **C08 (suffix uniqueness)**: a line decomposes in at most one way. -/
theorem C08_modifier_unique (W : Char → Bool) (l p p' K K' : List Char) (Q Q' : Option Char)
    (hl : '\n' ∉ l) (h : Modifier W l p K Q) (h' : Modifier W l p' K' Q') : p = p' ∧ K = K' ∧ Q = Q' := by
  have := ((modifier_iff hl).mp h).symm.trans ((modifier_iff hl).mp h')
  simpa using this

/-- no proper extension to the left of a suffix group is a suffix group (why laziness of `(.*?)`
never matters) -/
theorem C08_suffix_unique (W : Char → Bool) (s x : List Char) (m : List Char × Option Char)
    (h : suffixAt W s = some m) (hx : x ≠ []) : suffixAt W (x ++ s) = none :=
  suffixAt_extend_none h hx

/-- outside the scope: a line feed that is not the white space in front of a final modifier makes
the real `parse` panic (empty capture vector, `captures[0]`) -/
theorem C08_newline_out_of_scope (W : Char → Bool) : extract W ['f', 'o', 'o', '\n'] = .error .crash :=
  extract_newline_crash W

/-- **C08 (round trip, partial)**: parsing the canonical form gives the expectation back -- same
kind, expression, quantifier, hence the same matches -- provided (guards, all decidable)
* making the rule again from the rendered expression reproduces it (`hmk`; for `equal`/`no-eol`
  this says the rendered text is the expression),
* an `equal` expectation has a printable expression (`hunp`; otherwise see
  `C08_roundtrip_equal_unprintable`) and, when it has no quantifier, its text does not itself end
  in a modifier (`hshape`). -/
theorem C08_roundtrip_partial (P : Params) (hw : P.isWhite ' ' = true) (e : Expectation)
    (hnl : '\n' ∉ P.escPrintable e.expr)
    (hmk : makeRule P e.kind (P.escPrintable e.expr) = some e.expr)
    (hunp : e.kind = .equal → P.hasUnprintable e.expr = false)
    (hshape : e.kind = .equal → quantOpt e.optional e.multiline = none →
      ModifierShaped P.isWhite (P.escPrintable e.expr) = false) :
    parse P (toExpressionString P e) = .ok e :=
  roundtrip hw hnl hmk hunp hshape

/-- consequence for matching, for any rule semantics that is a function of kind and expression -/
theorem C08_roundtrip_matches (P : Params) (hw : P.isWhite ' ' = true) (e : Expectation)
    (hnl : '\n' ∉ P.escPrintable e.expr)
    (hmk : makeRule P e.kind (P.escPrintable e.expr) = some e.expr)
    (hunp : e.kind = .equal → P.hasUnprintable e.expr = false)
    (hshape : e.kind = .equal → quantOpt e.optional e.multiline = none →
      ModifierShaped P.isWhite (P.escPrintable e.expr) = false)
    (ruleMatches : Kind → List UInt8 → List UInt8 → Bool) :
    ∃ e', parse P (toExpressionString P e) = .ok e' ∧ e'.optional = e.optional ∧
      e'.multiline = e.multiline ∧ ∀ line, e'.matches ruleMatches line = e.matches ruleMatches line :=
  ⟨e, roundtrip hw hnl hmk hunp hshape, rfl, rfl, fun _ => rfl⟩

/-- an `equal` expectation with unprintable content is written as `escaped` and comes back as the
`escaped` expectation the rule constructor makes of the escaped text, same quantifier -/
theorem C08_roundtrip_equal_unprintable (P : Params) (hw : P.isWhite ' ' = true) (e : Expectation)
    (hnl : '\n' ∉ P.escPrintable e.expr) (hk : e.kind = .equal) (hu : P.hasUnprintable e.expr = true) :
    parse P (toExpressionString P e) =
      match P.make .escaped (P.escPrintable e.expr) with
      | none => .error .makeError
      | some b => .ok ⟨.escaped, b, e.optional, e.multiline⟩ :=
  parse_render_equal_unprintable hw hnl hk hu

/-- the guard `hshape` is necessary (oracle class `C08:equal-modifier-shaped-roundtrip`):
`foo (glob) (equal)` parses to the `equal` expectation `foo (glob)`, which is rendered as
`foo (glob)` and does not come back. -/
theorem C08_roundtrip_fails_on_witness (P : Params) (hw : P.isWhite ' ' = true) (b : List UInt8)
    (hu : P.hasUnprintable b = false)
    (ht : P.escPrintable b = ['f', 'o', 'o', ' ', '(', 'g', 'l', 'o', 'b', ')']) :
    parse P (toExpressionString P ⟨.equal, b, false, false⟩) ≠ .ok ⟨.equal, b, false, false⟩ :=
  roundtrip_fails_equal_modifier_shaped hw hu ht

/-- the guard `hmk` is necessary and sufficient for every kind but `equal` (oracle classes
`C08:escaped-pattern-roundtrip`, `C08:escaped-backslash-roundtrip`): the round trip holds exactly
when re-making the rule from the rendered text reproduces it -- which the real `glob`, `regex` and
`no-eol` rules do not do for expressions that are rendered with escape sequences. -/
theorem C08_roundtrip_nonequal_iff (P : Params) (hw : P.isWhite ' ' = true) (e : Expectation)
    (hnl : '\n' ∉ P.escPrintable e.expr) (hk : e.kind ≠ .equal) :
    parse P (toExpressionString P e) = .ok e ↔
      makeRule P e.kind (P.escPrintable e.expr) = some e.expr :=
  roundtrip_nonequal_iff hw hnl hk

/-! ### non-vacuity -/

/-- a parameter instance: only the blank is white, every construction keeps the text, nothing needs escaping -/
def P0 : Params :=
  { isWhite := fun c => c == ' ', make := fun _ t => some (utf8 t),
    escPrintable := fun _ => ['f', 'o', 'o'], hasUnprintable := fun _ => false }

example : Modifier P0.isWhite ['f', 'o', 'o', ' ', '(', 'g', 'l', '?', ')'] ['f', 'o', 'o'] ['g', 'l'] (some '?') :=
  ⟨' ', by decide, Or.inr (by decide), by simp; decide, by simp, by simp⟩

example : ¬ ∃ p K Q, Modifier P0.isWhite ['f', 'o', 'o', ' ', '(', ')'] p K Q := by
  rintro ⟨p, K, Q, h⟩
  have := (modifier_iff (by decide)).mp h
  simp [modifierOf, scan, suffixAt, alts, kindNames, kindTable, firstAlt, stripPrefix, tail?, P0] at this

/-- the hypotheses of `C08_roundtrip_partial` are satisfiable for every kind and quantifier -/
example (k : Kind) (o m : Bool) :
    let e : Expectation := ⟨k, utf8 ['f', 'o', 'o'], o, m⟩
    '\n' ∉ P0.escPrintable e.expr ∧ makeRule P0 e.kind (P0.escPrintable e.expr) = some e.expr ∧
    (e.kind = .equal → P0.hasUnprintable e.expr = false) ∧
    (e.kind = .equal → quantOpt e.optional e.multiline = none →
      ModifierShaped P0.isWhite (P0.escPrintable e.expr) = false) := by
  refine ⟨by simp [P0], by cases k <;> rfl, fun _ => rfl, fun _ _ => ?_⟩
  simp [ModifierShaped, modifierOf, scan, suffixAt, P0]

/-- and of the failing witness -/
example : ∃ P : Params, P.isWhite ' ' = true ∧ P.hasUnprintable [] = false ∧
    P.escPrintable [] = ['f', 'o', 'o', ' ', '(', 'g', 'l', 'o', 'b', ')'] :=
  ⟨{ P0 with escPrintable := fun _ => ['f', 'o', 'o', ' ', '(', 'g', 'l', 'o', 'b', ')'] }, rfl, rfl, rfl⟩

end Scrut.Props.C08
