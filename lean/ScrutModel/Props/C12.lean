import ScrutModel.Lemmas.ShellState
import ScrutModel.Lemmas.StateFile
/-!
# C12 — Shell state carries from one test case to the next as if run in one shell (PARTIAL)

Two layers.

1. `C12_refines_single_session` — for ANY shell semantics `run` and ANY carrier: if restoring what
   was persisted gives an observationally equivalent shell (`CarrierTransparent`, with respect to
   an equivalence `E` that `run` respects), then running each test case in its own process yields
   exactly the outputs of one session, for every history; detached test cases leave nothing behind.
   Whether bash + the 60-line template satisfy `CarrierTransparent` is a fact about bash 5.2 and is
   SAMPLED by the harness with real processes (all state classes), not proved.
2. The variable carrier as the template implements it (bindings recorded by `declare -p`,
   read-only and excluded names filtered, unsets not recorded, new processes start from scrut's own
   environment) is modelled concretely and compared with real bash on every run.
   `C12_vars_carried_partial` proves the refinement for histories that neither unset an inherited
   variable nor create read-only variables; the two excluded classes are genuine deviations of the
   code from the property, with witnesses below (known findings).
3. The ORDER of the state file (`Model/StateFile.lean`): bash parses a sourced file command by
   command under the options in force at that moment and stops at a syntax error. With the order
   written since fix e15e02e (recorded options, `shopt -s extglob`, functions, recorded `extglob`
   again, everything else) every state is restored, whatever `extglob` is when it is written
   (`C12_state_file_order`); with the former order a function that needs `extglob` followed by
   `shopt -u extglob` lost that function and everything behind it (`C12_old_order_fails_on_witness`,
   the defect found when seeded change C12-options-restored-after-functions was missed).
-/
namespace Scrut.Props.C12
open Scrut.Shell

/-- **C12** (abstract): per-process execution refines a single session whenever the carrier is
transparent up to an equivalence that the shell semantics respects. -/
theorem C12_refines_single_session {σ Snip Out File : Type}
    (run : Snip → σ → σ × Out) (restore : Option File → σ) (persist : σ → File)
    (E : σ → σ → Prop)
    (Etrans : ∀ a b c, E a b → E b c → E a c)
    (respects : ∀ c s t, E s t → (run c s).2 = (run c t).2 ∧ E (run c s).1 (run c t).1)
    (CarrierTransparent : ∀ s, E (restore (some (persist s))) s)
    (hs : List (Snip × Bool)) (f : Option File) (s : σ) (h0 : E (restore f) s) :
    perProcess run restore persist hs f = session run hs s :=
  Scrut.Shell.perProcess_eq_session run restore persist E Etrans respects CarrierTransparent hs f s h0

/-- detached test cases leave no state behind -/
theorem C12_detached_leaves_nothing (excluded : Nat → Bool) (inherited : Vars) (probes : List Nat)
    (a : Action) (rest : List (Action × Bool)) (f : Option Vars) :
    runPerProcess excluded inherited probes ((a, true) :: rest) f =
      none :: runPerProcess excluded inherited probes rest f := by
  simp [runPerProcess]

/-- **C12** (variables, partial): for benign histories every test case observes exactly the
variables a single session would hold. FULL STRENGTH (all histories) is false today, see the two
witnesses. -/
theorem C12_vars_carried_partial (excluded : Nat → Bool) (inherited : Vars) (probes : List Nat)
    (hnodup : (inherited.map (·.name)).Nodup)
    (hro : ∀ v ∈ inherited, v.readonly = false)
    (hs : List (Action × Bool)) (hb : Benign excluded inherited hs) :
    runPerProcess excluded inherited probes hs none = runSession probes hs inherited :=
  Scrut.Shell.vars_carried excluded inherited probes hnodup hro hs hb

/-- witness 1: `unset` of an inherited variable is not carried (the state file records bindings
only; the next process inherits the variable again). Names: 0 = the inherited variable. -/
theorem C12_unset_inherited_fails_on_witness :
    runPerProcess (fun _ => false) [⟨0, [1], true, false⟩] [0] [(.unset 0, false), (.other, false)] none
      ≠ runSession [0] [(.unset 0, false), (.other, false)] [⟨0, [1], true, false⟩] := by
  decide

/-- witness 2: a read-only variable is filtered out of the state file and is gone in the next
test case. -/
theorem C12_readonly_fails_on_witness :
    runPerProcess (fun _ => false) [] [5] [(.readonly 5 [7], false), (.other, false)] none
      ≠ runSession [5] [(.readonly 5 [7], false), (.other, false)] [] := by
  decide

/-- **C12** (order of the state file): a new process that sources what was persisted holds the options, all
functions, aliases and variables exactly as they were -- also functions whose bodies can only be parsed while
`extglob` is set (whatever `extglob` is when the state is written), functions that share their name with an
alias, variables that were not exported while `allexport` is set, and `errtrace` next to `extdebug`. -/
theorem C12_state_file_order (s : Scrut.StateFile.St) :
    Scrut.StateFile.source Scrut.StateFile.fresh (Scrut.StateFile.persist s) = s :=
  Scrut.StateFile.source_persist s

/-- the order before fix e15e02e (options, then functions): `g` needs `extglob`, `extglob` is off
again when the state is written, a variable stands for the rest of the state -- the next process
has neither `g` nor the variable -/
theorem C12_old_order_fails_on_witness :
    Scrut.StateFile.source Scrut.StateFile.fresh
        (Scrut.StateFile.persistOld { extglob := false, funcs := [⟨7, true⟩], vars := [⟨1, 2, false⟩] })
      = { extglob := false, funcs := [], vars := [] } ∧
    Scrut.StateFile.source Scrut.StateFile.fresh
        (Scrut.StateFile.persist { extglob := false, funcs := [⟨7, true⟩], vars := [⟨1, 2, false⟩] })
      = { extglob := false, funcs := [⟨7, true⟩], vars := [⟨1, 2, false⟩] } := by
  decide

/-- the order before fix 6fb091a (`set +o` in front of `shopt -p`): `set -E` with `extdebug` off -- restoring
`shopt -u extdebug` afterwards switches `errtrace` off again, the next process does not have it -/
theorem C12_set_first_order_fails_on_witness :
    Scrut.StateFile.source Scrut.StateFile.fresh
        (Scrut.StateFile.persistSetFirst { extglob := false, errtrace := true, funcs := [], vars := [⟨1, 2, false⟩] })
      = { extglob := false, errtrace := false, funcs := [], vars := [⟨1, 2, false⟩] } := by
  decide

/-- the order before fix bb09a36 (aliases in front of the functions): a function `f` and an alias `f` -- the
definition of the function is a syntax error, the next process has neither the function nor the variable
behind it -/
theorem C12_aliases_first_order_fails_on_witness :
    Scrut.StateFile.source Scrut.StateFile.fresh
        (Scrut.StateFile.persistAliasesFirst { extglob := false, funcs := [⟨7, false⟩], aliases := [7], vars := [⟨1, 2, false⟩] })
      = { extglob := true, funcs := [], aliases := [7], vars := [] } := by
  decide

/-- the order before fix 75c64cd (options in front of everything): `X=1; set -a` -- the variable that was not
exported comes back exported -/
theorem C12_options_first_order_fails_on_witness :
    Scrut.StateFile.source Scrut.StateFile.fresh
        (Scrut.StateFile.persistOptionsFirst { extglob := false, allexport := true, funcs := [], vars := [⟨1, 2, false⟩] })
      = { extglob := false, allexport := true, funcs := [], vars := [⟨1, 2, true⟩] } := by
  decide

/-- **C12** (the hook that writes the state file): whatever `errexit` and `noclobber` are in the shell of the
test case and whether or not an earlier test case left a state file, the complete state is written and the
test case ends with the exit status of its own command. -/
theorem C12_hook_survives_options (h : Scrut.StateFile.Hook) (s : Scrut.StateFile.St) (code : Nat) :
    Scrut.StateFile.writeState (Scrut.StateFile.hookCmds s) true h code = (some (Scrut.StateFile.persist s), code) :=
  Scrut.StateFile.writeState_now h s code

/-- the hook between fixes e15e02e and 296e2dd (`shopt -p extglob` unguarded) under `set -e` with `extglob` off: it
ends behind that command -- the variables are not written and the test case, whose command ended with 0, ends
with 1 -/
theorem C12_unguarded_hook_fails_on_witness :
    Scrut.StateFile.writeState
        (Scrut.StateFile.hookCmdsUnguarded { extglob := false, funcs := [], vars := [⟨1, 2, false⟩] }) true ⟨true, false, none⟩ 0
      = (some [.setExtdebug false, .setExtglob false, .setErrtrace false, .setAllexport false, .setExtglob true,
          .setExtglob false], 1) := by
  decide

/-- the redirection before fix 79ceed0 (`>` instead of `>|`) under `set -C` when an earlier test case left a
state file: the old file stays, nothing of this test case is carried -/
theorem C12_clobber_hook_fails_on_witness :
    Scrut.StateFile.writeState
        (Scrut.StateFile.hookCmds { extglob := false, funcs := [], vars := [⟨1, 2, false⟩] }) false
        ⟨false, true, some [.setVar ⟨1, 1, false⟩]⟩ 0
      = (some [.setVar ⟨1, 1, false⟩], 0) := by
  decide

/-! Non-vacuity of `Benign`: assign, export, modify, unset an own variable. -/
example : Benign (fun _ => false) [⟨0, [1], true, false⟩]
    [(.assign 1 [2], false), (.export 2 [3], false), (.assign 0 [9], false), (.unset 1, false), (.assign 3 [4], true)] := by
  intro p hp
  simp at hp
  rcases hp with rfl | rfl | rfl | rfl | rfl <;> simp [lookup]

end Scrut.Props.C12
