import ScrutModel.Lemmas.StripAnsi
import ScrutModel.Lemmas.Template
import ScrutModel.Lemmas.Crlf
import ScrutModel.Lemmas.Divider
/-!
# C13 — Commands run verbatim; output bytes and exit codes captured exactly, per test (PARTIAL)

What is proved here is the logic scrut itself contributes between the document and the shell and
between the shell and the recorded output:

* the bash template rendering (`BashRunner::run`): the user's expression is substituted last and
  nothing inside it is rewritten (`C13_expression_verbatim`);
* `replace_crlf` (the loop in `src/newline.rs`) never panics and drops exactly the CRs that are
  immediately followed by LF (`C13_crlf`, `C13_crlf_characterisation`), `render_output` applies it
  unless `keep_crlf`, and touches nothing else unless `strip_ansi_escaping` (`C13_keep_crlf_identity`,
  `C13_no_strip_only_crlf`, `C13_strip_after_crlf`);
* the single-script mode: splitting the captured streams at the divider lines gives back, for every
  test, exactly its payload (terminated or not) and exit code (`C13_divider_roundtrip_partial`,
  `C13_divider_roundtrip_combined_partial`, `C13_stream_roundtrip_partial`,
  `C13_divider_lookalike_is_output`); the value on the STDERR dividers is irrelevant
  (`C13_divider_roundtrip_stderr_code_ignored`);
* the TEXT of the one script (`compile_script`): every expression is followed by an empty line and
  then by a line that is exactly `__SCRUT_EXIT_CODE=$?`, before the divider `echo` of its own test;
  no divider line contains `$?` (`C13_script_lines_around_expression`,
  `C13_script_exit_code_taken_by_assignment`, `C13_script_dividers_do_not_read_status`).

NOT proved (exercised with real processes by the harness): what bash does with the script text,
that the streams it writes are `joinStream` of the payloads, pipes, `Redirection::Merge` order,
stack depth / memory.

Guard of the round trip: no payload contains the divider start OF THIS EXECUTION,
`~~~~~~~~EXECDIVIDER::<salt>::` (`noSalted salt payload`; the salt is 20 random alphanumeric
characters drawn per execution, so a test cannot know it). Payloads may contain the bare prefix or
complete divider lines with any other salt: `C13_divider_lookalike_is_output` (regression for the
repaired defect "the parser ignored the salt", fix 05d9dbd). Without any guard the statement is
false for every protocol that marks boundaries in-band (`C13_divider_guard_needed`).
-/
namespace Scrut.Props.C13
open Scrut.Template Scrut.Crlf Scrut.Divider

/-! ## the template -/

/-- `str::replace` leaves a subject alone in which the pattern does not occur -/
theorem C13_replace_absent (pat rep s : List Char) (h : ¬ pat <:+: s) : replaceAll pat rep s = s :=
  replaceAll_of_not_occurs pat rep s ((splitFirst_none_iff pat s).2 h)

/-- exactly one occurrence: only the occurrence is replaced -/
theorem C13_replace_once (pat rep pre post : List Char) (hp : pat ≠ [])
    (h1 : splitFirst pat (pre ++ pat ++ post) = some (pre, post)) (h2 : ¬ pat <:+: post) :
    replaceAll pat rep (pre ++ pat ++ post) = pre ++ rep ++ post :=
  replaceAll_once pat rep _ pre post hp h1 ((splitFirst_none_iff pat post).2 h2)

/-- For every template and every state directory, name, exclusion list, list of configured variable names and detached flag: if after
the five other substitutions the expression placeholder occurs exactly once (`exprOnce`, a
decidable condition on template and values that the harness evaluates on the CURRENT template at
every run), then there are `pre`, `post` -- fixed before the expression is chosen -- such that for
EVERY expression (including ones that contain placeholder names) the script handed to the shell
is `pre ++ expr ++ post`. -/
theorem C13_expression_verbatim (tpl stateDir name excluded envNames : List Char) (detached : Bool)
    (h : exprOnce (substOthers tpl stateDir name excluded envNames detached) = true) :
    ∃ pre post : List Char,
      substOthers tpl stateDir name excluded envNames detached = pre ++ PH_EXPR ++ post ∧
      ¬ PH_EXPR <:+: post ∧
      ∀ expr : List Char, render tpl stateDir name excluded envNames detached expr = pre ++ expr ++ post :=
  render_verbatim tpl stateDir name excluded envNames detached h

/-- the hypothesis is needed: a substituted value that itself contains the placeholder makes the
expression appear twice (test names are `exec<N>`, state directories are temporary paths) -/
theorem C13_expression_hypothesis_needed :
    render (PH_NAME ++ [' '] ++ PH_EXPR) [] PH_EXPR [] [] false ['x'] = ['x', ' ', 'x'] := by
  decide

/-! ## CR LF -/

/-- the loop of `replace_crlf` never slices out of range and computes the specification, for
outputs of any size -/
theorem C13_crlf (bs : List UInt8) : replaceCrlf bs = some (replaceCrlfSpec bs) :=
  replaceCrlf_eq_spec bs

/-- the specification, spelled out: bytes are kept in order; a byte is dropped iff it is a CR and
the next byte is LF; hence only CRs disappear and a stream without CR LF is unchanged -/
theorem C13_crlf_characterisation (bs : List UInt8) :
    replaceCrlfSpec [] = [] ∧
    (∀ a t, replaceCrlfSpec (a :: t) =
      if a = Crlf.CR ∧ t.head? = some Crlf.LF then replaceCrlfSpec t else a :: replaceCrlfSpec t) ∧
    (replaceCrlfSpec bs).Sublist bs ∧
    (replaceCrlfSpec bs).filter (· ≠ CR) = bs.filter (· ≠ CR) ∧
    (findCrlf bs = none → replaceCrlfSpec bs = bs) :=
  ⟨rfl, fun _ _ => rfl, spec_sublist bs, spec_filter_ne_cr bs, spec_id_of_no_crlf bs⟩

/-- `keep_crlf: true` (and no ANSI stripping): the recorded bytes are the written bytes -/
theorem C13_keep_crlf_identity (stripAnsi : Option Bool) (strip : List UInt8 → Option (List UInt8))
    (bs : List UInt8) (hs : stripAnsi ≠ some true) :
    renderOutput (some true) stripAnsi strip bs = some bs :=
  renderOutput_keep stripAnsi strip bs hs

/-- unless `strip_ansi_escaping: true`, the stripper is not consulted: the only change is CR LF -/
theorem C13_no_strip_only_crlf (keepCrlf stripAnsi : Option Bool) (strip : List UInt8 → Option (List UInt8))
    (bs : List UInt8) (hs : stripAnsi ≠ some true) :
    renderOutput keepCrlf stripAnsi strip bs =
      some (if keepCrlf = some true then bs else replaceCrlfSpec bs) :=
  renderOutput_no_strip keepCrlf stripAnsi strip bs hs

/-- with `strip_ansi_escaping: true` the stripper receives the CR-LF-processed bytes -/
theorem C13_strip_after_crlf (keepCrlf : Option Bool) (strip : List UInt8 → Option (List UInt8)) (bs : List UInt8) :
    renderOutput keepCrlf (some true) strip bs =
      strip (if keepCrlf = some true then bs else replaceCrlfSpec bs) :=
  renderOutput_strip keepCrlf strip bs

/-! ## `strip_ansi_escaping: true`: scrut's own stripper (after fix: escape sequences only) -/

open Scrut.StripAnsi in
/-- **with `strip_ansi_escaping: true`** the recorded bytes are the CR-LF-processed bytes without
their ANSI escape sequences, and nothing else happens to them: the result is a subsequence of the
processed bytes (nothing added, changed or reordered), it holds no `ESC`, and bytes that hold no
`ESC` at all -- TAB, CR, BEL, other control characters, invalid UTF-8 included -- are recorded as
they are. -/
theorem C13_strip_only_escape_sequences (keepCrlf : Option Bool) (bs : List UInt8) :
    ∃ processed, processed = (if keepCrlf = some true then bs else replaceCrlfSpec bs) ∧
      renderOutput keepCrlf (some true) (fun x => some (strip x)) bs = some (strip processed) ∧
      (strip processed).Sublist processed ∧ esc ∉ strip processed ∧
      (esc ∉ processed → strip processed = processed) :=
  ⟨_, rfl, renderOutput_strip keepCrlf _ bs, strip_sublist _, esc_not_mem_strip _, strip_no_esc _⟩

open Scrut.StripAnsi in
/-- a CSI sequence (`ESC [`, parameter bytes, intermediate bytes, final byte -- colours, cursor
movement) is removed as a whole, the text around it stays: `pre ESC[…m post` gives `pre` followed by
the stripped `post` -/
theorem C13_strip_csi (pre ps is post : List UInt8) (f : UInt8) (hpre : esc ∉ pre)
    (hp : ∀ x ∈ ps, isParam x = true) (hi : ∀ x ∈ is, isInter x = true) (hf : isCsiFinal f = true) :
    strip (pre ++ esc :: 0x5b :: (ps ++ (is ++ f :: post))) = pre ++ strip post := by
  rw [strip_append_no_esc pre _ hpre, strip_csi ps is f post hp hi hf]

open Scrut.StripAnsi in
/-- stripping twice is stripping once -/
theorem C13_strip_idempotent (bs : List UInt8) : strip (strip bs) = strip bs := strip_idempotent bs

/-- regression example of fix (strip kept only printable text and LF): `a<TAB>b<CR>c<BEL>` with a
bold `E` and CR LF: TAB, CR and BEL stay, the two CSI sequences go -/
example : Scrut.StripAnsi.strip [97, 9, 98, 13, 99, 7, 0x1b, 0x5b, 0x31, 0x6d, 69, 0x1b, 0x5b, 0x30, 0x6d, 13, 10]
    = [97, 9, 98, 13, 99, 7, 69, 13, 10] := by decide

/-- an OSC string (window title) up to `BEL`, a two-byte sequence `ESC c`, a lone `ESC` at the end -/
example : Scrut.StripAnsi.strip [0x1b, 0x5d, 0x30, 0x3b, 116, 7, 120, 0x1b, 0x63, 121, 0x1b] = [120, 121] := by decide

/-! ## single-script mode -/

/-- One stream: for any salt without `:`, `~` and LF (the real one is alphanumeric), payloads
(terminated by LF or not, empty, any bytes) that do not contain the divider start of this
execution, exit codes below 2^31: splitting the stream in which every payload is followed by its
divider line returns exactly the payloads and exit codes. (`limit` is `none` for STDOUT, `some n`
with enough room for STDERR.) -/
theorem C13_stream_roundtrip_partial (limit : Option Nat) (salt : Bytes) (hs : COLON ∉ salt)
    (hsl : Divider.LF ∉ salt) (h126 : (126 : UInt8) ∉ salt)
    (tests : List (Bytes × Nat))
    (hg : ∀ t ∈ tests, noSalted salt t.1 = true ∧ t.2 < 2 ^ 31) (hlen : tests.length ≤ 2 ^ 64)
    (hlim : ∀ n, limit = some n → tests.length ≤ n) :
    iterate salt limit (joinStream salt 0 tests) = .ok (tests.map fun t => (t.1, (t.2 : Int))) := by
  unfold iterate splitAtNewline
  exact iterLines_joinStream limit salt hs hsl h126 tests 0 hg (by simpa using hlen) (by simpa using hlim)

/-- `execute_all`, separated streams: every test gets back its own stdout, stderr and exit code.
Guards: payloads free of this execution's divider start, no test ends with the skip code.
The STDERR dividers carry the test's own exit code as well (`1>&2 echo "…$__SCRUT_EXIT_CODE"`;
before the exit code was taken by an assignment of its own they carried 0, the status of the
`echo` in front of them). -/
theorem C13_divider_roundtrip_partial (salt : Bytes) (hs : COLON ∉ salt) (hsl : Divider.LF ∉ salt)
    (h126 : (126 : UInt8) ∉ salt) (skip scriptExit : Int)
    (tests : List (Bytes × Bytes × Nat)) (hse : scriptExit ≠ skip) (hlen : tests.length ≤ 2 ^ 64)
    (hg : ∀ t ∈ tests, noSalted salt t.1 = true ∧ noSalted salt t.2.1 = true ∧ t.2.2 < 2 ^ 31 ∧ (t.2.2 : Int) ≠ skip) :
    executeAll salt tests.length false skip scriptExit
        (joinStream salt 0 (tests.map fun t => (t.1, t.2.2)))
        (joinStream salt 0 (tests.map fun t => (t.2.1, t.2.2))) =
      .ok (tests.map fun t => ⟨t.1, t.2.1, (t.2.2 : Int)⟩) :=
  executeAll_separate salt hs hsl h126 skip scriptExit tests (fun t => t.2.2) hse hlen hg
    (fun t ht => (hg t ht).2.2.1)

/-- … and the value on the STDERR dividers is never used: whatever code (`ec`, below 2^31) they
carry -- the test's own, or 0 as with the former script text -- the result is the same -/
theorem C13_divider_roundtrip_stderr_code_ignored (salt : Bytes) (hs : COLON ∉ salt) (hsl : Divider.LF ∉ salt)
    (h126 : (126 : UInt8) ∉ salt) (skip scriptExit : Int)
    (tests : List (Bytes × Bytes × Nat)) (ec : Bytes × Bytes × Nat → Nat)
    (hse : scriptExit ≠ skip) (hlen : tests.length ≤ 2 ^ 64)
    (hg : ∀ t ∈ tests, noSalted salt t.1 = true ∧ noSalted salt t.2.1 = true ∧ t.2.2 < 2 ^ 31 ∧ (t.2.2 : Int) ≠ skip)
    (hec : ∀ t ∈ tests, ec t < 2 ^ 31) :
    executeAll salt tests.length false skip scriptExit
        (joinStream salt 0 (tests.map fun t => (t.1, t.2.2)))
        (joinStream salt 0 (tests.map fun t => (t.2.1, ec t))) =
      .ok (tests.map fun t => ⟨t.1, t.2.1, (t.2.2 : Int)⟩) :=
  executeAll_separate salt hs hsl h126 skip scriptExit tests ec hse hlen hg hec

/-- `execute_all`, merged streams (`output_stream: combined`) -/
theorem C13_divider_roundtrip_combined_partial (salt : Bytes) (hs : COLON ∉ salt) (hsl : Divider.LF ∉ salt)
    (h126 : (126 : UInt8) ∉ salt)
    (skip scriptExit : Int) (tests : List (Bytes × Nat)) (stderr : Bytes) (hse : scriptExit ≠ skip)
    (hlen : tests.length ≤ 2 ^ 64)
    (hg : ∀ t ∈ tests, noSalted salt t.1 = true ∧ t.2 < 2 ^ 31 ∧ (t.2 : Int) ≠ skip) :
    executeAll salt tests.length true skip scriptExit (joinStream salt 0 tests) stderr =
      .ok (tests.map fun t => ⟨t.1, [], (t.2 : Int)⟩) :=
  executeAll_combined salt hs hsl h126 skip scriptExit tests stderr hse hlen hg

/-- a payload line that looks like a divider, with the salt `X` (the execution's is `S`) -/
def lookalike : Bytes := PREFIX ++ [88, 58, 58, 48, 58, 58, 48, 10]

/-- regression (fix 05d9dbd): output that looks like a divider -- a complete divider line with a
foreign salt, the bare prefix in the middle of a line, the bare prefix as unterminated last line --
is output: it satisfies the guard and every test gets its bytes and exit code back -/
theorem C13_divider_lookalike_is_output :
    noSalted [83] lookalike = true ∧
    executeAll [83] 3 true 80 0
        (joinStream [83] 0 [(lookalike, 0), ([115, 101, 101, 32] ++ PREFIX ++ [32, 120, 10], 3), (PREFIX, 7)]) [] =
      .ok [⟨lookalike, [], 0⟩, ⟨[115, 101, 101, 32] ++ PREFIX ++ [32, 120, 10], [], 3⟩, ⟨PREFIX, [], 7⟩] := by
  decide

/-- a guard is needed by any in-band protocol: a payload that contains the divider start with the
execution's own salt is split there -/
theorem C13_divider_guard_needed :
    noSalted [83] (needle [83] ++ [48, 58, 58, 48, 10]) = false ∧
    executeAll [83] 1 true 80 0 (joinStream [83] 0 [(needle [83] ++ [48, 58, 58, 48, 10], 0)]) [] = .failed 0 := by
  decide

/-! ## the script text of the single-script mode (`compile_script`)

What bash does with the text is not modelled; these statements are about the text itself, for every
salt, stream mode, list of `export` lines and list of expressions.  Fix: the exit code of an
expression is taken by a command of its own, `__SCRUT_EXIT_CODE=$?`, and the divider lines expand
that variable.  With the former text (`echo "<divider>::$?"` directly behind the empty line) an
expression that ends in `|` made the divider `echo` the rest of the user's pipeline: its output was
swallowed and `$?` was the status of the `echo`, 0.  Now what can be swallowed is the assignment, and
the divider is then left without an exit code (`parse_divider_bytes` fails: execution error). -/

/-- the line that follows every expression is literally `__SCRUT_EXIT_CODE=$?` -/
example : assignLine = ['_', '_', 'S', 'C', 'R', 'U', 'T', '_', 'E', 'X', 'I', 'T', '_', 'C', 'O', 'D', 'E', '=', '$', '?'] := by decide

/-- **script layout, line by line**: around ANY expression `e` (test number `pre.length`) the script
lines are: `e`, an empty line, `__SCRUT_EXIT_CODE=$?`, `echo "<divider>"`, `1>&2 echo "<divider>"`
(unless combined), `unset __SCRUT_EXIT_CODE`; before them the lines of the tests before, after them
those of the tests after. -/
theorem C13_script_lines_around_expression (salt : List Char) (combined : Bool)
    (pre : List (List Char)) (e : List Char) (post : List (List Char)) :
    scriptLines salt combined 0 (pre ++ e :: post) =
      scriptLines salt combined 0 pre ++
        ([e, [], assignLine, echoLine salt pre.length] ++
          (if combined then [] else [echoErrLine salt pre.length]) ++ [unsetLine]) ++
        scriptLines salt combined (pre.length + 1) post := by
  rw [scriptLines_append]
  simp only [scriptLines, Nat.zero_add, testLines, List.append_assoc]

/-- **the exit code is taken by a command of its own** (statement on the TEXT handed to bash): around
ANY expression `e` the compiled script is `head ++ e ++ "\n\n__SCRUT_EXIT_CODE=$?\necho
\"<divider>\"\n" ++ ["1>&2 echo \"<divider>\"\n"] ++ "unset __SCRUT_EXIT_CODE" ++ tail`, where `head` is
empty or ends with a newline and `tail` is empty or starts with one: the expression starts on a
line of its own, it reaches the shell verbatim, and the first line behind it that is not empty is
exactly the assignment, followed by the divider `echo` of THIS test (index `pre.length`). -/
theorem C13_script_exit_code_taken_by_assignment (salt : List Char) (combined : Bool)
    (exports pre : List (List Char)) (e : List Char) (post : List (List Char)) :
    ∃ head tail : List Char,
      compileScript salt combined exports (pre ++ e :: post) =
        head ++ (e ++ [NL, NL] ++ assignLine ++ [NL] ++ echoLine salt pre.length ++ [NL] ++
          (if combined then [] else echoErrLine salt pre.length ++ [NL]) ++ unsetLine) ++ tail ∧
      (head = [] ∨ head.getLast? = some NL) ∧ (tail = [] ∨ tail.head? = some NL) :=
  compileScript_at salt combined exports pre e post

/-- **no divider line reads `$?`**: for a salt without `?` (the real one is alphanumeric) the two
divider `echo` lines of every test hold no `?` at all, so `$?` does not occur in them; and a line of
the script in which `$?` occurs is one of the user's expressions or the assignment line.  Hence the
only command of scrut's own that reads a status is the assignment, and the status it can read is
that of what stands directly in front of it. -/
theorem C13_script_dividers_do_not_read_status (salt : List Char) (combined : Bool) (hs : '?' ∉ salt) :
    (∀ k, '?' ∉ echoLine salt k ∧ '?' ∉ echoErrLine salt k ∧
      ¬ ['$', '?'] <:+: echoLine salt k ∧ ¬ ['$', '?'] <:+: echoErrLine salt k) ∧
    ∀ (exprs : List (List Char)) (i : Nat) (l : List Char), l ∈ scriptLines salt combined i exprs →
      ['$', '?'] <:+: l → l ∈ exprs ∨ l = assignLine := by
  have hq : ∀ l : List Char, ['$', '?'] <:+: l → '?' ∈ l := by
    intro l h
    obtain ⟨s, t, rfl⟩ := h
    simp
  refine ⟨fun k => ⟨qmark_not_mem_echoLine salt k hs, qmark_not_mem_echoErrLine salt k hs,
    fun h => qmark_not_mem_echoLine salt k hs (hq _ h),
    fun h => qmark_not_mem_echoErrLine salt k hs (hq _ h)⟩, ?_⟩
  intro exprs i l hl h
  exact scriptLines_qmark salt combined hs exprs i l hl (hq _ h)

set_option maxRecDepth 10000 in
/-- the script for `export A=b`, `sh -c 'exit 7' |` and `true`, separate streams, salt `S` -/
example : compileScript ['S'] false [['e', 'x', 'p', 'o', 'r', 't', ' ', 'A', '=', 'b']] [['s', 'h', ' ', '-', 'c', ' ', '\'', 'e', 'x', 'i', 't', ' ', '7', '\'', ' ', '|'], ['t', 'r', 'u', 'e']] =
    ['e', 'x', 'p', 'o', 'r', 't', ' ', 'A', '=', 'b', '\n', 's', 'h', ' ', '-', 'c', ' ', '\'', 'e', 'x', 'i', 't', ' ', '7', '\'', ' ', '|', '\n', '\n', '_', '_', 'S', 'C', 'R', 'U', 'T', '_', 'E', 'X', 'I', 'T', '_', 'C', 'O', 'D', 'E', '=', '$', '?', '\n', '\\', 'b', 'u', 'i', 'l', 't', 'i', 'n', ' ', 'e', 'c', 'h', 'o', ' ', '"', '~', '~', '~', '~', '~', '~', '~', '~', 'E', 'X', 'E', 'C', 'D', 'I', 'V', 'I', 'D', 'E', 'R', ':', ':', 'S', ':', ':', '0', ':', ':', '$', '_', '_', 'S', 'C', 'R', 'U', 'T', '_', 'E', 'X', 'I', 'T', '_', 'C', 'O', 'D', 'E', '"', '\n', '1', '>', '&', '2', ' ', '\\', 'b', 'u', 'i', 'l', 't', 'i', 'n', ' ', 'e', 'c', 'h', 'o', ' ', '"', '~', '~', '~', '~', '~', '~', '~', '~', 'E', 'X', 'E', 'C', 'D', 'I', 'V', 'I', 'D', 'E', 'R', ':', ':', 'S', ':', ':', '0', ':', ':', '$', '_', '_', 'S', 'C', 'R', 'U', 'T', '_', 'E', 'X', 'I', 'T', '_', 'C', 'O', 'D', 'E', '"', '\n', '\\', 'b', 'u', 'i', 'l', 't', 'i', 'n', ' ', 'u', 'n', 's', 'e', 't', ' ', '_', '_', 'S', 'C', 'R', 'U', 'T', '_', 'E', 'X', 'I', 'T', '_', 'C', 'O', 'D', 'E', '\n', 't', 'r', 'u', 'e', '\n', '\n', '_', '_', 'S', 'C', 'R', 'U', 'T', '_', 'E', 'X', 'I', 'T', '_', 'C', 'O', 'D', 'E', '=', '$', '?', '\n', '\\', 'b', 'u', 'i', 'l', 't', 'i', 'n', ' ', 'e', 'c', 'h', 'o', ' ', '"', '~', '~', '~', '~', '~', '~', '~', '~', 'E', 'X', 'E', 'C', 'D', 'I', 'V', 'I', 'D', 'E', 'R', ':', ':', 'S', ':', ':', '1', ':', ':', '$', '_', '_', 'S', 'C', 'R', 'U', 'T', '_', 'E', 'X', 'I', 'T', '_', 'C', 'O', 'D', 'E', '"', '\n', '1', '>', '&', '2', ' ', '\\', 'b', 'u', 'i', 'l', 't', 'i', 'n', ' ', 'e', 'c', 'h', 'o', ' ', '"', '~', '~', '~', '~', '~', '~', '~', '~', 'E', 'X', 'E', 'C', 'D', 'I', 'V', 'I', 'D', 'E', 'R', ':', ':', 'S', ':', ':', '1', ':', ':', '$', '_', '_', 'S', 'C', 'R', 'U', 'T', '_', 'E', 'X', 'I', 'T', '_', 'C', 'O', 'D', 'E', '"', '\n', '\\', 'b', 'u', 'i', 'l', 't', 'i', 'n', ' ', 'u', 'n', 's', 'e', 't', ' ', '_', '_', 'S', 'C', 'R', 'U', 'T', '_', 'E', 'X', 'I', 'T', '_', 'C', 'O', 'D', 'E'] := by decide

set_option maxRecDepth 10000 in
/-- … and for `a |` alone, `combined` -/
example : compileScript ['S'] true [] [['a', ' ', '|']] =
    ['a', ' ', '|', '\n', '\n', '_', '_', 'S', 'C', 'R', 'U', 'T', '_', 'E', 'X', 'I', 'T', '_', 'C', 'O', 'D', 'E', '=', '$', '?', '\n', '\\', 'b', 'u', 'i', 'l', 't', 'i', 'n', ' ', 'e', 'c', 'h', 'o', ' ', '"', '~', '~', '~', '~', '~', '~', '~', '~', 'E', 'X', 'E', 'C', 'D', 'I', 'V', 'I', 'D', 'E', 'R', ':', ':', 'S', ':', ':', '0', ':', ':', '$', '_', '_', 'S', 'C', 'R', 'U', 'T', '_', 'E', 'X', 'I', 'T', '_', 'C', 'O', 'D', 'E', '"', '\n', '\\', 'b', 'u', 'i', 'l', 't', 'i', 'n', ' ', 'u', 'n', 's', 'e', 't', ' ', '_', '_', 'S', 'C', 'R', 'U', 'T', '_', 'E', 'X', 'I', 'T', '_', 'C', 'O', 'D', 'E'] := by decide

/-! ## non-vacuity -/

/-- `\r\r\n` keeps one CR in front of the LF (and the result contains a CR LF again) -/
example : replaceCrlfSpec [97, 13, 13, 10, 98, 13, 10, 13] = [97, 13, 10, 98, 10, 13] := by decide

/-- the hypothesis of `C13_expression_verbatim` holds for a small template with all six placeholders -/
example : exprOnce (substOthers (PH_STATE ++ PH_NAME ++ PH_EXCL ++ PH_ENV ++ PH_PERSIST ++ [' '] ++ PH_EXPR ++ ['\n'])
    ['/', 't'] ['e', '1'] ['A', '|', 'B'] ['V', ' ', 'W'] false) = true := by decide

/-- … and an expression that names placeholders reaches the shell unchanged -/
example : render (PH_PERSIST ++ [' '] ++ PH_EXPR) [] [] [] [] false (PH_PERSIST ++ PH_EXPR) =
    ['1', ' '] ++ PH_PERSIST ++ PH_EXPR := by decide

/-- the guards of the round trip are satisfiable: unterminated, empty and binary payloads -/
example : executeAll [83] 3 false 80 0
    (joinStream [83] 0 [([97, 10, 98], 3), ([], 0), ([0, 255, 10], 255)])
    (joinStream [83] 0 [([101], 3), ([], 0), ([126, 126, 10, 10], 255)]) =
    .ok [⟨[97, 10, 98], [101], 3⟩, ⟨[], [], 0⟩, ⟨[0, 255, 10], [126, 126, 10, 10], 255⟩] := by decide

example : noSalted [83] ([126, 126, 126, 126, 126, 126, 126, 126, 10] ++ PREFIX ++ [88, 58, 58]) = true := by decide

end Scrut.Props.C13
