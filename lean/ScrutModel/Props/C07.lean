import ScrutModel.Lemmas.CramOrphan
import ScrutModel.Lemmas.LineParserExit
/-!
# C07 — Cram documents: indented `$` blocks become the written tests, in order

Model: `Scrut.Cram.parseCram expOk n text` (`Model/Cram.lean`) = `CramParser::new(maker, n).parse(text)`
on top of the shared `LineParser` model with `allow_multiple_commands = true`; `expOk` (does a text
parse as an expectation?) is a parameter, so every theorem holds for every expectation grammar.

A document **by construction** is a `CramDoc`: a list of title lines, blank lines, unindented `#`
comment lines and tests (`$ ` line, `> ` continuation lines, then expectation / `[n]` lines, with
`#` comment lines allowed between them).  `render` writes it, `CramDoc.tests` reads off the tests
that are written in it — **with the title as the code computes it**: the last title line since the
previous command (`LineParser::flush` clears the title when a test is pushed, so the second `$`
line of one block has the title `""`; this is how Cram attaches a title to the next command only,
and `cram.rs`'s own test `test_real_life_multiline` expects it).

Where the real code deviates from the property text (kept visible below, reported by the harness
oracle under the class named there):

* `C07:title-not-nearest` — the property says "nearest preceding unindented title line"; the code
  gives `""` to every test after the first one below a title.

Repaired (fix 67abd12, formerly `C07:orphan-exit-code-adopted` / `C07:orphan-expectation-adopted`):
indented lines that are not below a command used to be kept in the engine and became the exit code
(even across blank lines) / the first expectations of the **next** command; they are an error now
(`C07_orphan_lines_rejected`, the two former witnesses are regression theorems).
-/
namespace Scrut.Props.C07
open Scrut.LineParser Scrut.Cram

/-- **C07 (never crashes)**: parsing any text with any indentation either fails with one of the seven
`bail!`s of `line_parser.rs` or yields the Cram document configuration and a list of tests.
(`cram.rs`/`line_parser.rs` contain no index, slice, subtraction or `unwrap`; that the real parser
does not panic is checked on every generated document by the correspondence.) -/
theorem C07_no_crash (expOk : List Char → Bool) (n : Nat) (text : List Char) :
    (∃ e : Err, parseCram expOk n text = .error e) ∨
    (∃ ts, parseCram expOk n text = .ok (DocConfig.defaultCram, ts)) :=
  parseCram_total expOk n text

/-- **C07 (documents by construction)**: for every indentation `n+1 ≥ 1` and every document `d` whose
atoms are well formed (`docOk`: no line breaks inside atoms; titles are non-empty, not indented, not
`#`; expectation texts parse, do not start with `$ `, are not of the form `[digits]` (CHANGED with the fix
"exit code out of range": before, only `[digits]` that fit an `i32` were excluded and a larger
number was read as an expectation; now such a line is the error `exitCodeOutOfRange`), and the
first one below the command lines does not start with `> `; at most one exit-code line per test,
its digits fit an `i32`), parsing the rendered text yields exactly `d.tests`: one test per `$ `
line, in order; shell expression = the command text and the `> ` texts (joined with `\n` by
`TestCase.shellExpression`); expectations = the texts after the indentation, unchanged
(whitespace-only and empty ones included); exit code = value of the digits; 1-based line number
of the `$ ` line; title = last title line since the previous command or `""`; Cram defaults. -/
theorem C07_wellformed (expOk : List Char → Bool) (n : Nat) (d : CramDoc)
    (wf : docOk expOk (n + 1) d = true) :
    parseCram expOk (n + 1) (render (n + 1) d) = .ok (DocConfig.defaultCram, d.tests) :=
  parseCram_render expOk n d wf

/-- **C07 (one test per `$ ` line, in order)**, for *every* text that parses (no well-formedness):
the list of (line number, first command line) of the tests is exactly the list of (1-based line
number, text after `$ `) of the lines that start with the indentation followed by `$ ` and are not
`#` lines (`cmdLinesFrom`), in document order — no command is dropped, duplicated, merged or
reordered, consecutive `$ ` lines are separate tests. -/
theorem C07_one_test_per_command (expOk : List Char → Bool) (n : Nat) (text : List Char) (dc : DocConfig)
    (ts : List Test) (h : parseCram expOk n text = .ok (dc, ts)) :
    ts.map keyOf = cmdLinesFrom (indentOf n) 0 (lines text) :=
  parseCram_keys expOk n text dc ts h

/-- **C07 (comments and unindented text are inert)**, for *every* text: each command line of each
resulting test is the text after `$ ` / `> ` of a line that starts with the indentation and is
not a `#` line, and each expectation is the text after the indentation of such a line. Hence no
`#` line and (for `n ≥ 1`) no unindented line ever becomes a command or an expectation. -/
theorem C07_comments_inert (expOk : List Char → Bool) (n : Nat) (text : List Char) (dc : DocConfig)
    (ts : List Test) (h : parseCram expOk n text = .ok (dc, ts)) :
    ∀ t ∈ ts,
      (∀ l ∈ t.command, ∃ line ∈ lines text, isComment line = false ∧
        (stripPrefix (indentOf n) line = some ('$' :: ' ' :: l) ∨
         stripPrefix (indentOf n) line = some ('>' :: ' ' :: l))) ∧
      (∀ e ∈ t.expectations, ∃ line ∈ lines text, isComment line = false ∧
        stripPrefix (indentOf n) line = some e) :=
  parseCram_sources expOk n text dc ts h

/-- a `#` line changes nothing in the engine, whatever its state (it does not even end a test) -/
theorem C07_comment_line_skipped (expOk : List Char → Bool) (ind : List Char) (s : St) (i : Nat)
    (c : List Char) : step expOk ind s i ('#' :: c) = .ok s :=
  step_comment expOk s i c ind

/-- **C07 (defaults)**, for *every* text that parses: the document configuration is the Cram one
and every test carries `TestCaseConfig::default_cram()`. -/
theorem C07_defaults (expOk : List Char → Bool) (n : Nat) (text : List Char) (dc : DocConfig)
    (ts : List Test) (h : parseCram expOk n text = .ok (dc, ts)) :
    dc = DocConfig.defaultCram ∧ ∀ t ∈ ts, t.config = some TCConfig.defaultCram :=
  parseCram_defaults expOk n text dc ts h

/-- what the Cram defaults are: combined output, CRLF kept, skip code 80; total timeout 900 s -/
theorem C07_defaults_values :
    TCConfig.defaultCram.outputStream = some .combined ∧ TCConfig.defaultCram.keepCrlf = some true ∧
    TCConfig.defaultCram.skipDocumentCode = some 80 ∧ DocConfig.defaultCram.totalTimeoutSecs = some 900 :=
  ⟨rfl, rfl, rfl, rfl⟩

/-! ### Titles.  Full strength (the property's text), **false for the code**:
`∀ d, docOk … d → (d.tests).map title = nearestTitles none d`
(every test carries the nearest preceding title line). -/

/-- **partial**: when every test that has a title line somewhere before it is the first test after
a title line (`ownTitles`), the title the code computes is the nearest preceding title line. -/
theorem C07_title_nearest_partial (d : CramDoc) (h : ownTitles false false d = true) :
    d.tests.map (·.title) = nearestTitles none d :=
  tests_titles_nearest d h

/-- the document `T⏎  $ a⏎  $ b⏎` -/
def titleWitness : CramDoc := [.title ['T'], .test ⟨['a'], [], []⟩, .test ⟨['b'], [], []⟩]

/-- **witness** (`C07:title-not-nearest`): in `T⏎  $ a⏎  $ b⏎` the second test gets the title `""`,
the nearest preceding title line is `T`. -/
theorem C07_title_nearest_fails_on_witness :
    docOk (fun _ => true) 2 titleWitness = true ∧
    (parseCram (fun _ => true) 2 (render 2 titleWitness)).toOption.map (·.2.map (·.title)) = some [['T'], []] ∧
    nearestTitles none titleWitness = [['T'], ['T']] := by
  decide

/-! ### Indented lines that are not below a command are an error (full strength since fix 67abd12) -/

/-- **C07 (orphan lines are rejected)**, for *every* text: if some line is indented, not empty, not a
`#` line and not a command start (`isBodyLine`: an expectation, `[n]` or `> ` line), and no command
is open before it (`closedAfter`: the last non-`#` line before it is blank or unindented, or there
is none), the document does not parse — such a line can never change a later test. -/
theorem C07_orphan_lines_rejected (expOk : List Char → Bool) (n : Nat) (text : List Char)
    (pre post : List (List Char)) (line : List Char) (ht : lines text = pre ++ line :: post)
    (hp : closedAfter (indentOf n) pre = true) (hl : isBodyLine (indentOf n) line = true) :
    ∃ e : Err, parseCram expOk n text = .error e :=
  parseCram_orphan expOk n text pre post line ht hp hl

/-- **regression** (was the witness of `C07:orphan-exit-code-adopted`): `  [1]⏎⏎  $ a⏎` used to give
the test `a` of the other block the exit code 1; it is an error at line 1 now. -/
theorem C07_orphan_exit_code_regression :
    parseCram (fun _ => true) 2 "  [1]\n\n  $ a\n".toList = .error (.bodyWithoutCommand 1) := by
  rfl

/-- **regression** (was the witness of `C07:orphan-expectation-adopted`): in `  ⏎  $ a⏎` the
whitespace-only line above the command used to become the expectation `""` of `a`; error now. -/
theorem C07_orphan_expectation_regression :
    parseCram (fun _ => true) 2 "  \n  $ a\n".toList = .error (.bodyWithoutCommand 1) := by
  rfl

/-! ## a line `[digits]` is an exit code or an error, never an expectation -/

/-- **C07 (exit-code lines, one step)**: `add_testcase_body` on a body line of the form
`^\[[0-9]+\]$`, in every state and either parser mode: the errors in the order of the code ("no
shell expression", then "exit code .. is out of range" when the number exceeds `i32::MAX`, then
"provided multiple times"), else the number becomes the exit code of the test.  In no case is
anything appended to the expectations. -/
theorem C07_exit_code_line_step {κ : Type} (expOk : List Char → Bool) (s : State κ) (line : List Char)
    (i : Nat) (h : isExitCodeForm line = true) :
    s.addBody expOk line i =
      if s.command.isEmpty then .error (.bodyWithoutCommand (i + 1))
      else match extractExitCode line with
        | none => .error (.exitCodeOutOfRange (i + 1))
        | some c =>
          if s.exitCode.isSome then .error (.exitCodeTwice (i + 1))
          else .ok ({ s with inCommand := false, exitCode := some c }, .exitCode) :=
  addBody_exitForm expOk s line i h

/-- the successful case: the step is an exit code step, the number fits into an `i32`, the
expectations are unchanged -/
theorem C07_exit_code_line_step_ok {κ : Type} (expOk : List Char → Bool) {s s' : State κ}
    {line : List Char} {i : Nat} {ct : CodeType} (h : isExitCodeForm line = true)
    (he : s.addBody expOk line i = .ok (s', ct)) :
    ct = .exitCode ∧ s'.expectations = s.expectations ∧ s.exitCode = none ∧
      ∃ c, extractExitCode line = some c ∧ c ≤ i32Max ∧ s'.exitCode = some c :=
  addBody_exitForm_ok expOk h he

/-- **C07 (no exit-code line among the expectations)**, for *every* text that parses, every
indentation and every expectation grammar: no expectation of any test has the form
`^\[[0-9]+\]$`.  (Before the fix, `  $ a⏎  [2147483648]⏎` parsed to the test `a` with the
expectation `[2147483648]` and no exit code.) -/
theorem C07_exit_code_line_never_expectation (expOk : List Char → Bool) (n : Nat) (text : List Char)
    (dc : DocConfig) (ts : List Test) (h : parseCram expOk n text = .ok (dc, ts)) :
    ∀ t ∈ ts, ∀ e ∈ t.expectations, isExitCodeForm e = false := by
  unfold parseCram at h
  split at h
  · cases h
  · rename_i ts' hts
    cases h
    exact parseLines_noExitForm expOk (indentOf n) (lines text) hts

/-- **regression** (witness of `C07:exit-code-out-of-range-becomes-expectation`) -/
theorem C07_exit_code_out_of_range_regression :
    parseCram (fun _ => true) 2 "  $ a\n  [2147483648]\n".toList = .error (.exitCodeOutOfRange 2) ∧
    parseCram (fun _ => true) 2 "  $ a\n  o\n  [99999999999]\n".toList = .error (.exitCodeOutOfRange 3) := by
  constructor <;> rfl

/-- the order of the errors: "no shell expression" first, "out of range" before "multiple times" -/
theorem C07_exit_code_out_of_range_order :
    parseCram (fun _ => true) 2 "  [2147483648]\n  $ a\n".toList = .error (.bodyWithoutCommand 1) ∧
    parseCram (fun _ => true) 2 "  $ a\n  [1]\n  [2147483648]\n".toList = .error (.exitCodeOutOfRange 3) ∧
    parseCram (fun _ => true) 2 "  $ a\n  [1]\n  [2147483647]\n".toList = .error (.exitCodeTwice 3) := by
  refine ⟨?_, ?_, ?_⟩ <;> rfl

example : isExitCodeForm "[2147483648]".toList = true ∧ extractExitCode "[2147483648]".toList = none ∧
    exitCodeOverflows "[2147483648]".toList = true := by refine ⟨?_, ?_, ?_⟩ <;> rfl
/-- the largest exit code, also with leading zeros -/
example : (parseCram (fun _ => true) 2 "  $ a\n  [2147483647]\n".toList).map (·.2.map (·.exitCode)) =
    .ok [some 2147483647] := by rfl
example : extractExitCode "[0002147483647]".toList = some 2147483647 ∧
    exitCodeOverflows "[0002147483647]".toList = false := by constructor <;> rfl
/-- not of the form: read as expectations as before -/
example : isExitCodeForm "[2147483648] (equal)".toList = false ∧ isExitCodeForm "[-1]".toList = false ∧
    isExitCodeForm "[]".toList = false ∧ isExitCodeForm " [1]".toList = false := by
  refine ⟨?_, ?_, ?_, ?_⟩ <;> rfl

/-! Non-vacuity -/

/-- a document using every construct -/
def sample : CramDoc :=
  [.comment [' ', 'c'], .title ['T'], .blank,
   .test ⟨['a'], [.cont ['b'], .comment ['x']], [.exp ['o', ' '], .comment [], .exp [], .exit ['0', '7'], .exp ['>', ' ', 'y']]⟩,
   .test ⟨['c'], [], [.exp [' ']]⟩, .title [' ', '$', ' ', 'x'], .comment [], .test ⟨['d'], [], []⟩]

example : docOk (fun _ => true) 2 sample = true := by decide
example : ownTitles false false [.title ['T'], .test ⟨['a'], [], []⟩, .blank, .title ['U'], .test ⟨['b'], [], []⟩] = true := by
  decide
example : sample.tests.map (fun t => (t.title, t.shellExpression, t.expectations, t.exitCode, t.lineNumber)) =
    [(['T'], ['a', '\n', 'b'], [['o', ' '], [], ['>', ' ', 'y']], some 7, 4),
     ([], ['c'], [[' ']], none, 12),
     ([' ', '$', ' ', 'x'], ['d'], [], none, 16)] := by
  decide

example : cmdLinesFrom (indentOf 2) 0 (lines (render 2 sample)) =
    [(4, some ['a']), (12, some ['c']), (16, some ['d'])] := by decide

example : closedAfter (indentOf 2) [['T'], [' ', ' ', '$', ' ', 'a'], [], ['#']] = true ∧
    isBodyLine (indentOf 2) [' ', ' ', '[', '1', ']'] = true ∧ isBodyLine (indentOf 2) [' ', ' '] = true := by decide

end Scrut.Props.C07
