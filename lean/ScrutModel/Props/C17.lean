import ScrutModel.Lemmas.OneLiner
/-!
# C17 — Configuration survives being written out and read back

Model: `Scrut.Dur` (humantime 2.4 `format_duration` / `parse_duration`, checked `u64` arithmetic,
the `Duration::new` panic as `crash`), `Scrut.Yaml` (`TestCaseConfig::to_yaml_one_liner`
= `toOneLiner`, serde_json string quoting = `jsonQuote`, and `parseFlow`: libyaml's reader check,
flow-context scalar scanning, the 1024-byte simple-key rule, serde_yaml's scalar resolution and the
typed layer of `TestCaseConfig`). All of it is tied to the real code on every run by the
correspondence harness (`harness/src/yamlcfg.rs`).

Proved here for ALL values:
* durations (`C17_duration_roundtrip`) and quoted strings (`C17_quote_roundtrip`,
  `C17_quoted_scalar_in_context`) — the two parts where hand-written formatting has to be an inverse
  of a parser;
* `C17_rendered_ast_reads_back`: the whole flow parser (reader check, line-break check, key/value
  scanning, nested mapping, separators, 1024-byte key rule) reads back ANY list of rendered
  `key: value` pieces whose plain scalars are tokens (`Tok`: no `, [ ] { } : #`, no line break,
  readable, valid first character, no trailing blank), whatever the quoted strings contain;
* `C17_one_liner_scalars`: the full statement `parseFlow (toOneLiner c) = .ok c` for every
  configuration over the keys output_stream, keep_crlf, timeout, detached, strip_ansi_escaping
  (every subset, every duration).

NOT proved (full-strength statement, kept visible):

    theorem C17_one_liner (c : Cfg) (h : Renderable c) : parseFlow (toOneLiner c) = .ok c

where `Renderable` has to require (because the REAL code violates the property otherwise, see
`C17_fails_on_long_name`, oracle class `C17:long-key`): the rendered environment names are at most
1024 UTF-8 bytes; plus the type invariants (`nanos < 10^9`, `secs < 2^64`, skip code in `i32`,
distinct environment names). By `C17_rendered_ast_reads_back` what is missing is only:
(1) `Tok (intDigits i)` and `intOfText (intDigits i) = some i` (no leading zeros, value of the digits);
(2) `isPlainSafe p → Tok p ∧ ¬ isNullText p` (character-order reasoning for names and paths);
(3) `plainIsString (durText d)` for `wait: 2m 3s` (a formatted duration is not null/bool/number-like);
(4) the typed layer for `wait: {timeout, path}` and `environment` (`envOf (envVal e) = e`).
These configurations are covered by the harness (every key subset, the string alphabet in every
position, random configurations) through the model and the real `serde_yaml`, and by the concrete
instances below.
-/
namespace Scrut.Props.C17
open Scrut.Dur Scrut.Yaml

/-- **C17 (durations)**: for every `Duration` (any `secs < 2^64`, `nanos < 10^9`) the text written
by `humantime::format_duration` is read by `humantime::parse_duration` as the same duration: no
error, no overflow, no panic, same seconds and nanoseconds. -/
theorem C17_duration_roundtrip (secs nanos : Nat) (hn : nanos < 1000000000)
    (hs : secs ≤ 18446744073709551615) :
    parseDuration (formatDuration secs nanos) = .ok ⟨secs, nanos⟩ :=
  duration_roundtrip secs nanos hn hs

/-- **C17 (quoted strings)**: for every string (quotes, backslashes, control characters, any
Unicode) the JSON-quoted form written by `yaml_quoted` is a complete double-quoted YAML scalar whose
content is the string, character for character. -/
theorem C17_quote_roundtrip (s : List Char) : unquote (jsonQuote s) = some s :=
  quote_roundtrip s

/-- … and placed in front of any following text (`, next: …}`), the scalar scanner consumes exactly
the quoted form and yields the string: quoting can never swallow or leak into its context. -/
theorem C17_quoted_scalar_in_context (s tail : List Char) :
    scanScalar (jsonQuote s ++ tail) = some (.quoted s, tail) :=
  scan_jsonQuote s tail

/-- **C17 (the parser side, all rendered pieces)**: a list of `key: value` pieces (values: scalars
or one nested mapping) whose plain scalars are tokens and whose keys render to at most 1024 bytes
(`GoodKV`), joined with `, ` and wrapped in braces, passes the reader, contains no line break, is
split into exactly these keys and values, and is handed to the typed layer `interp` unchanged.
Quoted scalars may contain anything. -/
theorem C17_rendered_ast_reads_back (a : Ast) (c : Cfg) (h : a.all GoodKV = true)
    (hi : interp a = .ok c) : parseFlow (Ast.render a) = .ok c :=
  parseFlow_render a c h hi

/-- **C17 (scalar keys)**: every configuration that sets any subset of output_stream, keep_crlf,
timeout, detached, strip_ansi_escaping — any stream, any booleans, any duration with
`secs < 2^64`, `nanos < 10^9` — is read back from its one-line form exactly. -/
theorem C17_one_liner_scalars (c : Cfg) (h : ScalarOnly c) : parseFlow (toOneLiner c) = .ok c :=
  one_liner_scalars c h

/-- all five scalar keys set, largest duration -/
def scalarExample : Cfg :=
  { outputStream := some .combined, keepCrlf := some false,
    timeout := some (18446744073709551615, 999999999), detached := some true,
    stripAnsi := some false }

/-- non-vacuity of `ScalarOnly` -/
example : ScalarOnly scalarExample :=
  ⟨rfl, rfl, rfl, fun d hd => by cases hd; exact ⟨by decide, by decide⟩⟩

/-- all eight keys set, values with quotes, backslash, braces, commas, `#`, colon, blanks, a
control character and non-ASCII text -/
def fullExample : Cfg :=
  { outputStream := some .stderr, keepCrlf := some true, timeout := some (234, 5000000),
    detached := some false, skipCode := some (-123), stripAnsi := some true,
    wait := some ⟨(18446744073709551615, 999999999), some ['a', ' ', 'b', ':', ' ', '{', 'c', '}']⟩,
    env := [(['F', 'O', 'O'], ['"', '\\', ' ', '{', '}', ',', ' ', '#', ':', ' ', 'é', '\t', Char.ofNat 1]),
            (['t', 'r', 'u', 'e'], []), ([' '], ['~'])] }

set_option maxRecDepth 100000 in
/-- the one-liner of `fullExample` reads back as `fullExample` -/
theorem C17_one_liner_example : parseFlow (toOneLiner fullExample) = .ok fullExample := by rfl

theorem C17_one_liner_empty : parseFlow (toOneLiner {}) = .ok {} := by rfl

/-- regression example for fix d9da776: values, a name and a path made of the characters that JSON
leaves unescaped but a YAML stream rejects (U+007F, U+0080, U+009F, U+FFFE, U+FFFF) or folds as
line breaks (U+0085, U+2028 and U+2029 between blanks) -/
def unreadableExample : Cfg :=
  { wait := some ⟨(1, 0), some [Char.ofNat 0x7f, '/', Char.ofNat 0x85]⟩,
    env := [(['K'], [Char.ofNat 0x7f, Char.ofNat 0x80, Char.ofNat 0x9f, Char.ofNat 0xfffe, Char.ofNat 0xffff]),
            (['L'], [' ', Char.ofNat 0x2028, ' ', Char.ofNat 0x85, ' ', Char.ofNat 0x2029, ' ']),
            ([Char.ofNat 0x2028], ['x'])] }

set_option maxRecDepth 100000 in
/-- since d9da776 `yaml_quoted` writes these characters as `\uXXXX`: the configuration reads back
(before the fix the reader rejected the text or folded the line breaks into blanks) -/
theorem C17_one_liner_unreadable_chars :
    parseFlow (toOneLiner unreadableExample) = .ok unreadableExample := by rfl

/-- a variable name of 1025 letters -/
def longNameWitness : Cfg := { env := [(List.replicate 1025 'a', ['v'])] }

set_option maxRecDepth 100000 in
/-- **the real code violates C17 here**: YAML only accepts mapping keys of at most 1024 bytes on
one line ("simple keys"); a longer environment variable name is written out but not read back. -/
theorem C17_fails_on_long_name : parseFlow (toOneLiner longNameWitness) = .error := by rfl

/-- non-vacuity of the duration hypotheses, largest value -/
example : parseDuration (formatDuration 18446744073709551615 999999999) =
    .ok ⟨18446744073709551615, 999999999⟩ :=
  C17_duration_roundtrip _ _ (by decide) (by decide)

example : unquote (jsonQuote ['"', '\\', '\n', Char.ofNat 0, 'é']) = some ['"', '\\', '\n', Char.ofNat 0, 'é'] :=
  C17_quote_roundtrip _

end Scrut.Props.C17
