import ScrutModel.Lemmas.OneLinerAll
/-!
# C17 — Configuration survives being written out and read back

Model: `Scrut.Dur` (humantime 2.4 `format_duration` / `parse_duration`, checked `u64` arithmetic,
the `Duration::new` panic as `crash`), `Scrut.Yaml` (`TestCaseConfig::to_yaml_one_liner`
= `toOneLiner`, serde_json string quoting = `jsonQuote`, and `parseFlow`: libyaml's reader check,
flow-context scalar scanning, the 1024-byte simple-key rule, serde_yaml's scalar resolution and the
typed layer of `TestCaseConfig`). All of it is tied to the real code on every run by the
correspondence harness (`harness/src/yamlcfg.rs`).

Proved here for ALL values:
* `C17_one_liner`: **every** configuration of the model's config type — any subset of the 8 keys, any
  stream/booleans, any `i32` skip code, any durations, `wait` in both forms with any path,
  `environment` with any names and values (quotes, backslashes, colons, braces, commas, `#`, blanks,
  control characters, any Unicode) — is read back from its one-line form exactly, under the decidable
  guard `Renderable`:
  durations are `Duration`s (`secs < 2^64`, `nanos < 10^9`), the skip code is an `i32` (both are
  invariants of the Rust types) and every environment name renders to a key of at most 1024 UTF-8
  bytes (names over 1024 bytes, 1022 when they have to be quoted: the REAL code does not round-trip
  them — open finding `C17:long-key`, `C17_fails_on_long_name`). Each conjunct of the guard is
  necessary: `C17_guard_*` witnesses.
* the ingredients: durations (`C17_duration_roundtrip`), quoted strings (`C17_quote_roundtrip`,
  `C17_quoted_scalar_in_context`), the parser side for any rendered pieces
  (`C17_rendered_ast_reads_back`), the scalar-key corollary (`C17_one_liner_scalars`).

The environment is the ascending entry list of the `BTreeMap`; the theorem holds for any list (the
parser returns the entries in document order), so no distinctness hypothesis is needed.
Front-matter (`DocumentConfig` through serde_yaml's block emitter) and the code-fence embedding are
not modelled: direct oracle on the real code only.
-/
namespace Scrut.Props.C17
open Scrut.Dur Scrut.Yaml

/-- **C17 (durations)**: for every `Duration` (any `secs < 2^64`, `nanos < 10^9`) the text written
by `humantime::format_duration` is read by `humantime::parse_duration` as the same duration: no
error, no overflow, no panic, same seconds and nanoseconds. -/
theorem C17_duration_roundtrip (secs nanos : Nat) (hn : nanos < 1000000000)
    (hs : secs ≤ 18446744073709551615) :
    parseDuration (formatDuration secs nanos) = .ok ⟨secs, nanos⟩ :=
  duration_roundtrip secs nanos hn hs

/-- **C17 (quoted strings)**: for every string (quotes, backslashes, control characters, any
Unicode) the JSON-quoted form written by `yaml_quoted` is a complete double-quoted YAML scalar whose
content is the string, character for character. -/
theorem C17_quote_roundtrip (s : List Char) : unquote (jsonQuote s) = some s :=
  quote_roundtrip s

/-- … and placed in front of any following text (`, next: …}`), the scalar scanner consumes exactly
the quoted form and yields the string: quoting can never swallow or leak into its context. -/
theorem C17_quoted_scalar_in_context (s tail : List Char) :
    scanScalar (jsonQuote s ++ tail) = some (.quoted s, tail) :=
  scan_jsonQuote s tail

/-- **C17 (the parser side, all rendered pieces)**: a list of `key: value` pieces (values: scalars
or one nested mapping) whose plain scalars are tokens and whose keys render to at most 1024 bytes
(`GoodKV`), joined with `, ` and wrapped in braces, passes the reader, contains no line break, is
split into exactly these keys and values, and is handed to the typed layer `interp` unchanged.
Quoted scalars may contain anything. -/
theorem C17_rendered_ast_reads_back (a : Ast) (c : Cfg) (h : a.all GoodKV = true)
    (hi : interp a = .ok c) : parseFlow (Ast.render a) = .ok c :=
  parseFlow_render a c h hi

/-- **C17 (scalar keys)**: every configuration that sets any subset of output_stream, keep_crlf,
timeout, detached, strip_ansi_escaping — any stream, any booleans, any duration with
`secs < 2^64`, `nanos < 10^9` — is read back from its one-line form exactly. -/
theorem C17_one_liner_scalars (c : Cfg) (h : ScalarOnly c) : parseFlow (toOneLiner c) = .ok c :=
  one_liner_scalars c h

/-- all five scalar keys set, largest duration -/
def scalarExample : Cfg :=
  { outputStream := some .combined, keepCrlf := some false,
    timeout := some (18446744073709551615, 999999999), detached := some true,
    stripAnsi := some false }

/-- non-vacuity of `ScalarOnly` -/
example : ScalarOnly scalarExample :=
  ⟨rfl, rfl, rfl, fun d hd => by cases hd; exact ⟨by decide, by decide⟩⟩

/-- the guard of C17 (decidable: `renderable` is a Boolean function) -/
def Renderable (c : Cfg) : Prop := renderable c = true

instance (c : Cfg) : Decidable (Renderable c) := inferInstanceAs (Decidable (renderable c = true))

/-- **C17**: every renderable configuration survives `to_yaml_one_liner` followed by
`serde_yaml::from_str` (as modelled by `parseFlow`): same stream, booleans, code, durations, wait
settings and environment names and values, character for character. -/
theorem C17_one_liner (c : Cfg) (h : Renderable c) : parseFlow (toOneLiner c) = .ok c :=
  one_liner_all c h

/-- all eight keys set, values with quotes, backslash, braces, commas, `#`, colon, blanks, a
control character and non-ASCII text -/
def fullExample : Cfg :=
  { outputStream := some .stderr, keepCrlf := some true, timeout := some (234, 5000000),
    detached := some false, skipCode := some (-123), stripAnsi := some true,
    wait := some ⟨(18446744073709551615, 999999999), some ['a', ' ', 'b', ':', ' ', '{', 'c', '}']⟩,
    env := [(['F', 'O', 'O'], ['"', '\\', ' ', '{', '}', ',', ' ', '#', ':', ' ', 'é', '\t', Char.ofNat 1]),
            (['t', 'r', 'u', 'e'], []), ([' '], ['~'])] }

set_option maxRecDepth 100000 in
/-- the one-liner of `fullExample` reads back as `fullExample` -/
theorem C17_one_liner_example : parseFlow (toOneLiner fullExample) = .ok fullExample := by rfl

theorem C17_one_liner_empty : parseFlow (toOneLiner {}) = .ok {} := by rfl

/-- regression example for fix d9da776: values, a name and a path made of the characters that JSON
leaves unescaped but a YAML stream rejects (U+007F, U+0080, U+009F, U+FFFE, U+FFFF) or folds as
line breaks (U+0085, U+2028 and U+2029 between blanks) -/
def unreadableExample : Cfg :=
  { wait := some ⟨(1, 0), some [Char.ofNat 0x7f, '/', Char.ofNat 0x85]⟩,
    env := [(['K'], [Char.ofNat 0x7f, Char.ofNat 0x80, Char.ofNat 0x9f, Char.ofNat 0xfffe, Char.ofNat 0xffff]),
            (['L'], [' ', Char.ofNat 0x2028, ' ', Char.ofNat 0x85, ' ', Char.ofNat 0x2029, ' ']),
            ([Char.ofNat 0x2028], ['x'])] }

set_option maxRecDepth 100000 in
/-- since d9da776 `yaml_quoted` writes these characters as `\uXXXX`: the configuration reads back
(before the fix the reader rejected the text or folded the line breaks into blanks) -/
theorem C17_one_liner_unreadable_chars :
    parseFlow (toOneLiner unreadableExample) = .ok unreadableExample := by rfl

/-- a variable name of 1025 letters -/
def longNameWitness : Cfg := { env := [(List.replicate 1025 'a', ['v'])] }

set_option maxRecDepth 100000 in
/-- **the real code violates C17 here**: YAML only accepts mapping keys of at most 1024 bytes on
one line ("simple keys"); a longer environment variable name is written out but not read back. -/
theorem C17_fails_on_long_name : parseFlow (toOneLiner longNameWitness) = .error := by rfl

set_option maxRecDepth 100000 in
/-- non-vacuity of `Renderable`: the example with all eight keys and hostile strings satisfies it -/
theorem C17_renderable_example : Renderable fullExample ∧ Renderable unreadableExample ∧ Renderable {} := by
  refine ⟨?_, ?_, ?_⟩ <;> rfl

set_option maxRecDepth 100000 in
/-- the guard excludes the long-name witness (and `C17_fails_on_long_name` shows it must) -/
theorem C17_guard_long_name : ¬ Renderable longNameWitness := by
  intro h
  have : renderable longNameWitness = false := by rfl
  rw [Renderable, this] at h
  cases h

/-- the guard is necessary for seconds: 2^64 s is written as `584542046090years …` and overflows
the `u64` arithmetic of `parse_duration` -/
theorem C17_guard_secs : parseFlow (toOneLiner { timeout := some (18446744073709551616, 0) }) = .error := by
  rfl

/-- the guard is necessary for nanoseconds: (0 s, 10^9 ns) is written `1000ms` and reads back as 1 s -/
theorem C17_guard_nanos :
    parseFlow (toOneLiner { timeout := some (0, 1000000000) }) = .ok { timeout := some (1, 0) } := by
  rfl

/-- the guard is necessary for the skip code: 2^31 is not an `i32` -/
theorem C17_guard_skip_code : parseFlow (toOneLiner { skipCode := some 2147483648 }) = .error := by
  rfl

/-- non-vacuity of the duration hypotheses, largest value -/
example : parseDuration (formatDuration 18446744073709551615 999999999) =
    .ok ⟨18446744073709551615, 999999999⟩ :=
  C17_duration_roundtrip _ _ (by decide) (by decide)

example : unquote (jsonQuote ['"', '\\', '\n', Char.ofNat 0, 'é']) = some ['"', '\\', '\n', Char.ofNat 0, 'é'] :=
  C17_quote_roundtrip _

end Scrut.Props.C17
