import ScrutModel.Lemmas.ConfigRender
/-!
# C17 — Configuration survives being written out and read back

Model: `Scrut.Dur` (humantime 2.4 `format_duration` / `parse_duration`, checked `u64` arithmetic,
the `Duration::new` panic as `crash`), `Scrut.Yaml` (`TestCaseConfig::to_yaml_one_liner`
= `toOneLiner`, serde_json string quoting = `jsonQuote`, and `parseFlow`: libyaml's reader check,
flow-context scalar scanning, the 1024-byte simple-key rule, serde_yaml's scalar resolution and the
typed layer of `TestCaseConfig`). All of it is tied to the real code on every run by the
correspondence harness (`harness/src/yamlcfg.rs`).

Proved here for ALL values: durations (`C17_duration_roundtrip`) and quoted strings
(`C17_quote_roundtrip`, `C17_quoted_scalar_in_context`) — the two "for-all-values" parts of the
property where hand-written formatting has to be an inverse of a parser.

NOT proved (full-strength statement, kept visible):

    theorem C17_one_liner (c : Cfg) (h : Renderable c) : parseFlow (toOneLiner c) = .ok c

where `Renderable` would have to require (because the REAL code violates the property otherwise,
see `C17_fails_on_unreadable_char`, `C17_fails_on_long_name` and the harness oracle classes
`C17:not-yaml-readable`, `C17:line-break-char`, `C17:long-key`): every character of every
environment name/value and of the wait path is `readable` and not `isBreak`; the rendered
environment names are at most 1024 UTF-8 bytes; plus the type invariants (`nanos < 10^9`,
`secs < 2^64`, skip code in `i32`, distinct environment names). The general statement is checked
by the harness on every subset of keys x value variants and on seeded random configurations
through both the model (`parseFlow`) and the real `serde_yaml`; concrete instances are proved below
by evaluation.
-/
namespace Scrut.Props.C17
open Scrut.Dur Scrut.Yaml

/-- **C17 (durations)**: for every `Duration` (any `secs < 2^64`, `nanos < 10^9`) the text written
by `humantime::format_duration` is read by `humantime::parse_duration` as the same duration: no
error, no overflow, no panic, same seconds and nanoseconds. -/
theorem C17_duration_roundtrip (secs nanos : Nat) (hn : nanos < 1000000000)
    (hs : secs ≤ 18446744073709551615) :
    parseDuration (formatDuration secs nanos) = .ok ⟨secs, nanos⟩ :=
  duration_roundtrip secs nanos hn hs

/-- **C17 (quoted strings)**: for every string (quotes, backslashes, control characters, any
Unicode) the JSON-quoted form written by `yaml_quoted` is a complete double-quoted YAML scalar whose
content is the string, character for character. -/
theorem C17_quote_roundtrip (s : List Char) : unquote (jsonQuote s) = some s :=
  quote_roundtrip s

/-- … and placed in front of any following text (`, next: …}`), the scalar scanner consumes exactly
the quoted form and yields the string: quoting can never swallow or leak into its context. -/
theorem C17_quoted_scalar_in_context (s tail : List Char) :
    scanScalar (jsonQuote s ++ tail) = some (.quoted s, tail) :=
  scan_jsonQuote s tail

/-- all eight keys set, values with quotes, backslash, braces, commas, `#`, colon, blanks, a
control character and non-ASCII text -/
def fullExample : Cfg :=
  { outputStream := some .stderr, keepCrlf := some true, timeout := some (234, 5000000),
    detached := some false, skipCode := some (-123), stripAnsi := some true,
    wait := some ⟨(18446744073709551615, 999999999), some ['a', ' ', 'b', ':', ' ', '{', 'c', '}']⟩,
    env := [(['F', 'O', 'O'], ['"', '\\', ' ', '{', '}', ',', ' ', '#', ':', ' ', 'é', '\t', Char.ofNat 1]),
            (['t', 'r', 'u', 'e'], []), ([' '], ['~'])] }

set_option maxRecDepth 100000 in
/-- the one-liner of `fullExample` reads back as `fullExample` -/
theorem C17_one_liner_example : parseFlow (toOneLiner fullExample) = .ok fullExample := by rfl

theorem C17_one_liner_empty : parseFlow (toOneLiner {}) = .ok {} := by rfl

/-- a variable whose value is the DEL character (U+007F) -/
def unreadableWitness : Cfg := { env := [(['K'], [Char.ofNat 127])] }

/-- **the real code violates C17 here**: `yaml_quoted` (serde_json) leaves U+007F, U+0080-U+009F,
U+FFFE and U+FFFF unescaped, the YAML reader rejects them ("control characters are not allowed"):
the rendered configuration cannot be read back at all. -/
theorem C17_fails_on_unreadable_char :
    parseFlow (toOneLiner unreadableWitness) = .error := by rfl

/-- a variable name of 1025 letters -/
def longNameWitness : Cfg := { env := [(List.replicate 1025 'a', ['v'])] }

set_option maxRecDepth 100000 in
/-- **the real code violates C17 here**: YAML only accepts mapping keys of at most 1024 bytes on
one line ("simple keys"); a longer environment variable name is written out but not read back. -/
theorem C17_fails_on_long_name : parseFlow (toOneLiner longNameWitness) = .error := by rfl

/-- non-vacuity of the duration hypotheses, largest value -/
example : parseDuration (formatDuration 18446744073709551615 999999999) =
    .ok ⟨18446744073709551615, 999999999⟩ :=
  C17_duration_roundtrip _ _ (by decide) (by decide)

example : unquote (jsonQuote ['"', '\\', '\n', Char.ofNat 0, 'é']) = some ['"', '\\', '\n', Char.ofNat 0, 'é'] :=
  C17_quote_roundtrip _

end Scrut.Props.C17
