import ScrutModel.Lemmas.Glob
import ScrutModel.Lemmas.RegexWrap
import ScrutModel.Lemmas.WildLoop
import ScrutModel.Lemmas.GlobCramEq
import ScrutModel.Lemmas.RegexCleanup
import ScrutModel.Lemmas.RegexQuantifier
/-!
# C04 — Each expectation kind matches exactly the lines the documentation says

This file: the *pattern* kinds.

* `glob` (`src/rules/glob.rs`, crate wildmatch): `globRuleMatches e line` is
  `WildMatch::new(e).matches(trim_newlines(line))`. `GlobRel` is the documented meaning
  (`?` exactly one character, `*` any run, everything else literal, whole text).
* Cram-compat `glob` (`src/rules/glob_cram.rs`): additionally `\*`, `\?`, `\\` are literals
  (`cramTokens`), `TokRel` is the meaning of the anchored regex it compiles to.
* `regex` (`src/rules/regex.rs`): `regexRuleMatches e line` is an unanchored search for
  `^(?:e)$` on `trim_newlines(line)`; `Matches e s 0 |s|` says that `e` matches the whole of `s`.

Hypotheses, all explicit:
* text is `List Char`: the line is the decoding of a valid UTF-8 byte string (for an undecodable
  line `GlobRule` sees U+FFFD, the two regex based rules cannot match across the bad byte —
  observed and recorded by the harness, outside these theorems);
* `IsLine line`: no newline except possibly the last character (what `split_at_newline` yields).
  The rules strip *all* trailing newlines, the documentation speaks of *the* final newline:
  without `IsLine` the statements are false (`C04_glob_unguarded_fails_on_witness`).
* regex: the regex crate's syntax/engine is not modelled; in the whole-line theorems `e` ranges over
  the AST `RE`. The three Cram-compat clean-up passes of `RegexRule::make` are modelled on the
  expression *text* (`Model/RegexCleanup.lean`, `regexClean`): `C04_cleanup_identity` says which
  expressions reach the compiler exactly as written; `C04_cleanup_keeps_quantifiers` and
  `C04_cleanup_escapes_other_braces` say, for all inputs, what happens at a `{`: a valid repetition
  quantifier is kept, every other brace pair is escaped (`C04_cleanup_braces_all` for any number of
  them in one expression); for the others the passes can change the meaning of a valid regex (open
  findings, `C04_cleanup_*_witness`).
-/
namespace Scrut.Props.C04
open Scrut.Glob Scrut.Regex Scrut.RegexCleanup

-- STRING KINDS: merged from Lemmas/RulesStr.lean
-- (the theorems for `equal`, `no-eol` and `escaped` and the escape decoder are added here)
-- END STRING KINDS

/-! ## glob -/

/-- wildmatch (with its `**` simplification) decides exactly the documented relation, for all
patterns and all texts -/
theorem C04_glob_iff (p s : List Char) : globMatch p s = true ↔ GlobRel p s :=
  globMatch_iff p s

/-- the algorithm the wildmatch crate actually runs — its iterative loop with one backtrack point,
transliterated as `wildLoop`, started by `wildMatch` with the fuel `wildFuel` — never runs out of
fuel and returns exactly `globMatch`, for all patterns and texts -/
theorem C04_wildmatch_is_glob (p s : List Char) : wildMatch p s = some (globMatch p s) :=
  wildMatch_eq p s

/-- hence the crate's loop accepts exactly the documented relation -/
theorem C04_wildmatch_iff (p s : List Char) : wildMatch p s = some true ↔ GlobRel p s := by
  rw [wildMatch_eq, ← globMatch_iff]
  simp

/-- **C04 (glob)**: a line matches a `glob` expectation iff the whole line, final newline ignored,
is an instance of the pattern.
Full-strength statement (false, see the witness below): the same without `IsLine`. -/
theorem C04_glob_line_partial (e line : List Char) (h : IsLine line) :
    globRuleMatches e line = true ↔ GlobRel e (dropFinalNewline line) := by
  unfold globRuleMatches
  rw [trimNewlines_of_isLine h]
  exact globMatch_iff _ _

/-- without `IsLine`: `a (glob)` matches `a\n\n`, whose text without the final newline is `a\n` -/
theorem C04_glob_unguarded_fails_on_witness :
    globRuleMatches ['a'] ['a', '\n', '\n'] = true ∧ ¬ GlobRel ['a'] (dropFinalNewline ['a', '\n', '\n']) := by
  refine ⟨by decide, ?_⟩
  rw [← globMatch_iff]
  decide

/-- `?` is exactly one character: never zero, never two, also for a multi-byte character -/
theorem C04_glob_qmark_one_char (s : List Char) : GlobRel ['?'] s ↔ ∃ c, s = [c] := by
  rw [← globMatch_iff]
  cases s with
  | nil => simp [globMatch, simplify, globGo]
  | cons c s => cases s <;> simp [globMatch, simplify, globGo]

/-- `*` is any run -/
theorem C04_glob_star_any (s : List Char) : GlobRel ['*'] s :=
  GlobRel.star s (by simp) GlobRel.nil

/-! ## Cram-compat glob -/

theorem C04_cram_glob_iff (p s : List Char) : cramMatch p s = true ↔ TokRel (cramTokens p) s :=
  cramMatch_iff p s

/-- **C04 (glob, Cram-compat)**: whole line, final newline ignored, against the token reading -/
theorem C04_cram_glob_line_partial (e line : List Char) (h : IsLine line) :
    cramRuleMatches e line = true ↔ TokRel (cramTokens e) (dropFinalNewline line) := by
  unfold cramRuleMatches
  rw [trimNewlines_of_isLine h]
  exact cramMatch_iff _ _

/-- without a backslash in the pattern the Cram-compat glob is the plain glob -/
theorem C04_cram_glob_is_glob (e line : List Char) (he : '\\' ∉ e) (hl : IsLine line) :
    cramRuleMatches e line = globRuleMatches e line :=
  cramRule_eq_globRule e line he hl

/-! ## regex -/

/-- **C04 (regex), whole line**: searching for `^(?:e)$` anywhere in `s` succeeds iff `e` matches
from position 0 to position `|s|` — not merely a prefix or a suffix. For every `e` (any nesting of
alternations, also anchors inside). -/
theorem C04_regex_whole_line (e : RE) (s : List Char) :
    searchMatch (wrap e) s ↔ Matches e s 0 s.length :=
  search_wrap_iff e s

/-- the executable search used in the correspondence decides the relational semantics -/
theorem C04_regex_search_decides (r : RE) (s : List Char) : searchB r s = true ↔ searchMatch r s :=
  searchB_iff r s

/-- **C04 (regex)**: a line matches a `regex` expectation iff the whole line, final newline ignored,
matches the expression. -/
theorem C04_regex_line_partial (e : RE) (line : List Char) (h : IsLine line) :
    regexRuleMatches e line = true ↔
      Matches e (dropFinalNewline line) 0 (dropFinalNewline line).length := by
  rw [regexRuleMatches_iff, trimNewlines_of_isLine h]

/-- why the non-capturing group matters: the wrap `^e$` of the code before the fix, for `e = a|b`,
is `^a|b$` — a prefix matching `a` or a suffix matching `b` is enough -/
theorem C04_old_wrap_prefix_or_suffix (a b : RE) (s : List Char)
    (ha : bolFirst a = .seq .bol a) (hb : eolLast b = .seq b .eol) :
    searchMatch (oldWrap (.alt a b)) s ↔ (∃ j, Matches a s 0 j) ∨ (∃ i, Matches b s i s.length) :=
  search_oldWrap_alt a b s ha hb

/-- `a|b (regex)` against `axxx`: accepted by the old wrap, not a whole-line match, rejected by the
current wrap -/
theorem C04_old_wrap_fails_on_witness :
    searchMatch (oldWrap (.alt (.chr 'a') (.chr 'b'))) ['a', 'x', 'x', 'x'] ∧
    ¬ Matches (.alt (.chr 'a') (.chr 'b')) ['a', 'x', 'x', 'x'] 0 4 ∧
    ¬ searchMatch (wrap (.alt (.chr 'a') (.chr 'b'))) ['a', 'x', 'x', 'x'] :=
  oldWrap_witness

/-! ## regex: the clean-up passes in front of the wrap -/

/-- **clean-up is the identity on plain expressions**: no `{ } [ ]`, every backslash followed by a
character after which it is kept (`[ ] { } ( ) | ? * + - . ^ $ \`, ASCII letters) or last, no `<<<<`.
For these the compiled pattern is `^(?:e)$` for exactly the text the user wrote, so
`C04_regex_whole_line` speaks about the user's expression. -/
theorem C04_cleanup_identity (e : List Char) (h : plain e = true) : regexClean e = e :=
  regexClean_id e h

/-- open finding `C04:regex-cleanup-changes-valid-regex` on the model: `[a]]` (class `a`, then a
literal `]`) is compiled as `[a\]]` (class of `a` and `]`) -/
theorem C04_cleanup_bracket_witness :
    regexClean ['[', 'a', ']', ']'] = ['[', 'a', '\\', ']', ']'] := by decide

/-- open finding `C04:regex-valid-regex-rejected` on the model: `[a-]]` becomes `[a-\]]`, an
invalid range -/
theorem C04_cleanup_range_witness :
    regexClean ['[', 'a', '-', ']', ']'] = ['[', 'a', '-', '\\', ']', ']'] := by decide

/-- same two classes, other root cause (pass 2.3 restores *every* `<<<<…>>>>`, not only the ones
pass 2.1 produced): the literal text `x<<<<1>>>>` becomes the quantifier `x{1}`, and `<<<<a>>>>`
becomes `{a}`, which does not compile -/
theorem C04_cleanup_angle_witness :
    regexClean ['x', '<', '<', '<', '<', '1', '>', '>', '>', '>'] = ['x', '{', '1', '}'] ∧
    regexClean ['<', '<', '<', '<', 'a', '>', '>', '>', '>'] = ['{', 'a', '}'] := by
  constructor <;> decide

/-- the three forms of a repetition quantifier are left alone (`{3,}` only since fix 228674f "open-ended repetition
quantifier": before, `a{3,}` was compiled as the literal text `a\{3,\}`), while braces that are not a
quantifier are escaped -/
theorem C04_cleanup_quantifier_witness :
    regexClean ['a', '{', '3', '}'] = ['a', '{', '3', '}'] ∧
    regexClean ['a', '{', '3', ',', '6', '}'] = ['a', '{', '3', ',', '6', '}'] ∧
    regexClean ['a', '{', '3', ',', '}'] = ['a', '{', '3', ',', '}'] ∧
    regexClean ['a', '{', ',', '3', '}'] = ['a', '\\', '{', ',', '3', '\\', '}'] ∧
    regexClean ['a', '{', 'b', '}'] = ['a', '\\', '{', 'b', '\\', '}'] := by
  refine ⟨?_, ?_, ?_, ?_, ?_⟩ <;> decide

/-! ### braces, for all inputs

`simple c`: `c` is none of `\ { } [ ] <` (so `>` and the line feed are simple).
`quantTail t`: `t` is empty or a comma followed by digits only (possibly none: the open-ended `{n,}`).
`quantBody q`: `q` is a non-empty run of digits followed by a `quantTail` (`C04_quantBody_iff`). -/

/-- **valid repetition quantifiers survive the clean-up unchanged**: `{n}`, `{n,m}` and `{n,}`
(`d1` the non-empty first number, `tail` nothing or `,` and a possibly empty second number) after any
simple text `pre` are copied as written; what follows the closing brace is arbitrary and is cleaned
on its own, so the statement applies again to the next quantifier in `rest`. -/
theorem C04_cleanup_keeps_quantifiers (pre d1 tail rest : List Char) (hpre : pre.all simple = true)
    (h1 : d1 ≠ []) (hd : d1.all isDigit = true) (ht : quantTail tail = true) :
    regexClean (pre ++ '{' :: d1 ++ tail ++ '}' :: rest) =
      pre ++ '{' :: d1 ++ tail ++ '}' :: regexClean rest :=
  regexClean_quantifier pre d1 tail rest hpre h1 hd ht

/-- in simple context the whole expression reaches the compiler exactly as written -/
theorem C04_cleanup_keeps_quantifiers_simple_context (pre d1 tail suf : List Char)
    (hpre : pre.all simple = true) (h1 : d1 ≠ []) (hd : d1.all isDigit = true)
    (ht : quantTail tail = true) (hsuf : suf.all simple = true) :
    regexClean (pre ++ '{' :: d1 ++ tail ++ '}' :: suf) = pre ++ '{' :: d1 ++ tail ++ '}' :: suf :=
  regexClean_quantifier_simple pre d1 tail suf hpre h1 hd ht hsuf

/-- **braces that are not a quantifier get escaped**: a brace pair around simple text `b` that is not
a quantifier body, after simple text `pre`, gets a backslash in front of both braces; `rest` is
arbitrary and is cleaned on its own. -/
theorem C04_cleanup_escapes_other_braces (pre b rest : List Char) (hpre : pre.all simple = true)
    (hb : b.all simple = true) (hq : quantBody b = false) :
    regexClean (pre ++ '{' :: b ++ '}' :: rest) =
      pre ++ '\\' :: '{' :: b ++ '\\' :: '}' :: regexClean rest :=
  regexClean_non_quantifier_braces pre b rest hpre hb hq

theorem C04_cleanup_escapes_other_braces_simple_context (pre b suf : List Char)
    (hpre : pre.all simple = true) (hb : b.all simple = true) (hq : quantBody b = false)
    (hsuf : suf.all simple = true) :
    regexClean (pre ++ '{' :: b ++ '}' :: suf) = pre ++ '\\' :: '{' :: b ++ '\\' :: '}' :: suf :=
  regexClean_non_quantifier_braces_simple pre b suf hpre hb hq hsuf

/-- the hypothesis `quantBody b = false` is exactly "pass 2.1's regex does not match after the `{`" -/
theorem C04_not_quantifier_iff (b rest : List Char) (hb : b.all simple = true) :
    matchQuant (b ++ '}' :: rest) = none ↔ quantBody b = false :=
  matchQuant_none_iff b rest hb

/-- `quantBody` read out: a non-empty number, then nothing or a comma and a possibly empty number -/
theorem C04_quantBody_iff (q : List Char) :
    quantBody q = true ↔
      ∃ d1 tail, q = d1 ++ tail ∧ d1 ≠ [] ∧ d1.all isDigit = true ∧ quantTail tail = true :=
  quantBody_iff q

/-- special cases of "not a quantifier": `{}`, a first character that is not a digit (`{x…}`), and
in particular a leading comma (`{,3}`) -/
theorem C04_not_quantifier_cases :
    quantBody [] = false ∧ (∀ c r, isDigit c = false → quantBody (c :: r) = false) ∧
      (∀ d, quantBody (',' :: d) = false) :=
  quantBody_false_cases

/-- **any number of brace pairs**: for every expression that is a sequence of simple characters and
brace pairs around simple text, the compiled text is the same sequence with exactly the brace pairs
that are not quantifiers escaped -/
theorem C04_cleanup_braces_all (ps : List Piece) (h : ps.all Piece.ok = true) :
    regexClean (ps.flatMap Piece.text) = ps.flatMap Piece.cleaned :=
  regexClean_pieces ps h

/-! ## Non-vacuity -/

example : IsLine ['a', 'b', '\n'] := by decide
example : IsLine [] := by decide
example : ¬ IsLine ['a', '\n', '\n'] := by decide
example : globRuleMatches ['a', '*', '?'] ['a', 'x', 'é', '\n'] = true := by decide
example : globRuleMatches ['a', '?'] ['a', '\n'] = false := by decide
example : cramRuleMatches ['a', '\\', '*'] ['a', '*', '\n'] = true := by decide
example : cramRuleMatches ['a', '\\', '*'] ['a', 'b', '\n'] = false := by decide
example : regexRuleMatches (.alt (.chr 'a') (.chr 'b')) ['b', '\n'] = true := by decide
example : regexRuleMatches (.alt (.chr 'a') (.chr 'b')) ['a', 'x', 'x', 'x', '\n'] = false := by decide
example : bolFirst (.chr 'a') = .seq .bol (.chr 'a') := rfl
example : plain ['a', '|', 'b', '\\', '.', '(', '?', ':', 'c', ')', '*'] = true := by decide
example : plain ['a', '\\', '_'] = false := by decide
example : regexClean ['a', '{', '3', '}', '{', 'x', '}'] = ['a', '{', '3', '}', '\\', '{', 'x', '\\', '}'] := by decide
example : wildMatch ['a', '*', '*', '?'] ['a', 'x', 'y'] = some true := by decide

-- `a{12,}b`, `a{12,}` followed by something that is not simple, `x{3}{,4}`
example : regexClean ['a', '{', '1', '2', ',', '}', 'b'] = ['a', '{', '1', '2', ',', '}', 'b'] :=
  C04_cleanup_keeps_quantifiers_simple_context ['a'] ['1', '2'] [','] ['b'] (by decide) (by decide)
    (by decide) (by decide) (by decide)
example : regexClean ['a', '{', '1', '2', ',', '3', '}', '[', 'a', ']', ']'] =
    ['a', '{', '1', '2', ',', '3', '}'] ++ regexClean ['[', 'a', ']', ']'] :=
  C04_cleanup_keeps_quantifiers ['a'] ['1', '2'] [',', '3'] ['[', 'a', ']', ']'] (by decide) (by decide)
    (by decide) (by decide)
example : regexClean ['a', '{', ',', '3', '}', 'b'] = ['a', '\\', '{', ',', '3', '\\', '}', 'b'] :=
  C04_cleanup_escapes_other_braces_simple_context ['a'] [',', '3'] ['b'] (by decide)
    (by decide) (C04_not_quantifier_cases.2.2 ['3']) (by decide)
example : regexClean ['a', '{', '}', '{', '2', '}'] = ['a', '\\', '{', '\\', '}'] ++ regexClean ['{', '2', '}'] :=
  C04_cleanup_escapes_other_braces ['a'] [] ['{', '2', '}'] (by decide) (by decide) (by decide)
example : regexClean ['x', '{', '3', '}', '{', 'n', '}', 'y', '{', '1', ',', '}'] =
    ['x', '{', '3', '}', '\\', '{', 'n', '\\', '}', 'y', '{', '1', ',', '}'] :=
  C04_cleanup_braces_all
    [.chr 'x', .braces ['3'], .braces ['n'], .chr 'y', .braces ['1', ',']] (by decide)
example : quantBody ['1', '2', ','] = true ∧ quantBody ['1', ',', ','] = false ∧
    quantBody ['1', 'x'] = false ∧ simple '>' = true ∧ simple '<' = false := by decide

end Scrut.Props.C04
