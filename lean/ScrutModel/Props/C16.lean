import ScrutModel.Lemmas.Config
import ScrutModel.Lemmas.TestRunScript
/-!
# C16 — Config precedence: command line > test case > document defaults > format

`effectiveTC cli inline doc cliDoc fmt scrutEnv` composes the layers exactly in the order the code
does (parser, test command; the executor adds no layer since fix 0515072 -- it used to apply the
defaults of the document that is run to every test case, also to those of prepended and appended
documents; the hypotheses on `cliDoc` are kept so that the statements read as before). `firstSome` picks the first layer that sets a value.
The command line cannot set environment variables or per-test defaults (`cliDoc.defaults` is
empty: `to_document_config` only sets `shell` and `total_timeout`).
-/
namespace Scrut.Props.C16
open Scrut.Config

/-- **C16** (scalar keys): for every key the value in effect comes from the highest-precedence
layer that sets it: command line, inline, document defaults, format default. -/
theorem C16_scalar (cli inline : TCC) (doc cliDoc : DC) (fmt : TCC) (se : Env)
    (hcli : cliDoc.defaults = TCC.empty) :
    let e := effectiveTC cli inline doc cliDoc fmt se
    e.detached = firstSome [cli.detached, inline.detached, doc.defaults.detached, fmt.detached] ∧
    e.keepCrlf = firstSome [cli.keepCrlf, inline.keepCrlf, doc.defaults.keepCrlf, fmt.keepCrlf] ∧
    e.outputStream = firstSome [cli.outputStream, inline.outputStream, doc.defaults.outputStream, fmt.outputStream] ∧
    e.skipCode = firstSome [cli.skipCode, inline.skipCode, doc.defaults.skipCode, fmt.skipCode] ∧
    e.stripAnsi = firstSome [cli.stripAnsi, inline.stripAnsi, doc.defaults.stripAnsi, fmt.stripAnsi] ∧
    e.timeout = firstSome [cli.timeout, inline.timeout, doc.defaults.timeout, fmt.timeout] ∧
    e.wait = firstSome [cli.wait, inline.wait, doc.defaults.wait, fmt.wait] := by
  intro e
  simp only [e, effectiveTC, TCC.ov, TCC.withEnv, TCC.wd, DC.ov, DC.wd, hcli, TCC.empty]
  exact ⟨or4 _ _ _ _, or4 _ _ _ _, or4 _ _ _ _, or4 _ _ _ _, or4 _ _ _ _, or4 _ _ _ _, or4 _ _ _ _⟩

/-- **C16** (environment, per variable): the value of each variable comes from the
highest-precedence layer that binds it: scrut's own documented variables, then the command line
(which cannot bind any today), the inline configuration, the document defaults, the format. -/
theorem C16_env (cli inline : TCC) (doc cliDoc : DC) (fmt : TCC) (se : Env)
    (hcli : cliDoc.defaults = TCC.empty) (v : Nat) :
    (effectiveTC cli inline doc cliDoc fmt se).env.get v =
      firstSome [se.get v, cli.env.get v, inline.env.get v, doc.defaults.env.get v, fmt.env.get v] := by
  simp only [effectiveTC, TCC.ov, TCC.withEnv, TCC.wd, DC.ov, DC.wd, hcli, TCC.empty, Env.get_append,
    List.nil_append]
  cases se.get v <;> cases cli.env.get v <;> cases inline.env.get v <;> cases doc.defaults.env.get v <;>
    cases fmt.env.get v <;> simp [firstSome]

/-- layering is associative -/
theorem C16_assoc (a b c : TCC) : (a.wd b).wd c = a.wd (b.wd c) := TCC.wd_assoc a b c
theorem C16_assoc_doc (a b c : DC) : (a.wd b).wd c = a.wd (b.wd c) := DC.wd_assoc a b c

/-- an empty layer changes nothing -/
theorem C16_empty (a : TCC) : a.wd TCC.empty = a ∧ TCC.empty.wd a = a :=
  ⟨TCC.wd_empty_right a, TCC.wd_empty_left a⟩
theorem C16_empty_doc (a : DC) : a.wd {} = a ∧ DC.wd {} a = a :=
  ⟨DC.wd_empty_right a, DC.wd_empty_left a⟩

/-- `prepend` / `append` accumulate in order instead of overriding -/
theorem C16_lists (a b : DC) :
    (a.wd b).prepend = a.prepend ++ b.prepend ∧ (a.wd b).append = b.append ++ a.append := by
  simp [DC.wd]

/-- document keys: command line over front-matter over the format default -/
theorem C16_document (cliDoc fm fmtDoc : DC) :
    (effectiveDC cliDoc fm fmtDoc).totalTimeout = firstSome [cliDoc.totalTimeout, fm.totalTimeout, fmtDoc.totalTimeout] ∧
    (effectiveDC cliDoc fm fmtDoc).shell = firstSome [cliDoc.shell, fm.shell, fmtDoc.shell] := by
  simp only [effectiveDC, DC.ov, DC.wd]
  constructor
  · cases cliDoc.totalTimeout <;> cases fm.totalTimeout <;> cases fmtDoc.totalTimeout <;> simp [firstSome]
  · cases cliDoc.shell <;> cases fm.shell <;> cases fmtDoc.shell <;> simp [firstSome]

/-- **C16** (what the command line contributes): the command-line layer sets `output_stream` and `keep_crlf`
and nothing else, each only when one of its two flags is given, the negative flag winning; without output flags
(in particular with `--cram-compat` alone, which is not an input of the layer) it is the empty layer, so by
`C16_scalar` every key then comes from the inline configuration, the document defaults or the format default. -/
theorem C16_cli_layer (nc c nk k : Bool) :
    let l := cliLayer nc c nk k
    l.detached = none ∧ l.skipCode = none ∧ l.stripAnsi = none ∧ l.timeout = none ∧ l.wait = none ∧ l.env = [] ∧
    (l.outputStream = if nc then some 1 else if c then some 3 else none) ∧
    (l.keepCrlf = if nk then some 2 else if k then some 1 else none) ∧
    cliLayer false false false false = TCC.empty := by
  simp [cliLayer, TCC.empty]

/-- ... and the value in effect under the output flags: the flag if one is given, else the highest layer
below the command line (`--cram-compat` only swaps `fmt`) -/
theorem C16_output_flags (nc c nk k : Bool) (inline : TCC) (doc cliDoc : DC) (fmt : TCC) (se : Env)
    (hcli : cliDoc.defaults = TCC.empty) :
    let e := effectiveTC (cliLayer nc c nk k) inline doc cliDoc fmt se
    e.outputStream = firstSome [if nc then some 1 else if c then some 3 else none, inline.outputStream,
      doc.defaults.outputStream, fmt.outputStream] ∧
    e.keepCrlf = firstSome [if nk then some 2 else if k then some 1 else none, inline.keepCrlf,
      doc.defaults.keepCrlf, fmt.keepCrlf] := by
  intro e
  have h := C16_scalar (cliLayer nc c nk k) inline doc cliDoc fmt se hcli
  exact ⟨h.2.2.1, h.2.1⟩

/-! Non-vacuity: a variable bound in the inline configuration and in the defaults. -/
example : (effectiveTC {} { env := [(1, 10)] } { defaults := { env := [(1, 20), (2, 21)] } } {} {} [(3, 30)]).env.get 1 = some 10 := by
  decide
example : (effectiveTC {} { env := [(1, 10)] } { defaults := { env := [(1, 20), (2, 21)] } } {} {} [(3, 30)]).env.get 2 = some 21 := by
  decide

/-! ## the single-script executor (Cram documents, `--cram-compat`) carries `strip_ansi_escaping`

Fix `set_consistent!(strip_ansi_escaping)` in `compile_testcase`: before, the key was not carried into
the configuration of the ONE compiled script, so under `--cram-compat` it had no effect from any layer.
Now (`Model/TestRun.lean` section 6) it is carried like the other consistent keys, and
`render_output` of the compiled test case strips the WHOLE captured stream. -/
section Script
open Scrut.TestRun Scrut.Exec

/-- the compiled key is the value the test cases carry: the first set value, which every later test
case has to repeat (`setConsistent`); every test case carries it or nothing, and a compiled `true`
comes from a test case that sets `true` -/
theorem C16_script_strip_ansi_carried {tests : List Test} {cfg : Compiled}
    (h : compileTestcase tests = some cfg) :
    setConsistent none (tests.map (·.cfg.stripAnsi)) = some cfg.stripAnsi ∧
    (∀ t ∈ tests, t.cfg.stripAnsi = none ∨ t.cfg.stripAnsi = cfg.stripAnsi) ∧
    (cfg.stripAnsi = some true → ∃ t ∈ tests, t.cfg.stripAnsi = some true) :=
  ⟨(compileTestcase_inv h).2.2.2, compiled_stripAnsi h, compiled_stripAnsi_origin h⟩

/-- … when every test case carries `true`, so does the compiled configuration -/
theorem C16_script_strip_ansi_all_true {tests : List Test} {cfg : Compiled}
    (h : compileTestcase tests = some cfg) (hne : tests ≠ [])
    (hall : ∀ t ∈ tests, t.cfg.stripAnsi = some true) : cfg.stripAnsi = some true := by
  cases tests with
  | nil => exact absurd rfl hne
  | cons t ts =>
    rcases compiled_stripAnsi h t (by simp) with h1 | h1
    · rw [hall t (by simp)] at h1; cases h1
    · rw [← h1]; exact hall t (by simp)

/-- diverging values are the execution error "inconsistent configuration value for
strip_ansi_escaping" (exit status 1, nothing reported) -/
theorem C16_script_strip_ansi_inconsistent (tests : List Test) (tcs : List TC) (runs : List SRan)
    (h : setConsistent none (tests.map (·.cfg.stripAnsi)) = none) :
    execScriptBytes tests tcs runs = .error .exec :=
  execScriptBytes_strip_inconsistent tests tcs runs h

/-- what the compiled test case's `render_output` does to a captured stream: `replace_crlf` unless the
compiled `keep_crlf` is `true`, then `strip_ansi_sequences_bytes` iff the compiled key is `true` -/
theorem C16_script_render_output (cfg : Compiled) (raw : Bytes) :
    Scrut.Crlf.renderOutput cfg.keepCrlf cfg.stripAnsi (fun b => some (Scrut.StripAnsi.strip b)) raw =
      some (if cfg.stripAnsi = some true then Scrut.StripAnsi.strip (rend cfg raw) else rend cfg raw) :=
  renderOutput_compiled_full cfg raw

/-- **nothing to strip, nothing changes** (full strength): when all test cases carry the same
`strip_ansi_escaping: true` and no command of the runs the document uses wrote an `ESC` byte (the only
byte `strip_ansi_sequences_bytes` reacts to: `StripAnsi.strip_no_esc`; it knows no 8-bit C1
introducers), the result -- report, execution error, `unsupported`, all of it -- is the one of the same
test cases without the key -/
theorem C16_script_strip_ansi_no_escape (tests : List Test) (runs : List SRan)
    (hall : ∀ t ∈ tests, t.cfg.stripAnsi = some true)
    (hesc : ∀ r ∈ runs.take tests.length,
      Scrut.StripAnsi.esc ∉ r.ran.stdout ∧ Scrut.StripAnsi.esc ∉ r.ran.stderr) :
    runScript tests runs = runScript (tests.map clearStrip) runs := by
  obtain ⟨a, ha⟩ := setConsistent_all_same true (tests.map (·.cfg.stripAnsi)) none (Or.inl rfl)
    (fun v hv => by
      obtain ⟨t, ht, rfl⟩ := List.mem_map.1 hv
      exact hall t ht)
  exact runScript_strip_no_escape tests runs a ha hesc

/-- … the same for ANY consistent value of the key (`some false` on every test case, the key on the
last test case only, …) -/
theorem C16_script_strip_ansi_consistent_no_escape (tests : List Test) (runs : List SRan) (a : Option Bool)
    (hcons : setConsistent none (tests.map (·.cfg.stripAnsi)) = some a)
    (hesc : ∀ r ∈ runs.take tests.length,
      Scrut.StripAnsi.esc ∉ r.ran.stdout ∧ Scrut.StripAnsi.esc ∉ r.ran.stderr) :
    runScript tests runs = runScript (tests.map clearStrip) runs :=
  runScript_strip_no_escape tests runs a hcons hesc

/- NOT proved (named here so that it is not forgotten): a statement "in terms of the runs" for outputs
that DO hold escape sequences -- "when every sequence in a command's bytes is complete, the test is
judged on `strip` of its own bytes" -- needs `strip (payload ++ divider ++ rest) = strip payload ++
divider ++ strip rest` for payloads that end outside a sequence; `Lemmas/StripAnsi.lean` has the
pieces (`strip_append_no_esc`, `strip_csi`), the composition with the divider protocol is open.  What
the model says there is fixed by the evaluated documents below and by the correspondence streams
`e2e-testdoc-cram-compat` / `e2e-testdoc-cram-compat-strip-ansi`. -/

/-- **the key has an effect under `--cram-compat`**: the document
`# t / ```scrut {strip_ansi_escaping: true} / $ cmd / foo / ``` `, the command writes
`ESC [ 1 m foo ESC [ 0 m LF`: the expectation `foo` accepts it -/
example : testDocumentCompatBytes exStripBytes [⟨⟨[27, 91, 49, 109, 102, 111, 111, 27, 91, 48, 109, 10], [], 0⟩, false⟩] =
    .report [(0, .ok)] 0 := ex_strip_report
/-- … the same output without the key: wrong output -/
example : testDocumentCompatBytes exNoStripBytes [⟨⟨exSgrFoo, [], 0⟩, false⟩] = .report [(0, .malformed)] 50 :=
  ex_nostrip_report
/-- two test cases, both with the key: both stripped -/
example : testDocumentCompatBytes exStrip2Bytes
    [⟨⟨exSgrFoo, [], 0⟩, false⟩, ⟨⟨[27, 91, 51, 49, 109, 98, 97, 114, 10], [], 0⟩, false⟩] =
    .report [(0, .ok), (1, .ok)] 0 := ex_strip2_report
/-- the key on the first test case only: an execution error -/
example : testDocumentCompatBytes exStripDivBytes
    [⟨⟨exSgrFoo, [], 0⟩, false⟩, ⟨⟨[98, 97, 114, 10], [], 0⟩, false⟩] = .execError := ex_strip_diverging
/-- an unterminated OSC `ESC ] 0 ; t` behind the first test's `foo`: the dividers are swallowed, an
execution error, not a verdict; likewise a lone `ESC` at the end of the bytes -/
example : testDocumentCompatBytes exStrip2Bytes
    [⟨⟨[102, 111, 111, 10, 27, 93, 48, 59, 116], [], 0⟩, false⟩, ⟨⟨[98, 97, 114, 10], [], 0⟩, false⟩] =
    .execError := ex_strip_open_osc
example : testDocumentCompatBytes exStripBytes [⟨⟨[102, 111, 111, 10, 27], [], 0⟩, false⟩] = .execError :=
  ex_strip_lone_esc

end Script

end Scrut.Props.C16
