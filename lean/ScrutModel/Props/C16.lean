import ScrutModel.Lemmas.Config
/-!
# C16 — Config precedence: command line > test case > document defaults > format

`effectiveTC cli inline doc cliDoc fmt scrutEnv` composes the layers exactly in the order the code
does (parser, test command; the executor adds no layer since fix 0515072 -- it used to apply the
defaults of the document that is run to every test case, also to those of prepended and appended
documents; the hypotheses on `cliDoc` are kept so that the statements read as before). `firstSome` picks the first layer that sets a value.
The command line cannot set environment variables or per-test defaults (`cliDoc.defaults` is
empty: `to_document_config` only sets `shell` and `total_timeout`).
-/
namespace Scrut.Props.C16
open Scrut.Config

/-- **C16** (scalar keys): for every key the value in effect comes from the highest-precedence
layer that sets it: command line, inline, document defaults, format default. -/
theorem C16_scalar (cli inline : TCC) (doc cliDoc : DC) (fmt : TCC) (se : Env)
    (hcli : cliDoc.defaults = TCC.empty) :
    let e := effectiveTC cli inline doc cliDoc fmt se
    e.detached = firstSome [cli.detached, inline.detached, doc.defaults.detached, fmt.detached] ∧
    e.keepCrlf = firstSome [cli.keepCrlf, inline.keepCrlf, doc.defaults.keepCrlf, fmt.keepCrlf] ∧
    e.outputStream = firstSome [cli.outputStream, inline.outputStream, doc.defaults.outputStream, fmt.outputStream] ∧
    e.skipCode = firstSome [cli.skipCode, inline.skipCode, doc.defaults.skipCode, fmt.skipCode] ∧
    e.stripAnsi = firstSome [cli.stripAnsi, inline.stripAnsi, doc.defaults.stripAnsi, fmt.stripAnsi] ∧
    e.timeout = firstSome [cli.timeout, inline.timeout, doc.defaults.timeout, fmt.timeout] ∧
    e.wait = firstSome [cli.wait, inline.wait, doc.defaults.wait, fmt.wait] := by
  intro e
  simp only [e, effectiveTC, TCC.ov, TCC.withEnv, TCC.wd, DC.ov, DC.wd, hcli, TCC.empty]
  exact ⟨or4 _ _ _ _, or4 _ _ _ _, or4 _ _ _ _, or4 _ _ _ _, or4 _ _ _ _, or4 _ _ _ _, or4 _ _ _ _⟩

/-- **C16** (environment, per variable): the value of each variable comes from the
highest-precedence layer that binds it: scrut's own documented variables, then the command line
(which cannot bind any today), the inline configuration, the document defaults, the format. -/
theorem C16_env (cli inline : TCC) (doc cliDoc : DC) (fmt : TCC) (se : Env)
    (hcli : cliDoc.defaults = TCC.empty) (v : Nat) :
    (effectiveTC cli inline doc cliDoc fmt se).env.get v =
      firstSome [se.get v, cli.env.get v, inline.env.get v, doc.defaults.env.get v, fmt.env.get v] := by
  simp only [effectiveTC, TCC.ov, TCC.withEnv, TCC.wd, DC.ov, DC.wd, hcli, TCC.empty, Env.get_append,
    List.nil_append]
  cases se.get v <;> cases cli.env.get v <;> cases inline.env.get v <;> cases doc.defaults.env.get v <;>
    cases fmt.env.get v <;> simp [firstSome]

/-- layering is associative -/
theorem C16_assoc (a b c : TCC) : (a.wd b).wd c = a.wd (b.wd c) := TCC.wd_assoc a b c
theorem C16_assoc_doc (a b c : DC) : (a.wd b).wd c = a.wd (b.wd c) := DC.wd_assoc a b c

/-- an empty layer changes nothing -/
theorem C16_empty (a : TCC) : a.wd TCC.empty = a ∧ TCC.empty.wd a = a :=
  ⟨TCC.wd_empty_right a, TCC.wd_empty_left a⟩
theorem C16_empty_doc (a : DC) : a.wd {} = a ∧ DC.wd {} a = a :=
  ⟨DC.wd_empty_right a, DC.wd_empty_left a⟩

/-- `prepend` / `append` accumulate in order instead of overriding -/
theorem C16_lists (a b : DC) :
    (a.wd b).prepend = a.prepend ++ b.prepend ∧ (a.wd b).append = b.append ++ a.append := by
  simp [DC.wd]

/-- document keys: command line over front-matter over the format default -/
theorem C16_document (cliDoc fm fmtDoc : DC) :
    (effectiveDC cliDoc fm fmtDoc).totalTimeout = firstSome [cliDoc.totalTimeout, fm.totalTimeout, fmtDoc.totalTimeout] ∧
    (effectiveDC cliDoc fm fmtDoc).shell = firstSome [cliDoc.shell, fm.shell, fmtDoc.shell] := by
  simp only [effectiveDC, DC.ov, DC.wd]
  constructor
  · cases cliDoc.totalTimeout <;> cases fm.totalTimeout <;> cases fmtDoc.totalTimeout <;> simp [firstSome]
  · cases cliDoc.shell <;> cases fm.shell <;> cases fmtDoc.shell <;> simp [firstSome]

/-- **C16** (what the command line contributes): the command-line layer sets `output_stream` and `keep_crlf`
and nothing else, each only when one of its two flags is given, the negative flag winning; without output flags
(in particular with `--cram-compat` alone, which is not an input of the layer) it is the empty layer, so by
`C16_scalar` every key then comes from the inline configuration, the document defaults or the format default. -/
theorem C16_cli_layer (nc c nk k : Bool) :
    let l := cliLayer nc c nk k
    l.detached = none ∧ l.skipCode = none ∧ l.stripAnsi = none ∧ l.timeout = none ∧ l.wait = none ∧ l.env = [] ∧
    (l.outputStream = if nc then some 1 else if c then some 3 else none) ∧
    (l.keepCrlf = if nk then some 2 else if k then some 1 else none) ∧
    cliLayer false false false false = TCC.empty := by
  simp [cliLayer, TCC.empty]

/-- ... and the value in effect under the output flags: the flag if one is given, else the highest layer
below the command line (`--cram-compat` only swaps `fmt`) -/
theorem C16_output_flags (nc c nk k : Bool) (inline : TCC) (doc cliDoc : DC) (fmt : TCC) (se : Env)
    (hcli : cliDoc.defaults = TCC.empty) :
    let e := effectiveTC (cliLayer nc c nk k) inline doc cliDoc fmt se
    e.outputStream = firstSome [if nc then some 1 else if c then some 3 else none, inline.outputStream,
      doc.defaults.outputStream, fmt.outputStream] ∧
    e.keepCrlf = firstSome [if nk then some 2 else if k then some 1 else none, inline.keepCrlf,
      doc.defaults.keepCrlf, fmt.keepCrlf] := by
  intro e
  have h := C16_scalar (cliLayer nc c nk k) inline doc cliDoc fmt se hcli
  exact ⟨h.2.2.1, h.2.1⟩

/-! Non-vacuity: a variable bound in the inline configuration and in the defaults. -/
example : (effectiveTC {} { env := [(1, 10)] } { defaults := { env := [(1, 20), (2, 21)] } } {} {} [(3, 30)]).env.get 1 = some 10 := by
  decide
example : (effectiveTC {} { env := [(1, 10)] } { defaults := { env := [(1, 20), (2, 21)] } } {} {} [(3, 30)]).env.get 2 = some 21 := by
  decide

end Scrut.Props.C16
