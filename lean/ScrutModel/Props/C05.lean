import ScrutModel.Lemmas.Exec
/-!
# C05 — A test passes only if it completed with the expected exit code and accepted output

`validate` is `TestCase::validate`; `selected tc o` says whether the configured stream of output
`o` is accepted by the expectations of `tc` (i.e. `hasDiff (diff …) = false`, see C01/C03).
`execAll`/`runDocument` are the executor loop and the result mapping of `scrut test`.
-/
namespace Scrut.Props.C05
open Scrut.Exec

/-- **C05**: succeeded iff an exit code was produced, it is the expected one (0 when none is
written) and the configured stream is accepted. -/
theorem C05_succeeds_iff (tc : TC) (o : Out) :
    validate tc o = .ok ↔
      ∃ c, o.status = .code c ∧ c = tc.expected.getD 0 ∧ selected tc o = true :=
  Scrut.Exec.validate_ok_iff tc o

/-- a wrong exit code is reported as such regardless of the output -/
theorem C05_wrong_code (tc : TC) (o : Out) (c : Int) (h : o.status = .code c)
    (hne : c ≠ tc.expected.getD 0) : validate tc o = .invalidExit c (tc.expected.getD 0) :=
  Scrut.Exec.validate_wrong_code tc o c h hne

/-- a command that did not produce an exit code is never reported as succeeded -/
theorem C05_no_code_never_succeeds (tc : TC) (o : Out) (h : ∀ c, o.status ≠ .code c) :
    validate tc o ≠ .ok :=
  Scrut.Exec.validate_no_code tc o h

/-- **C05** (document level): whatever the runner does, a test case is reported as succeeded only
if the runner was really called for it and returned the expected exit code — in particular no
test case after an aborted one (which consequently did not run) is reported as succeeded. -/
theorem C05_succeeded_only_if_ran (total : Option Nat) (runner : Runner) (tcs : List TC)
    (i : Nat) (h : (i, Verdict.ok) ∈ runDocument tcs (execAll total runner tcs).1) :
    ∃ tc lim, tcs[i]? = some tc ∧ ((runner i lim).1).status = .code (tc.expected.getD 0) :=
  Scrut.Exec.succeeded_only_if_ran total runner tcs i h

/-! Non-vacuity -/
example : validate ⟨some 3, .stderr, none, none, true⟩ ⟨.code 3, false, true⟩ = .ok := by decide
example : validate ⟨none, .stdout, none, none, true⟩ ⟨.unknown, true, true⟩ = .internal := by decide

end Scrut.Props.C05
