import ScrutModel.Lemmas.Exec
import ScrutModel.Lemmas.TestRunProps
import ScrutModel.Lemmas.TestRunScript
/-!
# C05 — A test passes only if it completed with the expected exit code and accepted output

`validate` is `TestCase::validate`; `selected tc o` says whether the configured stream of output
`o` is accepted by the expectations of `tc` (i.e. `hasDiff (diff …) = false`, see C01/C03).
`execAll`/`runDocument` are the executor loop and the result mapping of `scrut test`.

The second half (`C05_integrated_…`, `C05_document_…`) states the property about the INTEGRATED
model of `scrut test` (`Model/TestRun.lean`), which the correspondence stream `e2e-testdoc` ties to
the binary: "accepted" is no longer a Boolean handed in, it is `accepts t.exps s = some true` on the
compiled expectations `t.exps` of the document's test and the recorded bytes `s` of the stream the
test's configuration selects (`selectedStream t r`: `render_output` of what the command wrote).
-/
namespace Scrut.Props.C05
open Scrut.Exec

/-- **C05**: succeeded iff an exit code was produced, it is the expected one (0 when none is
written) and the configured stream is accepted. -/
theorem C05_succeeds_iff (tc : TC) (o : Out) :
    validate tc o = .ok ↔
      ∃ c, o.status = .code c ∧ c = tc.expected.getD 0 ∧ selected tc o = true :=
  Scrut.Exec.validate_ok_iff tc o

/-- a wrong exit code is reported as such regardless of the output -/
theorem C05_wrong_code (tc : TC) (o : Out) (c : Int) (h : o.status = .code c)
    (hne : c ≠ tc.expected.getD 0) : validate tc o = .invalidExit c (tc.expected.getD 0) :=
  Scrut.Exec.validate_wrong_code tc o c h hne

/-- a command that did not produce an exit code is never reported as succeeded -/
theorem C05_no_code_never_succeeds (tc : TC) (o : Out) (h : ∀ c, o.status ≠ .code c) :
    validate tc o ≠ .ok :=
  Scrut.Exec.validate_no_code tc o h

/-- **C05** (document level): whatever the runner does, a test case is reported as succeeded only
if the runner was really called for it and returned the expected exit code — in particular no
test case after an aborted one (which consequently did not run) is reported as succeeded. -/
theorem C05_succeeded_only_if_ran (total : Option Nat) (runner : Runner) (tcs : List TC)
    (i : Nat) (h : (i, Verdict.ok) ∈ runDocument tcs (execAll total runner tcs).1) :
    ∃ tc lim, tcs[i]? = some tc ∧ ((runner i lim).1).status = .code (tc.expected.getD 0) :=
  Scrut.Exec.succeeded_only_if_ran total runner tcs i h

/-! Non-vacuity -/
example : validate ⟨some 3, .stderr, none, none, true, 0⟩ ⟨.code 3, false, true⟩ = .ok := by decide
example : validate ⟨none, .stdout, none, none, true, 0⟩ ⟨.unknown, true, true⟩ = .internal := by decide

/-! ## through the composition: `scrut test` on one document (`Model/TestRun.lean`) -/

section Integrated
open Scrut.TestRun

/-- **C05, integrated** (no false success): if `scrut test` reports test `i` of a document as
`success`, then the command of test `i` ended with the expected exit code (0 when none is written)
and the recorded bytes of the stream selected by the test's `output_stream` are accepted by the
test's compiled expectations; moreover no test of the document ended with its skip code. -/
theorem C05_integrated_no_false_success {tests : List Test} {runs : List Ran}
    {outcomes : List Outcome} {status i : Nat}
    (h : runTests tests runs = .report outcomes status) (hi : (i, Verdict.ok) ∈ outcomes) :
    ∃ (t : Test) (r : Ran), tests[i]? = some t ∧ runs[i]? = some r ∧
      r.code = t.expected.getD 0 ∧
      (∃ s, selectedStream t r = some s ∧ accepts t.exps s = some true) ∧
      skips tests runs = false :=
  runTests_ok_sound h hi

/-- **C05, integrated, converse** (no false failure of the glue): in a reported document in which
no test ended with its skip code, a test whose command ended with the expected exit code and whose
selected stream is accepted IS reported `success`. -/
theorem C05_integrated_success_complete {tests : List Test} {runs : List Ran}
    {outcomes : List Outcome} {status i : Nat} {t : Test} {r : Ran}
    (h : runTests tests runs = .report outcomes status)
    (hs : skips tests runs = false) (ht : tests[i]? = some t) (hr : runs[i]? = some r)
    (hc : r.code = t.expected.getD 0)
    (hacc : ∃ s, selectedStream t r = some s ∧ accepts t.exps s = some true) :
    (i, Verdict.ok) ∈ outcomes :=
  runTests_ok_complete h hs ht hr hc hacc

/-- **C05, integrated, every verdict**: in such a document `(i, v)` is reported iff `v` is
`verdict tests[i] runs[i]` -- wrong exit code before anything else, then `success` iff the selected
stream is accepted, else `malformed` output. -/
theorem C05_integrated_verdict_iff {tests : List Test} {runs : List Ran}
    {outcomes : List Outcome} {status : Nat} (h : runTests tests runs = .report outcomes status)
    (hs : skips tests runs = false) (i : Nat) (v : Verdict) :
    (i, v) ∈ outcomes ↔
      ∃ (t : Test) (r : Ran), tests[i]? = some t ∧ runs[i]? = some r ∧ v = verdict t r :=
  runTests_verdict_iff h hs i v

/-- `verdict t r` is `success` iff expected exit code and accepted selected stream -/
theorem C05_verdict_ok_iff (t : Test) (r : Ran) :
    verdict t r = .ok ↔
      r.code = t.expected.getD 0 ∧
        ∃ s, selectedStream t r = some s ∧ accepts t.exps s = some true :=
  verdict_ok_iff t r

/-- **C05 from the bytes of the document** (no false success): `tests` are the prepared tests of
the document (`DocTests`: read, parsed, configured, compiled as `scrut test` does). -/
theorem C05_document_no_false_success {bytes : Bytes} {runs : List Ran} {outcomes : List Outcome}
    {status i : Nat} (h : testDocumentBytes bytes runs = .report outcomes status)
    (hi : (i, Verdict.ok) ∈ outcomes) :
    ∃ (tests : List Test) (t : Test) (r : Ran), DocTests bytes tests ∧
      tests[i]? = some t ∧ runs[i]? = some r ∧ r.code = t.expected.getD 0 ∧
      (∃ s, selectedStream t r = some s ∧ accepts t.exps s = some true) ∧
      skips tests runs = false :=
  testDocumentBytes_ok_sound h hi

/-- **C05 from the bytes of the document**, converse -/
theorem C05_document_success_complete {bytes : Bytes} {runs : List Ran} {outcomes : List Outcome}
    {status i : Nat} {tests : List Test} {t : Test} {r : Ran}
    (h : testDocumentBytes bytes runs = .report outcomes status) (hd : DocTests bytes tests)
    (hs : skips tests runs = false) (ht : tests[i]? = some t) (hr : runs[i]? = some r)
    (hc : r.code = t.expected.getD 0)
    (hacc : ∃ s, selectedStream t r = some s ∧ accepts t.exps s = some true) :
    (i, Verdict.ok) ∈ outcomes :=
  testDocumentBytes_ok_complete h hd hs ht hr hc hacc

/-- **C05, single-script executor** (`runScript`: Cram documents, `--cram-compat`), no false
success through the divider protocol, for ALL documents and runs (no guard: the former hypotheses
"no command leaves the shell", "compiled `keep_crlf` is `true`", "at most 2^64 test cases" are
gone): a test reported `success` ended with the expected exit code, and `render_output` of the bytes
its OWN command wrote (`scriptRendered`: `replace_crlf`, unless the compiled `keep_crlf` is `true`, of
`scriptSelected`: its stderr under `output_stream: stderr`, else its stdout, under `combined` its
stdout followed by its stderr) is accepted by its expectations.  Moreover NO command of the document
left the shell (`exit N`: the stream ends there, fewer dividers than test cases are found, the run
is an execution error unless a skip code was seen) and the document is not skipped.

Why `replace_crlf` of the WHOLE stream is `replace_crlf` of every test's own bytes: the divider line
is glued to the payload, carries no CR and starts with `~`, so a CR at the end of an unterminated
payload pairs with nothing (`Lemmas/TestRunScript.lean`: `spec_scriptStream`), and replacing CR LF
creates no divider start (`infix_of_infix_spec`).  More than 2^64 test cases: the index of a divider
is parsed as `usize`, the executor fails (`iterLines_chunk_big`).

Assumption that stays (it is the shape of `runs`): every test case's expression is a COMPLETE command
with a run of its own.  An expression that bash continues over scrut's footer (it ends in `|`, `&&`,
a backslash, inside a quote …) has none.  What the script text guarantees for those is
`Props/C13.lean` (`C13_script_exit_code_taken_by_assignment`, `C13_script_dividers_do_not_read_status`:
the status is read by the assignment `__SCRUT_EXIT_CODE=$?` directly behind the expression, never by
a divider `echo`, so a swallowed or skipped assignment leaves the divider without an exit code --
an execution error, not a success); what bash makes of it is exercised with the real binary by the
harness stream `e2e-script-incomplete-expression-exhaustive`.

CHANGED with the fix `set_consistent!(strip_ansi_escaping)` (the key is now carried into the compiled
configuration and `strip_ansi_sequences_bytes` runs over the WHOLE captured stream, divider lines
included): the statement carries the hypothesis `ScriptStripInert tests runs` -- no test case sets
`strip_ansi_escaping: true`, or no command wrote an `ESC` byte.  Outside it the stripping does not
commute with the divider protocol (a sequence a command leaves open runs into the following divider
line: `ex_strip_open_osc`, `ex_strip_lone_esc`, execution errors), and "the bytes of the test's OWN
command" is not what is judged.  What holds there: `Props/C16.lean` (`C16_script_strip_ansi_*`). -/
theorem C05_script_no_false_success {tests : List Test} {runs : List SRan}
    {outcomes : List Outcome} {status i : Nat} (hstrip : ScriptStripInert tests runs)
    (h : runScript tests runs = .report outcomes status)
    (hi : (i, Verdict.ok) ∈ outcomes) :
    ∃ (t : Test) (r : SRan) (cfg : Compiled), tests[i]? = some t ∧ runs[i]? = some r ∧
      compileTestcase tests = some cfg ∧ r.ran.code = t.expected.getD 0 ∧
      accepts t.exps (scriptRendered cfg t r) = some true ∧
      (∀ r ∈ runs.take tests.length, r.leaves = false) ∧ scriptSkips tests runs = false :=
  runScript_ok_sound_full hstrip h hi

/-- reading aid: `scriptRendered` is the model's `render_output` with the COMPILED `keep_crlf` and
`strip_ansi_escaping` on the test's own bytes when there is nothing to strip (the compiled key is
not `true`, or the bytes hold no `ESC`):
the bytes themselves under `keep_crlf: true` (the Cram default), else every byte in order except
each CR that is immediately followed by LF -/
theorem C05_script_rendered (cfg : Compiled) (t : Test) (r : SRan)
    (hs : cfg.stripAnsi ≠ some true ∨ Scrut.StripAnsi.esc ∉ scriptSelected cfg t r) :
    Scrut.Crlf.renderOutput cfg.keepCrlf cfg.stripAnsi (fun b => some (Scrut.StripAnsi.strip b))
        (scriptSelected cfg t r) =
      some (scriptRendered cfg t r) ∧
    (cfg.keepCrlf = some true → scriptRendered cfg t r = scriptSelected cfg t r) ∧
    (cfg.keepCrlf ≠ some true →
      scriptRendered cfg t r = Scrut.Crlf.replaceCrlfSpec (scriptSelected cfg t r)) :=
  ⟨scriptRendered_spec cfg t r hs, scriptRendered_keep cfg t r, scriptRendered_replace cfg t r⟩

/-- reading aid: the compiled `keep_crlf` is the one every test case that sets `keep_crlf` sets -/
theorem C05_script_compiled_keep_crlf {tests : List Test} {cfg : Compiled}
    (h : compileTestcase tests = some cfg) :
    ∀ t ∈ tests, t.cfg.keepCrlf = none ∨ t.cfg.keepCrlf = cfg.keepCrlf :=
  compiled_keepCrlf h

/-- … from the bytes of a Cram document (`CramDocTests`: read, parsed with indentation 2, prepared) -/
theorem C05_cram_document_no_false_success {bytes : Bytes} {runs : List SRan}
    {outcomes : List Outcome} {status i : Nat}
    (hstrip : ∀ tests, CramDocTests bytes tests → ScriptStripInert tests runs)
    (h : testCramDocumentBytes bytes runs = .report outcomes status)
    (hi : (i, Verdict.ok) ∈ outcomes) :
    ∃ (tests : List Test) (t : Test) (r : SRan) (cfg : Compiled), CramDocTests bytes tests ∧
      tests[i]? = some t ∧ runs[i]? = some r ∧
      compileTestcase tests = some cfg ∧ r.ran.code = t.expected.getD 0 ∧
      accepts t.exps (scriptRendered cfg t r) = some true ∧
      (∀ r ∈ runs.take tests.length, r.leaves = false) ∧ scriptSkips tests runs = false :=
  testCramDocumentBytes_ok_sound_full hstrip h hi

/-- … from the bytes of a Markdown document read under `--cram-compat` (`CompatDocTests`) -/
theorem C05_compat_document_no_false_success {bytes : Bytes} {runs : List SRan}
    {outcomes : List Outcome} {status i : Nat}
    (hstrip : ∀ tests, CompatDocTests bytes tests → ScriptStripInert tests runs)
    (h : testDocumentCompatBytes bytes runs = .report outcomes status)
    (hi : (i, Verdict.ok) ∈ outcomes) :
    ∃ (tests : List Test) (t : Test) (r : SRan) (cfg : Compiled), CompatDocTests bytes tests ∧
      tests[i]? = some t ∧ runs[i]? = some r ∧
      compileTestcase tests = some cfg ∧ r.ran.code = t.expected.getD 0 ∧
      accepts t.exps (scriptRendered cfg t r) = some true ∧
      (∀ r ∈ runs.take tests.length, r.leaves = false) ∧ scriptSkips tests runs = false :=
  testDocumentCompatBytes_ok_sound_full hstrip h hi

/-! Non-vacuity, evaluated by the kernel from the bytes of a document with two test cases (the
second: `{output_stream: stderr}`, glob + optional expectation, `[3]`): both `success` (the second
command wrote `x` to stdout and `bb\r\n` to stderr and ended with 3); with a second line on stderr
the second test is `malformed`. -/
example : testDocumentBytes exBytes exRuns = .report [(0, .ok), (1, .ok)] 0 := ex_report
example : testDocumentBytes exBytes exRunsBad = .report [(0, .ok), (1, .malformed)] 50 := ex_report_bad
example : DocTests exBytes exTests := ex_docTests
example : skips exTests exRuns = false := by decide
/-- a Cram document with two test cases (`exCramBytes`), its prepared tests, a report with a
`success`; the same document when the second command leaves the shell: an execution error -/
example : testCramDocumentBytes exCramBytes exCramRuns = .report [(0, .ok), (1, .invalidExit 0 1)] 50 :=
  ex_cram_report
example : CramDocTests exCramBytes exCramTests := ex_cramDocTests
example : testCramDocumentBytes exCramBytes exCramRunsLeave = .execError := ex_cram_leave
/-- a Markdown document under `--cram-compat` with `keep_crlf: false`: the command writes `a\r\n`,
the expectation `a` accepts `scriptRendered` = `a\n`; a CR at the end of an unterminated payload
(`a\r`, then the divider text) stays -/
example : testDocumentCompatBytes exCrlfBytes [⟨⟨[97, 13, 10], [], 0⟩, false⟩] = .report [(0, .ok)] 0 :=
  ex_crlf_report
example : testDocumentCompatBytes exCrlfBytes [⟨⟨[97, 13], [], 0⟩, false⟩] = .report [(0, .malformed)] 50 :=
  ex_crlf_report_cr
example : CompatDocTests exCrlfBytes exCrlfTests := ex_crlf_docTests
example : compileTestcase exCrlfTests = some ⟨some false, some .combined, some 80, none⟩ ∧
    scriptRendered ⟨some false, some .combined, some 80, none⟩
      ⟨{ outputStream := some .combined, keepCrlf := some false, skipCode := some 80 }, [⟨.equal [97], false, false⟩], none⟩
      ⟨⟨[97, 13, 10], [], 0⟩, false⟩ = [97, 10] := ex_crlf_rendered
example : Scrut.Crlf.replaceCrlfSpec (Scrut.Divider.chunk modelSalt 0 [97, 13] 0) =
    Scrut.Divider.chunk modelSalt 0 [97, 13] 0 := ex_chunk_cr

end Integrated

end Scrut.Props.C05
