import ScrutModel.Lemmas.Exec
import ScrutModel.Lemmas.TestRunProps
/-!
# C05 — A test passes only if it completed with the expected exit code and accepted output

`validate` is `TestCase::validate`; `selected tc o` says whether the configured stream of output
`o` is accepted by the expectations of `tc` (i.e. `hasDiff (diff …) = false`, see C01/C03).
`execAll`/`runDocument` are the executor loop and the result mapping of `scrut test`.

The second half (`C05_integrated_…`, `C05_document_…`) states the property about the INTEGRATED
model of `scrut test` (`Model/TestRun.lean`), which the correspondence stream `e2e-testdoc` ties to
the binary: "accepted" is no longer a Boolean handed in, it is `accepts t.exps s = some true` on the
compiled expectations `t.exps` of the document's test and the recorded bytes `s` of the stream the
test's configuration selects (`selectedStream t r`: `render_output` of what the command wrote).
-/
namespace Scrut.Props.C05
open Scrut.Exec

/-- **C05**: succeeded iff an exit code was produced, it is the expected one (0 when none is
written) and the configured stream is accepted. -/
theorem C05_succeeds_iff (tc : TC) (o : Out) :
    validate tc o = .ok ↔
      ∃ c, o.status = .code c ∧ c = tc.expected.getD 0 ∧ selected tc o = true :=
  Scrut.Exec.validate_ok_iff tc o

/-- a wrong exit code is reported as such regardless of the output -/
theorem C05_wrong_code (tc : TC) (o : Out) (c : Int) (h : o.status = .code c)
    (hne : c ≠ tc.expected.getD 0) : validate tc o = .invalidExit c (tc.expected.getD 0) :=
  Scrut.Exec.validate_wrong_code tc o c h hne

/-- a command that did not produce an exit code is never reported as succeeded -/
theorem C05_no_code_never_succeeds (tc : TC) (o : Out) (h : ∀ c, o.status ≠ .code c) :
    validate tc o ≠ .ok :=
  Scrut.Exec.validate_no_code tc o h

/-- **C05** (document level): whatever the runner does, a test case is reported as succeeded only
if the runner was really called for it and returned the expected exit code — in particular no
test case after an aborted one (which consequently did not run) is reported as succeeded. -/
theorem C05_succeeded_only_if_ran (total : Option Nat) (runner : Runner) (tcs : List TC)
    (i : Nat) (h : (i, Verdict.ok) ∈ runDocument tcs (execAll total runner tcs).1) :
    ∃ tc lim, tcs[i]? = some tc ∧ ((runner i lim).1).status = .code (tc.expected.getD 0) :=
  Scrut.Exec.succeeded_only_if_ran total runner tcs i h

/-! Non-vacuity -/
example : validate ⟨some 3, .stderr, none, none, true, 0⟩ ⟨.code 3, false, true⟩ = .ok := by decide
example : validate ⟨none, .stdout, none, none, true, 0⟩ ⟨.unknown, true, true⟩ = .internal := by decide

/-! ## through the composition: `scrut test` on one document (`Model/TestRun.lean`) -/

section Integrated
open Scrut.TestRun

/-- **C05, integrated** (no false success): if `scrut test` reports test `i` of a document as
`success`, then the command of test `i` ended with the expected exit code (0 when none is written)
and the recorded bytes of the stream selected by the test's `output_stream` are accepted by the
test's compiled expectations; moreover no test of the document ended with its skip code. -/
theorem C05_integrated_no_false_success {tests : List Test} {runs : List Ran}
    {outcomes : List Outcome} {status i : Nat}
    (h : runTests tests runs = .report outcomes status) (hi : (i, Verdict.ok) ∈ outcomes) :
    ∃ (t : Test) (r : Ran), tests[i]? = some t ∧ runs[i]? = some r ∧
      r.code = t.expected.getD 0 ∧
      (∃ s, selectedStream t r = some s ∧ accepts t.exps s = some true) ∧
      skips tests runs = false :=
  runTests_ok_sound h hi

/-- **C05, integrated, converse** (no false failure of the glue): in a reported document in which
no test ended with its skip code, a test whose command ended with the expected exit code and whose
selected stream is accepted IS reported `success`. -/
theorem C05_integrated_success_complete {tests : List Test} {runs : List Ran}
    {outcomes : List Outcome} {status i : Nat} {t : Test} {r : Ran}
    (h : runTests tests runs = .report outcomes status)
    (hs : skips tests runs = false) (ht : tests[i]? = some t) (hr : runs[i]? = some r)
    (hc : r.code = t.expected.getD 0)
    (hacc : ∃ s, selectedStream t r = some s ∧ accepts t.exps s = some true) :
    (i, Verdict.ok) ∈ outcomes :=
  runTests_ok_complete h hs ht hr hc hacc

/-- **C05, integrated, every verdict**: in such a document `(i, v)` is reported iff `v` is
`verdict tests[i] runs[i]` -- wrong exit code before anything else, then `success` iff the selected
stream is accepted, else `malformed` output. -/
theorem C05_integrated_verdict_iff {tests : List Test} {runs : List Ran}
    {outcomes : List Outcome} {status : Nat} (h : runTests tests runs = .report outcomes status)
    (hs : skips tests runs = false) (i : Nat) (v : Verdict) :
    (i, v) ∈ outcomes ↔
      ∃ (t : Test) (r : Ran), tests[i]? = some t ∧ runs[i]? = some r ∧ v = verdict t r :=
  runTests_verdict_iff h hs i v

/-- `verdict t r` is `success` iff expected exit code and accepted selected stream -/
theorem C05_verdict_ok_iff (t : Test) (r : Ran) :
    verdict t r = .ok ↔
      r.code = t.expected.getD 0 ∧
        ∃ s, selectedStream t r = some s ∧ accepts t.exps s = some true :=
  verdict_ok_iff t r

/-- **C05 from the bytes of the document** (no false success): `tests` are the prepared tests of
the document (`DocTests`: read, parsed, configured, compiled as `scrut test` does). -/
theorem C05_document_no_false_success {bytes : Bytes} {runs : List Ran} {outcomes : List Outcome}
    {status i : Nat} (h : testDocumentBytes bytes runs = .report outcomes status)
    (hi : (i, Verdict.ok) ∈ outcomes) :
    ∃ (tests : List Test) (t : Test) (r : Ran), DocTests bytes tests ∧
      tests[i]? = some t ∧ runs[i]? = some r ∧ r.code = t.expected.getD 0 ∧
      (∃ s, selectedStream t r = some s ∧ accepts t.exps s = some true) ∧
      skips tests runs = false :=
  testDocumentBytes_ok_sound h hi

/-- **C05 from the bytes of the document**, converse -/
theorem C05_document_success_complete {bytes : Bytes} {runs : List Ran} {outcomes : List Outcome}
    {status i : Nat} {tests : List Test} {t : Test} {r : Ran}
    (h : testDocumentBytes bytes runs = .report outcomes status) (hd : DocTests bytes tests)
    (hs : skips tests runs = false) (ht : tests[i]? = some t) (hr : runs[i]? = some r)
    (hc : r.code = t.expected.getD 0)
    (hacc : ∃ s, selectedStream t r = some s ∧ accepts t.exps s = some true) :
    (i, Verdict.ok) ∈ outcomes :=
  testDocumentBytes_ok_complete h hd hs ht hr hc hacc

/-- **C05, single-script executor** (`runScript`: Cram documents, `--cram-compat`), no false
success through the divider protocol, for a script that runs to its end (no command leaves the
shell with `exit N`) under `keep_crlf: true` (the Cram default: `render_output` of the whole stream
is the identity): a test reported `success` ended with the expected exit code, and the bytes its OWN
command wrote (`scriptSelected`: its stderr under `output_stream: stderr`, else its stdout, under
`combined` its stdout followed by its stderr) are accepted by its expectations.  NOT proved without
the two guards (the statement is not known to be false there; the correspondence streams cover it). -/
theorem C05_script_no_false_success {tests : List Test} {runs : List SRan}
    {outcomes : List Outcome} {status i : Nat} (h : runScript tests runs = .report outcomes status)
    (hleave : ∀ r ∈ runs.take tests.length, r.leaves = false)
    (hkeep : ∀ cfg, compileTestcase tests = some cfg → cfg.keepCrlf = some true)
    (hlen : tests.length ≤ 2 ^ 64) (hi : (i, Verdict.ok) ∈ outcomes) :
    ∃ (t : Test) (r : SRan) (cfg : Compiled), tests[i]? = some t ∧ runs[i]? = some r ∧
      compileTestcase tests = some cfg ∧ r.ran.code = t.expected.getD 0 ∧
      accepts t.exps (scriptSelected cfg t r) = some true :=
  runScript_ok_sound h hleave hkeep hlen hi

/-- … from the bytes of a Cram document (`CramDocTests`: read, parsed with indentation 2, prepared) -/
theorem C05_cram_document_no_false_success {bytes : Bytes} {runs : List SRan}
    {outcomes : List Outcome} {status i : Nat}
    (h : testCramDocumentBytes bytes runs = .report outcomes status)
    (hi : (i, Verdict.ok) ∈ outcomes) :
    ∃ tests, CramDocTests bytes tests ∧
      ((∀ r ∈ runs.take tests.length, r.leaves = false) →
       (∀ cfg, compileTestcase tests = some cfg → cfg.keepCrlf = some true) →
       tests.length ≤ 2 ^ 64 →
       ∃ (t : Test) (r : SRan) (cfg : Compiled), tests[i]? = some t ∧ runs[i]? = some r ∧
         compileTestcase tests = some cfg ∧ r.ran.code = t.expected.getD 0 ∧
         accepts t.exps (scriptSelected cfg t r) = some true) :=
  testCramDocumentBytes_ok_sound h hi

/-! Non-vacuity, evaluated by the kernel from the bytes of a document with two test cases (the
second: `{output_stream: stderr}`, glob + optional expectation, `[3]`): both `success` (the second
command wrote `x` to stdout and `bb\r\n` to stderr and ended with 3); with a second line on stderr
the second test is `malformed`. -/
example : testDocumentBytes exBytes exRuns = .report [(0, .ok), (1, .ok)] 0 := ex_report
example : testDocumentBytes exBytes exRunsBad = .report [(0, .ok), (1, .malformed)] 50 := ex_report_bad
example : DocTests exBytes exTests := ex_docTests
example : skips exTests exRuns = false := by decide
/-- a Cram document with two test cases (`exCramBytes`), its prepared tests, a report with a
`success`, and the guards of `C05_script_no_false_success` -/
example : testCramDocumentBytes exCramBytes exCramRuns = .report [(0, .ok), (1, .invalidExit 0 1)] 50 :=
  ex_cram_report
example : CramDocTests exCramBytes exCramTests := ex_cramDocTests
example : (∀ r ∈ exCramRuns.take exCramTests.length, r.leaves = false) ∧
    (∀ cfg, compileTestcase exCramTests = some cfg → cfg.keepCrlf = some true) ∧
    exCramTests.length ≤ 2 ^ 64 := ex_cram_guards

end Integrated

end Scrut.Props.C05
