import ScrutModel.Lemmas.Namer
import ScrutModel.Lemmas.Environment
/-!
# C18 — Per-document work directory, documented environment, complete clean-up

Theorems about two hand-written models:

* `Model/Namer.lean` — `UniqueNamer` (src/bin/utils/namer.rs);
* `Model/Environment.lean` — `TestEnvironment::new`, `init_test_file` (`build_work_directory`,
  `build_env_vars`, `create_random_sub_directory`) and `Drop` of src/bin/utils/environment.rs,
  the life cycle `scrut test` gives the environment (src/bin/commands/test.rs: ONE
  `TestEnvironment` PER DOCUMENT — created in the loop body, dropped when the body ends, also when
  it is left early by `?`/`bail!`), and the insertion of `SCRUT_TEST` (stateful_executor.rs).

The file system is the set of existing paths; a document brings along the directories its test
cases create below their working directory and below `$TMPDIR` (`Doc.mkWork`, `Doc.mkTmp`), so the
clean-up statements are about whole subtrees.

## What is assumed (not proved)

* **`tempfile` picks a free name** (`Fresh`): nothing exists at or below the directory it creates.
  Nothing else is assumed about the random part; in particular a name may come back after its
  directory was removed. That is why, in the default mode, the theorem is "the work directory of a
  document does not exist — nor anything below it — when the document's turn begins (and did not
  exist before the run)" and not "the paths are pairwise different": with one environment per
  document the directory of an earlier document is already gone when the next one is created.
  With `--keep-temporary-directories` the directories stay, and the paths ARE pairwise different.
* **`TempDir::drop` = `remove_dir_all` removes the whole subtree and nothing else** (`removeTree`).
* **Drop runs.** The model covers every way `TestCommand::run` returns: normal end, `?` on a
  missing shell, `?` on an unparsable prepended/appended document, `bail!` on an execution error,
  parse error before the loop. `std::process::exit`, `abort`, signals and a panic with
  `panic=abort` are NOT covered; nor are failures of the OS calls themselves (disk full,
  permissions). The end-to-end stream of the harness observes real runs of the binary for every
  outcome class and compares directory listings and variables with this model.
* The test cases of a document only create directories below their working directory and below
  `$TMPDIR`. Canonicalisation of the document's directory (`split_path_abs`) is the OS's.

## Open finding kept visible

`C18_workdirs_shared_under_work_directory`: with `--work-directory d` every document runs in `d`
itself (`EnvironmentDirectory::UserProvided(path) => path.into()`), so the documents of a run share
their work directory. This is the known finding `C18:workdir-shared-under-work-directory`; the
property's "no other document shares" is a theorem only without the flag (`C18_workdirs_distinct`).
-/
namespace Scrut.Props.C18
open Scrut.Namer Scrut.Environment

/-! ## the namer -/

/-- **C18** (directory names): names handed out for any request sequence are pairwise distinct,
new, and absent from the disk; one name per request. -/
theorem C18_names_distinct (existsOnDisk : Name → Bool) (fuel : Nat)
    (reqs names out : List Name) (h : nextNames existsOnDisk fuel names reqs = some out) :
    (∀ n ∈ out, n ∉ names ∧ existsOnDisk n = false) ∧ out.Pairwise (· ≠ ·) ∧
    out.length = reqs.length :=
  nextNames_spec existsOnDisk fuel reqs names out h

/-- a single request never returns a name that is taken -/
theorem C18_next_free (names : List Name) (existsOnDisk : Name → Bool) (fuel : Nat)
    (name n : Name) (names' : List Name)
    (h : nextName names existsOnDisk fuel name = some (n, names')) :
    n ∉ names ∧ existsOnDisk n = false ∧ names' = n :: names := by
  obtain ⟨h1, h2⟩ := nextName_free h
  exact ⟨(taken_false h1).1, (taken_false h1).2, h2⟩

/-- **C18** (the counter loop terminates): on a disk where the existing names are a finite list
`ex`, `next_name` finds a free name after at most `|names| + |ex| + 1` candidates — for every
requested name, whatever has been handed out before. -/
theorem C18_next_name_terminates (names ex : List Name) (name : Name) :
    ∃ r, nextName names (fun x => ex.contains x) (names.length + ex.length + 1) name = some r :=
  nextName_terminates names ex name

/-! ## the model never gets stuck, `new` fails only for a missing parent directory -/

/-- for every configuration, file system, oracle and list of documents the command returns
(the counter loop of the namer always finds a name within the fuel the model gives it) -/
theorem C18_run_total (cfg : Cfg) (fresh : Oracle) (parseOk : Bool) (fs0 : FS) (docs : List Doc) :
    ∃ R, runCommand cfg fresh parseOk fs0 docs = some R :=
  runCommand_total cfg fresh parseOk fs0 docs

/-- `TestEnvironment::new` fails only because the directory it should create a temporary directory
in does not exist, and then nothing was created (`create_dir(__tmp)` cannot hit an existing path) -/
theorem C18_new_fails_only_without_parent (fresh : Oracle) (hF : Fresh fresh) (tmpRoot : Path)
    (shell : List Char) (provided : Option Path) (keep : Bool) (fs fs' : FS) (e : NewError)
    (h : new fresh tmpRoot shell provided keep fs = .error e fs') : fs' = fs ∧ e = .noParent :=
  new_error hF h

/-- which `EnvironmentDirectory` variant and which path each directory gets, per mode (`ModeShape`),
that every directory scrut makes for a document is fresh (nothing at or below it existed when the
document's turn began) and exists while its test cases run, and that the file system after the
document's turn is `drop` applied to the one its test cases left -/
theorem C18_created_fresh (cfg : Cfg) (fresh : Oracle) (hF : Fresh fresh) (parseOk : Bool) (fs0 : FS)
    (docs : List Doc) (R : Run) (h : runCommand cfg fresh parseOk fs0 docs = some R) :
    ∀ r ∈ R.runs, ModeShape cfg.tmpRoot cfg.provided cfg.keep r.env ∧
      ∀ c ∈ r.scrutCreated, c ∈ r.fsDuring ∧ (∀ q ∈ r.fsBefore, below c q = false) ∧
        r.fsAfter = drop r.env r.fsDuring :=
  created_fresh hF h

/-! ## work directories -/

/-- **C18** (one work directory per document, shared with no other): without `--work-directory`
the work directory of every document exists while its test cases run, and neither it nor anything
below it existed when the document's turn began, nor before the run — so nothing an earlier
document (or anybody else) left is in it. With `--keep-temporary-directories`, where the
directories of earlier documents are still there, the paths are pairwise different.
(`cfg.keep = true` makes `new` ignore `--work-directory`; the command line forbids the combination.) -/
theorem C18_workdirs_distinct (cfg : Cfg) (fresh : Oracle) (hF : Fresh fresh)
    (hmode : cfg.keep = true ∨ cfg.provided = none) (parseOk : Bool) (fs0 : FS) (docs : List Doc) (R : Run)
    (h : runCommand cfg fresh parseOk fs0 docs = some R) :
    (∀ r ∈ R.runs, ∀ wd, r.workDir = some wd →
      wd ∈ r.fsDuring ∧ (∀ q ∈ r.fsBefore, below wd q = false) ∧ (∀ q ∈ fs0, below wd q = false)) ∧
    (cfg.keep = true → (R.runs.filterMap (·.workDir)).Pairwise (· ≠ ·)) :=
  workdirs_distinct hF hmode h

/-- **OPEN FINDING `C18:workdir-shared-under-work-directory`, as the theorem it is**: with
`--work-directory d` every document of the run has the work directory `d` — the documents share it. -/
theorem C18_workdirs_shared_under_work_directory (cfg : Cfg) (fresh : Oracle) (hF : Fresh fresh)
    (hk : cfg.keep = false) (d : Path) (hp : cfg.provided = some d) (parseOk : Bool) (fs0 : FS)
    (docs : List Doc) (R : Run) (h : runCommand cfg fresh parseOk fs0 docs = some R) :
    ∀ r ∈ R.runs, ∀ wd, r.workDir = some wd → wd = d :=
  workdirs_shared hF hk hp h

/-- several documents initialised in ONE environment (what the API of `TestEnvironment` allows and
what the namer is for): their work directories are pairwise different, did not exist before and
exist afterwards, for any file names (also identical ones) and any file system; nothing is removed -/
theorem C18_workdirs_distinct_one_environment (docs : List Doc) (env env' : Env) (fs fs' : FS)
    (out : List (Path × Vars)) (hk : env.work.kind ≠ .userProvided)
    (h : initTestFiles docs env fs = some (out, env', fs')) :
    (∀ o ∈ out, ∃ n, o.1 = env.work.path ++ [n] ∧ n ∉ env.names ∧ o.1 ∉ fs ∧ o.1 ∈ fs') ∧
    (out.map (·.1)).Pairwise (· ≠ ·) ∧ out.length = docs.length ∧ (∀ p ∈ fs, p ∈ fs') :=
  initTestFiles_spec docs env fs out env' fs' hk h

theorem C18_init_test_files_total (docs : List Doc) (env : Env) (fs : FS) :
    ∃ r, initTestFiles docs env fs = some r :=
  initTestFiles_total docs env fs

/-! ## clean-up -/

/-- **C18** (clean-up, no flag): when the command returns — whichever way — the file system is
exactly the one before the run; the same holds after every single document; every directory scrut
or the test cases made existed in between and did not exist before. -/
theorem C18_cleanup_default (cfg : Cfg) (fresh : Oracle) (hF : Fresh fresh) (hk : cfg.keep = false)
    (hp : cfg.provided = none) (parseOk : Bool) (fs0 : FS) (docs : List Doc) (R : Run)
    (h : runCommand cfg fresh parseOk fs0 docs = some R) :
    R.fs = fs0 ∧ ∀ r ∈ R.runs, r.fsBefore = fs0 ∧ r.fsAfter = fs0 ∧
      ∀ p, p ∈ r.scrutCreated ∨ p ∈ r.testsCreated → p ∈ r.fsDuring ∧ p ∉ fs0 :=
  cleanup_default hF hk hp h

/-- **C18** (clean-up, `--work-directory d`): everything that existed before the run — `d` itself
included — is still there; whatever else is there afterwards was made by the test cases in `d`
(nothing scrut made is left); the `temp.XXXX` of a document lies directly in `d`, is new, exists
while its test cases run, and nothing at or below it exists once the document's turn is over. -/
theorem C18_cleanup_work_directory (cfg : Cfg) (fresh : Oracle) (hF : Fresh fresh) (hk : cfg.keep = false)
    (d : Path) (hp : cfg.provided = some d) (parseOk : Bool) (fs0 : FS) (docs : List Doc) (R : Run)
    (h : runCommand cfg fresh parseOk fs0 docs = some R) :
    (∀ p ∈ fs0, p ∈ R.fs) ∧
    (∀ p ∈ R.fs, p ∈ fs0 ∨ ∃ r ∈ R.runs, ∃ rel ∈ r.doc.mkWork, p = d ++ rel) ∧
    ∀ r ∈ R.runs, r.env.work = ⟨.userProvided, d⟩ ∧ r.env.tmp.kind = .ephemeral ∧
      (∃ n, r.env.tmp.path = d ++ [n]) ∧ r.env.tmp.path ∈ r.fsDuring ∧
      (∀ q ∈ r.fsBefore, below r.env.tmp.path q = false) ∧
      ∀ p ∈ r.fsAfter, below r.env.tmp.path p = false :=
  cleanup_work_directory hF hk hp h

/-- **C18** (`--keep-temporary-directories`): exactly what existed before plus what scrut and the
test cases made remains; dropping an environment removes nothing. -/
theorem C18_cleanup_keep (cfg : Cfg) (fresh : Oracle) (hF : Fresh fresh) (hk : cfg.keep = true)
    (parseOk : Bool) (fs0 : FS) (docs : List Doc) (R : Run)
    (h : runCommand cfg fresh parseOk fs0 docs = some R) :
    (∀ p, p ∈ R.fs ↔ p ∈ fs0 ∨ ∃ r ∈ R.runs, p ∈ r.scrutCreated ∨ p ∈ r.testsCreated) ∧
    ∀ r ∈ R.runs, r.fsAfter = r.fsDuring ∧ r.env.work.kind = .kept ∧ r.env.tmp.kind = .kept :=
  cleanup_keep hF hk h

/-- in every mode: nothing that existed before the run is ever removed -/
theorem C18_preexisting_untouched (cfg : Cfg) (fresh : Oracle) (hF : Fresh fresh) (parseOk : Bool)
    (fs0 : FS) (docs : List Doc) (R : Run) (h : runCommand cfg fresh parseOk fs0 docs = some R) :
    (∀ p ∈ fs0, p ∈ R.fs) ∧ ∀ r ∈ R.runs, ∀ p ∈ fs0, p ∈ r.fsBefore ∧ p ∈ r.fsDuring ∧ p ∈ r.fsAfter :=
  preexisting_untouched hF h

/-! ## environment variables -/

/-- **C18** (names): `build_env_vars` binds exactly the documented names (plus the three Cram ones in
Cram compatibility mode), in this order; all of them and `SCRUT_TEST` are different names, so each
is bound exactly once. -/
theorem C18_env_var_names (doc : Doc) (env : Env) :
    (buildEnvVars doc env).map Prod.fst = documentedNames ++ (if doc.cram then cramNames else []) ∧
    (documentedNames ++ cramNames ++ [vSCRUT_TEST]).Nodup :=
  ⟨buildEnvVars_names doc env, names_nodup⟩

/-- **C18** (values): `TESTDIR` is the directory of the document, `TESTFILE` its file name,
`TMPDIR` the environment's temporary directory, `TESTSHELL` the shell; the constants. -/
theorem C18_env_var_values (doc : Doc) (env : Env) :
    (buildEnvVars doc env).lookup vTESTDIR = some (render doc.dir) ∧
    (buildEnvVars doc env).lookup vTESTFILE = some doc.file ∧
    (buildEnvVars doc env).lookup vTMPDIR = some (render env.tmp.path) ∧
    (buildEnvVars doc env).lookup vTESTSHELL = some env.shell ∧
    (buildEnvVars doc env).lookup vLANG = some ['C'] ∧
    (buildEnvVars doc env).lookup vLANGUAGE = some ['C'] ∧
    (buildEnvVars doc env).lookup vLC_ALL = some ['C'] ∧
    (buildEnvVars doc env).lookup vTZ = some ['G', 'M', 'T'] ∧
    (buildEnvVars doc env).lookup vCOLUMNS = some ['8', '0'] ∧
    (buildEnvVars doc env).lookup vCDPATH = some [] ∧
    (buildEnvVars doc env).lookup vGREP_OPTIONS = some [] :=
  buildEnvVars_values doc env

theorem C18_env_var_values_cram (doc : Doc) (env : Env) (hc : doc.cram = true) :
    (buildEnvVars doc env).lookup vCRAMTMP = some (render env.work.path) ∧
    (buildEnvVars doc env).lookup vTMP = some (render env.tmp.path) ∧
    (buildEnvVars doc env).lookup vTEMP = some (render env.tmp.path) :=
  buildEnvVars_cram_values doc env hc

/-- **C18** (set afresh per document): the documents that get an environment are an initial
segment of the given ones, in order; the variables of a document are `build_env_vars` of THAT
document and of ITS OWN environment (nothing of an earlier document enters), the shell is the
configured one, and `TMPDIR` is a directory this run made for this document: it exists while the
test cases run and neither it nor anything below it existed when the document's turn began. -/
theorem C18_env_vars_per_document (cfg : Cfg) (fresh : Oracle) (hF : Fresh fresh) (parseOk : Bool)
    (fs0 : FS) (docs : List Doc) (R : Run) (h : runCommand cfg fresh parseOk fs0 docs = some R) :
    R.runs.map (·.doc) <+: docs ∧
    ∀ r ∈ R.runs, r.env.shell = cfg.shell ∧ r.env.tmp.path ∈ r.fsDuring ∧
      (∀ q ∈ r.fsBefore, below r.env.tmp.path q = false) ∧
      (r.workDir.isSome = true → r.vars = buildEnvVars r.doc r.env) :=
  env_vars_per_document hF h

/-- **C18** (`SCRUT_TEST`, Markdown executor): whatever the variables were, every test case gets
`SCRUT_TEST=<file>:<line>` exactly once and all other variables unchanged. -/
theorem C18_scrut_test (vars : Vars) (file : List Char) (line : Nat) :
    (testCaseVars vars file line).lookup vSCRUT_TEST = some (scrutTestValue file line) ∧
    ((testCaseVars vars file line).map Prod.fst).count vSCRUT_TEST = 1 ∧
    ∀ k, k ≠ vSCRUT_TEST → (testCaseVars vars file line).lookup k = vars.lookup k :=
  testCaseVars_spec vars file line

/-! ## Non-vacuity -/

/-- the contract of the oracle is satisfiable: `longFresh` keeps it -/
theorem C18_fresh_satisfiable : Fresh longFresh := longFresh_fresh

/-! the same file name requested three times next to an existing `t.md-1` -/
example : nextNames (fun n => n == "t.md-1".toList) 10 [] ["t.md".toList, "t.md".toList, "t.md".toList]
    = some ["t.md".toList, "t.md-2".toList, "t.md-3".toList] := by
  simp [nextNames, nextName, taken, search, withCounter]
  decide

def tmp : Name := ['t', 'm', 'p']
def usr : Name := ['u', 's', 'r']
def old : Name := ['o', 'l', 'd']
def da : Name := ['a']
def db : Name := ['b']
def docMd : Name := ['d', 'o', 'c', '.', 'm', 'd']
def sub : Name := ['s']
def sh : List Char := ['/', 's', 'h']
/-- `/tmp`, `/usr` with an old entry, two document directories -/
def fs0 : FS := [[], [tmp], [usr], [usr, old], [da], [db]]
/-- two documents with the SAME file name in different directories; both create `s` below their
working directory and below `$TMPDIR` -/
def twoDocs : List Doc :=
  [⟨[da], docMd, false, [[sub]], [[sub]], .completes⟩, ⟨[db], docMd, true, [[sub]], [[sub]], .completes⟩]
def cfgDefault : Cfg := ⟨[tmp], sh, none, false⟩
def cfgWork : Cfg := ⟨[tmp], sh, some [usr], false⟩
def cfgKeep : Cfg := ⟨[tmp], sh, none, true⟩
def X (pre : Name) (n : Nat) : Name := pre ++ List.replicate n 'x'

/-- default mode: both documents run, in `/tmp/execution.…/doc.md`; afterwards the file system is
the initial one -/
example : (runCommand cfgDefault longFresh true fs0 twoDocs).map
      (fun R => (R.runs.map (·.workDir), R.fs, R.finished)) =
    some ([some [tmp, X pfxExecution 4, docMd], some [tmp, X pfxExecution 4, docMd]], fs0, true) := by
  decide

/-- what the test cases of the first document see: six new directories on top of the initial ones -/
example : (runCommand cfgDefault longFresh true fs0 twoDocs).map (fun R => (R.runs.map (·.fsDuring)).head?) =
    some (some ([[tmp, X pfxExecution 4, nameTmp, sub], [tmp, X pfxExecution 4, docMd, sub],
      [tmp, X pfxExecution 4, docMd], [tmp, X pfxExecution 4, nameTmp], [tmp, X pfxExecution 4]] ++ fs0)) := by
  decide

/-- `--work-directory /usr`: both documents run in `/usr`; `/usr/old` is kept, `/usr/temp.…` is gone,
what the test cases made in `/usr` stays -/
example : (runCommand cfgWork longFresh true fs0 twoDocs).map
      (fun R => (R.runs.map (·.workDir), R.runs.map (·.env.tmp.path))) =
    some ([some [usr], some [usr]], [[usr, X pfxTemp 4], [usr, X pfxTemp 4]]) := by
  decide

example : (runCommand cfgWork longFresh true fs0 twoDocs).map (·.fs) = some ([[usr, sub], [usr, sub]] ++ fs0) := by
  decide

/-- `--keep-temporary-directories`: different `execution.…`/`temp.…` per document, everything stays -/
example : (runCommand cfgKeep longFresh true fs0 twoDocs).map
      (fun R => (R.runs.map (·.workDir), R.runs.map (·.env.tmp.path), R.fs.length)) =
    some ([some [tmp, X pfxExecution 4, docMd], some [tmp, X pfxExecution 21, docMd]],
      [[tmp, X pfxTemp 15], [tmp, X pfxTemp 32]], 16) := by
  decide

/-- an execution error in the first document: the second never runs, everything is removed -/
example : (runCommand cfgDefault longFresh true fs0
      [⟨[da], docMd, false, [[sub]], [], .execError⟩, ⟨[db], docMd, false, [], [], .completes⟩]).map
      (fun R => (R.runs.length, R.fs, R.finished)) = some (1, fs0, false) := by
  decide

/-- a `--work-directory` that does not exist: nothing runs, nothing is created -/
example : (runCommand ⟨[tmp], sh, some [old], false⟩ longFresh true fs0 twoDocs).map
      (fun R => (R.runs.length, R.fs, R.finished)) = some (0, fs0, false) := by
  decide

/-- one environment, the same file name twice: `doc.md` and `doc.md-1` -/
example : (initTestFiles twoDocs ⟨sh, ⟨.ephemeral, [tmp, da]⟩, ⟨.userProvided, [tmp, da, nameTmp]⟩, []⟩
      [[tmp, da, nameTmp], [tmp, da], [tmp]]).map (fun r => r.1.map (·.1)) =
    some [[tmp, da, docMd], [tmp, da, docMd ++ ['-', '1']]] := by
  decide

/-- the variables of the second (Cram) document in the default mode -/
example : (runCommand cfgDefault longFresh true fs0 twoDocs).map (fun R => (R.runs.map (·.vars)).getLast?) =
    some (some [(vTESTDIR, ['/', 'b']), (vTESTFILE, docMd),
      (vTMPDIR, render [tmp, X pfxExecution 4, nameTmp]), (vTESTSHELL, sh), (vLANG, ['C']), (vLANGUAGE, ['C']),
      (vLC_ALL, ['C']), (vTZ, ['G', 'M', 'T']), (vCOLUMNS, ['8', '0']), (vCDPATH, []), (vGREP_OPTIONS, []),
      (vCRAMTMP, render [tmp, X pfxExecution 4]), (vTMP, render [tmp, X pfxExecution 4, nameTmp]),
      (vTEMP, render [tmp, X pfxExecution 4, nameTmp])]) := by
  decide

example : testCaseVars [(vSCRUT_TEST, ['o']), (vLANG, ['C'])] ['a', '.', 'm', 'd'] 7 =
    [(vSCRUT_TEST, ['a', '.', 'm', 'd', ':', '7']), (vLANG, ['C'])] := by
  decide

end Scrut.Props.C18
