import ScrutModel.Lemmas.Namer
/-!
# C18 — Per-document work directory, documented environment, complete clean-up (PARTIAL)

What is a theorem here: the bookkeeping of `UniqueNamer` (src/bin/utils/namer.rs) — for any
sequence of requested directory names (also identical ones) and any state of the disk, the names
handed out are pairwise distinct, were not handed out before and do not exist on disk.
Everything else the property speaks about — that `TempDir` really creates fresh directories and
removes them on drop for every outcome class, the environment variables a test sees, concurrent
scrut processes — is operating-system and `Drop` behaviour; it is exercised end-to-end by the
harness on every run (directory listings after the run, `pwd`/`env` probes inside tests) and is
not proved.
-/
namespace Scrut.Props.C18
open Scrut.Namer

/-- **C18** (directory names): names handed out for any request sequence are pairwise distinct,
new, and absent from the disk; one name per request. -/
theorem C18_names_distinct (existsOnDisk : Name → Bool) (fuel : Nat)
    (reqs names out : List Name) (h : nextNames existsOnDisk fuel names reqs = some out) :
    (∀ n ∈ out, n ∉ names ∧ existsOnDisk n = false) ∧ out.Pairwise (· ≠ ·) ∧
    out.length = reqs.length :=
  nextNames_spec existsOnDisk fuel reqs names out h

/-- a single request never returns a name that is taken -/
theorem C18_next_free (names : List Name) (existsOnDisk : Name → Bool) (fuel : Nat)
    (name n : Name) (names' : List Name)
    (h : nextName names existsOnDisk fuel name = some (n, names')) :
    n ∉ names ∧ existsOnDisk n = false ∧ names' = n :: names := by
  obtain ⟨h1, h2⟩ := nextName_free h
  exact ⟨(taken_false h1).1, (taken_false h1).2, h2⟩

/-- **C18** (the counter loop terminates): on a disk where the existing names are a finite list
`ex`, `next_name` finds a free name after at most `|names| + |ex| + 1` candidates — for every
requested name, whatever has been handed out before. -/
theorem C18_next_name_terminates (names ex : List Name) (name : Name) :
    ∃ r, nextName names (fun x => ex.contains x) (names.length + ex.length + 1) name = some r :=
  nextName_terminates names ex name

/-! Non-vacuity: the same file name requested three times next to an existing `t.md-1`. -/
example : nextNames (fun n => n == "t.md-1".toList) 10 [] ["t.md".toList, "t.md".toList, "t.md".toList]
    = some ["t.md".toList, "t.md-2".toList, "t.md-3".toList] := by
  simp [nextNames, nextName, taken, search, withCounter]
  decide

end Scrut.Props.C18
