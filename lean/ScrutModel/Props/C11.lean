import ScrutModel.Lemmas.EscapingPrintable
/-!
# C11 — Escaping is lossless and produces printable text

For a line of output bytes `bs` (no line feed inside: what `trim_newlines` leaves of a piece of
`split_at_newline`) scrut writes `escapedExpectation mode isOther bs`: by `C11_written` this is
the text `t` itself when `written … = (.equal, t)`, and `t ++ " (escaped)"` when
`written … = (.escaped, t)`. Reading back "as that kind" is `readBack`: `EqualRule` on `t`,
resp. `EscapedRule::make` on `t` (which strips a trailing ` (no-eol)` and runs the two decoder
passes) followed by `matches`.

`isOther` stands for `char::is_other()`; unicode-mode theorems assume `AsciiContract isOther`
(on ASCII it is exactly 0x00..0x1f and 0x7f), which the harness checks on the real crate.

**Full-strength statement (FALSE today, see `C11_lossless_fails_on_witness`):**
```
theorem C11_lossless (m isOther) (hC : m = .unicode → AsciiContract isOther) (bs) (h : NoLF bs) :
    let (k, t) := written m isOther bs
    readBack k t (bs ++ [10]) = some true ∧ (k = .escaped → readBack k t bs = some true) ∧
    ∀ line, readBack k t line = some true → trimNewlines line = bs
```
It fails exactly when the escaped form is chosen and the escaped text ends in ` (no-eol)`:
`EscapedRule::make` strips that suffix (Cram compatibility) before decoding.
-/
namespace Scrut.Props.C11
open Scrut.Utf8 Scrut.Esc Scrut.EscF Scrut.Rules Scrut.EscLemmas

/-- the text scrut writes is the text of `written`, marked ` (escaped)` iff the kind is escaped -/
theorem C11_written (m : Mode) (isOther : Char → Bool) (line : List UInt8) :
    escapedExpectation m isOther line =
      match written m isOther (trimNewlines line) with
      | (.equal, t) => t
      | (.escaped, t) => t ++ marker := rfl

/-- **printable, ascii mode**: every character written is in 0x20..0x7e (any line, any bytes) -/
theorem C11_ascii_printable (isOther : Char → Bool) (line : List UInt8) :
    ∀ c ∈ escapedExpectation .ascii isOther line, 0x20 ≤ c.toNat ∧ c.toNat ≤ 0x7e :=
  ascii_printable isOther line

/-- **printable, unicode mode**: no character written is a control, format, unassigned,
private-use or surrogate code point (`is_other`) -/
theorem C11_unicode_printable (isOther : Char → Bool) (hC : AsciiContract isOther) (line : List UInt8) :
    ∀ c ∈ escapedExpectation .unicode isOther line, isOther c = false :=
  unicode_printable isOther hC line

/-- **lossless** (partial: guarded by "the escaped text does not end in ` (no-eol)`", needed only
when the escaped form is chosen): read back as the kind it is written as, the text matches the
line it was written for (with its line feed; an escaped expectation also without), and every line
it matches has exactly the content `bs`. Both modes, every byte string without line feed. -/
theorem C11_lossless_partial (m : Mode) (isOther : Char → Bool)
    (hC : m = .unicode → AsciiContract isOther) (bs : List UInt8) (h : NoLF bs)
    (hg : (written m isOther bs).1 = .escaped → endsWithNoEol (written m isOther bs).2 = false) :
    readBack (written m isOther bs).1 (written m isOther bs).2 (bs ++ [10]) = some true ∧
    ((written m isOther bs).1 = .escaped →
      readBack (written m isOther bs).1 (written m isOther bs).2 bs = some true) ∧
    ∀ line, readBack (written m isOther bs).1 (written m isOther bs).2 line = some true →
      trimNewlines line = bs :=
  lossless m isOther hC bs h hg

/-- the bytes of `x\x01 (no-eol)` (with a real 0x01) -/
def witness : List UInt8 := [120, 1, 32, 40, 110, 111, 45, 101, 111, 108, 41]

/-- an `is_other` satisfying the contract (C0, DEL and C1 controls) -/
def ctrlOnly (c : Char) : Bool := c.toNat < 0x20 || (0x7f ≤ c.toNat && c.toNat < 0xa0)

/-- **the unguarded statement is false** (known finding `C11:no-eol-suffix-stripped`): the line
`x<0x01> (no-eol)` is written `x\x01 (no-eol) (escaped)` in both modes, which reads back as the
content `x<0x01>` and does not match the line it was written for. -/
theorem C11_lossless_fails_on_witness :
    NoLF witness ∧
    written .ascii ctrlOnly witness = (.escaped, ['x', '\\', 'x', '0', '1', ' ', '(', 'n', 'o', '-', 'e', 'o', 'l', ')']) ∧
    written .unicode ctrlOnly witness = (.escaped, ['x', '\\', 'x', '0', '1', ' ', '(', 'n', 'o', '-', 'e', 'o', 'l', ')']) ∧
    readBack .escaped ['x', '\\', 'x', '0', '1', ' ', '(', 'n', 'o', '-', 'e', 'o', 'l', ')'] (witness ++ [10]) = some false ∧
    readBack .escaped ['x', '\\', 'x', '0', '1', ' ', '(', 'n', 'o', '-', 'e', 'o', 'l', ')'] [120, 1, 10] = some true := by
  decide

/-- the decoder used for `String::from_utf8` only accepts bytes that are the encoding of the text
it returns -/
theorem C11_utf8Decode_sound (bs : List UInt8) (cs : List Char) (h : utf8Decode bs = some cs) :
    utf8 cs = bs := utf8Decode_sound bs cs h

/-- … and accepts the encoding of every text: the model's `from_utf8` is exactly "valid UTF-8" -/
theorem C11_utf8Decode_complete (cs : List Char) : utf8Decode (utf8 cs) = some cs := utf8Decode_utf8 cs

/-- the ascii core: the byte-wise rendering decodes to the bytes -/
theorem C11_decode_encodeAscii (bs : List UInt8) (h : NoLF bs) : decode (encodeAscii bs) = some bs :=
  decode_encodeAscii bs h

/-! ### non-vacuity -/

/-- the contract is satisfiable -/
theorem C11_contract_satisfiable : AsciiContract ctrlOnly := by
  intro c hc
  simp only [ctrlOnly, Bool.or_eq_true, Bool.and_eq_true, decide_eq_true_eq]
  omega

/-- hypotheses of `C11_lossless_partial` hold on a line that needs the escaped form, a literal
backslash next to an escapable letter, and a non-ASCII character (`a\tb<0x01>é`) -/
example :
    NoLF [97, 92, 116, 98, 1, 0xc3, 0xa9] ∧
    written .unicode ctrlOnly [97, 92, 116, 98, 1, 0xc3, 0xa9] =
      (.escaped, ['a', '\\', '\\', 't', 'b', '\\', 'x', '0', '1', 'é']) ∧
    endsWithNoEol (written .unicode ctrlOnly [97, 92, 116, 98, 1, 0xc3, 0xa9]).2 = false ∧
    written .ascii ctrlOnly [97, 92, 116, 98, 1, 0xc3, 0xa9] =
      (.escaped, ['a', '\\', '\\', 't', 'b', '\\', 'x', '0', '1', '\\', 'x', 'c', '3', '\\', 'x', 'a', '9']) := by
  decide

/-- … and on a line written as itself -/
example : written .unicode ctrlOnly [97, 92, 116, 0xc3, 0xa9] = (.equal, ['a', '\\', 't', 'é']) := by decide

end Scrut.Props.C11
