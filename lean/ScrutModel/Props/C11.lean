import ScrutModel.Lemmas.EscapingPrintable
import ScrutModel.Lemmas.EscapingGuard
/-!
# C11 — Escaping is lossless and produces printable text

For a line of output bytes `bs` (no line feed inside: what `trim_newlines` leaves of a piece of
`split_at_newline`) scrut writes `escapedExpectation mode isOther bs`. `written mode isOther bs`
is the kind that is chosen and the rendering; `writtenText mode isOther bs` is the text that is
written for it: the rendering itself for the kind `equal`, and for the kind `escaped` the
rendering after `guard_tailing_no_eol` (a tailing ` (no-eol)` gets its blank written `\x20`),
which is then followed by ` (escaped)` (`C11_written`). Reading back "as that kind" is `readBack`:
`EqualRule` on the text, resp. `EscapedRule::make` on the text (which strips a trailing
` (no-eol)` and runs the two decoder passes) followed by `matches`.

`isOther` stands for `char::is_other()`; unicode-mode theorems assume `AsciiContract isOther`
(on ASCII it is exactly 0x00..0x1f and 0x7f), which the harness checks on the real crate.

History: before fix c1bf05c the escaped text was written without the guard and content such as
`x<0x01> (no-eol)` did not read back (former finding `C11:no-eol-suffix-stripped`);
`C11_regression_no_eol` is that witness, now positive, and `C11_unguarded_text_would_fail` records
why the guard is needed.
-/
namespace Scrut.Props.C11
open Scrut.Utf8 Scrut.Esc Scrut.EscF Scrut.Rules Scrut.EscLemmas

/-- the text scrut writes is `writtenText`, marked ` (escaped)` iff the kind is escaped -/
theorem C11_written (m : Mode) (isOther : Char → Bool) (line : List UInt8) :
    escapedExpectation m isOther line =
      match (written m isOther (trimNewlines line)).1 with
      | .equal => writtenText m isOther (trimNewlines line)
      | .escaped => writtenText m isOther (trimNewlines line) ++ marker :=
  escapedExpectation_eq m isOther line

/-- the escaped text never ends in ` (no-eol)`: `EscapedRule::make` strips nothing from it -/
theorem C11_no_eol_guarded (m : Mode) (isOther : Char → Bool) (bs : List UInt8)
    (h : (written m isOther bs).1 = .escaped) : endsWithNoEol (writtenText m isOther bs) = false := by
  rw [writtenText_escaped h]; exact endsWithNoEol_guard _

/-- **printable, ascii mode**: every character written is in 0x20..0x7e (any line, any bytes) -/
theorem C11_ascii_printable (isOther : Char → Bool) (line : List UInt8) :
    ∀ c ∈ escapedExpectation .ascii isOther line, 0x20 ≤ c.toNat ∧ c.toNat ≤ 0x7e :=
  ascii_printable isOther line

/-- **printable, unicode mode**: no character written is a control, format, unassigned,
private-use or surrogate code point (`is_other`) -/
theorem C11_unicode_printable (isOther : Char → Bool) (hC : AsciiContract isOther) (line : List UInt8) :
    ∀ c ∈ escapedExpectation .unicode isOther line, isOther c = false :=
  unicode_printable isOther hC line

/-- **lossless** (full strength: both modes, every byte string without line feed, no guard):
read back as the kind it is written as, the written text matches the line it was written for
(with its line feed; an escaped expectation also without), and every line it matches has exactly
the content `bs`. -/
theorem C11_lossless (m : Mode) (isOther : Char → Bool)
    (hC : m = .unicode → AsciiContract isOther) (bs : List UInt8) (h : NoLF bs) :
    readBack (written m isOther bs).1 (writtenText m isOther bs) (bs ++ [10]) = some true ∧
    ((written m isOther bs).1 = .escaped →
      readBack (written m isOther bs).1 (writtenText m isOther bs) bs = some true) ∧
    ∀ line, readBack (written m isOther bs).1 (writtenText m isOther bs) line = some true →
      trimNewlines line = bs :=
  lossless_full m isOther hC bs h

/-- the bytes of `x\x01 (no-eol)` (with a real 0x01) -/
def witness : List UInt8 := [120, 1, 32, 40, 110, 111, 45, 101, 111, 108, 41]

/-- an `is_other` satisfying the contract (C0, DEL and C1 controls) -/
def ctrlOnly (c : Char) : Bool := c.toNat < 0x20 || (0x7f ≤ c.toNat && c.toNat < 0xa0)

/-- **regression example** (the witness of the former finding `C11:no-eol-suffix-stripped`): the
line `x<0x01> (no-eol)` is written `x\x01\x20(no-eol) (escaped)` in both modes, which matches the
line and does not match the content `x<0x01>`. -/
theorem C11_regression_no_eol :
    NoLF witness ∧
    (written .ascii ctrlOnly witness).1 = .escaped ∧ (written .unicode ctrlOnly witness).1 = .escaped ∧
    writtenText .ascii ctrlOnly witness = ['x', '\\', 'x', '0', '1', '\\', 'x', '2', '0', '(', 'n', 'o', '-', 'e', 'o', 'l', ')'] ∧
    writtenText .unicode ctrlOnly witness = ['x', '\\', 'x', '0', '1', '\\', 'x', '2', '0', '(', 'n', 'o', '-', 'e', 'o', 'l', ')'] ∧
    readBack .escaped (writtenText .ascii ctrlOnly witness) (witness ++ [10]) = some true ∧
    readBack .escaped (writtenText .ascii ctrlOnly witness) witness = some true ∧
    readBack .escaped (writtenText .ascii ctrlOnly witness) [120, 1, 10] = some false := by
  decide

/-- why the guard is needed: the unguarded rendering `x\x01 (no-eol)`, read as an escaped
expectation, does not match the line it stands for (it matches `x<0x01>`) -/
theorem C11_unguarded_text_would_fail :
    (written .ascii ctrlOnly witness).2 = ['x', '\\', 'x', '0', '1', ' ', '(', 'n', 'o', '-', 'e', 'o', 'l', ')'] ∧
    readBack .escaped (written .ascii ctrlOnly witness).2 (witness ++ [10]) = some false ∧
    readBack .escaped (written .ascii ctrlOnly witness).2 [120, 1, 10] = some true := by
  decide

/-- the decoder used for `String::from_utf8` only accepts bytes that are the encoding of the text
it returns -/
theorem C11_utf8Decode_sound (bs : List UInt8) (cs : List Char) (h : utf8Decode bs = some cs) :
    utf8 cs = bs := utf8Decode_sound bs cs h

/-- … and accepts the encoding of every text: the model's `from_utf8` is exactly "valid UTF-8" -/
theorem C11_utf8Decode_complete (cs : List Char) : utf8Decode (utf8 cs) = some cs := utf8Decode_utf8 cs

/-- the ascii core: the byte-wise rendering decodes to the bytes -/
theorem C11_decode_encodeAscii (bs : List UInt8) (h : NoLF bs) : decode (encodeAscii bs) = some bs :=
  decode_encodeAscii bs h

/-! ### non-vacuity -/

/-- the contract is satisfiable -/
theorem C11_contract_satisfiable : AsciiContract ctrlOnly := by
  intro c hc
  simp only [ctrlOnly, Bool.or_eq_true, Bool.and_eq_true, decide_eq_true_eq]
  omega

/-- hypotheses of `C11_lossless` hold on a line that needs the escaped form, a literal
backslash next to an escapable letter, and a non-ASCII character (`a\tb<0x01>é`) -/
example :
    NoLF [97, 92, 116, 98, 1, 0xc3, 0xa9] ∧
    written .unicode ctrlOnly [97, 92, 116, 98, 1, 0xc3, 0xa9] =
      (.escaped, ['a', '\\', '\\', 't', 'b', '\\', 'x', '0', '1', 'é']) ∧
    writtenText .unicode ctrlOnly [97, 92, 116, 98, 1, 0xc3, 0xa9] =
      ['a', '\\', '\\', 't', 'b', '\\', 'x', '0', '1', 'é'] ∧
    written .ascii ctrlOnly [97, 92, 116, 98, 1, 0xc3, 0xa9] =
      (.escaped, ['a', '\\', '\\', 't', 'b', '\\', 'x', '0', '1', '\\', 'x', 'c', '3', '\\', 'x', 'a', '9']) := by
  decide

/-- … and on a line written as itself -/
example : written .unicode ctrlOnly [97, 92, 116, 0xc3, 0xa9] = (.equal, ['a', '\\', 't', 'é']) := by decide

end Scrut.Props.C11
