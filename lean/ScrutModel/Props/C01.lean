import ScrutModel.Lemmas.DiffC03iff
import ScrutModel.Lemmas.TestRunProps
/-!
# C01 — No false pass

Model: `Scrut.Diff.diff n m es mt` is the transliteration of `DiffTool::diff` (src/diff.rs) over
`n` expectations with quantifier flags `es i` and `m` output lines, where `mt i j` says whether
expectation `i` matches line `j` (any rule implementation). `hasDiff` is `Diff::has_differences`.

Statement: a result without differences yields an assignment `a` of the `m` lines to expectations
(`a[j]` = expectation of line `j`): total (no gaps), in order, every line matches its expectation,
every non-optional expectation receives at least one line, every non-multiline one at most one.
This file contains only property statements and non-vacuity examples.

The second half (`C01_integrated_…`, `C01_document_…`) states the property about the INTEGRATED
model of `scrut test` (`Model/TestRun.lean`, tied to the binary by `e2e-testdoc`): the match table is
no longer abstract, it is `Rule.matches` of the COMPILED expectations of the document's test on the
lines (`split_at_newline`) of the recorded stream.
-/
namespace Scrut.Props.C01
open Scrut.Diff

/-- **C01**: a reported match implies membership in `e1{q1} … en{qn}`. -/
theorem C01_no_false_pass (n m : Nat) (es : Nat → Exp) (mt : Nat → Nat → Bool)
    (h : hasDiff (diff n m es mt) = false) : ∃ a, Assignment n m es mt a :=
  Scrut.Diff.C01_no_false_pass n m es mt h

/-- The assignment spelled out (so the statement can be read without opening the structure). -/
theorem C01_spelled_out (n m : Nat) (es : Nat → Exp) (mt : Nat → Nat → Bool)
    (h : hasDiff (diff n m es mt) = false) :
    ∃ a : List Nat, a.length = m ∧ a.Pairwise (· ≤ ·) ∧ (∀ i ∈ a, i < n) ∧
      (∀ j (hj : j < a.length), mt a[j] j = true) ∧
      (∀ i, i < n → (es i).optional = false → i ∈ a) ∧
      (∀ i, i < n → (es i).multiline = false → a.count i ≤ 1) := by
  obtain ⟨a, ha⟩ := Scrut.Diff.C01_no_false_pass n m es mt h
  exact ⟨a, ha.total, ha.inOrder, ha.inRange, ha.isMatch, ha.atLeast, ha.atMost⟩

/-- `hasDiff` is exactly "some entry is not a matched expectation" (`Diff::has_differences`). -/
theorem hasDiff_false_iff (d : List DL) : hasDiff d = false ↔ ∀ x ∈ d, ∃ i ls, x = .matched i ls :=
  Scrut.Diff.hasDiff_false_iff d

/-! Non-vacuity: the hypothesis is met by a run with a multiline expectation (`+`) followed by a
plain one on three lines; the conclusion is then the assignment `[0, 0, 1]`. -/
def exEs : Nat → Exp := fun i => if i = 0 then ⟨false, true⟩ else ⟨false, false⟩
def exMt : Nat → Nat → Bool := fun i j => (i = 0 && j < 2) || (i = 1 && j = 2)

example : diff 2 3 exEs exMt = [.matched 0 [0, 1], .matched 1 [2]] := by
  simp [diff, loop, exEs, exMt, rangeFrom, unmatchedOf, List.range, List.range.loop]
example : hasDiff (diff 2 3 exEs exMt) = false := by
  simp [diff, loop, exEs, exMt, rangeFrom, unmatchedOf, List.range, List.range.loop, hasDiff]

/-! ## through the composition: `scrut test` on one document (`Model/TestRun.lean`) -/

section Integrated
open Scrut.TestRun

/-- **C01, integrated**: if the compiled expectations accept a stream (`!diff.has_differences()`),
there is an assignment `a` of the lines of the stream to the expectations -- `Matched`: every line
is assigned (no gaps), in order, to an expectation whose RULE matches the line
(`e.rule.matches l = some true`), every non-optional expectation receives a line, every
non-multiline one at most one. -/
theorem C01_integrated_accepts_sound {exps : List CExp} {stream : Bytes}
    (h : accepts exps stream = some true) :
    ∃ a, Matched exps (Scrut.Newline.splitAtNewline stream) a :=
  accepts_sound h

/-- `Matched` spelled out -/
theorem C01_matched_spelled_out {exps : List CExp} {lines : List Bytes} {a : List Nat}
    (h : Matched exps lines a) :
    a.length = lines.length ∧ a.Pairwise (· ≤ ·) ∧
    (∀ (j i : Nat) (l : Bytes), a[j]? = some i → lines[j]? = some l →
      ∃ e : CExp, exps[i]? = some e ∧ e.rule.matches l = some true) ∧
    (∀ (i : Nat) (e : CExp), exps[i]? = some e → e.optional = false → i ∈ a) ∧
    (∀ (i : Nat) (e : CExp), exps[i]? = some e → e.multiline = false → a.count i ≤ 1) :=
  ⟨h.total, h.inOrder, h.isMatch, h.atLeast, h.atMost⟩

/-- **C01 + C05, integrated**: behind every `success` that `scrut test` reports for test `i` there
is such an assignment of the lines of the stream the test selects to the test's expectations (and
the expected exit code). -/
theorem C01_integrated_success_matched {tests : List Test} {runs : List Ran}
    {outcomes : List Scrut.Exec.Outcome} {status i : Nat}
    (h : runTests tests runs = .report outcomes status)
    (hi : (i, Scrut.Exec.Verdict.ok) ∈ outcomes) :
    ∃ (t : Test) (r : Ran) (s : Bytes) (a : List Nat), tests[i]? = some t ∧ runs[i]? = some r ∧
      r.code = t.expected.getD 0 ∧ selectedStream t r = some s ∧
      Matched t.exps (Scrut.Newline.splitAtNewline s) a :=
  runTests_ok_matched h hi

/-- **C01 + C05 from the bytes of the document** -/
theorem C01_document_success_matched {bytes : Bytes} {runs : List Ran}
    {outcomes : List Scrut.Exec.Outcome} {status i : Nat}
    (h : testDocumentBytes bytes runs = .report outcomes status)
    (hi : (i, Scrut.Exec.Verdict.ok) ∈ outcomes) :
    ∃ (tests : List Test) (t : Test) (r : Ran) (s : Bytes) (a : List Nat), DocTests bytes tests ∧
      tests[i]? = some t ∧ runs[i]? = some r ∧ r.code = t.expected.getD 0 ∧
      selectedStream t r = some s ∧ Matched t.exps (Scrut.Newline.splitAtNewline s) a :=
  testDocumentBytes_ok_matched h hi

/-! Non-vacuity (kernel evaluation): a glob and an optional `equal` expectation accept `bb\n`; the
document `exBytes`, whose second test carries these expectations, is reported `success` twice. -/
example : accepts [⟨.glob ['b', '*'], false, false⟩, ⟨.equal [99], true, false⟩] [98, 98, 10] = some true :=
  ex_accepts
example : testDocumentBytes exBytes exRuns = .report [(0, .ok), (1, .ok)] 0 := ex_report

end Integrated

end Scrut.Props.C01
