import ScrutModel.Lemmas.DiffC03iff
/-!
# C01 — No false pass

Model: `Scrut.Diff.diff n m es mt` is the transliteration of `DiffTool::diff` (src/diff.rs) over
`n` expectations with quantifier flags `es i` and `m` output lines, where `mt i j` says whether
expectation `i` matches line `j` (any rule implementation). `hasDiff` is `Diff::has_differences`.

Statement: a result without differences yields an assignment `a` of the `m` lines to expectations
(`a[j]` = expectation of line `j`): total (no gaps), in order, every line matches its expectation,
every non-optional expectation receives at least one line, every non-multiline one at most one.
This file contains only property statements and non-vacuity examples.
-/
namespace Scrut.Props.C01
open Scrut.Diff

/-- **C01**: a reported match implies membership in `e1{q1} … en{qn}`. -/
theorem C01_no_false_pass (n m : Nat) (es : Nat → Exp) (mt : Nat → Nat → Bool)
    (h : hasDiff (diff n m es mt) = false) : ∃ a, Assignment n m es mt a :=
  Scrut.Diff.C01_no_false_pass n m es mt h

/-- The assignment spelled out (so the statement can be read without opening the structure). -/
theorem C01_spelled_out (n m : Nat) (es : Nat → Exp) (mt : Nat → Nat → Bool)
    (h : hasDiff (diff n m es mt) = false) :
    ∃ a : List Nat, a.length = m ∧ a.Pairwise (· ≤ ·) ∧ (∀ i ∈ a, i < n) ∧
      (∀ j (hj : j < a.length), mt a[j] j = true) ∧
      (∀ i, i < n → (es i).optional = false → i ∈ a) ∧
      (∀ i, i < n → (es i).multiline = false → a.count i ≤ 1) := by
  obtain ⟨a, ha⟩ := Scrut.Diff.C01_no_false_pass n m es mt h
  exact ⟨a, ha.total, ha.inOrder, ha.inRange, ha.isMatch, ha.atLeast, ha.atMost⟩

/-- `hasDiff` is exactly "some entry is not a matched expectation" (`Diff::has_differences`). -/
theorem hasDiff_false_iff (d : List DL) : hasDiff d = false ↔ ∀ x ∈ d, ∃ i ls, x = .matched i ls :=
  Scrut.Diff.hasDiff_false_iff d

/-! Non-vacuity: the hypothesis is met by a run with a multiline expectation (`+`) followed by a
plain one on three lines; the conclusion is then the assignment `[0, 0, 1]`. -/
def exEs : Nat → Exp := fun i => if i = 0 then ⟨false, true⟩ else ⟨false, false⟩
def exMt : Nat → Nat → Bool := fun i j => (i = 0 && j < 2) || (i = 1 && j = 2)

example : diff 2 3 exEs exMt = [.matched 0 [0, 1], .matched 1 [2]] := by
  simp [diff, loop, exEs, exMt, rangeFrom, unmatchedOf, List.range, List.range.loop]
example : hasDiff (diff 2 3 exEs exMt) = false := by
  simp [diff, loop, exEs, exMt, rangeFrom, unmatchedOf, List.range, List.range.loop, hasDiff]

end Scrut.Props.C01
