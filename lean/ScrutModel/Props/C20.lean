import ScrutModel.Lemmas.Exec
/-!
# C20 — Every test runs once, in order; exit status 0 / 50 / 1

The runner is called once per test case, for indices `0, 1, 2, …` in this order (the recorded
`limits` list has one entry per call). `runDocument` yields the reported outcomes.
-/
namespace Scrut.Props.C20
open Scrut.Exec

/-- the test cases of a document run: prepend documents, own, append documents -/
def assemble (prepend own append : List TC) : List TC := prepend ++ own ++ append

/-- **C20** (once, in order): the runner is called for a prefix `0 … k-1` of the test cases, each
index exactly once, in order; and for all of them when the execution ends regularly without an
aborted (`unknown`) execution. -/
theorem C20_calls (total : Option Nat) (runner : Runner) (tcs : List TC) :
    (execAll total runner tcs).2.length ≤ tcs.length ∧
    (∀ outs, (execAll total runner tcs).1 = .ok outs → outs.length = tcs.length) ∧
    (∀ outs, (execAll total runner tcs).1 = .ok outs → (∀ o ∈ outs, o.status ≠ .unknown) →
        (execAll total runner tcs).2.length = tcs.length) :=
  Scrut.Exec.calls_spec total runner tcs

/-- **C20** (results): at most one result per test case, in test order, only for existing test
cases; exactly one for every test case whose execution was not detached. -/
theorem C20_one_result (total : Option Nat) (runner : Runner) (tcs : List TC) :
    let r := (execAll total runner tcs).1
    ((runDocument tcs r).map (·.1)).Pairwise (· < ·) ∧
    (∀ o ∈ runDocument tcs r, o.1 < tcs.length) ∧
    (∀ outs, r = .ok outs → ∀ i, i < tcs.length →
        ((∃ v, (i, v) ∈ runDocument tcs r) ↔ ∃ o, outs[i]? = some o ∧ o.status ≠ .detached)) :=
  Scrut.Exec.one_result total runner tcs

/-- **C20** (exit status): 1 iff some document could not be processed, otherwise 50 iff some test
case failed validation or timed out, otherwise 0. -/
theorem C20_exit_status (docs : List (Option (List Outcome))) :
    (exitStatus docs = 1 ↔ ∃ d ∈ docs, d = none) ∧
    (exitStatus docs = 50 ↔ (∀ d ∈ docs, d ≠ none) ∧ ∃ d ∈ docs, ∃ os, d = some os ∧ ∃ o ∈ os, isFailure o.2 = true) ∧
    (exitStatus docs = 0 ↔ (∀ d ∈ docs, d ≠ none) ∧ ∀ d ∈ docs, ∀ os, d = some os → ∀ o ∈ os, isFailure o.2 = false) ∧
    (exitStatus docs = 0 ∨ exitStatus docs = 50 ∨ exitStatus docs = 1) :=
  Scrut.Exec.exitStatus_spec docs

/-- what counts as a failure: everything but success and skipped (wrong output, wrong exit code,
timeout, aborted execution) -/
theorem C20_failure_kinds (v : Verdict) : isFailure v = true ↔ v ≠ .ok ∧ v ≠ .skipped :=
  Scrut.Exec.isFailure_iff v

/-- prepend / own / append order -/
theorem C20_assemble (p o a : List TC) (i : Nat) :
    (assemble p o a)[i]? =
      if i < p.length then p[i]? else if i < p.length + o.length then o[i - p.length]?
      else a[i - p.length - o.length]? := by
  unfold assemble
  by_cases h1 : i < p.length
  · simp [h1, List.getElem?_append_left, Nat.lt_of_lt_of_le h1 (Nat.le_add_right _ _)]
  · by_cases h2 : i < p.length + o.length
    · simp [h1, h2, List.getElem?_append_left, List.getElem?_append_right (Nat.le_of_not_lt h1)]
    · have : p.length + o.length ≤ i := Nat.le_of_not_lt h2
      simp [h1, h2, List.getElem?_append_right, this, Nat.sub_sub]

/-! Non-vacuity -/
example : exitStatus [some [(0, .ok)], some [(0, .ok), (1, .malformed)]] = 50 := by decide
example : exitStatus [some [(0, .ok)], none] = 1 := by decide
example : exitStatus [some [(0, .ok), (1, .skipped)]] = 0 := by decide

end Scrut.Props.C20
