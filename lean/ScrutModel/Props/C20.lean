import ScrutModel.Lemmas.Exec
import ScrutModel.Lemmas.TestRunProps
/-!
# C20 — Every test runs once, in order; exit status 0 / 50 / 1

The runner is called once per test case, for indices `0, 1, 2, …` in this order (the recorded
`limits` list has one entry per call). `runDocument` yields the reported outcomes.

The second half (`C20_integrated_…`, `C20_document_…`, `C20_script_…`) states the property about the
INTEGRATED model of `scrut test` (`Model/TestRun.lean`: bytes of the document → parser →
configuration → rules → executor → validation → exit status), which the correspondence streams
`e2e-testdoc`, `e2e-testcram`, `e2e-testdoc-cram-compat` tie to the binary: for every document and
every list of completed runs.
-/
namespace Scrut.Props.C20
open Scrut.Exec

/-- the test cases of a document run: prepend documents, own, append documents -/
def assemble (prepend own append : List TC) : List TC := prepend ++ own ++ append

/-- **C20** (once, in order): the runner is called for a prefix `0 … k-1` of the test cases, each
index exactly once, in order; and for all of them when the execution ends regularly without an
aborted (`unknown`) execution. -/
theorem C20_calls (total : Option Nat) (runner : Runner) (tcs : List TC) :
    (execAll total runner tcs).2.length ≤ tcs.length ∧
    (∀ outs, (execAll total runner tcs).1 = .ok outs → outs.length = tcs.length) ∧
    (∀ outs, (execAll total runner tcs).1 = .ok outs → (∀ o ∈ outs, o.status ≠ .unknown) →
        (execAll total runner tcs).2.length = tcs.length) :=
  Scrut.Exec.calls_spec total runner tcs

/-- **C20** (results): at most one result per test case, in test order, only for existing test
cases; exactly one for every test case whose execution was not detached. -/
theorem C20_one_result (total : Option Nat) (runner : Runner) (tcs : List TC) :
    let r := (execAll total runner tcs).1
    ((runDocument tcs r).map (·.1)).Pairwise (· < ·) ∧
    (∀ o ∈ runDocument tcs r, o.1 < tcs.length) ∧
    (∀ outs, r = .ok outs → ∀ i, i < tcs.length →
        ((∃ v, (i, v) ∈ runDocument tcs r) ↔ ∃ o, outs[i]? = some o ∧ o.status ≠ .detached)) :=
  Scrut.Exec.one_result total runner tcs

/-- **C20** (exit status): 1 iff some document could not be processed, otherwise 50 iff some test
case failed validation or timed out, otherwise 0. -/
theorem C20_exit_status (docs : List (Option (List Outcome))) :
    (exitStatus docs = 1 ↔ ∃ d ∈ docs, d = none) ∧
    (exitStatus docs = 50 ↔ (∀ d ∈ docs, d ≠ none) ∧ ∃ d ∈ docs, ∃ os, d = some os ∧ ∃ o ∈ os, isFailure o.2 = true) ∧
    (exitStatus docs = 0 ↔ (∀ d ∈ docs, d ≠ none) ∧ ∀ d ∈ docs, ∀ os, d = some os → ∀ o ∈ os, isFailure o.2 = false) ∧
    (exitStatus docs = 0 ∨ exitStatus docs = 50 ∨ exitStatus docs = 1) :=
  Scrut.Exec.exitStatus_spec docs

/-- what counts as a failure: everything but success and skipped (wrong output, wrong exit code,
timeout, aborted execution) -/
theorem C20_failure_kinds (v : Verdict) : isFailure v = true ↔ v ≠ .ok ∧ v ≠ .skipped :=
  Scrut.Exec.isFailure_iff v

/-- prepend / own / append order -/
theorem C20_assemble (p o a : List TC) (i : Nat) :
    (assemble p o a)[i]? =
      if i < p.length then p[i]? else if i < p.length + o.length then o[i - p.length]?
      else a[i - p.length - o.length]? := by
  unfold assemble
  by_cases h1 : i < p.length
  · simp [h1, List.getElem?_append_left, Nat.lt_of_lt_of_le h1 (Nat.le_add_right _ _)]
  · by_cases h2 : i < p.length + o.length
    · simp [h1, h2, List.getElem?_append_left, List.getElem?_append_right (Nat.le_of_not_lt h1)]
    · have : p.length + o.length ≤ i := Nat.le_of_not_lt h2
      simp [h1, h2, List.getElem?_append_right, this, Nat.sub_sub]

/-! Non-vacuity -/
example : exitStatus [some [(0, .ok)], some [(0, .ok), (1, .malformed)]] = 50 := by decide
example : exitStatus [some [(0, .ok)], none] = 1 := by decide
example : exitStatus [some [(0, .ok), (1, .skipped)]] = 0 := by decide

/-! ## through the composition: `scrut test` on one document (`Model/TestRun.lean`) -/

section Integrated
open Scrut.TestRun

/-- **C20, integrated** (`runTests`: the prepared tests of a document and the completed runs of
their commands): every test case gets exactly one result, in document order (in the covered
fragment no test is detached); the exit status is 50 iff some verdict is a failure, 0 iff none is,
never 1. -/
theorem C20_integrated_one_result {tests : List Test} {runs : List Ran} {outcomes : List Outcome}
    {status : Nat} (h : runTests tests runs = .report outcomes status) :
    outcomes.map (·.1) = List.range tests.length ∧
    (status = 50 ↔ ∃ o ∈ outcomes, isFailure o.2 = true) ∧
    (status = 0 ↔ ∀ o ∈ outcomes, isFailure o.2 = false) ∧
    status ≠ 1 :=
  runTests_one_result h

/-- **C20, integrated, from the bytes of the document**: a report has one result per test case of
the PARSED document, in document order, and the exit status 0 / 50 of its verdicts. -/
theorem C20_document_one_result {bytes : Bytes} {runs : List Ran} {outcomes : List Outcome}
    {status : Nat} (h : testDocumentBytes bytes runs = .report outcomes status) :
    ∃ text p tests, readFile bytes = .ok text ∧ Markdown.parseMarkdown parseEnv text = .ok p ∧
      p.tests.mapM prepare = .ok tests ∧
      outcomes.map (·.1) = List.range p.tests.length ∧
      (status = 50 ↔ ∃ o ∈ outcomes, isFailure o.2 = true) ∧
      (status = 0 ↔ ∀ o ∈ outcomes, isFailure o.2 = false) ∧
      status ≠ 1 :=
  testDocumentBytes_one_result h

/-- … and from the text of the document (`testDocument`, behind `read_file`) -/
theorem C20_text_one_result {text : List Char} {runs : List Ran} {outcomes : List Outcome}
    {status : Nat} (h : testDocument text runs = .report outcomes status) :
    ∃ p tests, Markdown.parseMarkdown parseEnv text = .ok p ∧ p.tests.mapM prepare = .ok tests ∧
      outcomes.map (·.1) = List.range p.tests.length ∧
      (status = 50 ↔ ∃ o ∈ outcomes, isFailure o.2 = true) ∧
      (status = 0 ↔ ∀ o ∈ outcomes, isFailure o.2 = false) ∧
      status ≠ 1 :=
  testDocument_one_result h

/-- **the lifting**: the report on the bytes of a document is the report of `runTests` on the
document's prepared tests (`DocTests bytes tests`: readable, parsed, harmless front-matter, every
test case inside the composition) -/
theorem C20_document_report_iff (bytes : Bytes) (runs : List Ran) (outcomes : List Outcome)
    (status : Nat) :
    testDocumentBytes bytes runs = .report outcomes status ↔
      ∃ tests, DocTests bytes tests ∧ runTests tests runs = .report outcomes status :=
  testDocumentBytes_report_iff bytes runs outcomes status

/-- **which result on which path** (`runTests`): too few runs are `missingRun`; otherwise there IS a
report -- the composition is total on prepared tests: no crash, never `unsupported` (every rule
decides every line: the lossy decoder never runs out of fuel, `render_output` never panics) -/
theorem C20_integrated_result_kinds (tests : List Test) (runs : List Ran) :
    (runs.length < tests.length → runTests tests runs = .missingRun) ∧
    (tests.length ≤ runs.length → ∃ outcomes status, runTests tests runs = .report outcomes status) :=
  runTests_kinds tests runs

/-- **which result on which path** (document): `parseError` (exit status 1, nothing reported)
exactly when the bytes are not UTF-8 after CR LF → LF or the Markdown parser rejects the text; such
a document never yields a report -/
theorem C20_document_parse_error_iff (bytes : Bytes) (runs : List Ran) :
    testDocumentBytes bytes runs = .parseError ↔
      readFile bytes = .error .notUtf8 ∨
      ∃ text e, readFile bytes = .ok text ∧ Markdown.parseMarkdown parseEnv text = .error e :=
  testDocumentBytes_parseError_iff bytes runs

/-- **`scrut test` on one document in closed form**: given a run for every test the report is
`expectedOutcomes` (every test `skipped` if some test ended with its skip code, otherwise test `i`
with `verdict tests[i] runs[i]`) and the exit status of these verdicts -/
theorem C20_document_closed_form {bytes : Bytes} {tests : List Test} (runs : List Ran)
    (hd : DocTests bytes tests) (hlen : tests.length ≤ runs.length) :
    testDocumentBytes bytes runs = .report (expectedOutcomes tests runs)
      (if (expectedOutcomes tests runs).any (fun o => isFailure o.2) then 50 else 0) :=
  testDocumentBytes_eq runs hd hlen

/-- … the same for `runTests` -/
theorem C20_integrated_closed_form (tests : List Test) (runs : List Ran)
    (hlen : tests.length ≤ runs.length) :
    runTests tests runs = .report (expectedOutcomes tests runs)
      (if (expectedOutcomes tests runs).any (fun o => isFailure o.2) then 50 else 0) :=
  runTests_eq tests runs hlen

/-- **C20, single-script executor** (`runScript`: Cram documents and `--cram-compat`): one result
per test case, in document order; exit status 0 / 50 -/
theorem C20_script_one_result {tests : List Test} {runs : List SRan} {outcomes : List Outcome}
    {status : Nat} (h : runScript tests runs = .report outcomes status) :
    outcomes.map (·.1) = List.range tests.length ∧
    (status = 50 ↔ ∃ o ∈ outcomes, isFailure o.2 = true) ∧
    (status = 0 ↔ ∀ o ∈ outcomes, isFailure o.2 = false) ∧
    status ≠ 1 :=
  runScript_one_result h

/-- … from the bytes of a Cram document -/
theorem C20_cram_document_one_result {bytes : Bytes} {runs : List SRan} {outcomes : List Outcome}
    {status : Nat} (h : testCramDocumentBytes bytes runs = .report outcomes status) :
    ∃ text pre ts, readFile bytes = .ok text ∧ Cram.parseCram expOk 2 text = .ok (pre, ts) ∧
      outcomes.map (·.1) = List.range ts.length ∧
      (status = 50 ↔ ∃ o ∈ outcomes, isFailure o.2 = true) ∧
      (status = 0 ↔ ∀ o ∈ outcomes, isFailure o.2 = false) ∧
      status ≠ 1 :=
  testCramDocumentBytes_one_result h

/-- … from the bytes of a Markdown document under `--cram-compat` -/
theorem C20_compat_document_one_result {bytes : Bytes} {runs : List SRan}
    {outcomes : List Outcome} {status : Nat}
    (h : testDocumentCompatBytes bytes runs = .report outcomes status) :
    ∃ text p, readFile bytes = .ok text ∧ Markdown.parseMarkdown parseEnv text = .ok p ∧
      outcomes.map (·.1) = List.range p.tests.length ∧
      (status = 50 ↔ ∃ o ∈ outcomes, isFailure o.2 = true) ∧
      (status = 0 ↔ ∀ o ∈ outcomes, isFailure o.2 = false) ∧
      status ≠ 1 :=
  testDocumentCompatBytes_one_result h

/-! Non-vacuity, evaluated by the kernel from the BYTES of a document with two test cases (`exBytes`:
one `equal` expectation on stdout; `{output_stream: stderr}`, a glob and an optional expectation,
`[3]`): all pass / the second one's output is wrong / the bytes are not UTF-8 / the parser rejects
the text; `exTests` are its prepared tests. -/
example : testDocumentBytes exBytes exRuns = .report [(0, .ok), (1, .ok)] 0 := ex_report
example : testDocumentBytes exBytes exRunsBad = .report [(0, .ok), (1, .malformed)] 50 := ex_report_bad
example : DocTests exBytes exTests := ex_docTests
example : runTests exTests exRuns = .report [(0, .ok), (1, .ok)] 0 := ex_runTests
example : testDocumentBytes [0x23, 0xff] [] = .parseError := ex_not_utf8
example : testDocumentBytes (Utf8.utf8 "```scrut\nfoo\n```\n".toList) [] = .parseError := ex_parse_error
/-- a Cram document with two test cases, the second ends with 0 instead of 1; a Markdown document
under `--cram-compat` -/
example : testCramDocumentBytes exCramBytes exCramRuns = .report [(0, .ok), (1, .invalidExit 0 1)] 50 :=
  ex_cram_report
example : testDocumentCompatBytes (Utf8.utf8 "# t\n\n```scrut\n$ echo a\na\n```\n".toList)
    [⟨⟨[97, 10], [], 0⟩, false⟩] = .report [(0, .ok)] 0 := ex_compat_report

end Integrated

end Scrut.Props.C20
