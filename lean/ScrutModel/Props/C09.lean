import ScrutModel.Lemmas.GenerateCram
import ScrutModel.Props.C11
/-!
# C09 — Generated tests pass against the very output they were generated from

Model: `Scrut.Gen` (`Model/Generate.lean`): `generate_expectation_line` (`expectationLine`, on top
of the escaper model of C11), `looks_like_modifier_or_exit_code`, `generate_testcase` for the
outcome that `scrut create` builds (`createResult`, `generateTestcase`), the Markdown and Cram
wrappers (`markdownDoc`, `cramDoc`). The model is the code after fix 9b34612 (the ` (no-eol)
(escaped)` → `\x20(no-eol) (escaped)` rewrite is the last step).

What is proved, for `create`, is the composition through the component models:
output → lines (`split_at_newline`, Newline model) → one generated text per line
(`expectationLine`) → classified as an expectation by the line parser (LineParser model, C06/C07)
→ parsed by the grammar (Grammar model, C08) with the rule constructors of the string kinds
(RulesStr / EscapedFilter models, C04/C11) → matched against the output's lines by the matcher
(Diff model, C01–C03) → exit-code gate and verdict (`validate`, Exec model).
The last hop through the document parser is proved for Markdown (`C09_create_markdown_end_to_end`):
the document `create` prints is `str::lines()`-split into the rendering of one well-formed block
of C06's grammar (fence of `max_backtick_size + 1` backticks recognised with language and inline
configuration, no generated line closes the block or ends in a carriage return, the first line after
the command is no continuation, `[code]` is the only exit code line), so `MarkdownParser::parse`
(Markdown model, C06) returns exactly one test with the same command lines, the generated texts as
expectations and the exit code. Not proved in Lean for Cram (left to the correspondence of `create …
= real document` on every case and to the end-to-end oracle real generator → real parser → real
`validate`): nothing of the `create` chain any more — the Cram hop is `C09_create_cram_end_to_end`
(the document is the rendering of one test of C07's grammar, `cram_indented` puts every generated
line behind two blanks, no generated character is a carriage return or line feed:
`C09_line_printable`).

Parameters: `isOther` = `char::is_other()` (unicode-mode statements assume `AsciiContract`, as in
C11); `P : Grammar.Params` with `StdParams P`: `\s` is Unicode white space and the `escaped`
constructor is `apply_escaped_filter_bytes` behind the ` (no-eol)` strip that `Grammar.makeRule` does
itself, i.e. `EscapedRule::make` (`stdParams` is such a `P` for any glob/regex constructors).
The model is the code after fix c1bf05c: the escaper itself writes `\x20(no-eol)` for content
ending in ` (no-eol)` (`Esc.guardTailingNoEol`); the generator's own rewrite remains for the
first-character escape of printable lines (`$ foo (no-eol)`).

**`update`: the full-strength statement is FALSE today** (open finding
`C09:update-retained-quantified-expectations`):
```
theorem C09_update (doc) (outputs) : for every test k of doc that fails on outputs[k], the block that
    `generate_update doc outcomes` writes for k parses to a test with the same shell expression
    that validates against outputs[k]
```
`update` keeps matched expectations (with their quantifiers) and writes new lines only for
unexpected output; unmatched expectations are dropped. The greedy matcher (C03: complete only for
deterministic lists) re-run on the new list can take another path: expectations `a* (glob+)`,
`zzz`, `*2 (glob)` on output `a1`, `a2`, `b2` → update writes `a* (glob+)`, `*2 (glob)`, which
fails on the same output (`C09_update_fails_on_witness`). What holds without quantifiers among the
retained expectations is `C03_own_lines`-style determinism; it is not stated here (the `update`
path belongs to C10's model).
-/
namespace Scrut.Props.C09
open Scrut.Utf8 Scrut.Esc Scrut.EscLemmas Scrut.Rules Scrut.Gen Scrut.GenLemmas Scrut.Diff
open Scrut.Grammar (Params parse)

/-- **C09 (line round trip)**, both modes, every line of every output (any bytes): the generator
does not panic and the text `t` it writes for the line `l`
(i) contains no line feed, does not start with `$ ` or `> ` and is not an exit-code line, so the
line parser takes it as an expectation (`C09_line_is_expectation`);
(ii) parses, by the expectation grammar, to an UNQUANTIFIED expectation of kind `equal`, `no-eol`
or `escaped`
(iii) whose rule matches `l`.
No guard: lines that look like `[1]`, `$ x`, `> x`, `foo (glob)`, `x (no-eol)`, invalid UTF-8,
control characters, backslashes and a missing final line feed are all covered. -/
theorem C09_line_roundtrip (P : Params) (hP : StdParams P) (m : Mode) (isOther : Char → Bool)
    (hC : m = .unicode → AsciiContract isOther) (l : List UInt8) (hl : Newline.IsLine l) :
    ∃ t, expectationLine m isOther l = some t ∧
      '\n' ∉ t ∧ commandLead t = none ∧ LineParser.extractExitCode t = none ∧
      ∃ e, parse P t = .ok e ∧ e.optional = false ∧ e.multiline = false ∧
        (e.kind = .equal ∨ e.kind = .noEol ∨ e.kind = .escaped) ∧
        strRuleMatches e.kind e.expr l = true := by
  obtain ⟨t, ht, hok⟩ := line_ok hP m isOther hC hl
  exact ⟨t, ht, hok.no_nl, hok.no_lead, hok.no_exit, hok.parses⟩

/-- `strRuleMatches` is `matches` of the three string rules of `Model/RulesStr.lean` -/
theorem C09_strRuleMatches (e : List Char) (bytes line : List UInt8) :
    strRuleMatches .equal (utf8 e) line = equalMatches e line ∧
    strRuleMatches .noEol (utf8 e) line = noEolMatches e line ∧
    strRuleMatches .escaped bytes line = escapedMatches bytes line := ⟨rfl, rfl, rfl⟩

/-- `commandLead t = none` says: neither `$ ` nor `> ` is a prefix of `t` -/
theorem C09_commandLead_none (t : List Char) (h : commandLead t = none) :
    LineParser.stripPrefix ['$', ' '] t = none ∧ LineParser.stripPrefix ['>', ' '] t = none :=
  commandLead_none_strip h

/-- **C09 (classification)**: below a command -- in either parser mode, directly after the command
line or later -- `add_testcase_body` appends such a text to the expectations of the test -/
theorem C09_line_is_expectation {κ : Type} (expOk : List Char → Bool) (s : LineParser.State κ)
    (t : List Char) (idx : Nat) (hcmd : s.command.isEmpty = false) (hlead : commandLead t = none)
    (hexit : LineParser.extractExitCode t = none) (hok : expOk t = true) :
    s.addBody expOk t idx =
      .ok ({ s with inCommand := false, expectations := s.expectations ++ [t] }, .expectation) :=
  addBody_expectation expOk s t idx hcmd hlead hexit hok

/-- the outcome `create` starts from: the diff of NO expectations against `n` lines is one block
of unexpected lines holding all of them (`MalformedOutput`), or nothing (`Ok`) -/
theorem C09_create_outcome (n : Nat) (es : Nat → Diff.Exp) (mt : Nat → Nat → Bool) :
    diff 0 n es mt = if 0 < n then [DL.unexpected (rangeFrom 0 n)] else [] :=
  diff_no_expectations n es mt

/-- **C09 (shape)**: whichever of the three branches of `generate_testcase` the outcome takes
(`Ok`, `MalformedOutput`, `InvalidExitCode`), the test body is: the command, one generated line per
line of the validated stream, and `[code]` iff `code ≠ 0` -/
theorem C09_create_shape (m : Mode) (isOther : Char → Bool) (cmd ex : List Char)
    (out : List UInt8) (code : Int) (hex : expression cmd = some ex) :
    generateTestcase m isOther cmd (createResult out code) out code =
      (expectationLines m isOther (Newline.splitAtNewline out)).map (fun e => ex ++ e ++ exitCodeOpt code) :=
  generateTestcase_create m isOther cmd ex out code hex

/-- … and those lines are all written (no panic): `ts[i]` for line `i`, each followed by a line feed -/
theorem C09_create_lines_written (m : Mode) (isOther : Char → Bool)
    (hC : m = .unicode → AsciiContract isOther) (out : List UInt8) :
    ∃ ts : List (List Char), ts.length = (Newline.splitAtNewline out).length ∧
      (∀ i (h : i < (Newline.splitAtNewline out).length),
        expectationLine m isOther (Newline.splitAtNewline out)[i] = ts[i]?) ∧
      expectationLines m isOther (Newline.splitAtNewline out) = some (ts.flatMap (· ++ ['\n'])) :=
  expectationLines_some m isOther hC _ (Newline.splitAtNewline_isLine out)

/-- **C09 (create passes: output)**: for every output, the expectations that the generated lines
parse to (`genExp`: generated text, then `parse`) carry no quantifier, and the matcher
(`DiffTool::diff`) run with them against the lines of that same output reports no difference. -/
theorem C09_create_passes (P : Params) (hP : StdParams P) (m : Mode) (isOther : Char → Bool)
    (hC : m = .unicode → AsciiContract isOther) (out : List UInt8) :
    (∀ i, genQuant P m isOther (Newline.splitAtNewline out) i = ⟨false, false⟩) ∧
    hasDiff (diff (Newline.splitAtNewline out).length (Newline.splitAtNewline out).length
      (genQuant P m isOther (Newline.splitAtNewline out))
      (matchMatrix P m isOther (Newline.splitAtNewline out))) = false :=
  ⟨genQuant_none hP m isOther hC out, create_no_diff hP m isOther hC out⟩

/-- **C09 (create passes: exit code)**: `[c]` is written iff `c ≠ 0`, and for a process exit code
(0..255) the line written reads back as `c` -/
theorem C09_exit_code_roundtrip (c : Int) (h0 : 0 ≤ c) (h1 : c ≤ 255) :
    (exitCodeOpt c = [] ↔ c = 0) ∧
    (c ≠ 0 → exitCodeOpt c = (['['] ++ showInt c ++ [']']) ++ ['\n']) ∧
    LineParser.extractExitCode (['['] ++ showInt c ++ [']']) = some c.toNat := by
  refine ⟨?_, ?_, exitCode_roundtrip c h0 h1⟩
  · by_cases hc : c = 0 <;> simp [exitCodeOpt, hc, exitCodeLine]
  · intro hc; simp [exitCodeOpt, hc, exitCodeLine]

/-- **C09 (create passes: verdict)**: a test case whose expected exit code is the one read back
(`none` for 0) and whose selected stream is accepted gets the verdict `ok` from `validate` -/
theorem C09_create_verdict (c : Int) (tc : Exec.TC) (o : Exec.Out) (hs : o.status = .code c)
    (hexp : tc.expected = if c ≠ 0 then some c else none) (hacc : Exec.selected tc o = true) :
    Exec.validate tc o = .ok :=
  validate_ok c tc o hs hexp hacc

/-- `env.expOk` of the Markdown parser model is `ExpectationMaker::parse(..).is_ok()` -/
def envOf (P : Params) (isLetter : Char → Bool) : Markdown.Env :=
  { isLetter := isLetter
    expOk := fun t => match parse P t with | .ok _ => true | .error _ => false
    docCfgOk := fun _ => true
    testCfgOk := fun _ => true }

/-- **C09 (create, Markdown, through the document parser)**: for every command (lines `c0 :: more`
without line feed or final carriage return, the last one not empty), every output `out`, every
process exit code, both escapers and every inline configuration `create` / `update --convert` write here,
`scrut create` does not panic and the document it prints is read back by `MarkdownParser::parse` as
EXACTLY ONE test: the same command lines, the exit code (`none` for 0), the inline configuration, and
as expectations the texts `ts[i]` written for the lines of `out` -- of which `C09_line_roundtrip`
says that each parses to an unquantified expectation matching its line and `C09_create_passes` that
the matcher reports no difference. Any parser environment whose expectation check accepts what the
grammar parses and whose YAML check accepts the written configuration texts (`envOf` is one). -/
theorem C09_create_markdown_end_to_end (P : Params) (hP : StdParams P) (m : Mode) (isOther : Char → Bool)
    (hC : m = .unicode → AsciiContract isOther) (env : Markdown.Env) (hlang : env.languages = [language])
    (hcfg : ∀ cfg c, cfgInner cfg = some c → env.testCfgOk c = true)
    (hexp : ∀ t e, parse P t = .ok e → env.expOk t = true)
    (cfg : ConfigDiff) (c0 : List Char) (more : List (List Char)) (hlines : CmdLines (c0 :: more))
    (hcr : ∀ l ∈ c0 :: more, l.getLast? ≠ some '\r')
    (out : List UInt8) (code : Int) (h0 : 0 ≤ code) (h1 : code ≤ 255) :
    ∃ doc ts, create .markdown m isOther cfg (joinNl (c0 :: more)) out code = some doc ∧
      ts.length = (Newline.splitAtNewline out).length ∧
      (∀ i (h : i < (Newline.splitAtNewline out).length),
        expectationLine m isOther (Newline.splitAtNewline out)[i] = ts[i]?) ∧
      Markdown.parseMarkdown env doc
        = .ok { docConfigs := []
                tests := [{ title := []
                            command := c0 :: more
                            exitCode := if code ≠ 0 then some code.toNat else none
                            expectations := ts
                            lineNumber := 2
                            config := some (cfgInner cfg) }] } :=
  create_markdown_end_to_end hP m isOther hC env hlang hcfg hexp cfg c0 more hlines hcr out code h0 h1

/-- **C09 (printable)**: every character of a generated expectation line is printable -- ascii
mode: `0x20..0x7e`; unicode mode: no `is_other` character -- in particular it is neither a carriage
return nor a line feed, whatever bytes the output line holds -/
theorem C09_line_printable (m : Mode) (isOther : Char → Bool) (hC : m = .unicode → AsciiContract isOther)
    (line : List UInt8) (t : List Char) (ht : expectationLine m isOther line = some t) :
    ∀ c ∈ t, (match m with | .ascii => 0x20 ≤ c.toNat ∧ c.toNat ≤ 0x7e | .unicode => isOther c = false) ∧
      c ≠ '\r' ∧ c ≠ '\n' := by
  intro c hc
  have h := expectationLine_printable m isOther hC line t ht c hc
  refine ⟨?_, charOK_not_ctl hC h⟩
  cases m <;> exact h

/-- **C09 (create, Cram, through the document parser)**: the same for `create --format cram`: the
document is read back by `CramParser::parse` (indentation 2) as exactly one test with the same
command lines (no line feed or carriage return inside them, the last one not empty), the generated
texts as expectations, the exit code, and the Cram default configuration. -/
theorem C09_create_cram_end_to_end (P : Params) (hP : StdParams P) (m : Mode) (isOther : Char → Bool)
    (hC : m = .unicode → AsciiContract isOther) (expOk : List Char → Bool)
    (hexp : ∀ t e, parse P t = .ok e → expOk t = true)
    (cfg : ConfigDiff) (c0 : List Char) (more : List (List Char)) (hlines : CmdLines (c0 :: more))
    (hcr : ∀ l ∈ c0 :: more, '\r' ∉ l)
    (out : List UInt8) (code : Int) (h0 : 0 ≤ code) (h1 : code ≤ 255) :
    ∃ doc ts, create .cram m isOther cfg (joinNl (c0 :: more)) out code = some doc ∧
      ts.length = (Newline.splitAtNewline out).length ∧
      (∀ i (h : i < (Newline.splitAtNewline out).length),
        expectationLine m isOther (Newline.splitAtNewline out)[i] = ts[i]?) ∧
      Cram.parseCram expOk 2 doc
        = .ok (Cram.DocConfig.defaultCram,
            [{ title := []
               command := c0 :: more
               exitCode := if code ≠ 0 then some code.toNat else none
               expectations := ts
               lineNumber := 1
               config := some Cram.TCConfig.defaultCram }]) :=
  create_cram_end_to_end hP m isOther hC expOk hexp cfg c0 more hlines hcr out code h0 h1

/-- the Markdown wrapper: the fence has at least three backticks and more than any line of the
block has at its start, so no generated line closes the block -/
theorem C09_markdown_fence (g : List Char) :
    3 ≤ maxBacktickSize g + 1 ∧ ∀ l ∈ lines g, leadingBackticks l < maxBacktickSize g + 1 :=
  fence_longer g

/-! ### `update`: the known counterexample -/

/-- quantifiers of the list `update` writes for the witness: `a* (glob+)`, `*2 (glob)` -/
def updEs : Nat → Diff.Exp := fun i => if i = 0 then ⟨false, true⟩ else ⟨false, false⟩

/-- which of them matches which of the lines `a1`, `a2`, `b2` -/
def updMt : Nat → Nat → Bool := fun e l => (e, l) ∈ [(0, 0), (0, 1), (1, 1), (1, 2)]

/-- **the `update` statement fails on the witness**: the list `update` writes from
`a* (glob+)`, `zzz`, `*2 (glob)` and the output `a1 a2 b2` still has differences on that output
(the run of `a*` ends at `a2` in favour of `*2`, `b2` is left over) -/
theorem C09_update_fails_on_witness : hasDiff (diff 2 3 updEs updMt) = true := by
  simp [diff, loop, rangeFrom, unmatchedOf, hasDiff, updEs, updMt]

/-! ### non-vacuity -/

/-- the parameter hypothesis holds for the real `\s` and `EscapedRule::make`, any other constructors -/
example (mkGlob mkRegex : List Char → Option (List UInt8)) : StdParams (stdParams mkGlob mkRegex) :=
  stdParams_std mkGlob mkRegex

/-- the hypotheses on the parser environment hold for `envOf` -/
example (P : Params) (isLetter : Char → Bool) :
    (envOf P isLetter).languages = [language] ∧
    (∀ cfg c, cfgInner cfg = some c → (envOf P isLetter).testCfgOk c = true) ∧
    (∀ t e, parse P t = .ok e → (envOf P isLetter).expOk t = true) :=
  ⟨rfl, fun _ _ _ => rfl, fun t e h => by simp [envOf, h]⟩

/-- a two-line command satisfies `CmdLines` -/
example : CmdLines [['e', 'c', 'h', 'o', ' ', '\\'], [' ', 'x']] :=
  ⟨by decide, [['e', 'c', 'h', 'o', ' ', '\\']], [' ', 'x'], rfl, by decide⟩

/-- `IsLine` holds of every piece of every output -/
example (out : List UInt8) : ∀ l ∈ Newline.splitAtNewline out, Newline.IsLine l :=
  Newline.splitAtNewline_isLine out

/-- what is written for `$ foo (no-eol)⏎` (regression of fix 9b34612), `[1]⏎`, `foo (glob)⏎`,
`x<0x01> (no-eol)` (no final line feed) and `> a\b⏎` -/
example :
    expectationLine .unicode Scrut.Props.C11.ctrlOnly [36, 32, 102, 111, 111, 32, 40, 110, 111, 45, 101, 111, 108, 41, 10] =
      some ['\\', 'x', '2', '4', ' ', 'f', 'o', 'o', '\\', 'x', '2', '0', '(', 'n', 'o', '-', 'e', 'o', 'l', ')',
            ' ', '(', 'e', 's', 'c', 'a', 'p', 'e', 'd', ')'] ∧
    expectationLine .ascii Scrut.Props.C11.ctrlOnly [91, 49, 93, 10] =
      some ['[', '1', ']', ' ', '(', 'e', 'q', 'u', 'a', 'l', ')'] ∧
    expectationLine .unicode Scrut.Props.C11.ctrlOnly [102, 111, 111, 32, 40, 103, 108, 111, 98, 41, 10] =
      some ['f', 'o', 'o', ' ', '(', 'g', 'l', 'o', 'b', ')', ' ', '(', 'e', 'q', 'u', 'a', 'l', ')'] ∧
    expectationLine .ascii Scrut.Props.C11.ctrlOnly [120, 1, 32, 40, 110, 111, 45, 101, 111, 108, 41] =
      some ['x', '\\', 'x', '0', '1', '\\', 'x', '2', '0', '(', 'n', 'o', '-', 'e', 'o', 'l', ')',
            ' ', '(', 'e', 's', 'c', 'a', 'p', 'e', 'd', ')'] ∧
    expectationLine .unicode Scrut.Props.C11.ctrlOnly [62, 32, 97, 92, 98, 10] =
      some ['\\', 'x', '3', 'e', ' ', 'a', '\\', '\\', 'b', ' ', '(', 'e', 's', 'c', 'a', 'p', 'e', 'd', ')'] := by
  decide

end Scrut.Props.C09
