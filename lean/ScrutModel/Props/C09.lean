import ScrutModel.Lemmas.GenerateCram
import ScrutModel.Lemmas.GenerateUpdate
import ScrutModel.Props.C11
import ScrutModel.Lemmas.UpdateRunWitness
/-!
# C09 — Generated tests pass against the very output they were generated from

Model: `Scrut.Gen` (`Model/Generate.lean`): `generate_expectation_line` (`expectationLine`, on top
of the escaper model of C11), `looks_like_modifier_or_exit_code`, `generate_testcase` for the
outcome that `scrut create` builds (`createResult`, `generateTestcase`), the Markdown and Cram
wrappers (`markdownDoc`, `cramDoc`). The model is the code after fix 9b34612 (the ` (no-eol)
(escaped)` → `\x20(no-eol) (escaped)` rewrite is the last step), after fix 961e96b (`generate_testcase_expression`
writes every piece of `split('\n')` of the command as a line: no panic on the empty command, a final line feed
keeps its empty continuation line `> `; `C09_command_lines`: the pieces, joined, are the command -- no
hypothesis on the command is left in the end-to-end theorems but the carriage return `str::lines()` strips) and
after fix cfef990 (`update`: the exit code line goes in FRONT of the expectation lines -- also `[0]` -- when the
first of them is a retained text that starts with `> `: `C09_update_text`, C10's `C10_exit_code_first`).

What is proved, for `create`, is the composition through the component models:
output → lines (`split_at_newline`, Newline model) → one generated text per line
(`expectationLine`) → classified as an expectation by the line parser (LineParser model, C06/C07)
→ parsed by the grammar (Grammar model, C08) with the rule constructors of the string kinds
(RulesStr / EscapedFilter models, C04/C11) → matched against the output's lines by the matcher
(Diff model, C01–C03) → exit-code gate and verdict (`validate`, Exec model).
The last hop through the document parser is proved for Markdown (`C09_create_markdown_end_to_end`):
the document `create` prints is `str::lines()`-split into the rendering of one well-formed block
of C06's grammar (fence of `max_backtick_size + 1` backticks recognised with language and inline
configuration, no generated line closes the block or ends in a carriage return, the first line after
the command is no continuation, `[code]` is the only exit code line), so `MarkdownParser::parse`
(Markdown model, C06) returns exactly one test with the same command lines, the generated texts as
expectations and the exit code. Not proved in Lean for Cram (left to the correspondence of `create …
= real document` on every case and to the end-to-end oracle real generator → real parser → real
`validate`): nothing of the `create` chain any more — the Cram hop is `C09_create_cram_end_to_end`
(the document is the rendering of one test of C07's grammar, `cram_indented` puts every generated
line behind two blanks, no generated character is a carriage return or line feed:
`C09_line_printable`).

Parameters: `isOther` = `char::is_other()` (unicode-mode statements assume `AsciiContract`, as in
C11); `P : Grammar.Params` with `StdParams P`: `\s` is Unicode white space and the `escaped`
constructor is `apply_escaped_filter_bytes` behind the ` (no-eol)` strip that `Grammar.makeRule` does
itself, i.e. `EscapedRule::make` (`stdParams` is such a `P` for any glob/regex constructors).
The model is the code after fix c1bf05c: the escaper itself writes `\x20(no-eol)` for content
ending in ` (no-eol)` (`Esc.guardTailingNoEol`); the generator's own rewrite remains for the
first-character escape of printable lines (`$ foo (no-eol)`).

**`update`: the full-strength statement is FALSE today** (open finding
`C09:update-retained-quantified-expectations`):
```
theorem C09_update (doc) (outputs) : for every test k of doc that fails on outputs[k], the block that
    `generate_update doc outcomes` writes for k parses to a test with the same shell expression
    that validates against outputs[k]
```
`update` keeps matched expectations (with their quantifiers) and writes new lines only for
unexpected output; unmatched expectations are dropped. The greedy matcher (C03: complete only for
deterministic lists) re-run on the new list can take another path: expectations `a* (glob+)`,
`zzz`, `*2 (glob)` on output `a1`, `a2`, `b2` → update writes `a* (glob+)`, `*2 (glob)`, which
fails on the same output (`C09_update_fails_on_witness`).

**What is proved for `update`** is the true part. Model: `Gen.generateTestcaseUpd` =
`Outcome::generate_testcase` for a test WITH expectations (`Ok`: the original texts; `MalformedOutput
(diff)`: `MatchedExpectation` → original text, `UnexpectedLines` → one generated line each,
`UnmatchedExpectation` → dropped; the exit code line behind them, or in front if the first line written is a
retained one starting with `> `; `InvalidExitCode`: every line regenerated), for ANY expectations
(quantified ones too) and any diff; `create`'s `generateTestcase` is its special case "no
expectations" (`C09_create_is_update_special_case`), so everything above stays a statement about the
same function. `slots d` is the expectation list written for the diff `d` (`kept ei` = original
expectation `ei`, `gen li` = generated for line `li`); the text written is exactly the texts of these
entries (`C09_update_text`). The guard of the theorem is: **no expectation of the test carries a
quantifier** (`?`, `*`, `+`) -- any kinds (glob, regex, …), any match matrix `mt`. Then, for the real
matcher's diff `d = diff n m es mt` (whether it has differences or not), the updated list has
exactly one entry per output line, in line order, entry `k` is a retained expectation that matches
line `k` or the expectation generated for line `k` (`C09_update_unquantified_entries`; retained
ones keep their order: `C09_update_keeps_order`), no entry carries a quantifier, and the matcher
run on the updated list against the same lines reports NO difference
(`C09_update_unquantified_passes`, by C02's conservation `diff_wf`, `C09_line_roundtrip` and
`C03_own_lines`). The exit code line is `create`'s (`C09_exit_code_roundtrip`). The
`InvalidExitCode` branch discards all expectations, so it needs no guard
(`C09_update_invalid_exit_code`). Quantified retained expectations are exactly what the guard
excludes, and the witness above shows that it cannot be dropped: there `slots d = [kept 0, kept 2]`
-- two entries for three lines (`C09_update_witness_slots`).
Assumption (not in the model): the original text of a retained expectation parses back to the
expectation it came from (same rule, same quantifiers), so that the updated list's entry `kept ei`
matches what `mt ei` says -- decided on the real code by the update oracles (real `update` → real
parser → real `validate`).

**`update` through the composition** (`Model/UpdateRun.lean`, the integrated model of `scrut update`
tied to the binary by the stream `e2e-upddoc`; proofs in `Lemmas/UpdateRunRejudge.lean`,
`Lemmas/UpdateRunProps.lean`).  There the assumption above is no assumption: the retained texts and
the generated lines are compiled by the SAME `TestRun.compile` that `scrut test` / `update` compile
a document's expectation lines with, the match matrix is `Rule.matches`, the diff is the one
`UpdateRun.judge` computes on the recorded stream.  `C09_run_outcome_rejudged`: for ONE test, whatever
its result (`Ok`, `InvalidExitCode`: no guard; `MalformedOutput`: no quantified expectation), the
text `generate_testcase` returns is the text of a test `u'` -- same configuration, same command, the
written expectation lines compiled by `compile`, the exit code of the run as expected exit code (`RewrittenAs`:
`none` for 0; where `[0]` is written in front of a `> ` line it reads back as `some 0`, the same gate) -- that
PASSES on the same run (`Passes`: exit code gate and the matcher on the validated stream).
`C09_run_rewritten_passes`: the same for every test of a document that `updateDocument` overwrites,
with `gens[k]` (the text that goes into block `k`, C10's `C10_run_unfolded`) = `passText u'`.  The
last hop -- the written block, read by the document parser, IS that test (command, expectation
lines, exit code) -- is `UpdateRun.reparse_block`, used by C10's `C10_run_idempotent_partial`.
-/
namespace Scrut.Props.C09
open Scrut.Utf8 Scrut.Esc Scrut.EscLemmas Scrut.Rules Scrut.Gen Scrut.GenLemmas Scrut.Diff
open Scrut.Grammar (Params parse)

/-- **C09 (line round trip)**, both modes, every line of every output (any bytes): the generator
does not panic and the text `t` it writes for the line `l`
(i) contains no line feed, does not start with `$ ` or `> ` and is not an exit-code line, so the
line parser takes it as an expectation (`C09_line_is_expectation`);
(ii) parses, by the expectation grammar, to an UNQUANTIFIED expectation of kind `equal`, `no-eol`
or `escaped`
(iii) whose rule matches `l`.
No guard: lines that look like `[1]`, `$ x`, `> x`, `foo (glob)`, `x (no-eol)`, invalid UTF-8,
control characters, backslashes and a missing final line feed are all covered. -/
theorem C09_line_roundtrip (P : Params) (hP : StdParams P) (m : Mode) (isOther : Char → Bool)
    (hC : m = .unicode → AsciiContract isOther) (l : List UInt8) (hl : Newline.IsLine l) :
    ∃ t, expectationLine m isOther l = some t ∧
      '\n' ∉ t ∧ commandLead t = none ∧ LineParser.isExitCodeForm t = false ∧
      ∃ e, parse P t = .ok e ∧ e.optional = false ∧ e.multiline = false ∧
        (e.kind = .equal ∨ e.kind = .noEol ∨ e.kind = .escaped) ∧
        strRuleMatches e.kind e.expr l = true := by
  obtain ⟨t, ht, hok⟩ := line_ok hP m isOther hC hl
  exact ⟨t, ht, hok.no_nl, hok.no_lead, hok.no_exit, hok.parses⟩

/-- `strRuleMatches` is `matches` of the three string rules of `Model/RulesStr.lean` -/
theorem C09_strRuleMatches (e : List Char) (bytes line : List UInt8) :
    strRuleMatches .equal (utf8 e) line = equalMatches e line ∧
    strRuleMatches .noEol (utf8 e) line = noEolMatches e line ∧
    strRuleMatches .escaped bytes line = escapedMatches bytes line := ⟨rfl, rfl, rfl⟩

/-- `commandLead t = none` says: neither `$ ` nor `> ` is a prefix of `t` -/
theorem C09_commandLead_none (t : List Char) (h : commandLead t = none) :
    LineParser.stripPrefix ['$', ' '] t = none ∧ LineParser.stripPrefix ['>', ' '] t = none :=
  commandLead_none_strip h

/-- **C09 (classification)**: below a command -- in either parser mode, directly after the command
line or later -- `add_testcase_body` appends such a text to the expectations of the test -/
theorem C09_line_is_expectation {κ : Type} (expOk : List Char → Bool) (s : LineParser.State κ)
    (t : List Char) (idx : Nat) (hcmd : s.command.isEmpty = false) (hlead : commandLead t = none)
    (hexit : LineParser.isExitCodeForm t = false) (hok : expOk t = true) :
    s.addBody expOk t idx =
      .ok ({ s with inCommand := false, expectations := s.expectations ++ [t] }, .expectation) :=
  addBody_expectation expOk s t idx hcmd hlead hexit hok

/-- the outcome `create` starts from: the diff of NO expectations against `n` lines is one block
of unexpected lines holding all of them (`MalformedOutput`), or nothing (`Ok`) -/
theorem C09_create_outcome (n : Nat) (es : Nat → Diff.Exp) (mt : Nat → Nat → Bool) :
    diff 0 n es mt = if 0 < n then [DL.unexpected (rangeFrom 0 n)] else [] :=
  diff_no_expectations n es mt

/-- **C09 (shape)**: for every command (`generate_testcase_expression` does not panic: `ex`), whichever of the
three branches of `generate_testcase` the outcome takes (`Ok`, `MalformedOutput`, `InvalidExitCode`), the test
body is: the command, one generated line per line of the validated stream, and `[code]` iff `code ≠ 0` -/
theorem C09_create_shape (m : Mode) (isOther : Char → Bool) (cmd : List Char)
    (out : List UInt8) (code : Int) :
    ∃ ex, expression cmd = some ex ∧
    generateTestcase m isOther cmd (createResult out code) out code =
      (expectationLines m isOther (Newline.splitAtNewline out)).map (fun e => ex ++ e ++ exitCodeOpt code) := by
  obtain ⟨ex, hex⟩ := expression_isSome cmd
  exact ⟨ex, hex, generateTestcase_create m isOther cmd ex out code hex⟩

/-- **C09 (command lines)**: `generate_testcase_expression` writes the pieces of `split('\n')` of the command,
`$ ` in front of the first, `> ` in front of the others.  There is at least one piece, no piece holds a line
feed, and their `join("\n")` -- the `shell_expression` of the test the parsers build from these lines -- is the
command: nothing is lost, whatever the command (empty, ending in line feeds).  Conversely lines without line
feed are the pieces of their `join("\n")`. -/
theorem C09_command_lines (cmd : List Char) :
    (∃ c0 more, splitNl cmd [] = c0 :: more ∧
      expression cmd = some (Update.unlines (('$' :: ' ' :: c0) :: more.map (fun x => '>' :: ' ' :: x)))) ∧
    (∀ l ∈ splitNl cmd [], '\n' ∉ l) ∧ LineParser.joinNl (splitNl cmd []) = cmd ∧
    (∀ c0 more, (∀ l ∈ c0 :: more, '\n' ∉ l) → splitNl (joinNl (c0 :: more)) [] = c0 :: more) :=
  Scrut.UpdateRun.command_lines cmd

/-- … and those lines are all written (no panic): `ts[i]` for line `i`, each followed by a line feed -/
theorem C09_create_lines_written (m : Mode) (isOther : Char → Bool)
    (hC : m = .unicode → AsciiContract isOther) (out : List UInt8) :
    ∃ ts : List (List Char), ts.length = (Newline.splitAtNewline out).length ∧
      (∀ i (h : i < (Newline.splitAtNewline out).length),
        expectationLine m isOther (Newline.splitAtNewline out)[i] = ts[i]?) ∧
      expectationLines m isOther (Newline.splitAtNewline out) = some (ts.flatMap (· ++ ['\n'])) :=
  expectationLines_some m isOther hC _ (Newline.splitAtNewline_isLine out)

/-- **C09 (create passes: output)**: for every output, the expectations that the generated lines
parse to (`genExp`: generated text, then `parse`) carry no quantifier, and the matcher
(`DiffTool::diff`) run with them against the lines of that same output reports no difference. -/
theorem C09_create_passes (P : Params) (hP : StdParams P) (m : Mode) (isOther : Char → Bool)
    (hC : m = .unicode → AsciiContract isOther) (out : List UInt8) :
    (∀ i, genQuant P m isOther (Newline.splitAtNewline out) i = ⟨false, false⟩) ∧
    hasDiff (diff (Newline.splitAtNewline out).length (Newline.splitAtNewline out).length
      (genQuant P m isOther (Newline.splitAtNewline out))
      (matchMatrix P m isOther (Newline.splitAtNewline out))) = false :=
  ⟨genQuant_none hP m isOther hC out, create_no_diff hP m isOther hC out⟩

/-- **C09 (create passes: exit code)**: `[c]` is written iff `c ≠ 0`, and for a process exit code
(0..255) the line written reads back as `c` -/
theorem C09_exit_code_roundtrip (c : Int) (h0 : 0 ≤ c) (h1 : c ≤ 255) :
    (exitCodeOpt c = [] ↔ c = 0) ∧
    (c ≠ 0 → exitCodeOpt c = (['['] ++ showInt c ++ [']']) ++ ['\n']) ∧
    LineParser.extractExitCode (['['] ++ showInt c ++ [']']) = some c.toNat := by
  refine ⟨?_, ?_, exitCode_roundtrip c h0 h1⟩
  · by_cases hc : c = 0 <;> simp [exitCodeOpt, hc, exitCodeLine]
  · intro hc; simp [exitCodeOpt, hc, exitCodeLine]

/-- **C09 (create passes: verdict)**: a test case whose expected exit code is the one read back
(`none` for 0) and whose selected stream is accepted gets the verdict `ok` from `validate` -/
theorem C09_create_verdict (c : Int) (tc : Exec.TC) (o : Exec.Out) (hs : o.status = .code c)
    (hexp : tc.expected = if c ≠ 0 then some c else none) (hacc : Exec.selected tc o = true) :
    Exec.validate tc o = .ok :=
  validate_ok c tc o hs hexp hacc

/-- `env.expOk` of the Markdown parser model is `ExpectationMaker::parse(..).is_ok()` -/
def envOf (P : Params) (isLetter : Char → Bool) : Markdown.Env :=
  { isLetter := isLetter
    expOk := fun t => match parse P t with | .ok _ => true | .error _ => false
    docCfgOk := fun _ => true
    testCfgOk := fun _ => true }

/-- **C09 (create, Markdown, through the document parser)**: for EVERY command text `cmd` (the empty one,
one ending in line feeds; the one restriction left is that no piece of `split('\n')` ends in a carriage
return, which `str::lines()` would strip), every output `out`, every
process exit code, both escapers and every inline configuration `create` / `update --convert` write here,
`scrut create` does not panic and the document it prints is read back by `MarkdownParser::parse` as
EXACTLY ONE test: the command lines `split('\n')` of `cmd` (whose `join("\n")` is `cmd`: `C09_command_lines`),
the exit code (`none` for 0), the inline configuration, and
as expectations the texts `ts[i]` written for the lines of `out` -- of which `C09_line_roundtrip`
says that each parses to an unquantified expectation matching its line and `C09_create_passes` that
the matcher reports no difference. Any parser environment whose expectation check accepts what the
grammar parses and whose YAML check accepts the written configuration texts (`envOf` is one).
(Before fix 961e96b: hypothesis `CmdLines` -- the last command line not empty, hence the command not empty.) -/
theorem C09_create_markdown_end_to_end (P : Params) (hP : StdParams P) (m : Mode) (isOther : Char → Bool)
    (hC : m = .unicode → AsciiContract isOther) (env : Markdown.Env) (hlang : env.languages = [language])
    (hcfg : ∀ cfg c, cfgInner cfg = some c → env.testCfgOk c = true)
    (hexp : ∀ t e, parse P t = .ok e → env.expOk t = true)
    (cfg : ConfigDiff) (cmd : List Char) (hcr : ∀ l ∈ splitNl cmd [], l.getLast? ≠ some '\r')
    (out : List UInt8) (code : Int) (h0 : 0 ≤ code) (h1 : code ≤ 255) :
    ∃ doc ts, create .markdown m isOther cfg cmd out code = some doc ∧
      ts.length = (Newline.splitAtNewline out).length ∧
      (∀ i (h : i < (Newline.splitAtNewline out).length),
        expectationLine m isOther (Newline.splitAtNewline out)[i] = ts[i]?) ∧
      Markdown.parseMarkdown env doc
        = .ok { docConfigs := []
                tests := [{ title := []
                            command := splitNl cmd []
                            exitCode := if code ≠ 0 then some code.toNat else none
                            expectations := ts
                            lineNumber := 2
                            config := some (cfgInner cfg) }] } :=
  create_markdown_end_to_end_cmd hP m isOther hC env hlang hcfg hexp cfg cmd hcr out code h0 h1

/-- **C09 (printable)**: every character of a generated expectation line is printable -- ascii
mode: `0x20..0x7e`; unicode mode: no `is_other` character -- in particular it is neither a carriage
return nor a line feed, whatever bytes the output line holds -/
theorem C09_line_printable (m : Mode) (isOther : Char → Bool) (hC : m = .unicode → AsciiContract isOther)
    (line : List UInt8) (t : List Char) (ht : expectationLine m isOther line = some t) :
    ∀ c ∈ t, (match m with | .ascii => 0x20 ≤ c.toNat ∧ c.toNat ≤ 0x7e | .unicode => isOther c = false) ∧
      c ≠ '\r' ∧ c ≠ '\n' := by
  intro c hc
  have h := expectationLine_printable m isOther hC line t ht c hc
  refine ⟨?_, charOK_not_ctl hC h⟩
  cases m <;> exact h

/-- **C09 (create, Cram, through the document parser)**: the same for `create --format cram`: the
document is read back by `CramParser::parse` (indentation 2) as exactly one test with the command lines
`split('\n')` of `cmd` -- EVERY command text without carriage return --, the generated
texts as expectations, the exit code, and the Cram default configuration. -/
theorem C09_create_cram_end_to_end (P : Params) (hP : StdParams P) (m : Mode) (isOther : Char → Bool)
    (hC : m = .unicode → AsciiContract isOther) (expOk : List Char → Bool)
    (hexp : ∀ t e, parse P t = .ok e → expOk t = true)
    (cfg : ConfigDiff) (cmd : List Char) (hcr : '\r' ∉ cmd)
    (out : List UInt8) (code : Int) (h0 : 0 ≤ code) (h1 : code ≤ 255) :
    ∃ doc ts, create .cram m isOther cfg cmd out code = some doc ∧
      ts.length = (Newline.splitAtNewline out).length ∧
      (∀ i (h : i < (Newline.splitAtNewline out).length),
        expectationLine m isOther (Newline.splitAtNewline out)[i] = ts[i]?) ∧
      Cram.parseCram expOk 2 doc
        = .ok (Cram.DocConfig.defaultCram,
            [{ title := []
               command := splitNl cmd []
               exitCode := if code ≠ 0 then some code.toNat else none
               expectations := ts
               lineNumber := 1
               config := some Cram.TCConfig.defaultCram }]) :=
  create_cram_end_to_end_cmd hP m isOther hC expOk hexp cfg cmd hcr out code h0 h1

/-- the Markdown wrapper: the fence has at least three backticks and more than any line of the
block has at its start, so no generated line closes the block -/
theorem C09_markdown_fence (g : List Char) :
    3 ≤ maxBacktickSize g + 1 ∧ ∀ l ∈ lines g, leadingBackticks l < maxBacktickSize g + 1 :=
  fence_longer g

/-! ### `update`: a test with expectations -/

/-- **C09 (one function)**: `generate_testcase` on the outcome `create` builds (`generateTestcase`,
`createResult`) is `generate_testcase` for a test with expectations (`generateTestcaseUpd`) on the
outcome `validate` (`updResult`) returns for the EMPTY expectation list, no expected exit code, and
the real matcher's diff of no expectations against the lines of the output -/
theorem C09_create_is_update_special_case (m : Mode) (isOther : Char → Bool) (cmd : List Char)
    (out : List UInt8) (code : Int) (es : Nat → Diff.Exp) (mt : Nat → Nat → Bool) :
    generateTestcase m isOther cmd (createResult out code) out code =
      generateTestcaseUpd m isOther cmd []
        (updResult none (diff 0 (Newline.splitAtNewline out).length es mt) code)
        (Newline.splitAtNewline out) code :=
  generateTestcase_create_upd m isOther cmd out code es mt

/-- … and branch by branch, for any result of the old shape -/
theorem C09_create_is_update_branches (m : Mode) (isOther : Char → Bool) (cmd : List Char)
    (out : List UInt8) (code : Int) :
    (∀ lines, generateTestcase m isOther cmd .ok out code =
      generateTestcaseUpd m isOther cmd [] .ok lines code) ∧
    (∀ ls, generateTestcase m isOther cmd (.malformed ls) out code =
      generateTestcaseUpd m isOther cmd [] (.malformed [.unexpected (rangeFrom 0 ls.length)]) ls code) ∧
    (∀ origs actual, generateTestcase m isOther cmd (.invalidExit actual) out code =
      generateTestcaseUpd m isOther cmd origs (.invalidExit actual) (Newline.splitAtNewline out) code) :=
  ⟨fun lines => generateTestcase_ok m isOther cmd out lines code,
   fun ls => generateTestcase_malformed m isOther cmd out ls code,
   fun origs actual => generateTestcase_invalidExit m isOther cmd out origs actual code⟩

/-- **C09 (update, text)**: for `MalformedOutput(d)` -- any diff, any expectations, quantified or
not, any command -- the test body is: the command, the texts of the entries of `slots d` one after the other
(`kept ei`: the original text of expectation `ei` with a line feed; `gen li`: the line generated for
output line `li`), and `[code]` iff `code ≠ 0` -- unless the first entry is a retained text that starts with
`> ` (`contFirst`): then `[code]` (also `[0]`) stands between the command and the texts, so that the text is not
read as a continuation of the command (fix cfef990) -/
theorem C09_update_text (m : Mode) (isOther : Char → Bool) (cmd : List Char)
    (origs : List (List Char)) (lines : List (List UInt8)) (d : List DL) (code : Int) :
    ∃ ex, expression cmd = some ex ∧
    generateTestcaseUpd m isOther cmd origs (.malformed d) lines code =
      (slotsText m isOther origs lines (slots d)).map (fun b =>
        if contFirst origs (slots d) then ex ++ exitCodeLine code ++ b else ex ++ b ++ exitCodeOpt code) := by
  obtain ⟨ex, hex⟩ := expression_isSome cmd
  exact ⟨ex, hex, generateTestcaseUpd_malformed_text m isOther cmd ex origs lines d code hex⟩

/-- **C09 (update, entries)**: a test without multiline expectations, any match matrix: the list
written for the real matcher's diff has exactly one entry per output line, in line order: entry `k`
is a retained expectation that matches line `k`, or the expectation generated for line `k` -/
theorem C09_update_unquantified_entries (n m : Nat) (es : Nat → Diff.Exp) (mt : Nat → Nat → Bool)
    (hq : ∀ i, (es i).multiline = false) :
    (slots (diff n m es mt)).length = m ∧
    ∀ k (h : k < (slots (diff n m es mt)).length),
      (∃ ei, (slots (diff n m es mt))[k] = .kept ei ∧ mt ei k = true) ∨
      (slots (diff n m es mt))[k] = .gen k :=
  slots_spec n m es mt hq

/-- **C09 (update, order)**: whatever the quantifiers, the retained expectations are expectations of
the test, each at most once, in their original order -/
theorem C09_update_keeps_order (n m : Nat) (es : Nat → Diff.Exp) (mt : Nat → Nat → Bool) :
    (keptIdx (slots (diff n m es mt))).Pairwise (· < ·) ∧
    ∀ i ∈ keptIdx (slots (diff n m es mt)), i < n :=
  keptIdx_sorted n m es mt

/-- **C09 (update passes: output)**, the true part of the statement for `update`: a test with `n`
expectations of ANY kinds, NONE of them quantified (`hq`), `mt i j` = "expectation `i` matches line
`j`" arbitrary; any output. Let `d` be the real matcher's diff against the lines of the output and
`sl = slots d` the expectation list `update` writes. Then no entry of `sl` carries a quantifier
(`updQuant`: retained ones by `hq`, generated ones by `C09_line_roundtrip`), and the matcher run on
`sl` -- entry `k` matches line `j` iff `updMatrix … k j`: a retained expectation as `mt` says, a
generated one as its parsed rule says -- against the same lines reports no difference. -/
theorem C09_update_unquantified_passes (P : Params) (hP : StdParams P) (m : Mode) (isOther : Char → Bool)
    (hC : m = .unicode → AsciiContract isOther) (out : List UInt8)
    (n : Nat) (es : Nat → Diff.Exp) (mt : Nat → Nat → Bool) (hq : ∀ i, es i = ⟨false, false⟩) :
    let lines := Newline.splitAtNewline out
    let sl := slots (diff n lines.length es mt)
    (∀ k, updQuant es (genQuant P m isOther lines) sl k = ⟨false, false⟩) ∧
    hasDiff (diff sl.length lines.length (updQuant es (genQuant P m isOther lines) sl)
      (updMatrix mt (matchMatrix P m isOther lines) sl)) = false :=
  update_no_diff n _ es _ mt _ hq (genQuant_none hP m isOther hC out)
    (fun i hi => matchMatrix_diag hP m isOther hC out i hi)

/-- **C09 (update, changed exit code)**: for `InvalidExitCode` all expectations are discarded and
every line is regenerated: whatever the expectations were (quantified or not), the text is the one
`create` writes for this output and the actual exit code -- for which `C09_create_passes`,
`C09_exit_code_roundtrip` and the end-to-end theorems hold --, and the regenerated list passes -/
theorem C09_update_invalid_exit_code (P : Params) (hP : StdParams P) (m : Mode) (isOther : Char → Bool)
    (hC : m = .unicode → AsciiContract isOther) (cmd : List Char) (origs : List (List Char))
    (out : List UInt8) (actual code : Int) :
    generateTestcaseUpd m isOther cmd origs (.invalidExit actual) (Newline.splitAtNewline out) code =
      generateTestcase m isOther cmd (createResult out actual) out actual ∧
    hasDiff (diff (Newline.splitAtNewline out).length (Newline.splitAtNewline out).length
      (genQuant P m isOther (Newline.splitAtNewline out))
      (matchMatrix P m isOther (Newline.splitAtNewline out))) = false :=
  ⟨generateTestcaseUpd_invalidExit_create m isOther cmd origs out actual code,
   create_no_diff hP m isOther hC out⟩

/-! ### `update`: the known counterexample -/

/-- quantifiers of the list `update` writes for the witness: `a* (glob+)`, `*2 (glob)` -/
def updEs : Nat → Diff.Exp := fun i => if i = 0 then ⟨false, true⟩ else ⟨false, false⟩

/-- which of them matches which of the lines `a1`, `a2`, `b2` -/
def updMt : Nat → Nat → Bool := fun e l => (e, l) ∈ [(0, 0), (0, 1), (1, 1), (1, 2)]

/-- **the `update` statement fails on the witness**: the list `update` writes from
`a* (glob+)`, `zzz`, `*2 (glob)` and the output `a1 a2 b2` still has differences on that output
(the run of `a*` ends at `a2` in favour of `*2`, `b2` is left over) -/
theorem C09_update_fails_on_witness : hasDiff (diff 2 3 updEs updMt) = true := by
  simp [diff, loop, rangeFrom, unmatchedOf, hasDiff, updEs, updMt]

/-- quantifiers of the test of the witness: `a* (glob+)`, `zzz`, `*2 (glob)` -/
def witEs : Nat → Diff.Exp := fun i => if i = 0 then ⟨false, true⟩ else ⟨false, false⟩

/-- which of them matches which of the lines `a1`, `a2`, `b2` -/
def witMt : Nat → Nat → Bool := fun e l => (e, l) ∈ [(0, 0), (0, 1), (2, 1), (2, 2)]

/-- the witness in terms of the model: the diff is `a*` ← `a1 a2`, `zzz` unmatched, `*2` ← `b2`; the
list written has TWO entries for three lines (a multiline expectation holds two of them), and its
quantifiers and match matrix are `updEs`, `updMt` of `C09_update_fails_on_witness` -/
theorem C09_update_witness_slots :
    diff 3 3 witEs witMt = [.matched 0 [0, 1], .unmatched 1, .matched 2 [2]] ∧
    slots (diff 3 3 witEs witMt) = [.kept 0, .kept 2] ∧
    (∀ k, k < 2 → updQuant witEs (fun _ => ⟨false, false⟩) [.kept 0, .kept 2] k = updEs k) ∧
    (∀ k, k < 2 → ∀ j, j < 3 → updMatrix witMt (fun _ _ => false) [.kept 0, .kept 2] k j = updMt k j) := by
  have hd : diff 3 3 witEs witMt = [.matched 0 [0, 1], .unmatched 1, .matched 2 [2]] := by
    simp [diff, loop, rangeFrom, unmatchedOf, findFrom, witEs, witMt, List.range, List.range.loop]
  refine ⟨hd, by rw [hd]; rfl, by decide, by decide⟩

/-! ### `update` through the composition: the rewritten test passes on the run it was updated from -/

section Integrated
open Scrut.UpdateRun Scrut.UpdateRun.Witness

/-- **C09 (update, integrated, one test)**: `u` a test whose expectation texts compile to its
expectations (`Compiled`: true of every test of a document), `r` the completed run of its command,
`(res, g)` what `validate` and `generate_testcase` make of it.  Then `g` is the text of a test `u'`
(`u` as rewritten: same configuration and command, the written expectation lines compiled by the same
`compile`, the exit code as written) that passes on `r`.  Guard: for `MalformedOutput` no expectation
of `u` carries a quantifier (`C09_update_fails_on_witness`). -/
theorem C09_run_outcome_rejudged (isOther : Char → Bool) (hC : AsciiContract isOther) (u : UTest)
    (hcomp : u.Compiled) (r : TestRun.Ran) (res : UpdResult) (g : List Char)
    (h : outcomeText isOther u r = .ok (res, some g))
    (hq : (∃ d, res = .malformed d) → Unquantified u) :
    ∃ u', RewrittenAs u u' r.code ∧ passText u' = some g ∧ Passes u' r :=
  outcome_rejudged hC hcomp h hq

/-- **C09 (update, integrated, the document)**: after `updateDocument` has overwritten a document,
for every test `k` (prepared test `u`, run `r`, result `res`) the text written into its block
(`gens[k]`) is the text of a test `u'` -- `u` rewritten -- that passes on `r`; for `MalformedOutput`
provided `u` has no quantified expectation. -/
theorem C09_run_rewritten_passes (isOther : Char → Bool) (hC : AsciiContract isOther) (content : List Char)
    (runs : List TestRun.Ran) (text : List Char) (results : List UpdResult)
    (h : updateDocument isOther content runs = .updated text results) :
    ∃ tests gens, docTests content = some tests ∧ docGens isOther content runs = some gens ∧
      gens.length = tests.length ∧ results.length = tests.length ∧
      ∀ (k : Nat) (u : UTest) (r : TestRun.Ran) (res : UpdResult),
        tests[k]? = some u → runs[k]? = some r → results[k]? = some res →
        ((∃ d, res = .malformed d) → Unquantified u) →
        ∃ u', RewrittenAs u u' r.code ∧ gens[k]? = some (passText u') ∧ Passes u' r :=
  run_rewritten_passes hC h

/-- the hypotheses hold for the document `# T` / ```` ```scrut ```` / `$ x` / `old` / ```` ``` ```` / `end` and
the output `new`: it is overwritten, its test has the result `MalformedOutput` and no quantifier -/
example : updateDocument ctrl docOrd [runNew] = .updated docOrdOut [.malformed [.unmatched 0, .unexpected [0]]] ∧
    AsciiContract ctrl ∧ docTests docOrd = some [utOld] ∧ Unquantified utOld ∧ utOld.Compiled :=
  ⟨ord_written, ctrl_contract, docTests_ord, by decide, .cons (by rfl) .nil⟩

end Integrated

/-! ### non-vacuity -/

/-- the parameter hypothesis holds for the real `\s` and `EscapedRule::make`, any other constructors -/
example (mkGlob mkRegex : List Char → Option (List UInt8)) : StdParams (stdParams mkGlob mkRegex) :=
  stdParams_std mkGlob mkRegex

/-- the hypotheses on the parser environment hold for `envOf` -/
example (P : Params) (isLetter : Char → Bool) :
    (envOf P isLetter).languages = [language] ∧
    (∀ cfg c, cfgInner cfg = some c → (envOf P isLetter).testCfgOk c = true) ∧
    (∀ t e, parse P t = .ok e → (envOf P isLetter).expOk t = true) :=
  ⟨rfl, fun _ _ _ => rfl, fun t e h => by simp [envOf, h]⟩

/-- the command lines of a two-line command, of the empty command and of a command that ends in a line feed;
the texts written for the last two (before fix 961e96b: a panic, and `$ x` without `> `) -/
example : splitNl ['e', 'c', 'h', 'o', ' ', '\\', '\n', ' ', 'x'] [] = [['e', 'c', 'h', 'o', ' ', '\\'], [' ', 'x']] ∧
    splitNl [] [] = [[]] ∧ splitNl ['x', '\n'] [] = [['x'], []] ∧
    expression [] = some ['$', ' ', '\n'] ∧
    expression ['x', '\n'] = some ['$', ' ', 'x', '\n', '>', ' ', '\n'] := by decide

/-- the hypotheses on the command of the two end-to-end theorems hold for them -/
example : (∀ l ∈ splitNl ['x', '\n'] [], l.getLast? ≠ some '\r') ∧ '\r' ∉ ['x', '\n'] ∧
    (∀ l ∈ splitNl ([] : List Char) [], l.getLast? ≠ some '\r') := by decide

/-- `contFirst`: the first entry is a retained text starting with `> `; the text written then (exit code 0) -/
example : contFirst [['>', ' ', 'a']] (slots [.matched 0 [0], .unexpected [1]]) = true ∧
    contFirst [['a']] (slots [.matched 0 [0]]) = false ∧
    contFirst [['>', ' ', 'a']] (slots [.unexpected [0], .matched 0 [1]]) = false ∧
    generateTestcaseUpd .ascii Scrut.Props.C11.ctrlOnly ['c'] [['>', ' ', 'a']]
      (.malformed [.matched 0 [0], .unexpected [1]]) [[62, 32, 97, 10], [120, 10]] 0 =
      some ("$ c\n[0]\n> a\nx\n".toList) := by decide

/-- `IsLine` holds of every piece of every output -/
example (out : List UInt8) : ∀ l ∈ Newline.splitAtNewline out, Newline.IsLine l :=
  Newline.splitAtNewline_isLine out

/-- what is written for `$ foo (no-eol)⏎` (regression of fix 9b34612), `[1]⏎`, `foo (glob)⏎`,
`x<0x01> (no-eol)` (no final line feed) and `> a\b⏎` -/
example :
    expectationLine .unicode Scrut.Props.C11.ctrlOnly [36, 32, 102, 111, 111, 32, 40, 110, 111, 45, 101, 111, 108, 41, 10] =
      some ['\\', 'x', '2', '4', ' ', 'f', 'o', 'o', '\\', 'x', '2', '0', '(', 'n', 'o', '-', 'e', 'o', 'l', ')',
            ' ', '(', 'e', 's', 'c', 'a', 'p', 'e', 'd', ')'] ∧
    expectationLine .ascii Scrut.Props.C11.ctrlOnly [91, 49, 93, 10] =
      some ['[', '1', ']', ' ', '(', 'e', 'q', 'u', 'a', 'l', ')'] ∧
    expectationLine .unicode Scrut.Props.C11.ctrlOnly [102, 111, 111, 32, 40, 103, 108, 111, 98, 41, 10] =
      some ['f', 'o', 'o', ' ', '(', 'g', 'l', 'o', 'b', ')', ' ', '(', 'e', 'q', 'u', 'a', 'l', ')'] ∧
    expectationLine .ascii Scrut.Props.C11.ctrlOnly [120, 1, 32, 40, 110, 111, 45, 101, 111, 108, 41] =
      some ['x', '\\', 'x', '0', '1', '\\', 'x', '2', '0', '(', 'n', 'o', '-', 'e', 'o', 'l', ')',
            ' ', '(', 'e', 's', 'c', 'a', 'p', 'e', 'd', ')'] ∧
    expectationLine .unicode Scrut.Props.C11.ctrlOnly [62, 32, 97, 92, 98, 10] =
      some ['\\', 'x', '3', 'e', ' ', 'a', '\\', '\\', 'b', ' ', '(', 'e', 's', 'c', 'a', 'p', 'e', 'd', ')'] := by
  decide

/-- `update`, unquantified: the doc example of `src/diff.rs` (`foo1`, `bar`, `baz` against `bla foo1
foo2 foo3 bar`): the list written is generated, `foo1`, generated, generated, `bar` (`baz` dropped) -/
example : slots (diff 3 5 exEs exMt) = [.gen 0, .kept 0, .gen 2, .gen 3, .kept 1] := by
  have : diff 3 5 exEs exMt =
      [.unexpected [0], .matched 0 [1], .unexpected [2, 3], .matched 1 [4], .unmatched 2] := by
    simp [diff, loop, exEs, exMt, rangeFrom, unmatchedOf, findFrom, List.range, List.range.loop]
  rw [this]; rfl

/-- the text written for it: expectations `foo1`, `bar`, `baz`, output `bla⏎ foo1⏎ [1]⏎ x⏎ bar⏎`,
exit code 2 -/
example :
    generateTestcaseUpd .ascii Scrut.Props.C11.ctrlOnly ['c'] [['f', 'o', 'o', '1'], ['b', 'a', 'r'], ['b', 'a', 'z']]
      (.malformed [.unexpected [0], .matched 0 [1], .unexpected [2, 3], .matched 1 [4], .unmatched 2])
      [[98, 108, 97, 10], [102, 111, 111, 49, 10], [91, 49, 93, 10], [120, 10], [98, 97, 114, 10]] 2 =
    some ("$ c\nbla\nfoo1\n[1] (equal)\nx\nbar\n[2]\n".toList) := by
  decide

/-- the hypothesis `hq` of `C09_update_unquantified_passes` holds for `exEs` -/
example : ∀ i, exEs i = ⟨false, false⟩ := fun _ => rfl

end Scrut.Props.C09
