import ScrutModel.Lemmas.Markdown
/-!
# C06 — Markdown: every scrut block becomes exactly one test; nothing is dropped

Model: `Model/Markdown.lean` (tokenizer `MarkdownIterator`, `extract_code_block_start` with its
byte-offset slicing, `MarkdownParser::parse`) on top of `Model/LineParser.lean`.  Parameters: the
Unicode letter class, the expectation grammar and serde_yaml (`Env`).

Proved here, for **all** documents (no bound on the number or length of lines, any characters):

* `C06_no_crash` – parsing never reaches a panic: every slice of `extract_code_block_start` is at
  a character boundary inside the line, every `line_index - 1` has `line_index ≥ 1`;
* `C06_tokens_cover` – the tokenizer always runs to the end of the document and its tokens
  partition the document (`Covers`): every line is in exactly one token, in order, with its
  correct index; no line is dropped, also behind malformed constructs;
* `C06_unterminated_*` – an unterminated front-matter / foreign block / scrut block yields one
  token that holds all remaining lines.

Full-strength statement that is *not* a theorem of the current code (kept visible):

    theorem C06_wellformed (d : Doc) (wf : d.WF) : parseMarkdown env (render d) = .ok d.tests

for `Doc` = the generator AST of `harness/src/markdown.rs` (every item kind).  It is decided for the
generated documents by the by-construction oracle of the harness (streams `ast-by-construction`,
`ast-prefixes`), not proved here.  Four readings of the property that the code did not implement
when this check first ran (harness classes `C06:state-leak`, `C06:bare-long-fence`,
`C06:info-string-whitespace`, `C06:config-dropped`) have been repaired by `fix:` commits; the
model follows the repaired code, the former witnesses are kept below as closed examples and in
the harness stream `reading-witnesses`.
-/
namespace Scrut.Props.C06
open Scrut Scrut.Markdown Scrut.LineParser

/-- Parsing a Markdown document never panics, whatever the document, the letter class, the
expectation grammar and the YAML verdicts are. -/
theorem C06_no_crash (env : Env) (text : List Char) : parseMarkdown env text ≠ .error .crash :=
  parseLines_ne_crash env (splitLines text)

/-- The tokenizer never fails and never stops early: its tokens partition the lines of the
document. -/
theorem C06_tokens_cover (languages : List Line) (lines : List Line) :
    ∃ toks, tokenize languages lines = .ok toks ∧ Covers languages 0 lines toks :=
  tokenize_covers languages lines

/-- Front-matter that is never closed is read to the end of the document. -/
theorem C06_unterminated_front_matter (languages : List Line) (li : Nat) (body : List Line)
    (hb : ∀ x ∈ body, x ≠ frontMatterFence) :
    run languages .top false li (frontMatterFence :: body) = .ok [.docConfig (number (li + 1) body)] :=
  unterminated_front languages li body hb

/-- A foreign code block that is never closed is read to the end of the document (wherever in the
document it starts: `li`, `cs` are the tokenizer's state in front of the opening line). -/
theorem C06_unterminated_verbatim (languages : List Line) (cs : Bool) (li : Nat)
    (opener bt language config : Line) (body : List Line)
    (hx : extractCodeBlockStart opener = .ok (some (bt, language, config)))
    (hl : languages.contains language = false) (hb : ∀ x ∈ body, startsWith x bt = false) :
    run languages .top cs li (opener :: body) = .ok [.verbatim li language (opener :: body)] :=
  unterminated_verbatim languages cs li opener bt language config body hx hl hb

/-- A scrut block that is never closed is read to the end of the document: all remaining lines
are its comment and code lines, with their indices. -/
theorem C06_unterminated_test (languages : List Line) (cs : Bool) (li : Nat)
    (opener bt language config : Line) (body : List Line)
    (hx : extractCodeBlockStart opener = .ok (some (bt, language, config)))
    (hl : languages.contains language = true) (hb : ∀ x ∈ body, startsWith x bt = false) :
    ∃ comments code,
      run languages .top cs li (opener :: body) = .ok [.test language (cfgLines li config) comments code]
      ∧ comments ++ code = number (li + 1) body :=
  unterminated_test languages cs li opener bt language config body hx hl hb

/-! ## non-vacuity and witnesses -/

/-- an environment for closed examples: ASCII letters, every expectation and YAML text accepted -/
def envAll : Env :=
  { isLetter := fun c => (65 ≤ c.toNat && c.toNat ≤ 90) || (97 ≤ c.toNat && c.toNat ≤ 122)
    expOk := fun _ => true, docCfgOk := fun _ => true, testCfgOk := fun _ => true }

def scrutFence : Line := "```scrut".toList

/-- the hypotheses of `C06_unterminated_test` are satisfiable -/
example : extractCodeBlockStart ['`', '`', '`', 's', 'c', 'r', 'u', 't']
    = .ok (some (['`', '`', '`'], ['s', 'c', 'r', 'u', 't'], [])) := by rfl

/-- a normal document: title, comment, command, expectation, exit code, 1-based line of the `$` -/
theorem C06_example_document :
    parseLines envAll
      [['#', ' ', 'T'], [], ['`', '`', '`', 's', 'c', 'r', 'u', 't'], ['#', ' ', 'c'], ['$', ' ', 'x'],
       ['o'], ['[', '7', ']'], ['`', '`', '`']]
    = .ok { docConfigs := [], tests :=
        [{ title := ['T'], command := [['x']], exitCode := some 7, expectations := [['o']],
           lineNumber := 5, config := some none }] } := by rfl

/-- Repaired by fix 0c1f918 (was harness class `C06:state-leak`): a block that holds only `[1]` is
rejected; its exit code is not handed to the test of the next block. -/
theorem C06_exit_code_without_command_rejected :
    parseLines envAll
      [['`', '`', '`', 's', 'c', 'r', 'u', 't'], ['[', '1', ']'], ['`', '`', '`'],
       ['`', '`', '`', 's', 'c', 'r', 'u', 't'], ['$', ' ', 'x'], ['`', '`', '`']]
    = .error (.lineParser (.exitCodeWithoutCommand 2)) := by rfl

/-- Repaired by fix d82a4b7 (was `C06:bare-long-fence`): a line of four backticks opens a code
block without language (which `parse` then reports like the bare "```"). -/
theorem C06_bare_long_fence :
    extractCodeBlockStart ['`', '`', '`', '`'] = .ok (some (['`', '`', '`', '`'], [], [])) := by rfl

/-- Repaired by fix d36f745 (was `C06:info-string-whitespace`, `C06:config-dropped`): white space
around the language and after the configuration is ignored. -/
theorem C06_info_string_whitespace :
    extractCodeBlockStart ['`', '`', '`', ' ', 's', 'c', 'r', 'u', 't', ' ', '{', 'a', '}', ' ']
      = .ok (some (['`', '`', '`'], ['s', 'c', 'r', 'u', 't'], ['{', 'a', '}'])) := by rfl

end Scrut.Props.C06
