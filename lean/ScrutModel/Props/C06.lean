import ScrutModel.Lemmas.MarkdownTail
import ScrutModel.Lemmas.LineParserExit
/-!
# C06 — Markdown: every scrut block becomes exactly one test; nothing is dropped

Model: `Model/Markdown.lean` (tokenizer `MarkdownIterator`, `extract_code_block_start` with its
byte-offset slicing, `MarkdownParser::parse`) on top of `Model/LineParser.lean`.  Parameters: the
Unicode letter class, the expectation grammar and serde_yaml (`Env`).

Proved here, for **all** documents (no bound on the number or length of lines, any characters):

* `C06_no_crash` – parsing never reaches a panic: every slice of `extract_code_block_start` is at
  a character boundary inside the line, every `line_index - 1` has `line_index ≥ 1`;
* `C06_tokens_cover` – the tokenizer always runs to the end of the document and its tokens
  partition the document (`Covers`): every line is in exactly one token, in order, with its
  correct index; no line is dropped, also behind malformed constructs;
* `C06_unterminated_*` – an unterminated front-matter / foreign block / scrut block yields one
  token that holds all remaining lines.

* `C06_wellformed` – for every document of the generator's grammar (`ItemsWF`), i.e. a sequence of
  - prose lines (any line that is not a fence start: blank, text, headings, lines that merely
    start with one or two backticks or with an inline code span of three or more, `---` once
    content has started, …),
  - front-matter (`---`, lines, `---`) while no content has started (blank lines may precede it;
    its YAML is opaque: `docCfgOk` accepts the text – the lines, each with its line ending),
  - foreign code blocks (language not a test language and not empty, fence of any length ≥ 3,
    body lines that do not start with the opening fence, closing line = any line that starts with
    the opening fence, e.g. a longer fence),
  - scrut blocks without a command (comment lines only, or empty),
  - scrut blocks with a command (optional `{…}`, comment lines, `$` line, `>` lines, then
    expectation lines – among them at most one exit code line, anywhere; no other line of the form
    `[digits]`: CHANGED with the fix "exit code out of range", `Block.WF` now demands
    `isExitCodeForm e = false` of every expectation line, because `[2147483648]` is the error
    `exitCodeOutOfRange` and no longer an expectation – closing line as above),
  the parser succeeds and yields exactly the front-matter texts (`docTexts`) and `expectedTests`:
  one test per block with a command, in order, with shell expression, expectation texts, exit
  code, inline configuration text, 1-based line number of the `$` line and the title as the code
  defines it (see `expectedTests`: foreign blocks and front-matter are invisible to the title
  logic, a block without command ends the run of title lines but keeps the title);
* `C06_wellformed_lines`, `C06_wellformed_cores` – consequences that do not mention the title
  bookkeeping: every line number is that of a `$` line; count, order and content of the tests
  are those of the blocks as written;
* `C06_prose_inert`, `C06_other_blocks_inert`, `C06_inert_items` – inserting a prose line, a
  foreign block or a scrut block without command anywhere behind the front-matter keeps the
  document parseable and changes neither the document configuration nor count, order and content
  of the tests (only line numbers and titles may move).

* `C06_fence_iff_spec`, `C06_fence_is_ticks` – the lines the code takes for the start of a fenced
  block are exactly the fence lines of the property (`isFenceLine`: three or more backticks, then
  an info string **without backtick** in front of the inline configuration `{…}`), with the run
  of backticks as the fence;
* `C06_inline_code_span_not_fence`, `C06_inline_code_span_prose`, `C06_inline_code_span_inert`,
  `C06_inline_code_span_like_prose`, `C06_prose_interchangeable` – a line that starts with an inline
  code span ("```` ``` ```` is how three backticks are written") is a prose line: never a fence
  opener, inert when inserted, and interchangeable with any other non-title, non-blank prose line
  without any change of the result (titles and line numbers included);

* `C06_wellformed_tail` – the same for documents whose **last construct is unterminated**: a
  sequence of well-formed items followed by a `Tail` – front-matter without the closing `---`
  (while no content has started), a foreign block, a scrut block without command or a scrut block
  with a command without closing line.  The parser succeeds and yields the front-matter texts of
  the items plus that of the tail, and the tests of the items plus – for an unterminated block
  with a command – the test that is written in the tail (`tailTests`: all lines to the end of the
  document are its body; line number of its `$` line; the title collected before it).  No
  construct is dropped or reported as an error because its closing line is missing;
* `C06_wellformed_tail_as_closed`, `C06_last_closing_line_optional` – put differently: the tail is
  read exactly as if it had been closed; removing the closing line of the last construct of a
  well-formed document changes nothing in the result.

This is the whole grammar of the harness' generator (`harness/src/markdown.rs`, `Item`, including
its unterminated last items: streams `ast-open-tail` and `ast-prefixes`).  What the code does with
an unterminated construct is the same as with a closed one, in particular an unterminated bare
fence is still `MissingLanguageSpecifier`, and a `---` that is never closed is front-matter (its
text must be a document configuration) only while no content has started – afterwards it is a
prose line and the lines behind it are ordinary items.

Readings of the property that the code did not implement when this check first ran (harness
classes `C06:state-leak`, `C06:bare-long-fence`, `C06:info-string-whitespace`,
`C06:config-dropped`, `C06:expectation-before-command`, `C06:inline-code-span-hides-tests`) have been repaired by `fix:` commits; the
model follows the repaired code, the former witnesses are kept below as closed examples and in
the harness stream `reading-witnesses`.
-/
namespace Scrut.Props.C06
open Scrut Scrut.Markdown Scrut.LineParser

/-- Parsing a Markdown document never panics, whatever the document, the letter class, the
expectation grammar and the YAML verdicts are. -/
theorem C06_no_crash (env : Env) (text : List Char) : parseMarkdown env text ≠ .error .crash :=
  parseLines_ne_crash env (splitLines text)

/-- The tokenizer never fails and never stops early: its tokens partition the lines of the
document. -/
theorem C06_tokens_cover (languages : List Line) (lines : List Line) :
    ∃ toks, tokenize languages lines = .ok toks ∧ Covers languages 0 lines toks :=
  tokenize_covers languages lines

/-- Front-matter that is never closed is read to the end of the document. -/
theorem C06_unterminated_front_matter (languages : List Line) (li : Nat) (body : List Line)
    (hb : ∀ x ∈ body, x ≠ frontMatterFence) :
    run languages .top false li (frontMatterFence :: body) = .ok [.docConfig (number (li + 1) body)] :=
  unterminated_front languages li body hb

/-- A foreign code block that is never closed is read to the end of the document (wherever in the
document it starts: `li`, `cs` are the tokenizer's state in front of the opening line). -/
theorem C06_unterminated_verbatim (languages : List Line) (cs : Bool) (li : Nat)
    (opener bt language config : Line) (body : List Line)
    (hx : extractCodeBlockStart opener = .ok (some (bt, language, config)))
    (hl : languages.contains language = false) (hb : ∀ x ∈ body, startsWith x bt = false) :
    run languages .top cs li (opener :: body) = .ok [.verbatim li language (opener :: body)] :=
  unterminated_verbatim languages cs li opener bt language config body hx hl hb

/-- A scrut block that is never closed is read to the end of the document: all remaining lines
are its comment and code lines, with their indices. -/
theorem C06_unterminated_test (languages : List Line) (cs : Bool) (li : Nat)
    (opener bt language config : Line) (body : List Line)
    (hx : extractCodeBlockStart opener = .ok (some (bt, language, config)))
    (hl : languages.contains language = true) (hb : ∀ x ∈ body, startsWith x bt = false) :
    ∃ comments code,
      run languages .top cs li (opener :: body) = .ok [.test language (cfgLines li config) comments code]
      ∧ comments ++ code = number (li + 1) body :=
  unterminated_test languages cs li opener bt language config body hx hl hb

/-- **Well-formed documents**: every scrut block with a command becomes exactly one test, in
document order, with exactly the shell expression, expectation lines, exit code, inline
configuration, line number and title that are written; prose, front-matter, foreign blocks and
blocks without a command create, hide and truncate nothing. -/
theorem C06_wellformed (env : Env) (items : List Item) (wf : ItemsWF env false items) :
    parseLines env (render items)
      = .ok { docConfigs := docTexts items, tests := expectedTests env items 0 none [] } :=
  parseLines_render env items wf

/-- the same for the text of the document -/
theorem C06_wellformed_text (env : Env) (text : List Char) (items : List Item)
    (h : splitLines text = render items) (wf : ItemsWF env false items) :
    parseMarkdown env text
      = .ok { docConfigs := docTexts items, tests := expectedTests env items 0 none [] } := by
  unfold parseMarkdown
  rw [h]
  exact parseLines_render env items wf

/-- **Well-formed documents that end in an unterminated construct** (`tail`: front-matter, foreign
block, scrut block without or with a command, each without its closing line; `Tail.none` gives
`C06_wellformed` back).  The tokenizer reads the open construct to the end of the document, the
parser treats it like a closed one:

* the items in front of it yield their front-matter texts and tests as in `C06_wellformed`;
* unterminated front-matter (only while no content has started) yields its text;
* an unterminated foreign block or scrut block without command yields nothing (and no error);
* an unterminated scrut block with a command yields its test: shell expression, expectation
  lines, exit code, inline configuration as written, line number of its `$` line
  (`(render items).length` is the index of the tail's first line), and the title that the items
  have collected and no earlier test has used (`titleAfter`).

Nothing is dropped, nothing is invented, no error is raised because the closing line is missing. -/
theorem C06_wellformed_tail (env : Env) (items : List Item) (tail : Tail) (wf : ItemsWF env false items)
    (wft : tail.WF env (csAfterAll false items)) :
    parseLines env (render items ++ tail.lines)
      = .ok { docConfigs := docTexts items ++ tail.docTexts
              tests := expectedTests env items 0 none []
                ++ tailTests tail (render items).length (titleAfter env items none []).1 } :=
  parseLines_render_tail env items tail wf wft

/-- the same for the text of the document -/
theorem C06_wellformed_tail_text (env : Env) (text : List Char) (items : List Item) (tail : Tail)
    (h : splitLines text = render items ++ tail.lines) (wf : ItemsWF env false items)
    (wft : tail.WF env (csAfterAll false items)) :
    parseMarkdown env text
      = .ok { docConfigs := docTexts items ++ tail.docTexts
              tests := expectedTests env items 0 none []
                ++ tailTests tail (render items).length (titleAfter env items none []).1 } := by
  unfold parseMarkdown
  rw [h]
  exact parseLines_render_tail env items tail wf wft

/-- … in the vocabulary of `C06_wellformed` alone: the unterminated construct is read exactly as
if it were closed (`tail.closed` = the tail as an item). -/
theorem C06_wellformed_tail_as_closed (env : Env) (items : List Item) (tail : Tail)
    (wf : ItemsWF env false items) (wft : tail.WF env (csAfterAll false items)) :
    parseLines env (render items ++ tail.lines)
      = .ok { docConfigs := docTexts (items ++ tail.closed)
              tests := expectedTests env (items ++ tail.closed) 0 none [] } :=
  parseLines_render_tail_closed env items tail wf wft

/-- Removing the closing line of the last construct of a well-formed document (the closing `---`
of its front-matter, the closing fence of a foreign or scrut block) does not change the result. -/
theorem C06_last_closing_line_optional (env : Env) (items : List Item) (tail : Tail)
    (wf : ItemsWF env false (items ++ tail.closed)) :
    parseLines env (render items ++ tail.lines) = parseLines env (render (items ++ tail.closed)) :=
  last_closer_optional env items tail wf

/-- count, order and content of the tests are those of the blocks as written -/
theorem C06_wellformed_cores (env : Env) (items : List Item) :
    (expectedTests env items 0 none []).map TestCase.core = writtenCores items :=
  expectedTests_core env items 0 none []

/-- every reported line number is the 1-based number of a line `$ <first command line>` of the
document -/
theorem C06_wellformed_lines (env : Env) (items : List Item) :
    ∀ x ∈ expectedTests env items 0 none [],
      0 < x.lineNumber ∧ (render items)[x.lineNumber - 1]? = some ('$' :: ' ' :: x.command.headD []) := by
  intro x hx
  simpa using expectedTests_lines env items 0 none [] x hx

/-- Inserting an inert item `x` (prose line, foreign block, scrut block without command; well-formed
at its position) between the items of a well-formed document, behind the front-matter: the
document stays parseable, the document configuration and count, order and content (command,
expectations, exit code, configuration) of its tests are unchanged – only line numbers and titles
may move. -/
theorem C06_inert_items (env : Env) (pre post : List Item) (x : Item) (hx : x.inert = true)
    (hnf : noFront post = true) (wf : ItemsWF env false (pre ++ post))
    (hxwf : x.WF env (csAfterAll false pre)) :
    ∃ ts ts', parseLines env (render (pre ++ post)) = .ok { docConfigs := docTexts (pre ++ post), tests := ts } ∧
      parseLines env (render (pre ++ x :: post))
        = .ok { docConfigs := docTexts (pre ++ post), tests := ts' } ∧
      ts'.map TestCase.core = ts.map TestCase.core :=
  insert_inert env pre post x hx hnf wf hxwf

/-- … a prose line (not a fence start *by the code's definition*; `---` only once content has
started) -/
theorem C06_prose_inert (env : Env) (pre post : List Item) (p : Line)
    (hnf : noFront post = true) (wf : ItemsWF env false (pre ++ post))
    (hp : Item.WF env (csAfterAll false pre) (.prose p)) :
    ∃ ts ts', parseLines env (render (pre ++ post)) = .ok { docConfigs := docTexts (pre ++ post), tests := ts } ∧
      parseLines env (render (pre ++ .prose p :: post))
        = .ok { docConfigs := docTexts (pre ++ post), tests := ts' } ∧
      ts'.map TestCase.core = ts.map TestCase.core :=
  insert_inert env pre post (.prose p) rfl hnf wf hp

/-- … a foreign code block (whatever its body: `$` lines, shorter fences, `---`, …) -/
theorem C06_other_blocks_inert (env : Env) (pre post : List Item) (v : Fenced)
    (hnf : noFront post = true) (wf : ItemsWF env false (pre ++ post)) (hv : v.ForeignWF env) :
    ∃ ts ts', parseLines env (render (pre ++ post)) = .ok { docConfigs := docTexts (pre ++ post), tests := ts } ∧
      parseLines env (render (pre ++ .foreign v :: post))
        = .ok { docConfigs := docTexts (pre ++ post), tests := ts' } ∧
      ts'.map TestCase.core = ts.map TestCase.core :=
  insert_inert env pre post (.foreign v) rfl hnf wf hv

/-! ## fence lines and inline code spans -/

/-- **What the code takes for the start of a fenced block is what the property calls one**
(`isFenceLine`, `Model/MarkdownSpec.lean`: three or more backticks, then an info string that holds
no backtick in front of the inline configuration `{…}`): every other line – in particular a line that starts with an inline code span – is
not a fence start. -/
theorem C06_fence_iff_spec (l : Line) : extractCodeBlockStart l = .ok none ↔ isFenceLine l = false :=
  fence_iff_spec l

/-- … and the fence of a fence line is its run of backticks (which is what closes the block) -/
theorem C06_fence_is_ticks (l bt language config : Line)
    (h : extractCodeBlockStart l = .ok (some (bt, language, config))) :
    isFenceLine l = true ∧ bt = fenceTicks l := by
  refine ⟨?_, fencePure_fst l _ (fencePure_of h)⟩
  rw [← fencePure_isSome_iff, fencePure_of h]
  rfl

/-- **A line that starts with an inline code span is never a fence opener** (fix "the info string
of a fence holds no backtick in front of the inline configuration"): `n` backticks (any `n`, in
particular `n ≥ 3`), then text that does not start with a backtick and contains one in front of its
first `{` (`hbt`; a backtick behind a `{` belongs to the inline configuration of a fence line, see
`C06_backtick_in_config_is_fence`).  Before the fix such a line with `n ≥ 3` opened a
verbatim block that hid every test up to the next line starting with `n` backticks, or to the end
of the document. -/
theorem C06_inline_code_span_not_fence (n : Nat) (c : Char) (rest : Line) (hc : c ≠ '`') (hbt : '`' ∈ (c :: rest).takeWhile (· ≠ '{')) :
    extractCodeBlockStart (List.replicate n '`' ++ c :: rest) = .ok none :=
  inline_span_not_fence n c rest hc hbt

/-- … it is a well-formed prose item at every position of a document -/
theorem C06_inline_code_span_prose (env : Env) (cs : Bool) (n : Nat) (hn : 1 ≤ n) (c : Char) (rest : Line)
    (hc : c ≠ '`') (hbt : '`' ∈ (c :: rest).takeWhile (· ≠ '{')) :
    Item.WF env cs (.prose (List.replicate n '`' ++ c :: rest)) := by
  refine ⟨inline_span_not_fence n c rest hc hbt, fun _ h => ?_⟩
  obtain ⟨m, rfl⟩ : ∃ m, n = m + 1 := ⟨n - 1, by omega⟩
  simp [List.replicate_succ, frontMatterFence] at h

/-- **… and at document level it is a prose line like any other**: in a well-formed document, a
prose line `p` that is not a title line and not blank (a list item, a quote, …) can be replaced by
the inline-code-span line – the result of parsing is *identical*: same document configuration, same
tests with the same shell expressions, expectations, exit codes, configurations, titles and line
numbers.  Nothing is created, hidden or truncated.  (`isLetter '`' = false`: a backtick is not in
`\p{L}`.) -/
theorem C06_inline_code_span_like_prose (env : Env) (hl : env.isLetter '`' = false)
    (pre post : List Item) (p : Line) (n : Nat) (hn : 1 ≤ n) (c : Char) (rest : Line)
    (hc : c ≠ '`') (hbt : '`' ∈ (c :: rest).takeWhile (· ≠ '{'))
    (hpt : extractTitle env.isLetter p = none) (hpb : (trim p).isEmpty = false)
    (wf : ItemsWF env false (pre ++ .prose p :: post)) :
    parseLines env (render (pre ++ .prose (List.replicate n '`' ++ c :: rest) :: post))
      = parseLines env (render (pre ++ .prose p :: post)) := by
  obtain ⟨h1, h2⟩ := inline_span_no_title env hl n hn (c :: rest)
  exact replace_prose env pre post p _ (by rw [hpt, h1]) (by rw [hpb, h2])
    (C06_inline_code_span_prose env _ n hn c rest hc hbt) wf

/-- the general form: two prose lines that agree in "is a title line" and "is blank" are
interchangeable -/
theorem C06_prose_interchangeable (env : Env) (pre post : List Item) (p q : Line)
    (ht : extractTitle env.isLetter p = extractTitle env.isLetter q)
    (hb : (trim p).isEmpty = (trim q).isEmpty)
    (hq : Item.WF env (csAfterAll false pre) (.prose q))
    (wf : ItemsWF env false (pre ++ .prose p :: post)) :
    parseLines env (render (pre ++ .prose q :: post)) = parseLines env (render (pre ++ .prose p :: post)) :=
  replace_prose env pre post p q ht hb hq wf

/-- … inserted into a document it changes neither the document configuration nor count, order and
content of the tests (`C06_prose_inert` with its hypothesis discharged) -/
theorem C06_inline_code_span_inert (env : Env) (pre post : List Item) (n : Nat) (hn : 1 ≤ n) (c : Char)
    (rest : Line) (hc : c ≠ '`') (hbt : '`' ∈ (c :: rest).takeWhile (· ≠ '{'))
    (hnf : noFront post = true) (wf : ItemsWF env false (pre ++ post)) :
    ∃ ts ts', parseLines env (render (pre ++ post)) = .ok { docConfigs := docTexts (pre ++ post), tests := ts } ∧
      parseLines env (render (pre ++ .prose (List.replicate n '`' ++ c :: rest) :: post))
        = .ok { docConfigs := docTexts (pre ++ post), tests := ts' } ∧
      ts'.map TestCase.core = ts.map TestCase.core :=
  insert_inert env pre post _ rfl hnf wf (C06_inline_code_span_prose env _ n hn c rest hc hbt)

/-! ## non-vacuity and witnesses -/

/-- an environment for closed examples: ASCII letters, every expectation and YAML text accepted -/
def envAll : Env :=
  { isLetter := fun c => (65 ≤ c.toNat && c.toNat ≤ 90) || (97 ≤ c.toNat && c.toNat ≤ 122)
    expOk := fun _ => true, docCfgOk := fun _ => true, testCfgOk := fun _ => true }

def scrutFence : Line := "```scrut".toList

/-- the hypotheses of `C06_unterminated_test` are satisfiable -/
example : extractCodeBlockStart ['`', '`', '`', 's', 'c', 'r', 'u', 't']
    = .ok (some (['`', '`', '`'], ['s', 'c', 'r', 'u', 't'], [])) := by rfl

/-- a block for the non-vacuity of `Block.WF`: "```scrut {a}", "# c", "$ x", "> y", "o", "[7]",
"> z" (an expectation, not a continuation: it does not follow the command directly), closed by the
longer fence "`````" -/
def exampleBlock : Block :=
  { opener := ['`', '`', '`', 's', 'c', 'r', 'u', 't', ' ', '{', 'a', '}'], bt := ['`', '`', '`'],
    language := ['s', 'c', 'r', 'u', 't'], config := ['{', 'a', '}'], comments := [['#', ' ', 'c']],
    cmd := ['x'], more := [['y']], after := [['o'], ['[', '7', ']'], ['>', ' ', 'z']],
    closer := ['`', '`', '`', '`', '`'] }

/-- a foreign block "````py", "```scrut", "$ no", "```", "````" (a nested shorter scrut fence) -/
def exampleForeign : Fenced :=
  { opener := ['`', '`', '`', '`', 'p', 'y'], bt := ['`', '`', '`', '`'], language := ['p', 'y'], config := [],
    body := [['`', '`', '`', 's', 'c', 'r', 'u', 't'], ['$', ' ', 'n', 'o'], ['`', '`', '`']],
    closer := ['`', '`', '`', '`'] }

/-- a scrut block that holds a comment only -/
def exampleNoCommand : Fenced :=
  { opener := ['`', '`', '`', 's', 'c', 'r', 'u', 't'], bt := ['`', '`', '`'], language := ['s', 'c', 'r', 'u', 't'],
    config := [], body := [['#', ' ', 'n']], closer := ['`', '`', '`'] }

/-- blank line, front-matter, heading, foreign block, paragraph, block without command,
backtick-led prose, `---` as prose, block with a command -/
def exampleDoc : List Item :=
  [.prose [], .front [['a', ':', ' ', '1']], .prose ['#', ' ', 'T'], .foreign exampleForeign, .prose ['P'],
   .noCommand exampleNoCommand, .prose ['`', '`', 'x', '`', '`'], .prose ['-', '-', '-'], .block exampleBlock]

/-- the hypotheses of `C06_wellformed` are satisfiable, with every item kind -/
example : ItemsWF envAll false exampleDoc :=
  ⟨⟨rfl, by decide⟩, ⟨rfl, by decide, rfl⟩, ⟨rfl, by decide⟩, ⟨rfl, rfl, by decide, by decide, rfl⟩,
   ⟨rfl, by decide⟩, ⟨rfl, rfl, trivial, by decide, rfl, by decide⟩, ⟨rfl, by decide⟩, ⟨rfl, by decide⟩,
   ⟨rfl, rfl, rfl, by decide, rfl, by decide, by decide, by decide, rfl⟩, trivial⟩

/-- … and its tests: the title runs across the foreign block ("T" and "P" are one title), the
block without command keeps it, the `$` line is line 19 -/
example : expectedTests envAll exampleDoc 0 none []
    = [{ title := ['T', '\n', 'P'], command := [['x'], ['y']], exitCode := some 7,
         expectations := [['o'], ['>', ' ', 'z']], lineNumber := 19, config := some (some ['a']) }] := by rfl

example : parseLines envAll (render exampleDoc)
    = .ok { docConfigs := [['a', ':', ' ', '1']], tests := expectedTests envAll exampleDoc 0 none [] } := by rfl

/-! ### documents that end in an unterminated construct -/

/-- blank line, front-matter, heading, foreign block, paragraph: 11 lines, the title "T\nP" is
collected and not used -/
def exampleHead : List Item :=
  [.prose [], .front [['a', ':', ' ', '1']], .prose ['#', ' ', 'T'], .foreign exampleForeign, .prose ['P']]

example : ItemsWF envAll false exampleHead :=
  ⟨⟨rfl, by decide⟩, ⟨rfl, by decide, rfl⟩, ⟨rfl, by decide⟩, ⟨rfl, rfl, by decide, by decide, rfl⟩,
   ⟨rfl, by decide⟩, trivial⟩

/-- the hypotheses of `C06_wellformed_tail` are satisfiable with an unterminated scrut block with
a command (`exampleBlock` without its closing line: "```scrut {a}", "# c", "$ x", "> y", "o",
"[7]", "> z", end of the document) … -/
example : (Tail.openBlock exampleBlock).WF envAll (csAfterAll false exampleHead) :=
  ⟨rfl, rfl, rfl, by decide, by decide, by decide, by decide, rfl⟩

/-- … the document -/
example : render exampleHead ++ (Tail.openBlock exampleBlock).lines
    = [[], ['-', '-', '-'], ['a', ':', ' ', '1'], ['-', '-', '-'], ['#', ' ', 'T'],
       ['`', '`', '`', '`', 'p', 'y'], ['`', '`', '`', 's', 'c', 'r', 'u', 't'], ['$', ' ', 'n', 'o'], ['`', '`', '`'],
       ['`', '`', '`', '`'], ['P'],
       ['`', '`', '`', 's', 'c', 'r', 'u', 't', ' ', '{', 'a', '}'], ['#', ' ', 'c'], ['$', ' ', 'x'], ['>', ' ', 'y'],
       ['o'], ['[', '7', ']'], ['>', ' ', 'z']] := by rfl

/-- … and its result: the test of the unterminated block, `$` on line 14, with the title -/
example : parseLines envAll (render exampleHead ++ (Tail.openBlock exampleBlock).lines)
    = .ok { docConfigs := [['a', ':', ' ', '1']], tests :=
        [{ title := ['T', '\n', 'P'], command := [['x'], ['y']], exitCode := some 7,
           expectations := [['o'], ['>', ' ', 'z']], lineNumber := 14, config := some (some ['a']) }] } := by rfl

example : expectedTests envAll exampleHead 0 none []
      ++ tailTests (.openBlock exampleBlock) (render exampleHead).length (titleAfter envAll exampleHead none []).1
    = [{ title := ['T', '\n', 'P'], command := [['x'], ['y']], exitCode := some 7,
         expectations := [['o'], ['>', ' ', 'z']], lineNumber := 14, config := some (some ['a']) }] := by rfl

/-- the other tails: non-vacuity of `Tail.WF` … -/
example : (Tail.openFront [['a', ':', ' ', '1']]).WF envAll (csAfterAll false [.prose []]) :=
  ⟨rfl, by decide, rfl⟩
example : (Tail.openForeign exampleForeign).WF envAll (csAfterAll false exampleHead) :=
  ⟨rfl, rfl, by decide, by decide⟩
example : (Tail.openNoCommand exampleNoCommand).WF envAll (csAfterAll false exampleHead) :=
  ⟨rfl, rfl, trivial, by decide, by decide⟩

/-- … and one evaluated document per kind.  Unterminated front-matter behind a blank line: -/
example : parseLines envAll [[], ['-', '-', '-'], ['a', ':', ' ', '1']]
    = .ok { docConfigs := [['a', ':', ' ', '1']], tests := [] } := by rfl

/-- … the same lines once content has started are prose: no document configuration -/
example : parseLines envAll [['P'], ['-', '-', '-'], ['a', ':', ' ', '1']]
    = .ok { docConfigs := [], tests := [] } := by rfl

/-- unterminated foreign block: its `$` line is no test -/
example : parseLines envAll [['#', ' ', 'T'], ['`', '`', '`', 'p', 'y'], ['$', ' ', 'n', 'o']]
    = .ok { docConfigs := [], tests := [] } := by rfl

/-- … but an unterminated bare fence is an error like a closed one (excluded by `OpenForeignWF`) -/
example : parseLines envAll [['#', ' ', 'T'], ['`', '`', '`'], ['$', ' ', 'n', 'o']]
    = .error (.missingLanguage 1) := by rfl

/-- unterminated scrut block without a command -/
example : parseLines envAll [['#', ' ', 'T'], ['`', '`', '`', 's', 'c', 'r', 'u', 't'], ['#', ' ', 'c']]
    = .ok { docConfigs := [], tests := [] } := by rfl

/-- unterminated scrut block with a command: everything to the end of the document is its body -/
example : parseLines envAll
      [['#', ' ', 'T'], ['`', '`', '`', 's', 'c', 'r', 'u', 't'], ['#', ' ', 'c'], ['$', ' ', 'x'], ['o'], ['[', '7', ']']]
    = .ok { docConfigs := [], tests :=
        [{ title := ['T'], command := [['x']], exitCode := some 7, expectations := [['o']],
           lineNumber := 4, config := some none }] } := by rfl

/-- a normal document: title, comment, command, expectation, exit code, 1-based line of the `$` -/
theorem C06_example_document :
    parseLines envAll
      [['#', ' ', 'T'], [], ['`', '`', '`', 's', 'c', 'r', 'u', 't'], ['#', ' ', 'c'], ['$', ' ', 'x'],
       ['o'], ['[', '7', ']'], ['`', '`', '`']]
    = .ok { docConfigs := [], tests :=
        [{ title := ['T'], command := [['x']], exitCode := some 7, expectations := [['o']],
           lineNumber := 5, config := some none }] } := by rfl

/-- Repaired by fixes 0c1f918 / 67abd12 (was harness class `C06:state-leak`): a block that holds
only `[1]` is rejected at that line; its exit code is not handed to the test of the next block. -/
theorem C06_exit_code_without_command_rejected :
    parseLines envAll
      [['`', '`', '`', 's', 'c', 'r', 'u', 't'], ['[', '1', ']'], ['`', '`', '`'],
       ['`', '`', '`', 's', 'c', 'r', 'u', 't'], ['$', ' ', 'x'], ['`', '`', '`']]
    = .error (.lineParser (.bodyWithoutCommand 2)) := by rfl

/-- Repaired by fix d82a4b7 (was `C06:bare-long-fence`): a line of four backticks opens a code
block without language (which `parse` then reports like the bare "```"). -/
theorem C06_bare_long_fence :
    extractCodeBlockStart ['`', '`', '`', '`'] = .ok (some (['`', '`', '`', '`'], [], [])) := by rfl

/-- Repaired by fix d36f745 (was `C06:info-string-whitespace`, `C06:config-dropped`): white space
around the language and after the configuration is ignored. -/
theorem C06_info_string_whitespace :
    extractCodeBlockStart ['`', '`', '`', ' ', 's', 'c', 'r', 'u', 't', ' ', '{', 'a', '}', ' ']
      = .ok (some (['`', '`', '`'], ['s', 'c', 'r', 'u', 't'], ['{', 'a', '}'])) := by rfl

/-- Repaired by the fix "the info string of a fence holds no backtick" (was harness class
`C06:inline-code-span-hides-tests`): the prose line "```` ``` ```` x" (three backticks written as
an inline code span) is not a fence opener … -/
theorem C06_inline_code_span_example :
    extractCodeBlockStart "```` ``` ```` x".toList = .ok none := by rfl

example : isFenceLine "```` ``` ```` x".toList = false := by rfl
example : isFenceLine "````scrut {a}".toList = true ∧ fenceTicks "````scrut {a}".toList = "````".toList := by
  constructor <;> rfl
/-- the other lines of the harness' alphabet -/
example : extractCodeBlockStart "```a`b".toList = .ok none := by rfl
example : extractCodeBlockStart "``` `x` ```".toList = .ok none := by rfl
example : extractCodeBlockStart "````` ```` `".toList = .ok none := by rfl
/-- a brace BEHIND the backtick does not make it a fence line -/
example : extractCodeBlockStart "```` ``` ```` {x}".toList = .ok none := by rfl
/-- it is an instance of `C06_inline_code_span_not_fence` -/
example : "```` ``` ```` x".toList = List.replicate 4 '`' ++ ' ' :: "``` ```` x".toList := by rfl
example : '`' ∈ (' ' :: "``` ```` x".toList).takeWhile (· ≠ '{') := by decide
example : '`' ∈ (' ' :: "``` ```` {x}".toList).takeWhile (· ≠ '{') := by decide

/-- A backtick inside the inline configuration (behind the first `{`) is part of the configuration:
the line is a fence line with that configuration (C17: `{environment: {K: "`"}}` is read back).
Between the first fix (any backtick behind the fence) and its follow-up this line was prose. -/
theorem C06_backtick_in_config_is_fence :
    extractCodeBlockStart "```scrut {environment: {K: \"`\"}}".toList
      = .ok (some ("```".toList, "scrut".toList, "{environment: {K: \"`\"}}".toList)) := by rfl

/-- … and the test behind it is read (before the fix: no test, the rest of the document was the
body of an unterminated verbatim block of language "```") -/
theorem C06_inline_code_span_document :
    parseLines envAll
      ["# T".toList, "```` ``` ```` x".toList, "```scrut".toList, "$ x".toList, "o".toList, "```".toList]
    = .ok { docConfigs := [], tests :=
        [{ title := ['T'], command := [['x']], exitCode := none, expectations := [['o']],
           lineNumber := 4, config := some none }] } := by rfl

/-! ## a line `[digits]` is an exit code or an error, never an expectation -/

/-- **C06 (no exit-code line among the expectations)**, for *every* document that parses: no
expectation of any test has the form `^\[[0-9]+\]$` -- such a line is the exit code of the test
or, with a number above `i32::MAX`, the error `exitCodeOutOfRange` (before that fix it was read
as an expectation of kind equal).  The step-level statement is `C07_exit_code_line_step`
(shared `LineParser`). -/
theorem C06_exit_code_line_never_expectation (env : Env) (text : List Char) (p : Parsed)
    (h : parseMarkdown env text = .ok p) :
    ∀ t ∈ p.tests, ∀ e ∈ t.expectations, isExitCodeForm e = false :=
  parseLines_noExitForm env (splitLines text) h

/-- **regression** (witness of `C06:exit-code-out-of-range-becomes-expectation`) -/
theorem C06_exit_code_out_of_range_regression :
    parseLines envAll ["```scrut".toList, "$ x".toList, "o".toList, "[2147483648]".toList, "```".toList]
    = .error (.lineParser (.exitCodeOutOfRange 4)) := by rfl

/-- `i32::MAX` itself is an exit code -/
example :
    parseLines envAll ["```scrut".toList, "$ x".toList, "[2147483647]".toList, "```".toList]
    = .ok { docConfigs := [], tests :=
        [{ title := [], command := [['x']], exitCode := some 2147483647, expectations := [],
           lineNumber := 2, config := some none }] } := by rfl

end Scrut.Props.C06
