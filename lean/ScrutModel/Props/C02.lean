import ScrutModel.Lemmas.DiffC03iff
import ScrutModel.Lemmas.Newline
/-!
# C02 — The diff accounts for every output line and every expectation exactly once

`linesOf d` are the line indices mentioned by the result in result order (matched or unexpected),
`idxOf d` the expectation indices mentioned (matched or unmatched).
Termination of the comparison is the termination proof of `Scrut.Diff.loop` itself (measure
`(n - ei) + (m - li)`).
-/
namespace Scrut.Props.C02
open Scrut.Diff

/-- **C02**: conservation of lines and expectations, for every `n`, `m`, quantifiers and matrix. -/
theorem C02_conservation (n m : Nat) (es : Nat → Exp) (mt : Nat → Nat → Bool) :
    let d := diff n m es mt
    -- every output line exactly once, in output order
    linesOf d = List.range m ∧
    -- expectations in order, each at most once, all in range
    (idxOf d).Pairwise (· < ·) ∧ (∀ i ∈ idxOf d, i < n) ∧
    -- every non-optional expectation is mentioned (so: exactly once)
    (∀ i, i < n → (es i).optional = false → i ∈ idxOf d) ∧
    -- matched entries really match, are non-empty, and are single lines unless multiline
    (∀ i ls, DL.matched i ls ∈ d →
        ls ≠ [] ∧ (∀ l ∈ ls, l < m ∧ mt i l = true) ∧ ((es i).multiline = false → ls.length = 1)) ∧
    -- only non-optional expectations are ever reported unmatched
    (∀ i, DL.unmatched i ∈ d → (es i).optional = false) ∧
    -- unexpected entries are non-empty
    (∀ ls, DL.unexpected ls ∈ d → ls ≠ []) := by
  intro d
  have wf := diff_wf n m es mt
  refine ⟨?_, wf.idx_sorted, wf.idx_lt, wf.idx_all, ?_, ?_, ?_⟩
  · rw [wf.cover]; simp [rangeFrom]
  · intro i ls h
    have := wf.good _ h
    exact ⟨this.2.1, this.2.2.1, this.2.2.2⟩
  · intro i h
    exact (wf.good _ h).2
  · intro ls h
    exact wf.good _ h

/-- **C02** (no index panic): every index the Rust loop dereferences is in range — inside the loop
by its guard, and after the loop `expectations[expectation_index]` is only read when a multiline
run is open, in which case the index is in range; all line and expectation indices stored in the
result are in range. -/
theorem C02_indices_in_range (n m : Nat) (es : Nat → Exp) (mt : Nat → Nat → Bool) :
    (∀ s, (loop n m es mt 0 0 none []).2.2.1 = some s → (loop n m es mt 0 0 none []).1 < n) ∧
    (loop n m es mt 0 0 none []).1 ≤ n ∧ (loop n m es mt 0 0 none []).2.1 ≤ m ∧
    (∀ i ls, DL.matched i ls ∈ diff n m es mt → i < n ∧ ∀ l ∈ ls, l < m) ∧
    (∀ i, DL.unmatched i ∈ diff n m es mt → i < n) := by
  have hinv := loop_inv n m es mt 0 0 none [] (linv_init n m es mt)
  have wf := diff_wf n m es mt
  refine ⟨fun s hs => (hinv.open_ s hs).2.1, hinv.ei_le, hinv.li_le, ?_, ?_⟩
  · intro i ls h
    have := wf.good _ h
    exact ⟨this.1, fun l hl => (this.2.2.1 l hl).1⟩
  · intro i h
    exact (wf.good _ h).1

/-- **C02** (lines): the lines the comparison works on are exactly the output cut after every
LF — they concatenate back to the output (with or without final newline, empty output included),
each is non-empty and contains LF only as its last byte. -/
theorem C02_lines_partition_output (bs : List UInt8) :
    (Scrut.Newline.splitAtNewline bs).flatten = bs ∧
    ∀ l ∈ Scrut.Newline.splitAtNewline bs, Scrut.Newline.IsLine l :=
  ⟨Scrut.Newline.splitAtNewline_flatten bs, Scrut.Newline.splitAtNewline_isLine bs⟩

/-! Non-vacuity: the doc-comment example of `src/diff.rs` (expectations `foo1`, `bar`, `baz`
against `bla foo1 foo2 foo3 bar`) — all three entry kinds occur. -/
example : diff 3 5 exEs exMt =
    [.unexpected [0], .matched 0 [1], .unexpected [2, 3], .matched 1 [4], .unmatched 2] := by
  simp [diff, loop, exEs, exMt, rangeFrom, unmatchedOf, findFrom, List.range, List.range.loop]

end Scrut.Props.C02
