import ScrutModel.Lemmas.Pretty
/-!
# C19 — Every renderer handles every outcome and shows every difference

Model: `Scrut.Pretty` (Model/Pretty.lean) — the decision logic of `render_malformed_output`
(`prettyItems`), the same with every panicking operation explicit (`prettyRender`: `line_base`,
the `+ max_surrounding_lines` additions, `lines[0]`, the `Decorator` padding `width - digits`;
`none` = panic), `UnifiedDiff::render` (`unifiedEntries`), `higlight_tailing_spaces`
(`highlight`, string slices as `splitAtByte`), and the outer loops (`prettySections`,
`diffSections`). JSON/YAML well-formedness rests on serde (trusted, checked by parsing the real
output in the harness); ANSI styling and text escaping are not modelled.

Full-strength statement of "never panics": `∀ c d, (prettyRender c d).isSome`. It is FALSE for
hand-built diffs (see `C19_panics_outside_domain`): the library functions take any `Diff`. It holds
on `Dom` (indices inside the test case, line numbers below `count_output_lines`, matched entries
of single-line expectations non-empty, `max_surrounding_lines + len < 2^64`), and every diff the
matcher can produce is in `Dom` (`C19_no_panic`, via C02's `WF`).
-/
namespace Scrut.Props.C19
open Scrut.Pretty Scrut.Diff

/-- **C19** (pretty, all shown): for every diff and every `max_surrounding_lines`, every unmatched
expectation and every line of every unexpected block is among the items the pretty renderer emits. -/
theorem C19_all_shown_pretty (msl : Nat) (d : List DL) :
    (∀ i, DL.unmatched i ∈ d → Item.unm i ∈ prettyItems msl d) ∧
    (∀ ls l, DL.unexpected ls ∈ d → l ∈ ls → Item.unx l ∈ prettyItems msl d) :=
  ⟨fun i h => unm_mem_itemsGo msl i d 0 none h, fun ls l h hl => unx_mem_itemsGo msl l ls hl d 0 none h⟩

/-- … and whenever the checked rendering succeeds, the corresponding `-` / `+` lines with their
displayed numbers are in the output. -/
theorem C19_all_shown_rendered (c : Cfg) (d : List DL) (w : Nat) (lines : List Line)
    (h : prettyRender c d = some (w, lines)) :
    ∃ base, lineBase c = some base ∧
      (∀ i, DL.unmatched i ∈ d → Line.unm (base + i + 1) (c.ml i) ∈ lines) ∧
      (∀ ls l, DL.unexpected ls ∈ d → l ∈ ls → Line.unx (base + l + 1) ∈ lines) :=
  rendered_shows c d w lines h

/-- nothing is invented: every emitted item is an entry of the diff (or the `...` marker) -/
theorem C19_only_differences_pretty (msl : Nat) (d : List DL) :
    ∀ x ∈ prettyItems msl d, Item.From d x :=
  itemsGo_sound msl d 0 none

/-- **C19** (diff renderer, all shown): every unmatched expectation is a `-` line and every
unexpected output line a `+` line of the unified diff. -/
theorem C19_all_shown_unified (ln : Nat) (d : List DL) :
    (∀ i, DL.unmatched i ∈ d → UE.minus i ∈ unifiedEntries ln d) ∧
    (∀ ls l, DL.unexpected ls ∈ d → l ∈ ls → UE.plus l ∈ unifiedEntries ln d) := by
  have := unifiedGo_shows ln d 0 {} US.inv_empty
  exact ⟨fun i h => this.1 i (Or.inr h), fun ls l h hl => this.2 l (Or.inr ⟨ls, h, hl⟩)⟩

/-- **C19** (no panic, explicit domain): none of the checked operations of the pretty renderer
fails on `Dom`. -/
theorem C19_no_panic_dom (c : Cfg) (d : List DL) (h : Dom c d) : (prettyRender c d).isSome :=
  prettyRender_isSome c d h

/-- **C19** (no panic): for every diff satisfying C02's well-formedness — so for every diff the
matcher can produce — with the test case's own expectations, any line numbering mode and any
`max_surrounding_lines` that does not overflow usize. -/
theorem C19_no_panic (n m : Nat) (es : Nat → Exp) (mt : Nat → Nat → Bool) (d : List DL)
    (wf : WF n m es mt d) (msl : Nat) (abs : Bool) (lineNumber shellLines : Nat)
    (hs : 1 ≤ shellLines) (hm : msl + d.length < USIZE) :
    (prettyRender { msl, abs, lineNumber, shellLines, nexp := n, ml := fun i => (es i).multiline } d).isSome :=
  prettyRender_isSome _ d (dom_of_WF n m es mt d wf msl abs lineNumber shellLines hs hm)

/-- the hypothesis of `C19_no_panic` is met by the matcher's result (C02) -/
theorem C19_no_panic_matcher (n m : Nat) (es : Nat → Exp) (mt : Nat → Nat → Bool)
    (msl : Nat) (abs : Bool) (lineNumber shellLines : Nat)
    (hs : 1 ≤ shellLines) (hm : msl + (diff n m es mt).length < USIZE) :
    (prettyRender { msl, abs, lineNumber, shellLines, nexp := n, ml := fun i => (es i).multiline }
      (diff n m es mt)).isSome :=
  C19_no_panic n m es mt _ (diff_wf n m es mt) msl abs lineNumber shellLines hs hm

/-- the domain is necessary: hand-built diffs outside it make the real arithmetic fail
(an index beyond the test case's expectations: `width - digits` underflows; a matched entry of a
single-line expectation without lines: `lines[0]`; `max_surrounding_lines` near `usize::MAX`). -/
theorem C19_panics_outside_domain :
    prettyRender { msl := 0, abs := false, lineNumber := 1, shellLines := 1, nexp := 1, ml := fun _ => false }
      [DL.unmatched 9] = none ∧
    prettyRender { msl := 0, abs := false, lineNumber := 1, shellLines := 1, nexp := 1, ml := fun _ => false }
      [DL.matched 0 []] = none ∧
    prettyRender { msl := USIZE - 1, abs := false, lineNumber := 1, shellLines := 1, nexp := 2, ml := fun _ => false }
      [DL.unmatched 0, DL.unexpected [0], DL.matched 1 [1]] = none := by
  refine ⟨?_, ?_, ?_⟩
  · simp [prettyRender, lineBase, mslOk, prettyItems, itemsGo, width, countOut, allSome, display, pad, subU, digits]
  · simp [prettyRender, lineBase, mslOk, prettyItems, itemsGo, ctxItems, nextErr, width, countOut, allSome, display]
  · simp [prettyRender, lineBase, mslOk, nextErr, addU, USIZE]

/-- **C19** (no section for a pass): an outcome that gets a section in the pretty rendering is
neither passed nor skipped; one that gets a section in the diff rendering failed on output, exit
code or internally. -/
theorem C19_no_section_for_pass (os : List OC) :
    (∀ p ∈ prettySections os, ∃ o ∈ os, o.pos = p ∧ o.kind ≠ .ok ∧ o.kind ≠ .skipped) ∧
    (∀ l, diffSections os = some l → ∀ p ∈ l,
      ∃ o ∈ os, o.pos = p ∧ (o.kind = .malformed ∨ o.kind = .exitcode ∨ o.kind = .internal)) :=
  ⟨prettySections_not_pass os, diffSections_not_pass os⟩

/-- every failed outcome gets its section in the pretty rendering -/
theorem C19_failed_has_section (os : List OC) (o : OC) (ho : o ∈ os)
    (h1 : o.kind ≠ .ok) (h2 : o.kind ≠ .skipped) : o.pos ∈ prettySections os :=
  prettySections_complete os o ho h1 h2

/-- **C19** (space index): `space_start_index` is a character boundary of every string: the two
slices of `higlight_tailing_spaces` succeed and are the text without / the trailing white space. -/
theorem C19_space_index (cs : List Char) :
    splitAtByte cs (spaceStartIndex cs) = some (trimEndWs cs, trailingWs cs) ∧
    highlight cs = some (trimEndWs cs ++ (trailingWs cs).map renderSpace) :=
  ⟨split_at_spaceStart cs, highlight_eq cs⟩

/-- the defect repaired by fix 6e80f5e (character count used as byte offset) is a slice inside
U+3000 in the model of the old code -/
theorem C19_old_space_index_failed_on_witness :
    highlightOld ['f', 'o', 'o', '　'] = none ∧ highlight ['f', 'o', 'o', '　'] = some ['f', 'o', 'o', '⍰'] := by
  constructor <;> decide

/-! Non-vacuity -/

/-- `Dom` is satisfiable with all three entry kinds, absolute numbers and surrounding lines -/
example : Dom { msl := 1, abs := true, lineNumber := 98, shellLines := 2, nexp := 3, ml := fun i => i == 1 }
    [.unexpected [0], .matched 0 [1], .matched 1 [2, 3], .unmatched 2] := by
  refine ⟨by simp, by simp [USIZE], ?_⟩
  intro e he
  simp at he
  rcases he with rfl | rfl | rfl | rfl <;> simp [EntryOk, countOut]

/-- the surrounding-lines logic on a concrete diff: one line of context each side, then `...` -/
example : prettyItems 1 [.matched 0 [0], .matched 1 [1], .unmatched 2, .matched 3 [2], .matched 4 [3], .matched 5 [4]] =
    [.ctx 1 [1], .unm 2, .ctx 3 [2], .ell] := by
  simp [prettyItems, itemsGo, ctxItems, nextErr, isErr]

example : unifiedEntries 10 [.unexpected [0], .matched 0 [1], .unmatched 1, .unexpected [2, 3]] =
    [.hdr 10 0 10 1, .plus 0, .hdr 11 1 11 2, .minus 1, .plus 2, .plus 3] := by
  simp [unifiedEntries, unifiedGo, hunk, flushed, Option.orElse]

end Scrut.Props.C19
