/-!
# Model of the three Cram-compat clean-up passes of `RegexRule::make` (`src/rules/regex.rs`)

`make e` compiles `^(?:clean e)$` with
`clean = escape_misused_character_class ∘ escape_misused_repetition_quantifier ∘ cleanup_unrecognized_escape_sequences`.
All three work on `char`s. Where the Rust code looks one character ahead after a backslash
(`chars.next()` / `chars.get(index)`), the model carries a flag `esc` = "the previous character was a
backslash whose partner has not been seen yet"; where `Regex::replace_all` jumps over a match, the
model carries the number of characters still to skip (`skip`). Both keep the functions
structurally recursive on the text.
-/
namespace Scrut.RegexCleanup

/-! ## pass 1: `cleanup_unrecognized_escape_sequences` -/

/-- the characters after which a backslash is kept -/
def recognized (c : Char) : Bool :=
  c = '[' || c = ']' || c = '{' || c = '}' || c = '(' || c = ')' || c = '|' || c = '?' || c = '*' ||
  c = '+' || c = '-' || c = '.' || c = '^' || c = '$' || c = '\\' ||
  (decide ('a' ≤ c) && decide (c ≤ 'z')) || (decide ('A' ≤ c) && decide (c ≤ 'Z'))

/-- `\x` keeps its backslash only for recognized `x`; a trailing lone backslash is kept -/
def escPass : List Char → Bool → List Char
  | [], false => []
  | [], true => ['\\']
  | c :: rest, false => if c = '\\' then escPass rest true else c :: escPass rest false
  | c :: rest, true => if recognized c then '\\' :: c :: escPass rest false else c :: escPass rest false

/-! ## pass 2: `escape_misused_repetition_quantifier` -/

def isDigit (c : Char) : Bool := decide ('0' ≤ c) && decide (c ≤ '9')

/-- text after a `{`: the body of `[0-9]+(?:,[0-9]*)?` if it is directly followed by `}`
(`{3}`, `{3,6}` and the open-ended `{3,}`) -/
def matchQuant (rest : List Char) : Option (List Char) :=
  let d1 := rest.takeWhile isDigit
  let after1 := rest.dropWhile isDigit
  if d1.isEmpty then none else
  match after1 with
  | '}' :: _ => some d1
  | ',' :: after2 =>
    let d2 := after2.takeWhile isDigit
    match after2.dropWhile isDigit with
    | '}' :: _ => some (d1 ++ ',' :: d2)
    | _ => none
  | _ => none

/-- pass 2.1: `VALID_REPETITION_QUANTIFIER.replace_all(e, "<<<<$1>>>>")`, leftmost, non-overlapping -/
def protect : List Char → Nat → List Char
  | [], _ => []
  | _ :: rest, skip + 1 => protect rest skip
  | c :: rest, 0 =>
    if c = '{' then
      match matchQuant rest with
      | some inner => ['<', '<', '<', '<'] ++ inner ++ ['>', '>', '>', '>'] ++ protect rest (inner.length + 1)
      | none => c :: protect rest 0
    else c :: protect rest 0

/-- pass 2.2: every `{` / `}` that is not the partner of a backslash gets one -/
def braceEsc : List Char → Bool → List Char
  | [], _ => []
  | c :: rest, true => c :: braceEsc rest false
  | c :: rest, false =>
    if c = '\\' then c :: braceEsc rest true
    else if c = '{' ∨ c = '}' then '\\' :: c :: braceEsc rest false
    else c :: braceEsc rest false

/-- `(.+?)>>>>` at the start of the text: the shortest non-empty newline-free run followed by `>>>>` -/
def findClose : List Char → Option (List Char)
  | [] => none
  | x :: xs =>
    if x = '\n' then none
    else if xs.take 4 = ['>', '>', '>', '>'] then some [x]
    else (findClose xs).map (x :: ·)

/-- pass 2.3: `MOVED_REPETITION_QUANTIFIER.replace_all(e, "{$1}")` — also rewrites a `<<<<…>>>>`
that the user wrote -/
def restore : List Char → Nat → List Char
  | [], _ => []
  | _ :: rest, skip + 1 => restore rest skip
  | c :: rest, 0 =>
    if c = '<' ∧ rest.take 3 = ['<', '<', '<'] then
      match findClose (rest.drop 3) with
      | some inner => '{' :: inner ++ '}' :: restore rest (3 + inner.length + 4)
      | none => c :: restore rest 0
    else c :: restore rest 0

def quantPass (e : List Char) : List Char := restore (braceEsc (protect e 0) false) 0

/-! ## pass 3: `escape_misused_character_class` -/

/-- `actual_closing_index(idx).is_some()`: scanning from `idx`, an unescaped `]` comes before any
unescaped `[` ("unescaped" = the character in front is not a backslash) -/
def closesLater (prev : Char) : List Char → Bool
  | [] => false
  | x :: xs =>
    if prev ≠ '\\' ∧ x = ']' then true
    else if prev ≠ '\\' ∧ x = '[' then false
    else closesLater x xs

def ccPass : List Char → Bool → Bool → List Char
  | [], _, _ => []
  | c :: rest, inCC, true => c :: ccPass rest inCC false
  | c :: rest, inCC, false =>
    if c = '\\' then c :: ccPass rest inCC true
    else if c = '[' then
      if inCC then '\\' :: c :: ccPass rest true false else c :: ccPass rest true false
    else if c = ']' then
      if inCC ∧ closesLater ']' rest = false then c :: ccPass rest false false
      else '\\' :: c :: ccPass rest inCC false
    else c :: ccPass rest inCC false

/-- the expression `RegexRule` stores and compiles -/
def regexClean (e : List Char) : List Char :=
  ccPass (quantPass (escPass e false)) false false

end Scrut.RegexCleanup
