import ScrutModel.Model.Duration
/-!
# `TestCaseConfig::to_yaml_one_liner` and the flow-mapping subset of YAML it has to satisfy

* `toOneLiner` — src/config.rs `to_yaml_one_liner`, `yaml_quoted` (= `serde_json::to_string` of a
  string), `yaml_plain_or_quoted`, character for character. It is written as "collect the
  `key: value` pieces (`toAst`), join with `, `, wrap in braces" exactly like the Rust code.
* `parseFlow` — what `serde_yaml::from_str::<TestCaseConfig>` does on a one-line flow mapping, for
  the SUBSET: plain scalars, double-quoted scalars with escapes, one nested `{}`; libyaml's reader
  check (`readable`), plain-scalar termination rules in flow context, serde_yaml's scalar
  resolution (null / bool / int / float-like) and the typed layer of `TestCaseConfig`
  (`parse_duration_opt`, `TestCaseWait::parse`, duplicate fields, unknown keys ignored).
  Inputs containing a YAML line break character are `outside` (line folding is not modelled).
-/
namespace Scrut.Yaml
open Scrut.Dur

inductive Stream | stdout | stderr | combined
  deriving DecidableEq, Repr

structure Wait where
  timeout : Nat × Nat
  path : Option (List Char)
  deriving DecidableEq, Repr

/-- `TestCaseConfig`; durations are `(secs, nanos)`, the `BTreeMap` is its ascending entry list -/
structure Cfg where
  outputStream : Option Stream := none
  keepCrlf : Option Bool := none
  timeout : Option (Nat × Nat) := none
  detached : Option Bool := none
  skipCode : Option Int := none
  stripAnsi : Option Bool := none
  wait : Option Wait := none
  env : List (List Char × List Char) := []
  deriving DecidableEq, Repr

/-! ## rendering -/

def hexDigit (n : Nat) : Char := if n < 10 then Char.ofNat (48 + n) else Char.ofNat (87 + n)

/-- `needs_yaml_escape`: characters JSON leaves alone but a YAML stream rejects or folds -/
def needsYamlEscape (c : Char) : Bool :=
  (0x7f ≤ c.toNat && c.toNat ≤ 0x9f) || c.toNat = 0x2028 || c.toNat = 0x2029 || c.toNat = 0xfffe ||
  c.toNat = 0xffff

/-- `format!("\\u{:04x}", n)` for `n < 0x10000` -/
def uEscape (n : Nat) : List Char :=
  ['\\', 'u', hexDigit (n / 4096), hexDigit (n / 256 % 16), hexDigit (n / 16 % 16), hexDigit (n % 16)]

/-- serde_json string escaping, then `yaml_quoted`'s rewrite of `needs_yaml_escape` characters -/
def jsonEscape (c : Char) : List Char :=
  if c = '"' then ['\\', '"']
  else if c = '\\' then ['\\', '\\']
  else if c.toNat = 8 then ['\\', 'b']
  else if c.toNat = 12 then ['\\', 'f']
  else if c.toNat = 10 then ['\\', 'n']
  else if c.toNat = 13 then ['\\', 'r']
  else if c.toNat = 9 then ['\\', 't']
  else if c.toNat < 32 then ['\\', 'u', '0', '0', hexDigit (c.toNat / 16), hexDigit (c.toNat % 16)]
  else if needsYamlEscape c then uEscape c.toNat
  else [c]

def jsonBody : List Char → List Char
  | [] => []
  | c :: s => jsonEscape c ++ jsonBody s

/-- `yaml_quoted` -/
def jsonQuote (s : List Char) : List Char := '"' :: (jsonBody s ++ ['"'])

def isAsciiAlpha (c : Char) : Bool := ('a' ≤ c && c ≤ 'z') || ('A' ≤ c && c ≤ 'Z')
def isAsciiAlnum (c : Char) : Bool := isAsciiAlpha c || ('0' ≤ c && c ≤ '9')
def lowerAscii (c : Char) : Char := if 'A' ≤ c && c ≤ 'Z' then Char.ofNat (c.toNat + 32) else c
def isNameChar (c : Char) : Bool := isAsciiAlnum c || c == '_' || c == '.' || c == '/' || c == '-'

def reserved : List (List Char) :=
  [['t', 'r', 'u', 'e'], ['f', 'a', 'l', 's', 'e'], ['n', 'u', 'l', 'l'], ['y', 'e', 's'], ['n', 'o'],
   ['o', 'n'], ['o', 'f', 'f'], ['y'], ['n']]

def isPlainSafe (s : List Char) : Bool :=
  (match s with
   | [] => false
   | c :: _ => isAsciiAlpha c || c == '_' || c == '/') &&
  s.all isNameChar && !(reserved.contains (s.map lowerAscii))

inductive Scalar
  | plain (s : List Char)
  | quoted (s : List Char)
  deriving DecidableEq, Repr

inductive Val
  | sc (s : Scalar)
  | map (kvs : List (Scalar × Scalar))
  deriving DecidableEq, Repr

abbrev Ast := List (Scalar × Val)

def Scalar.text : Scalar → List Char
  | .plain s => s
  | .quoted s => s

def Scalar.render : Scalar → List Char
  | .plain s => s
  | .quoted s => jsonQuote s

/-- `yaml_plain_or_quoted` -/
def plainOrQuoted (s : List Char) : Scalar := if isPlainSafe s then .plain s else .quoted s

/-- `pieces.join(", ")` -/
def joinComma : List (List Char) → List Char
  | [] => []
  | [a] => a
  | a :: b :: r => a ++ (',' :: ' ' :: joinComma (b :: r))

def renderKS (kv : Scalar × Scalar) : List Char := kv.1.render ++ (':' :: ' ' :: kv.2.render)

def Val.render : Val → List Char
  | .sc s => s.render
  | .map kvs => '{' :: (joinComma (kvs.map renderKS) ++ ['}'])

def renderKV (kv : Scalar × Val) : List Char := kv.1.render ++ (':' :: ' ' :: kv.2.render)

def Ast.render (a : Ast) : List Char := '{' :: (joinComma (a.map renderKV) ++ ['}'])

/-- Rust `{}` of an `i32` -/
def intDigits (i : Int) : List Char :=
  match i with
  | .ofNat n => natDigits n
  | .negSucc n => '-' :: natDigits (n + 1)

def boolText (b : Bool) : List Char := if b then ['t', 'r', 'u', 'e'] else ['f', 'a', 'l', 's', 'e']

def Stream.text : Stream → List Char
  | .stdout => ['s', 't', 'd', 'o', 'u', 't']
  | .stderr => ['s', 't', 'd', 'e', 'r', 'r']
  | .combined => ['c', 'o', 'm', 'b', 'i', 'n', 'e', 'd']

inductive Field | os | kc | to | de | sk | sa | wt | env
  deriving DecidableEq, Repr

def Field.name : Field → List Char
  | .os => ['o', 'u', 't', 'p', 'u', 't', '_', 's', 't', 'r', 'e', 'a', 'm']
  | .kc => ['k', 'e', 'e', 'p', '_', 'c', 'r', 'l', 'f']
  | .to => ['t', 'i', 'm', 'e', 'o', 'u', 't']
  | .de => ['d', 'e', 't', 'a', 'c', 'h', 'e', 'd']
  | .sk => ['s', 'k', 'i', 'p', '_', 'd', 'o', 'c', 'u', 'm', 'e', 'n', 't', '_', 'c', 'o', 'd', 'e']
  | .sa => ['s', 't', 'r', 'i', 'p', '_', 'a', 'n', 's', 'i', '_', 'e', 's', 'c', 'a', 'p', 'i', 'n', 'g']
  | .wt => ['w', 'a', 'i', 't']
  | .env => ['e', 'n', 'v', 'i', 'r', 'o', 'n', 'm', 'e', 'n', 't']

def kTimeout : List Char := ['t', 'i', 'm', 'e', 'o', 'u', 't']
def kPath : List Char := ['p', 'a', 't', 'h']

def durText (d : Nat × Nat) : List Char := formatDuration d.1 d.2

def waitVal (w : Wait) : Val :=
  match w.path with
  | some p => .map [(.plain kTimeout, .plain (durText w.timeout)), (.plain kPath, plainOrQuoted p)]
  | none => .sc (.plain (durText w.timeout))

def envVal (e : List (List Char × List Char)) : Val :=
  .map (e.map fun kv => (plainOrQuoted kv.1, .quoted kv.2))

/-- one optional `output.push(...)` -/
def optEntry {α : Type} (o : Option α) (f : Field) (v : α → Val) (tail : Ast) : Ast :=
  match o with
  | none => tail
  | some a => (.plain f.name, v a) :: tail

/-- the pieces pushed by `to_yaml_one_liner`, in its order -/
def toAst (c : Cfg) : Ast :=
  optEntry c.outputStream .os (fun s => .sc (.plain s.text)) <|
  optEntry c.keepCrlf .kc (fun b => .sc (.plain (boolText b))) <|
  optEntry c.timeout .to (fun d => .sc (.plain (durText d))) <|
  optEntry c.detached .de (fun b => .sc (.plain (boolText b))) <|
  optEntry c.skipCode .sk (fun i => .sc (.plain (intDigits i))) <|
  optEntry c.stripAnsi .sa (fun b => .sc (.plain (boolText b))) <|
  optEntry c.wait .wt waitVal <|
  (if c.env.isEmpty then [] else [(.plain Field.env.name, envVal c.env)])

/-- `TestCaseConfig::to_yaml_one_liner` -/
def toOneLiner (c : Cfg) : List Char := Ast.render (toAst c)

/-! ## the flow subset of YAML (libyaml scanner rules) -/

/-- libyaml `IS_BREAK` -/
def isBreak (c : Char) : Bool :=
  c.toNat = 10 || c.toNat = 13 || c.toNat = 0x85 || c.toNat = 0x2028 || c.toNat = 0x2029

/-- characters the libyaml reader accepts ("control characters are not allowed" otherwise) -/
def readable (c : Char) : Bool :=
  let n := c.toNat
  n = 9 || n = 10 || n = 13 || (0x20 ≤ n && n ≤ 0x7E) || n = 0x85 || (0xA0 ≤ n && n ≤ 0xD7FF) ||
  (0xE000 ≤ n && n ≤ 0xFFFD) || (0x10000 ≤ n && n ≤ 0x10FFFF)

def isBlank (c : Char) : Bool := c = ' ' || c = '\t'
def isFlowInd (c : Char) : Bool := c = ',' || c = '[' || c = ']' || c = '{' || c = '}'

def skipWs : List Char → List Char
  | [] => []
  | c :: r => if isBlank c then skipWs r else c :: r

def hexv (c : Char) : Option Nat :=
  if '0' ≤ c ∧ c ≤ '9' then some (c.toNat - 48)
  else if 'a' ≤ c ∧ c ≤ 'f' then some (c.toNat - 87)
  else if 'A' ≤ c ∧ c ≤ 'F' then some (c.toNat - 55)
  else none

def hexNum : List Char → Option Nat
  | [] => some 0
  | l => l.foldlM (fun acc c => (hexv c).map (acc * 16 + ·)) 0

def scalarValue (n : Nat) : Option Char :=
  if (0xD800 ≤ n ∧ n ≤ 0xDFFF) ∨ n > 0x10FFFF then none else some (Char.ofNat n)

/-- single-character escapes of a double-quoted scalar -/
def simpleEscape (c : Char) : Option Char :=
  if c = '0' then some (Char.ofNat 0) else if c = 'a' then some (Char.ofNat 7)
  else if c = 'b' then some (Char.ofNat 8) else if c = 't' then some '\t'
  else if c = '\t' then some '\t' else if c = 'n' then some '\n'
  else if c = 'v' then some (Char.ofNat 11) else if c = 'f' then some (Char.ofNat 12)
  else if c = 'r' then some '\r' else if c = 'e' then some (Char.ofNat 27)
  else if c = ' ' then some ' ' else if c = '"' then some '"'
  else if c = '/' then some '/' else if c = '\\' then some '\\'
  else if c = 'N' then some (Char.ofNat 0x85) else if c = '_' then some (Char.ofNat 0xA0)
  else if c = 'L' then some (Char.ofNat 0x2028) else if c = 'P' then some (Char.ofNat 0x2029)
  else none

/-- body of a double-quoted scalar after the opening quote; result text and rest after the
closing quote. `acc` is reversed. (`\x`, `\u`, `\U` take 2, 4, 8 hex digits.) -/
def scanQuoted : List Char → List Char → Option (List Char × List Char)
  | [], _ => none
  | c :: rest, acc =>
    if c = '"' then some (acc.reverse, rest)
    else if c = '\\' then
      match rest with
      | [] => none
      | e :: rest1 =>
        if e = 'x' then
          match rest1 with
          | a :: b :: r =>
            (match (hexNum [a, b]).bind scalarValue with
             | some ch => scanQuoted r (ch :: acc)
             | none => none)
          | _ => none
        else if e = 'u' then
          match rest1 with
          | a :: b :: c :: d :: r =>
            (match (hexNum [a, b, c, d]).bind scalarValue with
             | some ch => scanQuoted r (ch :: acc)
             | none => none)
          | _ => none
        else if e = 'U' then
          match rest1 with
          | a :: b :: c :: d :: e :: f :: g :: h :: r =>
            (match (hexNum [a, b, c, d, e, f, g, h]).bind scalarValue with
             | some ch => scanQuoted r (ch :: acc)
             | none => none)
          | _ => none
        else
          match simpleEscape e with
          | some ch => scanQuoted rest1 (ch :: acc)
          | none => none
    else scanQuoted rest (c :: acc)

/-- inverse of `jsonQuote`: a complete double-quoted scalar -/
def unquote (cs : List Char) : Option (List Char) :=
  match cs with
  | '"' :: r =>
    match scanQuoted r [] with
    | some (s, []) => some s
    | _ => none
  | _ => none

/-- plain scalar in flow context, `acc` reversed; stops before `,[]{}` and before `: `;
`:` directly followed by a flow indicator is libyaml's "found unexpected ':'"; ` #` starts a
comment that swallows the rest of the line (always an error inside a one-line mapping) -/
def plainGo : List Char → List Char → Option (List Char × List Char)
  | [], acc => some (acc, [])
  | c :: rest, acc =>
    if isFlowInd c then some (acc, c :: rest)
    else if c = ':' then
      match rest with
      | [] => some (acc, c :: rest)
      | d :: _ =>
        if isBlank d then some (acc, c :: rest)
        else if isFlowInd d || d = '?' then none
        else plainGo rest (c :: acc)
    else if c = '#' && (match acc with | a :: _ => isBlank a | [] => false) then none
    else plainGo rest (c :: acc)

def dropBlanks : List Char → List Char
  | [] => []
  | c :: r => if isBlank c then dropBlanks r else c :: r

def isIndicator (c : Char) : Bool :=
  c = '-' || c = '?' || c = ':' || c = ',' || c = '[' || c = ']' || c = '{' || c = '}' || c = '#' ||
  c = '&' || c = '*' || c = '!' || c = '|' || c = '>' || c = '\'' || c = '"' || c = '%' || c = '@' ||
  c = '`'

def plainStartOk (c : Char) (rest : List Char) : Bool :=
  if isBlank c then false
  else if c = '-' then (match rest with | d :: _ => !isBlank d | [] => false)
  else !isIndicator c

/-- a scalar token at the current position -/
def scanScalar : List Char → Option (Scalar × List Char)
  | [] => none
  | '"' :: rest => (scanQuoted rest []).map fun (s, r) => (.quoted s, r)
  | c :: rest =>
    if plainStartOk c rest then
      (plainGo (c :: rest) []).map fun (acc, r) => (.plain (dropBlanks acc).reverse, r)
    else none

def utf8Len : List Char → Nat
  | [] => 0
  | c :: r => c.utf8Size + utf8Len r

/-- key, optional blanks, `:`, optional blanks. libyaml only accepts a "simple key" when the `:`
is at most 1024 bytes after the start of the key. -/
def parseKey (cs : List Char) : Option (Scalar × List Char) :=
  match scanScalar cs with
  | none => none
  | some (k, r) =>
    match skipWs r with
    | ':' :: r' => if utf8Len cs > 1024 + utf8Len (':' :: r') then none else some (k, skipWs r')
    | _ => none

/-- a scalar value; an omitted value (`,` or `}` follows) is the empty plain scalar -/
def scanValS (cs : List Char) : Option (Scalar × List Char) :=
  match cs with
  | ',' :: _ => some (.plain [], cs)
  | '}' :: _ => some (.plain [], cs)
  | _ => scanScalar cs

/-- entries of a nested mapping, after its `{` -/
def parseMapS : Nat → List Char → Option (List (Scalar × Scalar) × List Char)
  | 0, _ => none
  | fuel + 1, cs =>
    match skipWs cs with
    | '}' :: r => some ([], r)
    | cs' =>
      match parseKey cs' with
      | none => none
      | some (k, r) =>
        match scanValS r with
        | none => none
        | some (v, r) =>
          match skipWs r with
          | ',' :: r' =>
            (match parseMapS fuel r' with
             | none => none
             | some (l, r'') => some ((k, v) :: l, r''))
          | '}' :: r' => some ([(k, v)], r')
          | _ => none

def scanVal (cs : List Char) : Option (Val × List Char) :=
  match cs with
  | '{' :: r => (parseMapS (r.length + 1) r).map fun (l, r') => (.map l, r')
  | _ => (scanValS cs).map fun (s, r) => (.sc s, r)

/-- entries of the top-level mapping, after its `{` -/
def parseMapV : Nat → List Char → Option (Ast × List Char)
  | 0, _ => none
  | fuel + 1, cs =>
    match skipWs cs with
    | '}' :: r => some ([], r)
    | cs' =>
      match parseKey cs' with
      | none => none
      | some (k, r) =>
        match scanVal r with
        | none => none
        | some (v, r) =>
          match skipWs r with
          | ',' :: r' =>
            (match parseMapV fuel r' with
             | none => none
             | some (l, r'') => some ((k, v) :: l, r''))
          | '}' :: r' => some ([(k, v)], r')
          | _ => none

def dropSpaces : List Char → List Char
  | [] => []
  | c :: r => if c = ' ' then dropSpaces r else c :: r

/-- leading spaces (not tabs) may precede the mapping; blanks may follow it -/
def parseAst (cs : List Char) : Option Ast :=
  match dropSpaces cs with
  | '{' :: r =>
    match parseMapV (r.length + 1) r with
    | some (a, r') => if skipWs r' = [] then some a else none
    | none => none
  | _ => none

/-! ## serde_yaml scalar resolution and the typed layer of `TestCaseConfig` -/

def isNullText (s : List Char) : Bool :=
  s = [] || s = ['~'] || s = ['n', 'u', 'l', 'l'] || s = ['N', 'u', 'l', 'l'] || s = ['N', 'U', 'L', 'L']

def boolOfText (s : List Char) : Option Bool :=
  if s = ['t', 'r', 'u', 'e'] || s = ['T', 'r', 'u', 'e'] || s = ['T', 'R', 'U', 'E'] then some true
  else if s = ['f', 'a', 'l', 's', 'e'] || s = ['F', 'a', 'l', 's', 'e'] || s = ['F', 'A', 'L', 'S', 'E'] then some false
  else none

def allDigits (s : List Char) : Bool := !s.isEmpty && s.all isDigit

def digitsVal (s : List Char) : Nat := s.foldl (fun a c => a * 10 + digitVal c) 0

/-- `strip_prefix(['-', '+'])` -/
def stripSign : List Char → List Char
  | '-' :: r => r
  | '+' :: r => r
  | s => s

def leadingZeroNumber : List Char → Bool
  | '0' :: r => !r.isEmpty && r.all isDigit
  | _ => false

/-- `digits_but_not_number`: leading zero followed by digits is a string -/
def digitsButNotNumber (s : List Char) : Bool := leadingZeroNumber (stripSign s)

/-- decimal integers as serde_yaml reads them (`parse_signed_int`, radix 10 only) -/
def intOfText (s : List Char) : Option Int :=
  if digitsButNotNumber s then none else
  match s with
  | '-' :: r => if allDigits r then some (-(Int.ofNat (digitsVal r))) else none
  | '+' :: r => if allDigits r then some (Int.ofNat (digitsVal r)) else none
  | _ => if allDigits s then some (Int.ofNat (digitsVal s)) else none

def takeDigits : List Char → List Char × List Char
  | [] => ([], [])
  | c :: r => if isDigit c then let (a, b) := takeDigits r; (c :: a, b) else ([], c :: r)

/-- syntactic shape of a finite decimal float accepted by Rust's `f64::from_str`, plus YAML's
`.inf`/`.nan` forms (approximation used only to decide that a plain scalar is NOT a string) -/
def floatLike (s : List Char) : Bool :=
  let t := stripSign s
  if t = ['.', 'i', 'n', 'f'] || t = ['.', 'I', 'n', 'f'] || t = ['.', 'I', 'N', 'F'] then true
  else if s = ['.', 'n', 'a', 'n'] || s = ['.', 'N', 'a', 'N'] || s = ['.', 'N', 'A', 'N'] then true
  else
    let (ip, r1) := takeDigits t
    let (fp, r2, dot) := match r1 with
      | '.' :: r => let (f, r') := takeDigits r; (f, r', true)
      | _ => ([], r1, false)
    if ip.isEmpty && fp.isEmpty then false
    else if !dot && r2.isEmpty then true
    else match r2 with
      | [] => true
      | e :: r =>
        if e = 'e' || e = 'E' then
          let r := match r with | '-' :: x => x | '+' :: x => x | _ => r
          allDigits r
        else false

/-- would `deserialize_any` hand a plain scalar to `visit_str`? -/
def plainIsString (s : List Char) : Bool :=
  !isNullText s && (boolOfText s).isNone && (intOfText s).isNone && !(!digitsButNotNumber s && floatLike s)

def fieldOf (k : List Char) : Option Field :=
  if k = Field.os.name then some .os else if k = Field.kc.name then some .kc
  else if k = Field.to.name then some .to else if k = Field.de.name then some .de
  else if k = Field.sk.name then some .sk else if k = Field.sa.name then some .sa
  else if k = Field.wt.name then some .wt else if k = Field.env.name then some .env
  else none

def durOf (t : List Char) : R (Nat × Nat) := do
  let o ← parseDuration t
  pure (o.secs, o.nanos)

/-- `Option<bool>` -/
def optBool (v : Val) : R (Option Bool) :=
  match v with
  | .sc (.plain t) => if isNullText t then pure none else
      match boolOfText t with
      | some b => pure (some b)
      | none => .error .err
  | _ => .error .err

def streamOf (t : List Char) : Option Stream :=
  if t = Stream.stdout.text then some .stdout else if t = Stream.stderr.text then some .stderr
  else if t = Stream.combined.text then some .combined else none

def optStream (v : Val) : R (Option Stream) :=
  match v with
  | .sc (.plain t) => if isNullText t then pure none else
      match streamOf t with
      | some s => pure (some s)
      | none => .error .err
  | .sc (.quoted t) =>
      match streamOf t with
      | some s => pure (some s)
      | none => .error .err
  | _ => .error .err

def optI32 (v : Val) : R (Option Int) :=
  match v with
  | .sc (.plain t) => if isNullText t then pure none else
      match intOfText t with
      | some i => if -2147483648 ≤ i ∧ i ≤ 2147483647 then pure (some i) else .error .err
      | none => .error .err
  | _ => .error .err

/-- `parse_duration_opt` -/
def optDur (v : Val) : R (Option (Nat × Nat)) :=
  match v with
  | .sc s =>
    if s.text = [] || s.text = ['n', 'u', 'l', 'l'] then pure none
    else do pure (some (← durOf s.text))
  | _ => .error .err

def lookupAll (k : List Char) (kvs : List (Scalar × Scalar)) : List Scalar :=
  (kvs.filter fun kv => kv.1.text = k).map (·.2)

/-- `TestCaseWait::parse` -/
def optWait (v : Val) : R (Option Wait) :=
  match v with
  | .sc (.plain t) => if plainIsString t then do pure (some ⟨← durOf t, none⟩) else .error .err
  | .sc (.quoted t) => do pure (some ⟨← durOf t, none⟩)
  | .map kvs =>
    match lookupAll kTimeout kvs, lookupAll kPath kvs with
    | [t], [] => do pure (some ⟨← durOf t.text, none⟩)
    | [t], [p] => do
      let d ← durOf t.text
      match p with
      | .plain pt => if isNullText pt then pure (some ⟨d, none⟩) else pure (some ⟨d, some pt⟩)
      | .quoted pt => pure (some ⟨d, some pt⟩)
    | _, _ => .error .err

/-- `BTreeMap<String, String>`: any scalar is taken as its text; later duplicates win -/
def envOf (v : Val) : R (List (List Char × List Char)) :=
  match v with
  | .map kvs => pure (kvs.map fun kv => (kv.1.text, kv.2.text))
  | .sc (.plain []) => pure []      -- an omitted value is an empty map for serde_yaml
  | _ => .error .err

def setField (f : Field) (v : Val) (c : Cfg) : R Cfg :=
  match f with
  | .os => do pure { c with outputStream := ← optStream v }
  | .kc => do pure { c with keepCrlf := ← optBool v }
  | .to => do pure { c with timeout := ← optDur v }
  | .de => do pure { c with detached := ← optBool v }
  | .sk => do pure { c with skipCode := ← optI32 v }
  | .sa => do pure { c with stripAnsi := ← optBool v }
  | .wt => do pure { c with wait := ← optWait v }
  | .env => do pure { c with env := ← envOf v }

def knownKeys (a : Ast) : List Field := a.filterMap fun kv => fieldOf kv.1.text

def nodupB : List Field → Bool
  | [] => true
  | f :: r => !r.contains f && nodupB r

def interpGo : Ast → Cfg → R Cfg
  | [], c => pure c
  | (k, v) :: rest, c =>
    match fieldOf k.text with
    | none => interpGo rest c
    | some f => do
      let c' ← setField f v c
      interpGo rest c'

/-- serde's derived `Deserialize` for `TestCaseConfig` (`#[serde(default)]`, unknown keys ignored,
a repeated known key is an error) -/
def interp (a : Ast) : R Cfg :=
  if nodupB (knownKeys a) then interpGo a {} else .error .err

inductive PR
  | ok (c : Cfg)
  | error
  | crash
  | outside
  deriving DecidableEq, Repr

/-- `serde_yaml::from_str::<TestCaseConfig>` on the modelled subset -/
def parseFlow (cs : List Char) : PR :=
  if cs.any isBreak then .outside
  else if !cs.all readable then .error
  else match parseAst cs with
    | none => .error
    | some a =>
      match interp a with
      | .ok c => .ok c
      | .error .err => .error
      | .error .crash => .crash

end Scrut.Yaml
