import ScrutModel.Model.Template
/-!
# Model of the single-script execution mode (`src/executors/bash_script_executor.rs`)

* `compileScript`: layout of the script (exports of the first test, then per test: the expression
  verbatim, an empty line, `__SCRUT_EXIT_CODE=$?`, `\builtin echo "<divider>"`, `1>&2 \builtin echo "<divider>"` unless
  combined, and `unset __SCRUT_EXIT_CODE`; the divider text ends in `$__SCRUT_EXIT_CODE`, not in `$?`).
* `parseDivider` (`parse_divider_bytes`), `parseSalted` (`parse_salted_divider_bytes`), `iterate`:
  splitting a captured stream at the divider lines `~~~~~~~~EXECDIVIDER::<salt>::<index>::<exit code>`;
  only `PREFIX ++ salt ++ "::"` of THIS execution starts a divider (found anywhere in a line: the
  bytes before it are the unterminated last line of the output).
* `executeAll`: the part of `BashScriptExecutor::execute_all` after the shell returned.
* `removeDividers` (used on the timeout path).

Bytes are `List UInt8`. Everything that panics in Rust is the value `crash`.
-/
namespace Scrut.Divider
open Scrut.Template

abbrev Bytes := List UInt8
abbrev LF : UInt8 := 10
abbrev COLON : UInt8 := 58

/-- `DIVIDER_PREFIX_BYTES = b"~~~~~~~~EXECDIVIDER::"` -/
def PREFIX : Bytes :=
  [126,126,126,126,126,126,126,126, 69,88,69,67, 68,73,86,73,68,69,82, 58,58]

def SEP : Bytes := [COLON, COLON]

/-! ## decimal numbers -/

def digit (n : Nat) : UInt8 := UInt8.ofNat (48 + n % 10)

/-- decimal digits of `n` (what `format!("{}", index)` and bash's `$?` print); `fuel ≥ n` suffices -/
def decF : Nat → Nat → Bytes
  | 0, n => [digit n]
  | fuel + 1, n => if n < 10 then [digit n] else decF fuel (n / 10) ++ [digit n]

def dec (n : Nat) : Bytes := decF n n

def digitVal? (b : UInt8) : Option Nat :=
  if 48 ≤ b.toNat ∧ b.toNat ≤ 57 then some (b.toNat - 48) else none

def parseDigitsFrom : Nat → Bytes → Option Nat
  | a, [] => some a
  | a, b :: bs =>
    match digitVal? b with
    | some d => parseDigitsFrom (a * 10 + d) bs
    | none => none

/-- digits only, at least one -/
def parseDigits (bs : Bytes) : Option Nat :=
  if bs = [] then none else parseDigitsFrom 0 bs

/-- `String::from_utf8(..)?.parse::<usize>()` (64 bit): optional `+`, then digits, no overflow.
Invalid UTF-8 is an error in the source; every such input contains a byte ≥ 0x80, which is not
a digit, so it is an error here as well (both errors have the same canonical form). -/
def parseUsize (bs : Bytes) : Option Nat :=
  let ds := match bs with
    | [] => []
    | b :: r => if b = 43 then r else b :: r
  match parseDigits ds with
  | some v => if v < 2 ^ 64 then some v else none
  | none => none

/-- `…parse::<i32>()`: optional `+`/`-`, then digits, range `-2^31 .. 2^31-1` -/
def parseI32 (bs : Bytes) : Option Int :=
  match bs with
  | [] => none
  | b :: r =>
    if b = 45 then
      match parseDigits r with
      | some v => if v ≤ 2 ^ 31 then some (-(v : Int)) else none
      | none => none
    else
      match parseDigits (if b = 43 then r else b :: r) with
      | some v => if v < 2 ^ 31 then some (v : Int) else none
      | none => none

/-! ## lines -/

/-- `split_at_newline`: split after every LF, keeping it; `cur` is the line being collected -/
def splitLines (cur : Bytes) : Bytes → List Bytes
  | [] => if cur = [] then [] else [cur]
  | b :: rest => if b = LF then (cur ++ [LF]) :: splitLines [] rest else splitLines (cur ++ [b]) rest

def splitAtNewline (bs : Bytes) : List Bytes := splitLines [] bs

/-- `trim_newlines`: drop all trailing LF -/
def trimNewlines (l : Bytes) : Bytes := (l.reverse.dropWhile (· = LF)).reverse

/-! ## the divider parser -/

inductive DivSearch where
  | notFound
  | found (pre : Option Bytes) (index : Nat) (code : Int)
  deriving DecidableEq, Repr

/-- `parse_divider_bytes`; `none` = `Err(..)` (bail!/parse error) -/
def parseDivider (line : Bytes) : Option DivSearch :=
  let line := trimNewlines line
  match splitFirst PREFIX line with
  | none => some .notFound
  | some (pre, rest) =>
    -- skip salt
    match splitFirst SEP rest with
    | none => none
    | some (_salt, rest) =>
      match splitFirst SEP rest with
      | none => none
      | some (idx, code) =>
        match parseUsize idx, parseI32 code with
        | some i, some c => some (.found (if pre = [] then none else some pre) i c)
        | _, _ => none

/-- `DIVIDER_PREFIX ++ salt ++ "::"`: what starts a divider of this execution -/
def needle (salt : Bytes) : Bytes := PREFIX ++ salt ++ SEP

/-- `parse_salted_divider_bytes`: look for the salted divider start; `parse_divider_bytes` on the
slice from there; the bytes before it are the prefix -/
def parseSalted (salt : Bytes) (line : Bytes) : Option DivSearch :=
  let line := trimNewlines line
  match splitFirst (needle salt) line with
  | none => some .notFound
  | some (pre, rest) =>
    match parseDivider (needle salt ++ rest) with
    | none => none
    | some (.found _ index code) => some (.found (if pre = [] then none else some pre) index code)
    | some .notFound => some .notFound

inductive IterErr where
  | failed (index : Nat)   -- `ExecutionError::failed(index, _)`
  | aborted                -- `ExecutionError::aborted(..)`
  | crash                  -- panic
  deriving DecidableEq, Repr

/-- `iterate_divided_output` over the lines. `limit = some n` is the STDERR callback of
`execute_all` (`index >= outputs.len()` ⇒ aborted; building that error evaluates
`outputs[outputs.len() - 1]`, a panic when there are no outputs); `none` is the STDOUT callback,
which never fails. -/
def iterLines (salt : Bytes) (limit : Option Nat) : List Bytes → List Bytes → Nat → Except IterErr (List (Bytes × Int))
  | [], _, _ => .ok []
  | l :: ls, buffer, expected =>
    match parseSalted salt l with
    | none => .error (.failed expected)
    | some .notFound => iterLines salt limit ls (buffer ++ [l]) expected
    | some (.found pre index code) =>
      if index ≠ expected then .error (.failed index)
      else
        let output := buffer.flatten ++ (match pre with | some p => p | none => [])
        let overflow := match limit with
          | some n => if index ≥ n then some (if n = 0 then IterErr.crash else IterErr.aborted) else none
          | none => none
        match overflow with
        | some e => .error e
        | none =>
          match iterLines salt limit ls [] (expected + 1) with
          | .ok r => .ok ((output, code) :: r)
          | .error e => .error e

def iterate (salt : Bytes) (limit : Option Nat) (stream : Bytes) : Except IterErr (List (Bytes × Int)) :=
  iterLines salt limit (splitAtNewline stream) [] 0

/-! ## `execute_all` after the shell returned -/

structure Out where
  stdout : Bytes
  stderr : Bytes
  code : Int
  deriving DecidableEq, Repr

inductive ExecResult where
  | ok (outs : List Out)
  | failed (index : Nat)
  | skipped (index : Nat)
  | aborted
  | crash
  deriving DecidableEq, Repr

def ofErr : IterErr → ExecResult
  | .failed i => .failed i
  | .aborted => .aborted
  | .crash => .crash

def firstSkip (skip : Int) : List (Bytes × Int) → Nat → Option Nat
  | [], _ => none
  | (_, c) :: r, i => if c = skip then some i else firstSkip skip r i.succ

/-- `outputs[index].stderr = errs[index]` for the dividers found in STDERR, the others keep `""` -/
def zipErr : List (Bytes × Int) → List (Bytes × Int) → List Out
  | [], _ => []
  | (o, c) :: r, [] => ⟨o, [], c⟩ :: zipErr r []
  | (o, c) :: r, (e, _) :: es => ⟨o, e, c⟩ :: zipErr r es

/-- the salt of this execution, `n` test cases, the script's own exit code, and the two captured
streams (after `render_output`). -/
def executeAll (salt : Bytes) (n : Nat) (combined : Bool) (skip scriptExit : Int) (stdout stderr : Bytes) : ExecResult :=
  if scriptExit = skip then .skipped 0 else
  match iterate salt none stdout with
  | .error e => ofErr e
  | .ok outs =>
    match firstSkip skip outs 0 with
    | some i => .skipped i
    | none =>
      if outs.length ≠ n then .aborted
      else if combined then .ok (zipErr outs [])
      else
        match iterate salt (some outs.length) stderr with
        | .error e => ofErr e
        | .ok errs => .ok (zipErr outs errs)

/-- `remove_dividers_from_output` (timeout path): drops lines that START with the bare prefix (the
salt is not compared here) and concatenates the remaining lines, which carry their line endings. -/
def removeDividers (bs : Bytes) : Bytes :=
  ((splitAtNewline bs).filter (fun l => (stripPrefix? PREFIX l).isNone)).flatten

/-! ## the script and the stream it produces -/

def NL : Char := '\n'

/-- `DIVIDER_EXIT_CODE_VARIABLE`: the shell variable that takes the exit code of an expression to
its divider -/
def EXITVAR : List Char :=
  ['_', '_', 'S', 'C', 'R', 'U', 'T', '_', 'E', 'X', 'I', 'T', '_', 'C', 'O', 'D', 'E']

/-- the line `__SCRUT_EXIT_CODE=$?`: a command of its own that takes the exit code of the expression
(an expression that ends in `|` makes THIS command, and not the divider `echo`, the rest of its
pipeline: the divider is then left without an exit code) -/
def assignLine : List Char := EXITVAR ++ ['=', '$', '?']

/-- `\builtin ` (fix after cae5ffa: the footer calls the builtins, whatever functions or aliases of
these names the test cases define) -/
def BUILTIN : List Char := ['\\', 'b', 'u', 'i', 'l', 't', 'i', 'n', ' ']

/-- the line `\builtin unset __SCRUT_EXIT_CODE` that closes the footer of a test -/
def unsetLine : List Char := BUILTIN ++ ['u', 'n', 's', 'e', 't', ' '] ++ EXITVAR

/-- `generate_divider`: `~~~~~~~~EXECDIVIDER::<salt>::<index>::$__SCRUT_EXIT_CODE` -/
def dividerText (salt : List Char) (index : Nat) : List Char :=
  (PREFIX.map (fun b => Char.ofNat b.toNat)) ++ salt ++ [':', ':'] ++ (dec index).map (fun b => Char.ofNat b.toNat) ++ [':', ':', '$'] ++ EXITVAR

/-- the line `echo "<divider>"` -/
def echoLine (salt : List Char) (index : Nat) : List Char :=
  BUILTIN ++ ['e', 'c', 'h', 'o', ' ', '"'] ++ dividerText salt index ++ ['"']

/-- the line `1>&2 echo "<divider>"` -/
def echoErrLine (salt : List Char) (index : Nat) : List Char :=
  ['1', '>', '&', '2', ' '] ++ BUILTIN ++ ['e', 'c', 'h', 'o', ' ', '"'] ++ dividerText salt index ++ ['"']

/-- lines of the script for test `index`: the expression, an empty line, `__SCRUT_EXIT_CODE=$?`,
`\builtin echo "<divider>"`, `1>&2 \builtin echo "<divider>"` (unless combined), `\builtin unset __SCRUT_EXIT_CODE` -/
def testLines (salt : List Char) (combined : Bool) (index : Nat) (expr : List Char) : List (List Char) :=
  [expr, [], assignLine, echoLine salt index] ++
    (if combined then [] else [echoErrLine salt index]) ++ [unsetLine]

def scriptLines (salt : List Char) (combined : Bool) : Nat → List (List Char) → List (List Char)
  | _, [] => []
  | i, e :: es => testLines salt combined i e ++ scriptLines salt combined (i + 1) es

/-- `compile_script`: `exports` are the `export K=V` lines of the first test case's environment
(empty when there is no test case) -/
def compileScript (salt : List Char) (combined : Bool) (exports exprs : List (List Char)) : List Char :=
  [NL].intercalate ((if exprs = [] then [] else exports) ++ scriptLines salt combined 0 exprs)

/-- what a shell writes to a stream when test `index` writes `payload` and ends with `code`:
the payload, then the divider line -/
def chunk (salt : Bytes) (index : Nat) (payload : Bytes) (code : Nat) : Bytes :=
  payload ++ PREFIX ++ salt ++ SEP ++ dec index ++ SEP ++ dec code ++ [LF]

def joinStream (salt : Bytes) : Nat → List (Bytes × Nat) → Bytes
  | _, [] => []
  | i, (p, c) :: r => chunk salt i p c ++ joinStream salt (i + 1) r

/-- guard of the round-trip theorem: the payload does not contain the divider start of this
execution, `PREFIX ++ salt ++ "::"` (it may contain the bare prefix, or dividers with other salts) -/
def noSalted (salt p : Bytes) : Bool := (splitFirst (needle salt) p).isNone

end Scrut.Divider
