import ScrutModel.Model.Diff
/-!
# Model of the renderers' decision logic (src/renderers/pretty.rs, diff.rs, structured.rs)

What is modelled (ANSI styling, headers' text and escaping are not):

* `prettyItems`   — which entries `PrettyColorRenderer::render_malformed_output` emits for a diff
                    and `max_surrounding_lines` (unmatched expectations, unexpected lines,
                    surrounding matched lines, `...` elision markers), pretty.rs:160-265.
* `prettyRender`  — the same with every panicking operation explicit: `line_base` (`a + b - 1`),
                    the `+ max_surrounding_lines` additions (usize overflow), `lines[0]`,
                    `Decorator` padding `self.0 - num.len()` (pretty.rs:334). `none` = panic.
* `highlight`     — `higlight_tailing_spaces`/`space_start_index`/`render_spaces`
                    (pretty.rs:287-316): the `&input[0..index]` / `&input[index..]` slices are
                    `splitAtByte`, which fails unless `index` is a char boundary.
* `unifiedEntries`— `UnifiedDiff::render` (diff.rs:170-254): hunk headers, `-` and `+` lines.
* `prettySections`, `diffSections`, `summary`, `Kind.name` — the outer loops: which outcomes get
                    a section, the summary counts, the sort of the diff renderer, the `kind`
                    of the structured renderers.
-/
namespace Scrut.Pretty
open Scrut.Diff (DL)

/-! ## checked usize arithmetic -/

def USIZE : Nat := 18446744073709551616

/-- Rust `a - b` on usize: panics on underflow. -/
def subU (a b : Nat) : Option Nat := if b ≤ a then some (a - b) else none
/-- Rust `a + b` on usize: panics on overflow (overflow checks on). -/
def addU (a b : Nat) : Option Nat := if a + b < USIZE then some (a + b) else none

/-- `n.to_string().len()` -/
def digits (n : Nat) : Nat := if n < 10 then 1 else 1 + digits (n / 10)
decreasing_by omega

/-! ## pretty renderer: what is shown -/

inductive Item where
  /-- a matched expectation shown as surrounding line (expectation index, its output lines) -/
  | ctx (i : Nat) (ls : List Nat)
  /-- the `...` elision marker -/
  | ell
  /-- `-` line: unmatched expectation `i` -/
  | unm (i : Nat)
  /-- `+` line: unexpected output line `l` -/
  | unx (l : Nat)
deriving DecidableEq, Repr

def isErr : DL → Bool
  | .matched .. => false
  | _ => true

/-- `next_error_index`: position of the first non-matched entry of `rest`, whose head has
    position `k` -/
def nextErr : List DL → Nat → Option Nat
  | [], _ => none
  | e :: rest, k => if isErr e then some k else nextErr rest (k + 1)

/-- what a matched entry contributes: `if !skip {line} else if first_skip {"..."}` -/
def ctxItems (shown firstSkip : Bool) (i : Nat) (ls : List Nat) : List Item :=
  if shown then [Item.ctx i ls] else if firstSkip then [Item.ell] else []

/-- the loop of `render_malformed_output`; `k` = `diff_index`, `last` = `last_error_index` -/
def itemsGo (msl : Nat) : List DL → Nat → Option Nat → List Item
  | [], _, _ => []
  | .matched i ls :: rest, k, last =>
    let byLast := match last with
      | some l => decide (l + msl ≥ k)
      | none => false
    let firstSkip := match last with
      | some l => !decide (l + msl ≥ k) && l + msl + 1 == k
      | none => false
    let byNext := match nextErr rest (k + 1) with
      | some nx => decide (k + msl ≥ nx)
      | none => false
    ctxItems (msl == 0 || byLast || byNext) firstSkip i ls ++ itemsGo msl rest (k + 1) last
  | .unmatched i :: rest, k, _ => Item.unm i :: itemsGo msl rest (k + 1) (some k)
  | .unexpected ls :: rest, k, last =>
    ls.map Item.unx ++ itemsGo msl rest (k + 1) (if ls.isEmpty then last else some k)

def prettyItems (msl : Nat) (d : List DL) : List Item := itemsGo msl d 0 none

/-- do the `+ max_surrounding_lines` additions of the loop stay below 2^64? -/
def mslOk (msl : Nat) : List DL → Nat → Option Nat → Bool
  | [], _, _ => true
  | .matched _ _ :: rest, k, last =>
    (msl == 0 ||
      ((match last with
        | some l => (addU l msl).isSome
        | none => true) &&
       (match nextErr rest (k + 1) with
        | some _ => (addU k msl).isSome
        | none => true)))
    && mslOk msl rest (k + 1) last
  | .unmatched _ :: rest, k, _ => mslOk msl rest (k + 1) (some k)
  | .unexpected ls :: rest, k, last => mslOk msl rest (k + 1) (if ls.isEmpty then last else some k)

/-! ## pretty renderer: numbers and padding -/

structure Cfg where
  /-- `max_surrounding_lines` -/
  msl : Nat
  /-- `absolute_line_numbers` -/
  abs : Bool
  /-- `testcase.line_number` -/
  lineNumber : Nat
  /-- `testcase.shell_expression_lines()` (number of `\n` + 1) -/
  shellLines : Nat
  /-- `testcase.expectations.len()` -/
  nexp : Nat
  /-- `expectation.multiline` of the expectation with index `i` -/
  ml : Nat → Bool

/-- `line_base` (pretty.rs:149) -/
def lineBase (c : Cfg) : Option Nat :=
  if c.abs then subU (c.lineNumber + c.shellLines) 1 else some 0

/-- `diff.count_output_lines` (`Diff::new`) -/
def countOut : List DL → Nat
  | [] => 0
  | .matched _ ls :: r => ls.length + countOut r
  | .unmatched _ :: r => countOut r
  | .unexpected ls :: r => ls.length + countOut r

/-- `Decorator::new(..).0` -/
def width (base nexp : Nat) (d : List DL) : Nat := digits (base + max (countOut d) nexp)

inductive Line where
  /-- surrounding line: expectation number, multiline sign, output line number (`none`: the
      `+`-filled column of a multiline expectation) -/
  | ctx (expNo : Nat) (multi : Bool) (outNo : Option Nat)
  | ell
  | unm (expNo : Nat) (multi : Bool)
  | unx (outNo : Nat)
deriving DecidableEq, Repr

/-- `Decorator::output_line_number(Some(num))`: `prefix.repeat(self.0 - num.len())` -/
def pad (w num : Nat) : Option Nat := if num = 0 then subU w 0 else subU w (digits num)

/-- one `Decorator::line` call -/
def display (ml : Nat → Bool) (base w : Nat) : Item → Option Line
  | .ctx i ls =>
    if ml i then
      (pad w 0).bind fun _ => (pad w (base + i + 1)).map fun _ => Line.ctx (base + i + 1) true none
    else
      match ls with
      | [] => none  -- `lines[0]`
      | l0 :: _ =>
        (pad w (base + l0 + 1)).bind fun _ =>
          (pad w (base + i + 1)).map fun _ => Line.ctx (base + i + 1) false (some (base + l0 + 1))
  | .ell => some Line.ell
  | .unm i => (pad w (base + i + 1)).map fun _ => Line.unm (base + i + 1) (ml i)
  | .unx l => (pad w (base + l + 1)).map fun _ => Line.unx (base + l + 1)

def allSome {α : Type} : List (Option α) → Option (List α)
  | [] => some []
  | none :: _ => none
  | some a :: r => (allSome r).map (a :: ·)

/-- `render_malformed_output` with panics as `none`: (width of the number columns, lines) -/
def prettyRender (c : Cfg) (d : List DL) : Option (Nat × List Line) :=
  match lineBase c with
  | none => none
  | some base =>
    if mslOk c.msl d 0 none then
      let w := width base c.nexp d
      (allSome ((prettyItems c.msl d).map (display c.ml base w))).map fun ls => (w, ls)
    else none

/-! ## trailing white space highlighting -/

/-- `char::is_whitespace` (Unicode `White_Space`) -/
def isWs (c : Char) : Bool :=
  let n := c.toNat
  (9 ≤ n && n ≤ 13) || n == 0x20 || n == 0x85 || n == 0xA0 || n == 0x1680 ||
  (0x2000 ≤ n && n ≤ 0x200A) || n == 0x2028 || n == 0x2029 || n == 0x202F || n == 0x205F ||
  n == 0x3000

def utf8Len : List Char → Nat
  | [] => 0
  | c :: cs => c.utf8Size + utf8Len cs

/-- `input.trim_end_matches(char::is_whitespace)` -/
def trimEndWs (cs : List Char) : List Char := (cs.reverse.dropWhile isWs).reverse
def trailingWs (cs : List Char) : List Char := (cs.reverse.takeWhile isWs).reverse

/-- `space_start_index`: a byte offset -/
def spaceStartIndex (cs : List Char) : Nat := utf8Len (trimEndWs cs)

/-- `(&s[0..b], &s[b..])` on a `str`: panics (`none`) unless `b` is a char boundary ≤ len -/
def splitAtByte : List Char → Nat → Option (List Char × List Char)
  | [], b => if b = 0 then some ([], []) else none
  | c :: cs, b =>
    if b = 0 then some ([], c :: cs)
    else if c.utf8Size ≤ b then (splitAtByte cs (b - c.utf8Size)).map fun (p, s) => (c :: p, s)
    else none

/-- `render_spaces` -/
def renderSpace (c : Char) : Char := if c = '\t' then '↦' else if c = ' ' then '⎵' else '⍰'

/-- `higlight_tailing_spaces` without the styling -/
def highlight (cs : List Char) : Option (List Char) :=
  let idx := spaceStartIndex cs
  if idx < utf8Len cs then
    (splitAtByte cs idx).map fun (p, s) => p ++ s.map renderSpace
  else some cs

/-- the code before the fix 6e80f5e: `input.len() - i` where `i` is the NUMBER OF CHARACTERS of
    trailing white space (0 if everything is white space), used as byte offset -/
def highlightOld (cs : List Char) : Option (List Char) :=
  let idx := if trimEndWs cs = [] then 0 else utf8Len cs - (trailingWs cs).length
  if idx < utf8Len cs then
    (splitAtByte cs idx).map fun (p, s) => p ++ s.map renderSpace
  else some cs

/-! ## diff renderer: `UnifiedDiff::render` -/

inductive UE where
  /-- `@@ -old_start,old_len +new_start,new_len @@` -/
  | hdr (oldStart oldLen newStart newLen : Nat)
  /-- `-` line: original text of expectation `i` -/
  | minus (i : Nat)
  /-- `+` line: output line `l` -/
  | plus (l : Nat)
deriving DecidableEq, Repr

structure US where
  ustart : Option Nat := none
  ulines : List Nat := []
  xstart : Option Nat := none
  xlines : List Nat := []

/-- the output of `add_diff_hunk!`; `ln` = `line_number + shell_expression_lines()`.
    (`self.unexpected_start.unwrap()` is only reached when it is `Some`.) -/
def hunk (ln : Nat) (s : US) : List UE :=
  match s.ustart, s.xstart with
  | none, none => []
  | some u, x =>
    UE.hdr (u + ln) s.ulines.length (x.getD u + ln) s.xlines.length
      :: (s.ulines.map UE.minus ++ s.xlines.map UE.plus)
  | none, some x =>
    UE.hdr (x + ln) s.ulines.length (x + ln) s.xlines.length
      :: (s.ulines.map UE.minus ++ s.xlines.map UE.plus)

/-- the state after `add_diff_hunk!` (flushed only if a hunk was written) -/
def flushed (s : US) : US := if s.ustart.isSome || s.xstart.isSome then {} else s

def unifiedGo (ln : Nat) : List DL → Nat → US → List UE
  | [], _, s => hunk ln s
  | .matched i _ :: rest, _, s => hunk ln s ++ unifiedGo ln rest i (flushed s)
  | .unmatched i :: rest, _, s =>
    unifiedGo ln rest i { s with ustart := s.ustart.orElse fun _ => some i, ulines := s.ulines ++ [i] }
  | .unexpected ls :: rest, ei, s =>
    let s' : US := { s with xstart := s.xstart.orElse fun _ => some ei, xlines := s.xlines ++ ls }
    if s'.ustart.isSome then hunk ln s' ++ unifiedGo ln rest ei (flushed s')
    else unifiedGo ln rest ei s'

def unifiedEntries (ln : Nat) (d : List DL) : List UE := unifiedGo ln d 0 {}

/-! ## outer loops: which outcomes get a section -/

inductive Kind where
  | ok | malformed | exitcode | internal | timeout | skipped
deriving DecidableEq, Repr

/-- `result.kind` written by the structured renderers (src/outcome.rs, src/testcase.rs) -/
def Kind.name : Kind → String
  | .ok => "success"
  | .malformed => "malformed_output"
  | .exitcode => "invalid_exit_code"
  | .internal => "internal_error"
  | .timeout => "timeout"
  | .skipped => "skipped"

structure OC where
  kind : Kind
  /-- `location` (abstract: a number; order = string order of the real paths) -/
  loc : Option Nat
  /-- `testcase.line_number` -/
  line : Nat
  /-- position in the list handed to the renderer -/
  pos : Nat
deriving Repr

/-- pretty renderer: header + error section for everything that is neither ok nor skipped -/
def prettySections (os : List OC) : List Nat :=
  (os.filter fun o => o.kind != .ok && o.kind != .skipped).map (·.pos)

def countKind (p : Kind → Bool) (os : List OC) : Nat := (os.filter fun o => p o.kind).length

/-- (documents, succeeded, failed, skipped) of the summary line -/
def summary (os : List OC) : Nat × Nat × Nat × Nat :=
  ((os.filterMap (·.loc)).eraseDups.length,
   countKind (· == .ok) os,
   countKind (fun k => k != .ok && k != .skipped) os,
   countKind (· == .skipped) os)

def ocLe (a b : OC) : Bool :=
  match a.loc, b.loc with
  | none, none => a.line ≤ b.line
  | none, some _ => true
  | some _, none => false
  | some x, some y => x < y || (x == y && a.line ≤ b.line)

/-- diff renderer: `none` = the `bail!` for mixed locations; otherwise the outcomes whose
    `render_error` is non-empty, in rendering order (stable sort by location, line number) -/
def diffSections (os : List OC) : Option (List Nat) :=
  let cl := (os.filter (·.loc.isSome)).length
  if cl > 0 ∧ cl ≠ os.length then none
  else
    let sorted := if cl > 0 then os.mergeSort ocLe else os
    some ((sorted.filter fun o =>
      o.kind == .malformed || o.kind == .exitcode || o.kind == .internal).map (·.pos))

end Scrut.Pretty
