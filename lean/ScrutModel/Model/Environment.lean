import ScrutModel.Model.Namer
/-!
# Model of `TestEnvironment` (src/bin/utils/environment.rs) and of its use by `scrut test`

The directory and environment-variable LOGIC of `TestEnvironment::new`, `init_test_file`
(`TestFileEnvironment::build_work_directory`, `build_env_vars`, `create_random_sub_directory`)
and `Drop`, plus the life cycle the `test` command gives it (src/bin/commands/test.rs: ONE
`TestEnvironment` PER DOCUMENT, created inside the loop over the documents and dropped at the end
of the loop body or when the body is left with `?` / `bail!`).

* The file system is the list of paths that exist (`FS`); only membership matters. A path is the
  list of its components, `[]` is the root.
* `tempfile` is an oracle `fresh fs parent pre` = the name (prefix `pre` + random part) of the
  directory created in `parent`. Its contract is `Fresh`: nothing exists at or below the returned
  name. The model never inspects the random part.
* `TempDir::drop` = `remove_dir_all` = `removeTree`: the path and everything below it disappears.
* What the test cases of a document create themselves (`mkdir` below their working directory and
  below `$TMPDIR`) is part of a document (`Doc.mkWork`, `Doc.mkTmp`), so that the clean-up theorems
  speak about whole subtrees, not only about the directories scrut made.
-/
namespace Scrut.Environment
open Scrut.Namer

abbrev Path := List Name
abbrev FS := List Path

/-- `p` is `root` or lies below it -/
def below (root p : Path) : Bool := root.isPrefixOf p

/-- `remove_dir_all(root)` -/
def removeTree (fs : FS) (root : Path) : FS := fs.filter (fun p => !below root p)

/-- names of the entries directly inside `parent` -/
def children (fs : FS) (parent : Path) : List Name :=
  fs.filterMap (fun q => if q.dropLast = parent then q.getLast? else none)

/-- `parent.join(name).exists()` -/
def existsBelow (fs : FS) (parent : Path) : Name → Bool := fun n => (children fs parent).contains n

/-- `PathBuf::to_string_lossy` of an absolute path -/
def render : Path → List Char
  | [] => ['/']
  | p => p.foldr (fun n acc => '/' :: (n ++ acc)) []

/-- `tempfile`: `fresh fs parent pre` is the name of the directory `TempDir::with_prefix_in(pre, parent)` creates -/
abbrev Oracle := FS → Path → Name → Name

/-- contract of `tempfile`: nothing exists at or below the name it picks -/
def Fresh (fresh : Oracle) : Prop :=
  ∀ (fs : FS) (parent : Path) (pre : Name), ∀ q ∈ fs, below (parent ++ [fresh fs parent pre]) q = false

/-! ## names and constants copied from the code -/

def pfxExecution : Name := ['e', 'x', 'e', 'c', 'u', 't', 'i', 'o', 'n', '.']
def pfxTemp : Name := ['t', 'e', 'm', 'p', '.']
def nameTmp : Name := ['_', '_', 't', 'm', 'p']

def vTESTDIR : Name := ['T', 'E', 'S', 'T', 'D', 'I', 'R']
def vTESTFILE : Name := ['T', 'E', 'S', 'T', 'F', 'I', 'L', 'E']
def vTMPDIR : Name := ['T', 'M', 'P', 'D', 'I', 'R']
def vTESTSHELL : Name := ['T', 'E', 'S', 'T', 'S', 'H', 'E', 'L', 'L']
def vLANG : Name := ['L', 'A', 'N', 'G']
def vLANGUAGE : Name := ['L', 'A', 'N', 'G', 'U', 'A', 'G', 'E']
def vLC_ALL : Name := ['L', 'C', '_', 'A', 'L', 'L']
def vTZ : Name := ['T', 'Z']
def vCOLUMNS : Name := ['C', 'O', 'L', 'U', 'M', 'N', 'S']
def vCDPATH : Name := ['C', 'D', 'P', 'A', 'T', 'H']
def vGREP_OPTIONS : Name := ['G', 'R', 'E', 'P', '_', 'O', 'P', 'T', 'I', 'O', 'N', 'S']
def vCRAMTMP : Name := ['C', 'R', 'A', 'M', 'T', 'M', 'P']
def vTMP : Name := ['T', 'M', 'P']
def vTEMP : Name := ['T', 'E', 'M', 'P']
def vSCRUT_TEST : Name := ['S', 'C', 'R', 'U', 'T', '_', 'T', 'E', 'S', 'T']

/-- the variables every test case gets, in the order of `build_env_vars` -/
def documentedNames : List Name :=
  [vTESTDIR, vTESTFILE, vTMPDIR, vTESTSHELL, vLANG, vLANGUAGE, vLC_ALL, vTZ, vCOLUMNS, vCDPATH, vGREP_OPTIONS]

/-- the additional ones in Cram compatibility mode -/
def cramNames : List Name := [vCRAMTMP, vTMP, vTEMP]

/-! ## `EnvironmentDirectory`, `TestEnvironment` -/

inductive DirKind
  | ephemeral      -- `Ephemeral(TempDir)`: removed on drop
  | userProvided   -- `UserProvided(PathBuf)`: never removed by its own handle
  | kept           -- `Kept(PathBuf)`: created by scrut, never removed
  deriving DecidableEq, Repr

structure EnvDir where
  kind : DirKind
  path : Path
  deriving DecidableEq, Repr

abbrev Vars := List (Name × List Char)

structure Env where
  shell : List Char
  work : EnvDir
  tmp : EnvDir
  /-- `UniqueNamer.names` (its `directory` is `work.path`) -/
  names : List Name
  deriving DecidableEq, Repr

inductive NewError
  | noParent   -- the directory to create the temporary directory in does not exist
  | exists     -- `fs::create_dir(__tmp)` found the path in place
  deriving DecidableEq, Repr

inductive NewResult
  | ok (env : Env) (fs : FS)
  | error (e : NewError) (fs : FS)
  deriving Repr

/-- `TestEnvironment::new(shell, provided_work_directory, keep_temporary_directories)`;
`tmpRoot` is `std::env::temp_dir()` of the scrut process -/
def new (fresh : Oracle) (tmpRoot : Path) (shell : List Char) (provided : Option Path) (keep : Bool)
    (fs : FS) : NewResult :=
  if keep then
    if !fs.contains tmpRoot then .error .noParent fs else
    let w := tmpRoot ++ [fresh fs tmpRoot pfxExecution]
    let fs1 := w :: fs
    let t := tmpRoot ++ [fresh fs1 tmpRoot pfxTemp]
    .ok ⟨shell, ⟨.kept, w⟩, ⟨.kept, t⟩, []⟩ (t :: fs1)
  else match provided with
    | some d =>
      if !fs.contains d then .error .noParent fs else
      let t := d ++ [fresh fs d pfxTemp]
      .ok ⟨shell, ⟨.userProvided, d⟩, ⟨.ephemeral, t⟩, []⟩ (t :: fs)
    | none =>
      if !fs.contains tmpRoot then .error .noParent fs else
      let w := tmpRoot ++ [fresh fs tmpRoot pfxExecution]
      let fs1 := w :: fs
      let t := w ++ [nameTmp]
      -- `fs::create_dir` fails on an existing path; `?` then drops the `TempDir` of `work`
      if fs1.contains t then .error .exists (removeTree fs1 w)
      else .ok ⟨shell, ⟨.ephemeral, w⟩, ⟨.userProvided, t⟩, []⟩ (t :: fs1)

/-- a test document as `init_test_file` and the loop of the `test` command see it -/
inductive Ending
  | completes      -- success, validation failure, skip, timeout: the loop goes on
  | shellMissing   -- `canonical_shell(..)?` fails: before `TestEnvironment::new`
  | prependError   -- `find_and_parse` of a prepended/appended document fails: after `new`, before `init_test_file`
  | execError      -- `bail!` after `execute_all` returned an error that is neither skip nor timeout
  deriving DecidableEq, Repr

structure Doc where
  /-- canonical directory of the document (`split_path_abs`; canonicalisation is the OS's) -/
  dir : Path
  /-- file name of the document -/
  file : Name
  /-- `cram_compat` -/
  cram : Bool
  /-- directories the test cases create, relative to their working directory -/
  mkWork : List Path
  /-- directories the test cases create, relative to `$TMPDIR` -/
  mkTmp : List Path
  ending : Ending
  deriving DecidableEq, Repr

/-- fuel that always suffices for the counter loop of the namer (`nextName_terminates`) -/
def namerFuel (fs : FS) (directory : Path) (names : List Name) : Nat :=
  names.length + (children fs directory).length + 1

/-- `create_random_sub_directory(directory, file_name, namer)`; `none` = the namer ran out of fuel -/
def createRandomSubDirectory (fs : FS) (directory : Path) (file : Name) (names : List Name) :
    Option (Path × List Name × FS) :=
  match nextName names (existsBelow fs directory) (namerFuel fs directory names) file with
  | none => none
  | some (n, names') =>
    let d := directory ++ [n]
    some (d, names', if fs.contains d then fs else d :: fs)

/-- `TestFileEnvironment::build_work_directory` -/
def buildWorkDirectory (doc : Doc) (env : Env) (fs : FS) : Option (Path × Env × FS) :=
  match env.work.kind with
  | .userProvided => some (env.work.path, env, fs)
  | _ =>
    match createRandomSubDirectory fs env.work.path doc.file env.names with
    | none => none
    | some (d, names', fs') => some (d, { env with names := names' }, fs')

/-- `TestFileEnvironment::build_env_vars` -/
def buildEnvVars (doc : Doc) (env : Env) : Vars :=
  let tmp := render env.tmp.path
  [ (vTESTDIR, render doc.dir),
    (vTESTFILE, doc.file),
    (vTMPDIR, tmp),
    (vTESTSHELL, env.shell),
    (vLANG, ['C']),
    (vLANGUAGE, ['C']),
    (vLC_ALL, ['C']),
    (vTZ, ['G', 'M', 'T']),
    (vCOLUMNS, ['8', '0']),
    (vCDPATH, []),
    (vGREP_OPTIONS, []) ] ++
  (if doc.cram then [(vCRAMTMP, render env.work.path), (vTMP, tmp), (vTEMP, tmp)] else [])

/-- `TestEnvironment::init_test_file(path, cram_compat)`: work directory first, then the variables -/
def initTestFile (doc : Doc) (env : Env) (fs : FS) : Option ((Path × Vars) × Env × FS) :=
  match buildWorkDirectory doc env fs with
  | none => none
  | some (wd, env', fs') => some ((wd, buildEnvVars doc env'), env', fs')

def dropDir (d : EnvDir) (fs : FS) : FS :=
  match d.kind with
  | .ephemeral => removeTree fs d.path
  | _ => fs

/-- `Drop for TestEnvironment`: the body only logs; then the fields are dropped in declaration
order, and only a `TempDir` (`Ephemeral`) removes anything -/
def drop (env : Env) (fs : FS) : FS := dropDir env.tmp (dropDir env.work fs)

/-- several documents initialised in ONE environment (the API allows it; `scrut test` does not do it) -/
def initTestFiles : List Doc → Env → FS → Option (List (Path × Vars) × Env × FS)
  | [], env, fs => some ([], env, fs)
  | d :: ds, env, fs =>
    match initTestFile d env fs with
    | none => none
    | some (r, env', fs') =>
      match initTestFiles ds env' fs' with
      | none => none
      | some (rs, env'', fs'') => some (r :: rs, env'', fs'')

/-! ## `SCRUT_TEST` (src/executors/stateful_executor.rs: `environment.insert("SCRUT_TEST", "<file>:<line>")`
for every test case, Markdown executor only) -/

def scrutTestValue (file : List Char) (line : Nat) : List Char := file ++ [':'] ++ (toString line).toList

/-- `BTreeMap::insert`: replaces an existing binding -/
def insertVar (vars : Vars) (k : Name) (v : List Char) : Vars :=
  (k, v) :: vars.filter (fun kv => kv.1 != k)

def testCaseVars (vars : Vars) (file : List Char) (line : Nat) : Vars :=
  insertVar vars vSCRUT_TEST (scrutTestValue file line)

/-- `make_executor(shell, cram_compat)` (src/bin/utils/executorutil.rs): Cram compatibility uses
`BashScriptExecutor`, which does not set `SCRUT_TEST`; otherwise `StatefulExecutor` inserts it -/
def executorVars (doc : Doc) (vars : Vars) (file : List Char) (line : Nat) : Vars :=
  if doc.cram then vars else testCaseVars vars file line

/-! ## the loop of `scrut test` over the documents -/

structure Cfg where
  /-- `std::env::temp_dir()` -/
  tmpRoot : Path
  /-- canonical path of the shell -/
  shell : List Char
  /-- `--work-directory` -/
  provided : Option Path
  /-- `--keep-temporary-directories` -/
  keep : Bool
  deriving Repr

/-- what the test cases of a document do to the file system -/
def execTests (doc : Doc) (workDir tmpDir : Path) (fs : FS) : FS :=
  doc.mkTmp.map (tmpDir ++ ·) ++ (doc.mkWork.map (workDir ++ ·) ++ fs)

/-- the life of one document that got as far as `TestEnvironment::new` -/
structure DocRun where
  doc : Doc
  /-- file system when the document's turn begins -/
  fsBefore : FS
  /-- its `TestEnvironment` -/
  env : Env
  /-- working directory of its test cases (`none`: `init_test_file` was not reached) -/
  workDir : Option Path
  /-- variables handed to its test cases -/
  vars : Vars
  /-- file system while / after its test cases ran, before the environment is dropped -/
  fsDuring : FS
  /-- file system after its environment was dropped -/
  fsAfter : FS
  deriving Repr

/-- directories scrut itself made for this document -/
def DocRun.scrutCreated (r : DocRun) : List Path :=
  (if r.env.work.kind = .userProvided then [] else r.env.work.path :: r.workDir.toList) ++ [r.env.tmp.path]

/-- directories the document's test cases made -/
def DocRun.testsCreated (r : DocRun) : List Path :=
  match r.workDir with
  | none => []
  | some wd => r.doc.mkTmp.map (r.env.tmp.path ++ ·) ++ r.doc.mkWork.map (wd ++ ·)

/-- body of the loop for one document: `(record, file system afterwards, loop goes on)`;
`none` = namer out of fuel (never happens: `runDocs_total`) -/
def runDoc (cfg : Cfg) (fresh : Oracle) (doc : Doc) (fs : FS) : Option (Option DocRun × FS × Bool) :=
  if doc.ending = .shellMissing then some (none, fs, false) else
  match new fresh cfg.tmpRoot cfg.shell cfg.provided cfg.keep fs with
  | .error _ fs' => some (none, fs', false)
  | .ok env fs1 =>
    if doc.ending = .prependError then
      some (some ⟨doc, fs, env, none, [], fs1, drop env fs1⟩, drop env fs1, false)
    else
      match initTestFile doc env fs1 with
      | none => none
      | some ((wd, vars), env', fs2) =>
        let fs3 := execTests doc wd env'.tmp.path fs2
        some (some ⟨doc, fs, env', some wd, vars, fs3, drop env' fs3⟩, drop env' fs3, doc.ending = .completes)

structure Run where
  runs : List DocRun
  /-- file system when the command returns (scrut exits right after) -/
  fs : FS
  /-- every document had its turn -/
  finished : Bool
  deriving Repr

def runDocs (cfg : Cfg) (fresh : Oracle) : FS → List Doc → Option Run
  | fs, [] => some ⟨[], fs, true⟩
  | fs, d :: ds =>
    match runDoc cfg fresh d fs with
    | none => none
    | some (r, fs', cont) =>
      if cont then
        match runDocs cfg fresh fs' ds with
        | none => none
        | some R => some ⟨r.toList ++ R.runs, R.fs, R.finished⟩
      else some ⟨r.toList, fs', false⟩

/-- `scrut test`: all documents are parsed first (`find_and_parse(..)?`); a parse error ends the
command before any environment exists -/
def runCommand (cfg : Cfg) (fresh : Oracle) (parseOk : Bool) (fs : FS) (docs : List Doc) : Option Run :=
  if parseOk then runDocs cfg fresh fs docs else some ⟨[], fs, false⟩

/-- which `EnvironmentDirectory` variants and paths each mode produces -/
def ModeShape (tmpRoot : Path) (provided : Option Path) (keep : Bool) (env : Env) : Prop :=
  if keep then
    env.work.kind = .kept ∧ env.tmp.kind = .kept ∧ (∃ n, env.work.path = tmpRoot ++ [n]) ∧
      ∃ n, env.tmp.path = tmpRoot ++ [n]
  else match provided with
    | some d => env.work = ⟨.userProvided, d⟩ ∧ env.tmp.kind = .ephemeral ∧ ∃ n, env.tmp.path = d ++ [n]
    | none => env.work.kind = .ephemeral ∧ env.tmp = ⟨.userProvided, env.work.path ++ [nameTmp]⟩ ∧
        ∃ n, env.work.path = tmpRoot ++ [n]

/-! ## a concrete oracle that satisfies `Fresh` (used by the driver and the examples) -/

def maxLen (fs : FS) : Nat := (fs.flatten.map List.length).foldr max 0

/-- prefix followed by more `x` than any existing component is long -/
def longFresh : Oracle := fun fs _ pre => pre ++ List.replicate (maxLen fs + 1) 'x'

end Scrut.Environment
