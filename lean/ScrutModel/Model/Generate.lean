import ScrutModel.Model.Newline
import ScrutModel.Model.Escaping
import ScrutModel.Model.Grammar
import ScrutModel.Model.LineParser
import ScrutModel.Model.Diff
/-!
# Model of the test generators on the `scrut create` and `scrut update` paths (C09)

Anchors (scrut):
* `src/generators/outcome.rs`: `looks_like_modifier_or_exit_code`, `generate_testcase_expression`,
  `generate_expectation_line`, `generate_testcase_exit_code`, `generate_testcase`: for a test case
  without expectations (`generateTestcase`, the `create` path: `Ok`, `MalformedOutput` for a diff
  that consists of unexpected lines only, `InvalidExitCode`) and for a test case with expectations
  and any diff (`generateTestcaseUpd`, the `update` path; the former is its special case
  `origs = []`: `GenLemmas.generateTestcase_create_upd`);
* `src/generators/markdown.rs`: `MarkdownTestCaseGenerator::generate_testcases` for one outcome
  without title, `max_backtick_size`;
* `src/generators/cram.rs`: `CramTestCaseGenerator::generate_testcases` for one outcome without
  title, `cram_indented`;
* `src/bin/commands/create.rs` + `TestCase::validate`: the outcome of a test case without
  expectations (`createResult`).

Text is `List Char`, output is `List UInt8`. `isOther` = `char::is_other()` (parameter, as in
`Model/Escaping.lean`). `char::is_whitespace` is the Unicode `White_Space` property
(`Grammar.unicodeWhite`, the same set the regex crate uses for `\s`).

Panics are values: `none` stands for a Rust panic (`expression_lines[0]` on an empty command,
`text[1..]` off a character boundary). `from_utf8_lossy` is modelled on valid UTF-8 only; the one
place where it could see anything else (`generate_expectation_line`, first-character escape of a
line that is *not* escaped) is unreachable with invalid UTF-8 and answers `none` too
(`GenLemmas.expectationLine_isSome`: `none` never happens).
-/
namespace Scrut.Gen
open Scrut.Utf8 Scrut.Esc

/-! ## `generate_expectation_line` -/

/-- `line.ends_with(b"\n")` -/
def endsWithLF (l : List UInt8) : Bool := l.getLast? == some 10

/-- the `is_exit_code` part of `looks_like_modifier_or_exit_code`: `[` + one or more ASCII digits
+ `]` (`code.bytes().all(is_ascii_digit)`: a non-ASCII character has no digit byte) -/
def isExitCodeShaped (t : List Char) : Bool :=
  match t with
  | '[' :: rest =>
    match rest.reverse with
    | ']' :: revDigits =>
      let ds := revDigits.reverse
      !ds.isEmpty && ds.all LineParser.isAsciiDigit
    | _ => false
  | _ => false

/-- `looks_like_modifier_or_exit_code`; its `is_modifier` part is literally `ends_like_modifier`
of src/rules/rule.rs (`Grammar.endsLikeModifier`) -/
def looksLikeModifierOrExitCode (t : List Char) : Bool :=
  isExitCodeShaped t || Grammar.endsLikeModifier Grammar.unicodeWhite t

/-- `" (no-eol)"` -/
def noEolMod : List Char := [' ', '(', 'n', 'o', '-', 'e', 'o', 'l', ')']
/-- `" (equal)"` -/
def equalMod : List Char := [' ', '(', 'e', 'q', 'u', 'a', 'l', ')']
/-- `" (escaped)"` -/
def escapedMod : List Char := Esc.marker
/-- `"\\x20(no-eol)"` -/
def x20NoEol : List Char := ['\\', 'x', '2', '0', '(', 'n', 'o', '-', 'e', 'o', 'l', ')']

/-- `str::strip_suffix` -/
def stripSuffix? (s t : List Char) : Option (List Char) :=
  if s.isSuffixOf t then some (t.take (t.length - s.length)) else none

/-- `expectation.starts_with("$ ") || expectation.starts_with("> ")`: the first character if so -/
def commandLead (t : List Char) : Option Char :=
  match t with
  | c :: ' ' :: _ => if c = '$' ∨ c = '>' then some c else none
  | _ => none

/-- `format!("\\x{:02x}", byte)` for the (ASCII) first character -/
def hexEscape (c : Char) : List Char := ['\\', 'x', hexChar (c.toNat / 16), hexChar (c.toNat % 16)]

/-- the expectation before the first-character escape -/
def expectationBody (m : Mode) (isOther : Char → Bool) (line : List UInt8) : List Char :=
  let content := trimNewlines line
  let e := escapedExpectation m isOther content
  if hasUnprintable m isOther content then e
  else if !endsWithLF line then e ++ noEolMod
  else if looksLikeModifierOrExitCode e then e ++ equalMod
  else e

/-- the first-character escape: a text that starts with `$ ` or `> ` gets its first character
written `\x24` / `\x3e` and becomes (or stays) an escaped expectation -/
def escapeLead (m : Mode) (isOther : Char → Bool) (line : List UInt8) : Option (List Char) :=
  let content := trimNewlines line
  let e := expectationBody m isOther line
  match commandLead e with
  | none => some e
  | some c =>
    if hasUnprintable m isOther content then
      some (hexEscape c ++ e.drop 1)                    -- `expectation[1..]`
    else
      match utf8Decode content with                      -- `String::from_utf8_lossy(content)`
      | some (_ :: rest) =>                              -- `text[1..]` (the first character is `c`)
        some (hexEscape c ++ Grammar.doubleBackslash rest ++ escapedMod)
      | _ => none

/-- the last step: ` (no-eol) (escaped)` at the end becomes `\x20(no-eol) (escaped)` (the escaped
rule would strip a tailing ` (no-eol)` from its expression) -/
def guardNoEol (e : List Char) : List Char :=
  match stripSuffix? (noEolMod ++ escapedMod) e with
  | some body => body ++ x20NoEol ++ escapedMod
  | none => e

/-- `generate_expectation_line` without the final line feed -/
def expectationLine (m : Mode) (isOther : Char → Bool) (line : List UInt8) : Option (List Char) :=
  (escapeLead m isOther line).map guardNoEol

/-! ## `generate_testcase_expression`, exit code, `generate_testcase` -/

/-- `split_at_newline` on the bytes of a `String`, read as text (UTF-8 is self-synchronising: the
byte 0x0A occurs only as the character `'\n'`) -/
def splitAuxC : List Char → List Char → List (List Char)
  | [], cur => if cur.isEmpty then [] else [cur]
  | c :: rest, cur =>
    if c = '\n' then (cur ++ [c]) :: splitAuxC rest []
    else splitAuxC rest (cur ++ [c])

def splitAtNewlineC (t : List Char) : List (List Char) := splitAuxC t []

/-- `assure_newline` -/
def assureNewlineC (t : List Char) : List Char := if t.getLast? == some '\n' then t else t ++ ['\n']

/-- `str::split('\n')`: the pieces between the line feeds -- always at least one, a final empty one behind a
final line feed -/
def splitNl : List Char → List Char → List (List Char)
  | [], cur => [cur]
  | c :: rest, cur => if c = '\n' then cur :: splitNl rest [] else splitNl rest (cur ++ [c])

/-- `generate_testcase_expression` (since fix 961e96b: every line feed of the expression starts a `> ` line, an
empty expression is the line `$ `; before, `expression_lines[0]` panicked on the empty expression and a final
line feed was dropped). The `Option` is kept for the callers: it is always `some`. -/
def expression (cmd : List Char) : Option (List Char) :=
  match splitNl cmd [] with
  | [] => none
  | l0 :: rest => some (['$', ' '] ++ l0 ++ ['\n'] ++ rest.flatMap (fun l => ['>', ' '] ++ l ++ ['\n']))

/-- `format!("{}", code)` for an `i32` -/
def showInt (c : Int) : List Char :=
  if c < 0 then '-' :: Nat.toDigits 10 c.natAbs else Nat.toDigits 10 c.toNat

/-- `formatln!("[{}]", code)` -/
def exitCodeLine (c : Int) : List Char := ['['] ++ showInt c ++ [']', '\n']

/-- `generate_testcase_exit_code` for `ExitStatus::Code(c)` -/
def exitCodeOpt (c : Int) : List Char := if c ≠ 0 then exitCodeLine c else []

/-- `outcome.result` of a test case without expectations: `Ok`, `MalformedOutput` with one
`UnexpectedLines` holding every line, or `InvalidExitCode` -/
inductive Result where
  | ok
  | malformed (unexpected : List (List UInt8))
  | invalidExit (actual : Int)
  deriving DecidableEq, Repr

/-- `TestCase::validate` for `expectations = []`, `exit_code = None` on `ExitStatus::Code(code)`
and the selected stream `out` (the diff of no expectations against `m` lines is
`[UnexpectedLines 0..m]` if `m > 0`, else empty: `GenLemmas.diff_no_expectations`) -/
def createResult (out : List UInt8) (code : Int) : Result :=
  if code ≠ 0 then .invalidExit code
  else if (Newline.splitAtNewline out).isEmpty then .ok else .malformed (Newline.splitAtNewline out)

/-- the expectation lines for a list of output lines, each with its line feed -/
def expectationLines (m : Mode) (isOther : Char → Bool) : List (List UInt8) → Option (List Char)
  | [] => some []
  | l :: ls =>
    match expectationLine m isOther l, expectationLines m isOther ls with
    | some t, some r => some (t ++ '\n' :: r)
    | _, _ => none

/-- `generate_testcase` (no prior expectations). `out` = the stream the test case is validated
against, `code` = `output.exit_code` -/
def generateTestcase (m : Mode) (isOther : Char → Bool) (cmd : List Char) (res : Result)
    (out : List UInt8) (code : Int) : Option (List Char) :=
  match expression cmd with
  | none => none
  | some ex =>
    match res with
    | .ok => some (ex ++ exitCodeOpt code)
    | .malformed ls => (expectationLines m isOther ls).map (fun e => ex ++ e ++ exitCodeOpt code)
    | .invalidExit actual =>
      -- `[0]` is not written: an exit code of zero is the default (as for a passing test case)
      (expectationLines m isOther (Newline.splitAtNewline out)).map (fun e => ex ++ e ++ exitCodeOpt actual)

/-! ## Markdown and Cram wrappers -/

/-- pieces between `'\n'`s; a final piece only if it is not empty (`str::lines` without its
`'\r'` stripping, `split('\n')` after `strip_suffix('\n')` differs only on the empty text) -/
def linesAux : List Char → List Char → List (List Char)
  | [], cur => if cur.isEmpty then [] else [cur]
  | c :: rest, cur => if c = '\n' then cur :: linesAux rest [] else linesAux rest (cur ++ [c])

def lines (t : List Char) : List (List Char) := linesAux t []

def leadingBackticks : List Char → Nat
  | '`' :: r => leadingBackticks r + 1
  | _ => 0

/-- `max_backtick_size` -/
def maxBacktickSize (code : List Char) : Nat :=
  (lines code).foldl (fun mx l => Nat.max (leadingBackticks l) mx) 2

/-- the configuration of the test case relative to the format's default, as `create` can have it
here: nothing, or `output_stream: stderr`; and as `update --convert markdown` has it for a test read
from a Cram document (the Cram defaults, relative to the Markdown defaults) -/
inductive ConfigDiff where
  | empty | stderr | cramDefaults
  deriving DecidableEq, Repr

/-- `format!(" {}", config_diff.to_yaml_one_liner())` or `""` -/
def configText : ConfigDiff → List Char
  | .empty => []
  | .stderr => [' ', '{', 'o', 'u', 't', 'p', 'u', 't', '_', 's', 't', 'r', 'e', 'a', 'm', ':', ' ', 's', 't', 'd', 'e', 'r', 'r', '}']
  | .cramDefaults => [' ', '{', 'o', 'u', 't', 'p', 'u', 't', '_', 's', 't', 'r', 'e', 'a', 'm', ':', ' ', 'c', 'o', 'm', 'b', 'i', 'n', 'e', 'd', ',', ' ', 'k', 'e', 'e', 'p', '_', 'c', 'r', 'l', 'f', ':', ' ', 't', 'r', 'u', 'e', '}']

def language : List Char := ['s', 'c', 'r', 'u', 't']

/-- `MarkdownTestCaseGenerator::generate_testcases(&[outcome])`, empty title -/
def markdownDoc (cfg : ConfigDiff) (generated : List Char) : List Char :=
  let ticks := List.replicate (maxBacktickSize generated + 1) '`'
  ticks ++ language ++ configText cfg ++ ['\n'] ++ generated ++ ticks ++ ['\n']

/-- `str::split('\n')` -/
def splitOnNl : List Char → List Char → List (List Char)
  | [], cur => [cur]
  | c :: rest, cur => if c = '\n' then cur :: splitOnNl rest [] else splitOnNl rest (cur ++ [c])

/-- `Vec<String>::join("\n")` -/
def joinNl : List (List Char) → List Char
  | [] => []
  | [l] => l
  | l :: rest => l ++ '\n' :: joinNl rest

/-- `cram_indented` -/
def cramIndented (indent : List Char) (t : List Char) : List Char :=
  if t.isEmpty then [] else
  let body := match stripSuffix? ['\n'] t with | some b => b | none => t
  joinNl ((splitOnNl body []).map (indent ++ ·)) ++ ['\n']

/-- `CramTestCaseGenerator::default().generate_testcases(&[outcome])`, empty title -/
def cramDoc (generated : List Char) : List Char := cramIndented [' ', ' '] generated

inductive Format where
  | markdown | cram
  deriving DecidableEq, Repr

/-- what `scrut create` prints for command `cmd`, selected stream `out` and exit code `code` -/
def create (fmt : Format) (m : Mode) (isOther : Char → Bool) (cfg : ConfigDiff) (cmd : List Char)
    (out : List UInt8) (code : Int) : Option (List Char) :=
  (generateTestcase m isOther cmd (createResult out code) out code).map (fun g =>
    match fmt with
    | .markdown => markdownDoc cfg g
    | .cram => cramDoc g)

/-! ## `generate_testcase` for a test WITH expectations (`scrut update`)

`Outcome::generate_testcase` of src/generators/outcome.rs, all three branches it renders, for a test
case that has expectations. The inputs are what the branches read from the outcome:
* `origs`: `expectation.original_string()` of `testcase.expectations`, by expectation index;
* `lines`: `split_at_newline` of the stream the test case is validated against (stdout, or stderr
  for `output_stream: stderr`);
* the result: `Ok`, `MalformedOutput(diff)` with `diff.lines` as `List Diff.DL` (the `DiffLine`s of
  `Model/Diff.lean`: output lines are indices into `lines`, expectations are indices into `origs`),
  `InvalidExitCode { actual, .. }`;
* `code`: `output.exit_code` (`ExitStatus::Code`).
The quantifiers of the expectations play no role here: a retained expectation is written back as its
original text whatever it is. `InternalError`, `Timeout`, `Skipped` are `bail!`s (an error, no text):
not part of this function.

`none` = a Rust panic (`expression_lines[0]` of an empty command), or an input that no `Outcome` can
hold: in Rust a `DiffLine` carries the expectation and the line bytes themselves, so an index outside
`origs` / `lines` has no counterpart (the driver answers `crash`, the harness never sends one). -/

/-- `outcome.result`: the kinds that `generate_testcase` renders -/
inductive UpdResult where
  | ok
  | malformed (d : List Diff.DL)
  | invalidExit (actual : Int)
  deriving DecidableEq, Repr

/-- the output lines a `DiffLine::UnexpectedLines { lines }` holds -/
def linesAt (lines : List (List UInt8)) : List Nat → Option (List (List UInt8))
  | [] => some []
  | i :: is =>
    match lines[i]?, linesAt lines is with
    | some l, some r => some (l :: r)
    | _, _ => none

/-- the loop `for diff_line in diff.lines.iter()`: a `MatchedExpectation` is written back as
`expectation.original_string().assure_newline()` (whatever lines it holds), the lines of
`UnexpectedLines` go through `generate_expectation_line` one by one, an `UnmatchedExpectation` is
dropped (`_ => continue`) -/
def diffBody (m : Mode) (isOther : Char → Bool) (origs : List (List Char)) (lines : List (List UInt8)) :
    List Diff.DL → Option (List Char)
  | [] => some []
  | .matched ei _ :: r =>
    match origs[ei]?, diffBody m isOther origs lines r with
    | some o, some t => some (assureNewlineC o ++ t)
    | _, _ => none
  | .unmatched _ :: r => diffBody m isOther origs lines r
  | .unexpected is :: r =>
    match (linesAt lines is).bind (expectationLines m isOther), diffBody m isOther origs lines r with
    | some e, some t => some (e ++ t)
    | _, _ => none

/-- is the first line written behind the shell expression one that is kept as it was (the original text of a
matched expectation), not a generated one -/
def firstKept : List Diff.DL → Bool
  | [] => false
  | .matched _ _ :: _ => true
  | .unmatched _ :: r => firstKept r
  | .unexpected is :: r => if is.isEmpty then firstKept r else false

/-- `push_expectations_and_exit_code` (fix cfef990): the expectation lines, then `[code]` iff `code ≠ 0` -- unless
the first line is a kept one that starts like a continuation line (`> `): then `[code]` (also `[0]`) goes in
front, so that the line is not read as a part of the shell expression -/
def withExitCode (firstKept : Bool) (body : List Char) (code : Int) : List Char :=
  if firstKept && body.take 2 == ['>', ' '] then exitCodeLine code ++ body else body ++ exitCodeOpt code

/-- `generate_testcase`:
* `Ok`: command, the original text of every expectation (`assure_newline`), `[code]` iff `code ≠ 0`;
* `MalformedOutput(diff)`: command, `diffBody`, `[code]` iff `code ≠ 0`
  (`generate_testcase_exit_code` reads `output.exit_code`);
* `InvalidExitCode { actual }`: command, EVERY line of the stream through
  `generate_expectation_line` -- all old expectations are discarded --, `[actual]` iff `actual ≠ 0`
  (fix 4ef7b15: `[0]` is not written). -/
def generateTestcaseUpd (m : Mode) (isOther : Char → Bool) (cmd : List Char) (origs : List (List Char))
    (res : UpdResult) (lines : List (List UInt8)) (code : Int) : Option (List Char) :=
  match expression cmd with
  | none => none
  | some ex =>
    match res with
    | .ok => some (ex ++ withExitCode true (origs.flatMap assureNewlineC) code)
    | .malformed d => (diffBody m isOther origs lines d).map (fun b => ex ++ withExitCode (firstKept d) b code)
    | .invalidExit actual => (expectationLines m isOther lines).map (fun e => ex ++ e ++ exitCodeOpt actual)

/-- `TestCase::validate` on `ExitStatus::Code(code)`: the exit-code gate (`expected.unwrap_or(0)`)
comes first, then the diff `d` of the expectations against the selected stream -/
def updResult (expected : Option Int) (d : List Diff.DL) (code : Int) : UpdResult :=
  if code ≠ expected.getD 0 then .invalidExit code
  else if Diff.hasDiff d then .malformed d else .ok

end Scrut.Gen
