import ScrutModel.Model.Markdown
/-!
# Model of `MarkdownUpdateGenerator::generate_update` (`src/generators/markdown.rs`)

`generateUpdate languages doc gens`:

* `outcomes.is_empty()` → the original document, untouched;
* otherwise the document is split with `str::lines()` (`splitLines`: LF / CRLF terminators are
  dropped), tokenized with the `MarkdownIterator` model (`tokenize`) and every token is written
  back (`emitTok`):
  * `Line` → the line, `assure_newline`;
  * `DocumentConfig` → `---`, LF, every configuration line `assure_newline`, `---`, LF (an
    unterminated front-matter gets a closing `---`);
  * `VerbatimCodeBlock` → its lines, each `assure_newline`;
  * `TestCodeBlock` without code lines → "```" + language + config, the comment lines, "```"; it
    consumes no outcome;
  * `TestCodeBlock` with code → `max_backtick_size(generated) + 1` backticks + language + config,
    the comment lines, the generated text **as it is**, the backticks (`assure_newline`); the
    config is `" {" + config_lines.join("\n").trim_start() + "}"` unless the joined config lines
    hold nothing but white space (then it is empty).

Parameter: `gens`, one entry per outcome – the text that `Outcome::generate_testcase` returns for
it (`none`: it returns an error: timeout, skipped, internal error).  `outcomes.get(i)` is the
checked access `gens[i]?`; a missing outcome is the error `noOutcome i`.
-/
namespace Scrut.Update
open Scrut.Markdown Scrut.LineParser

inductive Err where
  /-- a panic of the tokenizer (`C06_no_crash`: never) -/
  | crash
  /-- "no outcome for testcase number i+1" -/
  | noOutcome (i : Nat)
  /-- `generate_testcase` of outcome `i` failed ("testcase number i+1") -/
  | generate (i : Nat)
  deriving Repr, DecidableEq, Inhabited

/-- `str::assure_newline` -/
def assureNewline (s : List Char) : List Char :=
  if s.getLast? = some '\n' then s else s ++ ['\n']

/-- the `for ch in line.chars()` loop of `max_backtick_size` -/
def leadingBackticks (l : Line) : Nat := (l.takeWhile (· = '`')).length

/-- `max_backtick_size` -/
def maxBacktickSize (code : List Char) : Nat :=
  (splitLines code).foldl (fun m l => max (leadingBackticks l) m) 2

/-- `"`".repeat(n)` -/
def backticks (n : Nat) : Line := List.replicate n '`'

/-- `trim_start_matches([' ', '\t'])`: what YAML itself skips in front of the first key -/
def blankStart : List Char → List Char
  | [] => []
  | c :: r => if c = ' ' ∨ c = '\t' then blankStart r else c :: r

/-- `if config_text.trim().is_empty() { "" } else { format!(" {{{}}}", config_text.trim_start_matches([' ', '\t'])) }`
(until fix 15b47d2: `trim_start()`, which also dropped Unicode white space that YAML reads as part of the first key) -/
def configSuffix (cfg : Numbered) : List Char :=
  let text := joinNumbered cfg
  if (trim text).isEmpty then [] else ' ' :: '{' :: (blankStart text ++ ['}'])

/-- `for (_, line) in &lines { updated.push_str(&line.assure_newline()) }` (comment lines, front-matter lines) -/
def commentText (comments : Numbered) : List Char := comments.flatMap (fun c => assureNewline c.2)

/-- opening line, comment lines, body, closing line of a rewritten scrut block -/
def testBlock (bt language : Line) (cfg comments : Numbered) (body : List Char) : List Char :=
  bt ++ language ++ configSuffix cfg ++ ['\n'] ++ commentText comments ++ body ++ assureNewline bt

/-- one iteration of `for token in iterator`: the text appended to `updated` and the new
`testcase_index` -/
def emitTok (gens : List (Option (List Char))) (k : Nat) : Tok → Except Err (List Char × Nat)
  | .line _ l => .ok (assureNewline l, k)
  | .docConfig ls => .ok (['-', '-', '-', '\n'] ++ commentText ls ++ ['-', '-', '-', '\n'], k)
  | .verbatim _ _ ls => .ok (ls.flatMap assureNewline, k)
  | .test language cfg comments code =>
    -- a code block without code holds no test, hence has no outcome
    if code.isEmpty then .ok (testBlock (backticks 3) language cfg comments [], k)
    else
      match gens[k]? with
      | none => .error (.noOutcome k)
      | some none => .error (.generate k)
      | some (some g) => .ok (testBlock (backticks (maxBacktickSize g + 1)) language cfg comments g, k + 1)

/-- the `for token in iterator` loop -/
def emit (gens : List (Option (List Char))) : Nat → List Tok → Except Err (List Char)
  | _, [] => .ok []
  | k, t :: r =>
    match emitTok gens k t with
    | .error e => .error e
    | .ok (s, k') =>
      match emit gens k' r with
      | .error e => .error e
      | .ok rest => .ok (s ++ rest)

/-- `generate_update(original_document, outcomes)` -/
def generateUpdate (languages : List Line) (doc : List Char) (gens : List (Option (List Char))) :
    Except Err (List Char) :=
  if gens.isEmpty then .ok doc
  else
    match tokenize languages (splitLines doc) with
    | .error _ => .error .crash
    | .ok toks => emit gens 0 toks

end Scrut.Update
