import ScrutModel.Model.Utf8
import ScrutModel.Model.Crlf
import ScrutModel.Model.StripAnsi
import ScrutModel.Model.Markdown
import ScrutModel.Model.Grammar
import ScrutModel.Model.EscapedFilter
import ScrutModel.Model.RulesStr
import ScrutModel.Model.Glob
import ScrutModel.Model.Newline
import ScrutModel.Model.Diff
import ScrutModel.Model.ConfigRender
import ScrutModel.Model.Exec
import ScrutModel.Model.Cram
import ScrutModel.Model.Divider
/-!
# `scrut test` on one Markdown document, end to end: the COMPOSITION of the piece models

Every other model file describes one piece of scrut and is tied to the real code by its own
correspondence stream.  This file contains no new model of a piece (with two small exceptions,
`globMake` and `fromUtf8Lossy`, see below); it wires the pieces together in the order in which the
real code does, so that a defect in the GLUE (which stream is compared, how the texts of a test block become rules, how
outputs and test cases are paired, how verdicts become the exit status) is visible to a
correspondence with the real BINARY (`harness/src/testrun.rs`, stream `e2e-testdoc`).

Code path followed (`src/bin/commands/test.rs`, `Args::run`, one document on the command line):

1. `file_parser.rs::read_file`: bytes → `replace_crlf` (`Crlf.replaceCrlf`) → `String::from_utf8`
   (`Utf8.utf8Decode`); an undecodable document is an error (exit 1).
2. `MarkdownParser::parse` (`Markdown.parseMarkdown`) with
   * `expOk l`     := `Grammar.parse` succeeds on `l` (the `ExpectationMaker` of
     `make_expectation_maker(false)`: default registry; rule construction of the kinds `escaped`
     (`EscF.decode` behind `Grammar.makeRule`'s ` (no-eol)` strip) and `glob` (`globMake`) as modelled;
     kind `regex` is NOT composed: its `make` is taken to succeed and the whole document is
     `unsupported`),
   * `testCfgOk t` := `Yaml.parseFlow ("{" ++ t ++ "}")` is not an error (`serde_yaml::from_str` of
     the inline configuration; texts outside the modelled YAML subset make the document
     `unsupported`),
   * `docCfgOk`    := accepts everything; a document whose front-matter is not of the one recognised
     harmless shape `total_timeout: <1-6 digits>s` is `unsupported` (no model of
     `serde_yaml::from_str::<DocumentConfig>` exists; the recognised shape sets no test case
     defaults),
   * `isLetter`    := ASCII letters (`\p{L}` only decides titles, which are not part of the result).
   A parse error is exit status 1 with no result.
3. per test case the configuration `inline.with_defaults_from(document defaults = empty)
   .with_defaults_from(TestCaseConfig::default_markdown())`: `output_stream` defaults to `stdout`,
   `skip_document_code` to 80, `keep_crlf` stays unset.  No command-line overrides, no front-matter
   defaults.  `detached: true`, `wait`, and `environment` make the document `unsupported`.
4. every expectation text → `Grammar.parse` → a rule (`compile`).
5. `StatefulExecutor::execute_all` (`Exec.execAll`) with a runner that returns, for test `i`, the
   given COMPLETED run `(stdout, stderr, exit code)` after `TestCase::render_output`
   (`Crlf.renderOutput` with the test's `keep_crlf` / `strip_ansi_escaping`; `StripAnsi.strip`) has
   been applied to both streams (`subprocess_runner.rs`: what is recorded is already processed).
   Under `output_stream: combined` the runner merges the streams into the recorded stdout; the model
   takes the given stdout bytes followed by the given stderr bytes (an assumption on the command:
   it writes all of stdout before stderr) and records an empty stderr.
   The exit code equal to the skip code skips the document (all tests `skipped`).
6. `TestCase::validate` (`Exec.validate`) on the original test case: exit-code gate, then the
   selected stream (`stderr` iff `output_stream == stderr`) → `split_at_newline`
   (`Newline.splitAtNewline`) → match matrix `mt i j := rule i matches line j` → `Diff.diff` →
   `Diff.hasDiff`.
7. result mapping `Exec.runDocument`, exit status `Exec.exitStatus`.

Outside the composition (result `unsupported`, never a guess): regex expectations; the
configurations named above.

## The two new pieces: `globMake` and `fromUtf8Lossy`

`GlobRule::matches` decodes the line with `String::from_utf8_lossy`; `Model/Glob.lean` starts at the
decoded characters ("the decoding of the output line is not modelled").  `fromUtf8Lossy` below is
that decoding (tied to `String::from_utf8_lossy` by the in-process stream `lossy-decode` of
`harness/src/testrun.rs` and, inside the composition, by `e2e-testdoc`).

`GlobRule::make` (src/rules/glob.rs) first looks for a trailing escaped marker
(`expression_as_escaped`: ` (escaped)`, ` \(escaped\)`, ` (esc)`, ` \(esc\)`, in this order) and, if
there is one, resolves the escape sequences of the rest (`apply_escaped_filter_utf8` =
`EscF.decode` then `String::from_utf8`).  `Model/Glob.lean` starts at the pattern handed to
`WildMatch::new`; the step in front of it was a parameter (`Grammar.Params.make`) everywhere else.

## Cram documents and `--cram-compat` (section 6)

`testCramDocumentBytes` (`scrut test -r json doc.t`) and `testDocumentCompatBytes`
(`scrut test --cram-compat -r json doc.md`) follow the other path of `FileParser::parser` and
`make_executor`: see the header of section 6.  `testDocumentBytes` and everything it uses are unchanged
(the rule type has one more constructor, which `compile` never builds).
-/
namespace Scrut.TestRun
open Scrut

abbrev Line := List Char
abbrev Bytes := List UInt8

/-! ## 1. reading the document -/

inductive ReadErr where
  /-- a modelled panic (`replace_crlf` slicing; proved impossible in `Lemmas/Crlf.lean`) -/
  | crash
  /-- "content file … is not utf-8 encoded" -/
  | notUtf8
  deriving DecidableEq, Repr

/-- `file_parser.rs::read_file` on the bytes of the file -/
def readFile (bytes : Bytes) : Except ReadErr (List Char) :=
  match Crlf.replaceCrlf bytes with
  | none => .error .crash
  | some b =>
    match Utf8.utf8Decode b with
    | none => .error .notUtf8
    | some t => .ok t

/-! ## 2. expectations → rules -/

def chars (s : String) : List Char := s.toList

/-- the sequences of `expression_as_escaped`, in the order of the source -/
def escapedMarkers : List (List Char) :=
  [ [' ', '(', 'e', 's', 'c', 'a', 'p', 'e', 'd', ')'],
    [' ', '\\', '(', 'e', 's', 'c', 'a', 'p', 'e', 'd', '\\', ')'],
    [' ', '(', 'e', 's', 'c', ')'],
    [' ', '\\', '(', 'e', 's', 'c', '\\', ')'] ]

/-- `expression_as_escaped`: the expression without the first marker (in the order above) it ends in -/
def expressionAsEscaped (e : List Char) : Option (List Char) :=
  escapedMarkers.findSome? (fun m => Grammar.stripSuffix m e)

/-- `GlobRule::make`: the pattern handed to `WildMatch::new`; `none` = `Err` -/
def globMake (e : List Char) : Option (List Char) :=
  match expressionAsEscaped e with
  | some body => (EscF.decode body).bind Utf8.utf8Decode
  | none => some e

/-- the grammar with the modelled rule constructors.  `escPrintable`, `hasUnprintable` and
`isSpaceStd` are used by `Grammar.toExpressionString` only, never by `Grammar.parse`. -/
def grammarParams : Grammar.Params :=
  { isWhite := Grammar.unicodeWhite
    make := fun k e =>
      match k with
      | .escaped => EscF.decode e
      | .glob => (globMake e).map Grammar.utf8
      -- NOT composed: a document with a regex expectation is `unsupported` (see `compile`)
      | .regex => some (Grammar.utf8 e)
      -- `Grammar.makeRule` never asks for these
      | .equal => none
      | .noEol => none
    escPrintable := fun _ => []
    hasUnprintable := fun _ => false
    isSpaceStd := Grammar.unicodeWhite }

/-- `ExpectationMaker::parse(line).is_ok()` -/
def expOk (l : Line) : Bool :=
  match Grammar.parse grammarParams l with
  | .ok _ => true
  | .error _ => false

/-- the rule of an expectation, in the form its `matches` needs -/
inductive Rule where
  /-- `EqualRule(expression)`, UTF-8 encoded -/
  | equal (expr : Bytes)
  /-- `EqualNoEolRule(expression)`, UTF-8 encoded -/
  | noEol (expr : Bytes)
  /-- `EscapedRule(_, bytes)` -/
  | escaped (bytes : Bytes)
  /-- `GlobRule(WildMatch::new(pattern))` -/
  | glob (pattern : List Char)
  /-- `CramGlobRule(pattern, glob_to_regex(pattern))`: the glob of `make_expectation_maker(true)` -/
  | cramGlob (pattern : List Char)
  deriving DecidableEq, Repr

structure CExp where
  rule : Rule
  optional : Bool
  multiline : Bool
  deriving DecidableEq, Repr

inductive CompileErr where
  /-- `ExpectationMaker::parse` fails (cannot happen for a text the parser accepted with `expOk`) -/
  | parse
  /-- kind `regex` -/
  | unsupported
  deriving DecidableEq, Repr

/-- text of an expectation line → what `ExpectationMaker::parse` builds.  `cram` = the maker of
`make_expectation_maker(true)`: `CramGlobRule::make` is registered for `glob` / `gl`; its first
step (`expression_as_escaped`, `apply_escaped_filter_utf8`) is that of `GlobRule::make`
(`globMake`), the translation of the pattern into a regex (`glob_to_regex`, every piece is escaped
or one of `.`, `.*`, `\*`, `\?`, `\\`) is taken not to fail, so both makers accept the same lines
(`expOk`) -/
def compileWith (cram : Bool) (l : Line) : Except CompileErr CExp :=
  match Grammar.parse grammarParams l with
  | .error _ => .error .parse
  | .ok x =>
    match x.kind with
    | .equal => .ok ⟨.equal x.expr, x.optional, x.multiline⟩
    | .noEol => .ok ⟨.noEol x.expr, x.optional, x.multiline⟩
    | .escaped => .ok ⟨.escaped x.expr, x.optional, x.multiline⟩
    | .regex => .error .unsupported
    | .glob =>
      -- the pattern as characters: the same `extract` and `globMake` that `parse` went through
      match Grammar.extract Grammar.unicodeWhite l with
      | .error _ => .error .parse
      | .ok (e, _, _) =>
        match globMake e with
        | none => .error .parse
        | some p => .ok ⟨if cram then .cramGlob p else .glob p, x.optional, x.multiline⟩

/-- the default maker (`make_expectation_maker(false)`) -/
def compile (l : Line) : Except CompileErr CExp := compileWith false l

/-! ### `String::from_utf8_lossy` (the decoding in front of `GlobRule::matches`)

`core::str::lossy::Utf8Chunks`: after a lead byte the continuation bytes are consumed as long as
they are valid for their position (second byte ranges of E0 / ED / F0 / F4 as in `Utf8.utf8Decode`);
at the first byte that is not, the bytes consumed so far (at least the lead byte) are ONE invalid
chunk, written as one U+FFFD, and decoding resumes AT the offending byte.  A byte that cannot start
a sequence (80..C1, F5..FF) is a chunk of its own. -/

def replacement : Char := Char.ofNat 0xFFFD

def isCont (b : UInt8) : Bool := 0x80 ≤ b.toNat && b.toNat ≤ 0xBF

/-- valid second byte of a three-byte sequence with lead `v0` -/
def second3 (v0 : Nat) (b1 : UInt8) : Bool :=
  (if v0 = 0xE0 then 0xA0 else 0x80) ≤ b1.toNat && b1.toNat ≤ (if v0 = 0xED then 0x9F else 0xBF)

/-- valid second byte of a four-byte sequence with lead `v0` -/
def second4 (v0 : Nat) (b1 : UInt8) : Bool :=
  (if v0 = 0xF0 then 0x90 else 0x80) ≤ b1.toNat && b1.toNat ≤ (if v0 = 0xF4 then 0x8F else 0xBF)

/-- one chunk: the character it decodes to and the bytes behind it (always a suffix of `r0`) -/
def lossyStep (b0 : UInt8) (r0 : Bytes) : Char × Bytes :=
  let v0 := b0.toNat
  if v0 < 0x80 then (Char.ofNat v0, r0)
  else if 0xC2 ≤ v0 ∧ v0 ≤ 0xDF then
    match r0 with
    | b1 :: r1 => if isCont b1 then (Char.ofNat (v0 % 32 * 64 + b1.toNat % 64), r1) else (replacement, r0)
    | [] => (replacement, r0)
  else if 0xE0 ≤ v0 ∧ v0 ≤ 0xEF then
    match r0 with
    | b1 :: r1 =>
      if second3 v0 b1 then
        match r1 with
        | b2 :: r2 =>
          if isCont b2 then (Char.ofNat (v0 % 16 * 4096 + b1.toNat % 64 * 64 + b2.toNat % 64), r2)
          else (replacement, r1)
        | [] => (replacement, r1)
      else (replacement, r0)
    | [] => (replacement, r0)
  else if 0xF0 ≤ v0 ∧ v0 ≤ 0xF4 then
    match r0 with
    | b1 :: r1 =>
      if second4 v0 b1 then
        match r1 with
        | b2 :: r2 =>
          if isCont b2 then
            match r2 with
            | b3 :: r3 =>
              if isCont b3 then
                (Char.ofNat (v0 % 8 * 262144 + b1.toNat % 64 * 4096 + b2.toNat % 64 * 64 + b3.toNat % 64), r3)
              else (replacement, r2)
            | [] => (replacement, r2)
          else (replacement, r1)
        | [] => (replacement, r1)
      else (replacement, r0)
    | [] => (replacement, r0)
  else (replacement, r0)

/-- the chunk loop; every step consumes at least one byte, `none` = out of fuel (never with
`fuel = length`, and never turned into a default) -/
def lossyLoop : Nat → Bytes → Option (List Char)
  | _, [] => some []
  | 0, _ :: _ => none
  | fuel + 1, b0 :: r0 =>
    let (c, rest) := lossyStep b0 r0
    (lossyLoop fuel rest).map (c :: ·)

/-- `String::from_utf8_lossy` -/
def fromUtf8Lossy (bs : Bytes) : Option (List Char) := lossyLoop bs.length bs

/-- `Rule::matches(line)`; `none` = outside the model (only: the lossy decoder out of fuel) -/
def Rule.matches : Rule → Bytes → Option Bool
  | .equal e, line => some (Rules.assureNewline e == line)
  | .noEol e, line => some (e == line)
  | .escaped b, line => some (Rules.escapedMatches b line)
  -- `self.0.matches(&lossy_string!(line.trim_newlines()))`: trailing LFs are single bytes that decode
  -- to themselves and end every chunk, so trimming the decoded text is trimming the bytes
  | .glob p, line => (fromUtf8Lossy line).map (Glob.globRuleMatches p)
  -- `self.1.is_match(line.trim_newlines())` with a Unicode `regex::bytes::Regex` `^…$`: every byte of
  -- the line has to be consumed by a literal of the pattern (a `str`) or by `.`, which consumes one
  -- encoded scalar value: a line that is not UTF-8 is matched by no pattern (`Model/Glob.lean`: "the
  -- Cram regex cannot step over an invalid byte at all"); on a line that is, `Glob.cramRuleMatches`
  | .cramGlob p, line =>
    match Utf8.utf8Decode line with
    | some cs => some (Glob.cramRuleMatches p cs)
    | none => some false

/-! ## 3. configuration of a test case -/

/-- the inline configuration of a parsed test: `none` = outside the modelled fragment -/
def inlineCfg (c : Option Markdown.Cfg) : Option Yaml.Cfg :=
  match c with
  -- `LineParser`: `config.unwrap_or_default()`; the Markdown parser always sets one
  | none => some {}
  -- `TestCaseConfig::empty()`
  | some none => some {}
  | some (some text) =>
    match Yaml.parseFlow ('{' :: (text ++ ['}'])) with
    | .ok c => some c
    | _ => none

/-- `serde_yaml::from_str::<TestCaseConfig>(…).is_ok()`, lenient outside the modelled subset (such a
document ends as `unsupported`, whatever the parser says) -/
def testCfgOk (text : Line) : Bool :=
  match Yaml.parseFlow ('{' :: (text ++ ['}'])) with
  | .error => false
  | _ => true

/-- `.with_defaults_from(TestCaseConfig::default_markdown())` -/
def withMarkdownDefaults (c : Yaml.Cfg) : Yaml.Cfg :=
  { c with outputStream := c.outputStream.or (some .stdout), skipCode := c.skipCode.or (some 80) }

/-- the configurations the composition covers -/
def cfgSupported (c : Yaml.Cfg) : Bool :=
  c.detached != some true && c.wait.isNone && c.env.isEmpty

def isDigit (c : Char) : Bool := '0' ≤ c && c ≤ '9'

/-- the one recognised front-matter: `total_timeout: <1-6 digits>s` -/
def frontMatterHarmless (text : Line) : Bool :=
  match Markdown.startsWith text (chars "total_timeout: "), text.drop 15 with
  | true, rest =>
    match rest.reverse with
    | 's' :: ds => !ds.isEmpty && ds.length ≤ 6 && ds.all isDigit
    | _ => false
  | false, _ => false

def streamOf : Option Yaml.Stream → Exec.Stream
  | none => .unset
  | some .stdout => .stdout
  | some .stderr => .stderr
  | some .combined => .combined

/-- `Duration` → milliseconds -/
def millis (d : Nat × Nat) : Nat := d.1 * 1000 + d.2 / 1000000

/-! ## 4. one test case -/

/-- a completed run of a test's command: what it wrote and how it ended -/
structure Ran where
  stdout : Bytes
  stderr : Bytes
  code : Int
  deriving DecidableEq, Repr

/-- a parsed test case, ready to be judged -/
structure Test where
  cfg : Yaml.Cfg
  exps : List CExp
  expected : Option Int
  deriving Repr

/-- `TestCase::render_output` -/
def render (c : Yaml.Cfg) (raw : Bytes) : Option Bytes :=
  Crlf.renderOutput c.keepCrlf c.stripAnsi (fun b => some (StripAnsi.strip b)) raw

/-- what `SubprocessRunner::run` records for a completed command: `(stdout, stderr)`;
`none` = a modelled panic -/
def record (c : Yaml.Cfg) (r : Ran) : Option (Bytes × Bytes) :=
  let (o, e) := if c.outputStream = some .combined then (r.stdout ++ r.stderr, []) else (r.stdout, r.stderr)
  match render c o, render c e with
  | some o, some e => some (o, e)
  | _, _ => none

/-- the match matrix, row per expectation; `none` = some cell is outside the model -/
def matrix (exps : List CExp) (lines : List Bytes) : Option (List (List Bool)) :=
  exps.mapM (fun e => lines.mapM (fun l => e.rule.matches l))

def cell (tbl : List (List Bool)) (i j : Nat) : Bool :=
  match tbl[i]? with
  | some row => row[j]?.getD false       -- `Diff.diff n m` never asks outside `i < n`, `j < m`
  | none => false

def quant (exps : List CExp) (i : Nat) : Diff.Exp :=
  match exps[i]? with
  | some e => ⟨e.optional, e.multiline⟩
  | none => ⟨false, false⟩

/-- the diff `DiffTool::new(expectations).diff(stream)` computes -/
def diffOf (exps : List CExp) (stream : Bytes) : Option (List Diff.DL) :=
  let lines := Newline.splitAtNewline stream
  (matrix exps lines).map (fun tbl => Diff.diff exps.length lines.length (quant exps) (cell tbl))

/-- `!diff.has_differences()` -/
def accepts (exps : List CExp) (stream : Bytes) : Option Bool :=
  (diffOf exps stream).map (fun d => !Diff.hasDiff d)

inductive StepErr where
  | crash
  | unsupported
  deriving DecidableEq, Repr

/-- the test case as `Exec` sees it -/
def Test.tc (t : Test) (accEmpty : Bool) : Exec.TC :=
  { expected := t.expected
    stream := streamOf t.cfg.outputStream
    skipCode := t.cfg.skipCode
    timeout := t.cfg.timeout.map millis
    accEmpty := accEmpty }

/-- the output of test `t` as `Exec` sees it: exit code and, per recorded stream, whether the test's
expectations accept it -/
def Test.out (t : Test) (r : Ran) : Except StepErr Exec.Out :=
  match record t.cfg r with
  | none => .error .crash
  | some (o, e) =>
    match accepts t.exps o, accepts t.exps e with
    | some ao, some ae => .ok ⟨.code r.code, ao, ae⟩
    | _, _ => .error .unsupported

/-! ## 5. the document -/

inductive Result where
  /-- exit status 1, nothing reported: the document cannot be read or parsed -/
  | parseError
  /-- a modelled panic -/
  | crash
  /-- outside the composition (see the header) -/
  | unsupported
  /-- fewer runs given than the document has tests -/
  | missingRun
  /-- exit status 1, nothing reported: the executor refused the document or could not assign the
  outputs (single-script execution only, section 6) -/
  | execError
  /-- the reported outcomes `(index of the test, verdict)` and the exit status of the process -/
  | report (outcomes : List Exec.Outcome) (exit : Nat)
  deriving DecidableEq, Repr

def parseEnv : Markdown.Env :=
  { isLetter := fun c => ('a' ≤ c && c ≤ 'z') || ('A' ≤ c && c ≤ 'Z')
    expOk := expOk
    docCfgOk := fun _ => true
    testCfgOk := testCfgOk }

/-- a parsed test → `Test`; `none` inside = unsupported -/
def prepare (t : LineParser.TestCase Markdown.Cfg) : Except StepErr Test :=
  match inlineCfg t.config with
  | none => .error .unsupported
  | some c =>
    let c := if t.config.isSome then withMarkdownDefaults c else c
    if !cfgSupported c then .error .unsupported else
    match t.expectations.mapM compile with
    | .error .unsupported => .error .unsupported
    -- the parser accepted the line with the same `Grammar.parse`
    | .error .parse => .error .crash
    | .ok exps => .ok ⟨c, exps, t.exitCode.map Int.ofNat⟩

def zipOuts : List Test → List Ran → Except StepErr (List Exec.Out)
  | [], _ => .ok []
  | _ :: _, [] => .ok []
  | t :: ts, r :: rs =>
    match t.out r, zipOuts ts rs with
    | .error e, _ => .error e
    | _, .error e => .error e
    | .ok o, .ok os => .ok (o :: os)

/-- `scrut test <document>` on parsed tests and their completed runs -/
def runTests (tests : List Test) (runs : List Ran) : Result :=
  if runs.length < tests.length then .missingRun else
  match zipOuts tests runs, tests.mapM (fun t => (accepts t.exps []).map t.tc) with
  | .error .crash, _ => .crash
  | .error .unsupported, _ => .unsupported
  | _, none => .unsupported
  | .ok outs, some tcs =>
    let oa := outs.toArray
    -- a completed command: it ends as given whatever limit it is handed, no time is modelled
    let runner : Exec.Runner := fun i _ =>
      match oa[i]? with
      | some o => (o, 0)
      | none => (⟨.unknown, false, false⟩, 0)      -- not reached: one output per test case
    let r := (Exec.execAll none runner tcs).1
    let outcomes := Exec.runDocument tcs r
    .report outcomes (Exec.exitStatus [some outcomes])

/-- `scrut test -r json <document>` given the text of the document (after `read_file`) and, per
test case in document order, the completed run of its command -/
def testDocument (text : List Char) (runs : List Ran) : Result :=
  match Markdown.parseMarkdown parseEnv text with
  | .error .crash => .crash
  | .error _ => .parseError
  | .ok p =>
    if !p.docConfigs.all frontMatterHarmless then .unsupported else
    match p.tests.mapM prepare with
    | .error .crash => .crash
    | .error .unsupported => .unsupported
    | .ok tests => runTests tests runs

/-- the same from the bytes of the file -/
def testDocumentBytes (bytes : Bytes) (runs : List Ran) : Result :=
  match readFile bytes with
  | .error .crash => .crash
  | .error .notUtf8 => .parseError
  | .ok text => testDocument text runs

/-! ## 6. Cram documents (`*.t`) and Markdown documents under `--cram-compat`

Code path (`src/bin/commands/test.rs`, `src/bin/utils/file_parser.rs`, one document on the command line):

1. `read_file` as before (`readFile`: CR LF → LF, then UTF-8).
2. `FileParser::parser`:
   * `*.t`: `CramParser::new(make_expectation_maker(true), 2)` (`Cram.parseCram … 2`); every test
     carries `TestCaseConfig::default_cram()` (output_stream combined, keep_crlf true, skip code 80);
   * `*.md` under `--cram-compat`: `MarkdownParser::new(make_expectation_maker(true), languages,
     Some(default_cram()))` (`Markdown.parseMarkdown`; inline configuration
     `.with_defaults_from(document defaults = empty).with_defaults_from(default_cram())`).
   `make_expectation_maker(true)` registers `CramGlobRule::make` for `glob` / `gl` (`compileWith true`).
   `--cram-compat` sets nothing in `to_testcase_config()` (no command-line override).
3. `make_executor(shell, cram_compat)` = `BashScriptExecutor` for both (`cram_compat` is
   `parser_type == Cram || --cram-compat`).  `execute_all`:
   * `compile_testcase`: `set_consistent!` for detached, keep_crlf, output_stream,
     skip_document_code, strip_ansi_escaping, wait (`setConsistent`: the first set value is taken, every LATER test case has
     to carry exactly it), then `compile_script`: a test case with a per-test timeout is an error.
     Either error ends the run with exit status 1 (`Result.execError`).  `strip_ansi_escaping` is
     carried like the other keys (`set_consistent!(strip_ansi_escaping)`, behind skip_document_code):
     the first set value is taken, a later test case with another value (or with none) is the error
     "inconsistent configuration value for strip_ansi_escaping".
   * the ONE script (`Divider.compileScript`: per test the expression, an empty line,
     `__SCRUT_EXIT_CODE=$?`, `echo "<divider>"`, `1>&2 echo "<divider>"` unless combined, and
     `unset __SCRUT_EXIT_CODE`; the divider text ends in `$__SCRUT_EXIT_CODE`) is run by
     `SubprocessRunner::run` with the compiled configuration: `render_output` (`Crlf.renderOutput`:
     `replace_crlf` unless the compiled `keep_crlf` is `true`, then `StripAnsi.strip` when the compiled
     `strip_ansi_escaping` is `true`) is applied to the WHOLE captured stream, divider lines included,
     BEFORE the stream is cut: an escape sequence that a command leaves open (an unterminated OSC, a
     lone `ESC` at the end of its bytes) takes bytes of the following divider line with it; the
     divider is then not found, and the count check ends in an execution error, not in a verdict.
     What the shell writes is derived from the given runs (`scriptStream`): for test `i` the bytes its
     command wrote, then the divider line with the command's exit code (`Divider.chunk`; the code
     is read by the assignment `__SCRUT_EXIT_CODE=$?`, a command of its own behind the expression,
     and both divider lines expand that variable) -- unless the command LEAVES
     the shell (`exit N`): the stream ends behind its bytes and `N` is the script's exit status
     (`scriptExit`; otherwise it is that of the last `unset`, 0).  Under `combined` (stderr merged
     into the stdout pipe) a command's bytes are its stdout bytes followed by its stderr bytes
     (assumption on the command, as in section 4).  On stderr the divider carries the SAME code
     as on stdout: `1>&2 echo` expands `$__SCRUT_EXIT_CODE` too (the code ignores the value).
     The runs are those of COMPLETE commands: an expression that bash continues over the footer
     (one that ends in `|`, `&&`, `\`, an open quote …) has no run of its own and is outside the
     composition; what the script text guarantees there is `Props/C13.lean` `script_exit_code_taken_by_assignment`.
     The random salt is replaced by the fixed `modelSalt`; outputs that contain
     `~~~~~~~~EXECDIVIDER::<modelSalt>::` are outside the composition (`unsupported`): the assumption
     is that the random salt of a run does not occur in the outputs of that run.  Exit codes outside
     0..255 (not what `$?` shows) are `unsupported` too.
   * script status = skip code → `Skipped(0)`; then stdout is cut at the divider lines
     (`Divider.iterate`); a parsed output with the skip code → `Skipped(i)`; count check: these
     decisions are `Exec.execScript` (called on the statuses; the bytes are attached afterwards on
     its `ok` path only, as in the code: stderr is only cut once the count check has passed).
   No per-test timeouts; the script's own limit (`total_timeout`) is not modelled (completed commands).
4. `TestCase::validate` per ORIGINAL test case on its output (`Exec.validate` through
   `Exec.runDocument`), exit status `Exec.exitStatus`.
-/

/-- `TestCaseConfig::default_cram()` -/
def cramDefaults : Yaml.Cfg :=
  { outputStream := some .combined, keepCrlf := some true, skipCode := some 80 }

/-- `.with_defaults_from(TestCaseConfig::default_cram())` -/
def withCramDefaults (c : Yaml.Cfg) : Yaml.Cfg :=
  { c with
    outputStream := c.outputStream.or cramDefaults.outputStream
    keepCrlf := c.keepCrlf.or cramDefaults.keepCrlf
    skipCode := c.skipCode.or cramDefaults.skipCode }

def ofCramStream : Cram.Stream → Yaml.Stream
  | .stdout => .stdout
  | .stderr => .stderr
  | .combined => .combined

/-- the configuration the Cram parser model attaches to a test, as `Yaml.Cfg`; `none` = `wait` is
set (the Cram parser never sets it) -/
def ofCramCfg (c : Cram.TCConfig) : Option Yaml.Cfg :=
  if c.waitSet then none else
  some
    { outputStream := c.outputStream.map ofCramStream
      keepCrlf := c.keepCrlf
      timeout := c.timeoutSecs.map (fun s => (s, 0))
      detached := c.detached
      skipCode := c.skipDocumentCode
      stripAnsi := c.stripAnsiEscaping
      env := c.environment }

/-- expectations and exit code of a parsed test under the configuration `c`, with the Cram maker -/
def prepareCompatWith (c : Yaml.Cfg) (expectations : List Line) (exitCode : Option Nat) :
    Except StepErr Test :=
  if !cfgSupported c then .error .unsupported else
  match expectations.mapM (compileWith true) with
  | .error .unsupported => .error .unsupported
  -- the parser accepted the line with the same `Grammar.parse`
  | .error .parse => .error .crash
  | .ok exps => .ok ⟨c, exps, exitCode.map Int.ofNat⟩

/-- a test of a Cram document → `Test` -/
def prepareCram (t : Cram.Test) : Except StepErr Test :=
  match t.config with
  -- `LineParser`: `config.unwrap_or_default()` (the Cram parser always sets one)
  | none => prepareCompatWith {} t.expectations t.exitCode
  | some c =>
    match ofCramCfg c with
    | none => .error .unsupported
    | some c => prepareCompatWith c t.expectations t.exitCode

/-- a test of a Markdown document read under `--cram-compat` → `Test` -/
def prepareCompat (t : LineParser.TestCase Markdown.Cfg) : Except StepErr Test :=
  match inlineCfg t.config with
  | none => .error .unsupported
  | some c =>
    prepareCompatWith (if t.config.isSome then withCramDefaults c else c) t.expectations t.exitCode

/-- a completed run of a test's command INSIDE the one script -/
structure SRan where
  ran : Ran
  /-- the command ends with `exit N` instead of `(exit N)`: the script ends here -/
  leaves : Bool
  deriving DecidableEq, Repr

/-- stands for the 20 random alphanumeric characters of `random_string` -/
def modelSalt : Bytes := List.replicate 20 83

/-- `set_consistent!($attrib)` over the test cases in order, `cur` = `config.$attrib` so far;
`none` = "inconsistent configuration value" -/
def setConsistent {α : Type} [DecidableEq α] : Option α → List (Option α) → Option (Option α)
  | cur, [] => some cur
  | none, v :: vs => setConsistent v vs
  | some c, v :: vs => if v = some c then setConsistent (some c) vs else none

/-- the fields of the configuration `compile_testcase` builds that the composition uses -/
structure Compiled where
  keepCrlf : Option Bool
  outputStream : Option Yaml.Stream
  skipCode : Option Int
  stripAnsi : Option Bool
  deriving DecidableEq, Repr

/-- `compile_testcase` (+ the timeout check of `compile_script`); `none` = `ExecutionError::failed`.
`wait` and `environment` are the same on every supported test case (`cfgSupported`; the variables
of `with_environment` are those of the document). -/
def compileTestcase (tests : List Test) : Option Compiled :=
  match setConsistent none (tests.map (·.cfg.detached)), setConsistent none (tests.map (·.cfg.keepCrlf)),
        setConsistent none (tests.map (·.cfg.outputStream)), setConsistent none (tests.map (·.cfg.skipCode)),
        setConsistent none (tests.map (·.cfg.stripAnsi)) with
  | some _, some k, some o, some s, some a =>
    -- "timeout per execution not supported in bash-script execution"
    if tests.any (·.cfg.timeout.isSome) then none else some ⟨k, o, s, a⟩
  | _, _, _, _, _ => none

/-- what the script writes to one stream: per test case the bytes of its command and the divider
line (`code` = what `$__SCRUT_EXIT_CODE` expands to there), up to a command that leaves the shell -/
def scriptStream (pay : SRan → Bytes) (code : SRan → Nat) : Nat → List SRan → Bytes
  | _, [] => []
  | i, r :: rs =>
    if r.leaves then pay r
    else Divider.chunk modelSalt i (pay r) (code r) ++ scriptStream pay code (i + 1) rs

/-- exit status of the script: that of the command that left the shell, else that of the last `unset` -/
def scriptExit : List SRan → Int
  | [] => 0
  | r :: rs => if r.leaves then r.ran.code else scriptExit rs

/-- exit codes as bash shows them in `$?` -/
def codeOk (r : SRan) : Bool := decide (0 ≤ r.ran.code ∧ r.ran.code ≤ 255)

def saltFree (r : SRan) : Bool :=
  Divider.noSalted modelSalt r.ran.stdout && Divider.noSalted modelSalt r.ran.stderr &&
    Divider.noSalted modelSalt (r.ran.stdout ++ r.ran.stderr)

inductive ScriptErr where
  /-- an `ExecutionError` other than skipped / timeout: `bail!("failing in …")`, exit status 1 -/
  | exec
  | crash
  | unsupported
  deriving DecidableEq, Repr

/-- the output `o` of test `t` as `Exec` sees it: is it accepted on stdout / on stderr -/
def scriptOut (t : Test) (o : Divider.Out) : Option Exec.Out :=
  match accepts t.exps o.stdout, accepts t.exps o.stderr with
  | some ao, some ae => some ⟨.code o.code, ao, ae⟩
  | _, _ => none

def zipScriptOuts : List Test → List Divider.Out → Option (List Exec.Out)
  | t :: ts, o :: os =>
    match scriptOut t o, zipScriptOuts ts os with
    | some x, some xs => some (x :: xs)
    | _, _ => none
  | _, _ => some []

/-- `BashScriptExecutor::execute_all` on the test cases of one document, given how their commands run -/
def execScriptBytes (tests : List Test) (tcs : List Exec.TC) (runs : List SRan) :
    Except ScriptErr Exec.ExecResult :=
  match compileTestcase tests with
  | none => .error .exec
  | some cfg =>
    let combined : Bool := cfg.outputStream = some .combined
    -- `testcase.config.get_skip_document_code()` of the compiled test case
    let tcs := tcs.map (fun tc => { tc with skipCode := cfg.skipCode })
    -- what the shell writes
    let rawOut :=
      if combined then scriptStream (fun r => r.ran.stdout ++ r.ran.stderr) (fun r => r.ran.code.toNat) 0 runs
      else scriptStream (fun r => r.ran.stdout) (fun r => r.ran.code.toNat) 0 runs
    let rawErr := if combined then [] else scriptStream (fun r => r.ran.stderr) (fun r => r.ran.code.toNat) 0 runs
    let script := Exec.Status.code (scriptExit runs)
    -- `SubprocessRunner::run`: `render_output` of the compiled test case on each WHOLE raw stream
    match Crlf.renderOutput cfg.keepCrlf cfg.stripAnsi (fun b => some (StripAnsi.strip b)) rawOut,
          Crlf.renderOutput cfg.keepCrlf cfg.stripAnsi (fun b => some (StripAnsi.strip b)) rawErr with
    | some stdout, some stderr =>
      match Divider.iterate modelSalt none stdout with
      | .error _ =>
        -- the script status is looked at before the stream is cut
        if scriptExit runs = Exec.scriptSkip tcs then .ok (.skipped 0) else .error .exec
      | .ok outs =>
        match Exec.execScript tcs script (outs.map (fun oc => ⟨.code oc.2, false, false⟩)) with
        | none => .error .exec
        | some (.ok _) =>
          -- one output per test case: now stderr is cut (unless combined) and the bytes are judged
          match (if combined then .ok [] else Divider.iterate modelSalt (some outs.length) stderr) with
          | .error .crash => .error .crash
          | .error _ => .error .exec
          | .ok errs =>
            match zipScriptOuts tests (Divider.zipErr outs errs) with
            | some xs => .ok (.ok xs)
            | none => .error .unsupported
        | some r => .ok r
    | _, _ => .error .crash

/-- `scrut test` on the parsed tests of a document that is run by the single-script executor -/
def runScript (tests : List Test) (runs : List SRan) : Result :=
  if runs.length < tests.length then .missingRun else
  let runs := runs.take tests.length
  if !(runs.all codeOk && runs.all saltFree) then .unsupported else
  match tests.mapM (fun t => (accepts t.exps []).map t.tc) with
  | none => .unsupported
  | some tcs =>
    match execScriptBytes tests tcs runs with
    | .error .exec => .execError
    | .error .crash => .crash
    | .error .unsupported => .unsupported
    | .ok r =>
      let outcomes := Exec.runDocument tcs r
      .report outcomes (Exec.exitStatus [some outcomes])

/-- `scrut test -r json <doc.t>` given the text of the document (after `read_file`) -/
def testCramDocument (text : List Char) (runs : List SRan) : Result :=
  match Cram.parseCram expOk 2 text with
  | .error _ => .parseError
  | .ok (_, ts) =>
    match ts.mapM prepareCram with
    | .error .crash => .crash
    | .error .unsupported => .unsupported
    | .ok tests => runScript tests runs

/-- `scrut test -r json <doc.t>` from the bytes of the file -/
def testCramDocumentBytes (bytes : Bytes) (runs : List SRan) : Result :=
  match readFile bytes with
  | .error .crash => .crash
  | .error .notUtf8 => .parseError
  | .ok text => testCramDocument text runs

/-- `scrut test --cram-compat -r json <doc.md>` given the text of the document -/
def testDocumentCompat (text : List Char) (runs : List SRan) : Result :=
  match Markdown.parseMarkdown parseEnv text with
  | .error .crash => .crash
  | .error _ => .parseError
  | .ok p =>
    if !p.docConfigs.all frontMatterHarmless then .unsupported else
    match p.tests.mapM prepareCompat with
    | .error .crash => .crash
    | .error .unsupported => .unsupported
    | .ok tests => runScript tests runs

/-- `scrut test --cram-compat -r json <doc.md>` from the bytes of the file -/
def testDocumentCompatBytes (bytes : Bytes) (runs : List SRan) : Result :=
  match readFile bytes with
  | .error .crash => .crash
  | .error .notUtf8 => .parseError
  | .ok text => testDocumentCompat text runs

end Scrut.TestRun
