/-!
# Model of `replace_crlf` (`src/newline.rs`) and `TestCase::render_output` (`src/testcase.rs`)

`replaceCrlf` follows the loop of the source statement by statement; slices that would panic in
Rust (`&rest[0..index]`, `&rest[index + 1..]`) and running out of loop fuel are `none`.
`replaceCrlfSpec` is the specification: every byte in order, except each CR that is immediately
followed by LF.
-/
namespace Scrut.Crlf

abbrev CR : UInt8 := 13
abbrev LF : UInt8 := 10

/-- `bytes.windows(2).position(|w| w == b"\r\n")` -/
def findCrlf : List UInt8 → Option Nat
  | [] => none
  | a :: t => if a = CR ∧ t.head? = some LF then some 0 else (findCrlf t).map (· + 1)

/-- `&l[0..n]` (panics when `n > len`) -/
def sliceTo? {α : Type} (l : List α) (n : Nat) : Option (List α) :=
  if n ≤ l.length then some (l.take n) else none

/-- `&l[n..]` (panics when `n > len`) -/
def sliceFrom? {α : Type} (l : List α) (n : Nat) : Option (List α) :=
  if n ≤ l.length then some (l.drop n) else none

/-- the `loop { … }` of `replace_crlf`: state `(replaced, rest, index)` -/
def crlfLoop : Nat → List UInt8 → List UInt8 → Nat → Option (List UInt8)
  | 0, _, _, _ => none
  | fuel + 1, replaced, rest, index =>
    match sliceTo? rest index, sliceFrom? rest (index + 1) with
    | some a, some rest' =>
      -- replaced.extend_from_slice(&rest[0..index]); rest = &rest[index + 1..];
      match findCrlf rest' with
      | some next => crlfLoop fuel (replaced ++ a) rest' next
      | none => some (replaced ++ a ++ rest')   -- break; replaced.extend_from_slice(rest)
    | _, _ => none

/-- `replace_crlf`; `none` = panic (proved impossible: `replaceCrlf_eq_spec`) -/
def replaceCrlf (bs : List UInt8) : Option (List UInt8) :=
  match findCrlf bs with
  | none => some bs
  | some index => crlfLoop bs.length [] bs index

/-- specification: drop exactly the CRs that are immediately followed by LF -/
def replaceCrlfSpec : List UInt8 → List UInt8
  | [] => []
  | a :: t => if a = CR ∧ t.head? = some LF then replaceCrlfSpec t else a :: replaceCrlfSpec t

/-- `TestCase::render_output`. `strip` stands for `strip_ansi_escapes::strip` (third-party crate,
a parameter of the model); errors/panics are `none`. -/
def renderOutput (keepCrlf stripAnsi : Option Bool) (strip : List UInt8 → Option (List UInt8))
    (bs : List UInt8) : Option (List UInt8) :=
  let processed := if keepCrlf ≠ some true then replaceCrlf bs else some bs
  if stripAnsi = some true then processed.bind strip else processed

end Scrut.Crlf
