/-!
# Model of `strip_ansi_sequences_bytes` (src/escaping.rs)

What `TestCase::render_output` applies when `strip_ansi_escaping: true`: ANSI escape sequences
(ECMA-48) are removed, every other byte is kept as it is, also control characters (TAB, CR, BEL)
and bytes that are not valid UTF-8.

* CSI: `ESC [`, parameter bytes `0x30..0x3f`, intermediate bytes `0x20..0x2f`, one final byte
  `0x40..0x7e`;
* strings (OSC `ESC ]`, DCS `ESC P`, SOS `ESC X`, PM `ESC ^`, APC `ESC _`): up to and including
  the first `BEL` or `ESC \`, or to the end of the input;
* any other escape sequence: `ESC`, intermediate bytes, one final byte `0x30..0x7e`;
* an `ESC` that introduces none of these is dropped alone.

The Rust loop over a byte index is a recursion over the remaining bytes; `afterEsc` is what
remains behind the sequence that an `ESC` introduces (always a suffix, so the recursion is
well-founded; it is written with fuel = number of remaining bytes to stay structurally recursive).
-/
namespace Scrut.StripAnsi

def esc : UInt8 := 0x1b

def isParam (b : UInt8) : Bool := 0x30 ≤ b.toNat && b.toNat ≤ 0x3f
def isInter (b : UInt8) : Bool := 0x20 ≤ b.toNat && b.toNat ≤ 0x2f
def isCsiFinal (b : UInt8) : Bool := 0x40 ≤ b.toNat && b.toNat ≤ 0x7e
def isEscFinal (b : UInt8) : Bool := 0x30 ≤ b.toNat && b.toNat ≤ 0x7e
/-- `]`, `P`, `X`, `^`, `_` -/
def isStringIntro (b : UInt8) : Bool := b == 0x5d || b == 0x50 || b == 0x58 || b == 0x5e || b == 0x5f

/-- behind a string introducer: everything up to and including the first `BEL` or `ESC \` -/
def skipString : List UInt8 → List UInt8
  | [] => []
  | b :: r =>
    if b = 7 then r
    else match b, r with
      | 0x1b, 0x5c :: r' => r'
      | _, _ => skipString r

/-- `if index < len && p(input[index]) { index += 1 }` -/
def dropOne (p : UInt8 → Bool) : List UInt8 → List UInt8
  | [] => []
  | b :: r => if p b then r else b :: r

/-- what remains behind the escape sequence whose `ESC` has just been read -/
def afterEsc : List UInt8 → List UInt8
  | [] => []
  | b :: r =>
    if b = 0x5b then dropOne isCsiFinal ((r.dropWhile isParam).dropWhile isInter)
    else if isStringIntro b then skipString r
    else dropOne isEscFinal ((b :: r).dropWhile isInter)

def stripFuel : Nat → List UInt8 → List UInt8
  | 0, _ => []
  | _ + 1, [] => []
  | n + 1, b :: r => if b = esc then stripFuel n (afterEsc r) else b :: stripFuel n r

/-- `strip_ansi_sequences_bytes` -/
def strip (l : List UInt8) : List UInt8 := stripFuel l.length l

end Scrut.StripAnsi
