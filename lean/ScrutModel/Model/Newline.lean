/-!
# Model of src/newline.rs: `split_at_newline`, `trim_newlines`

`splitAtNewline` is the loop of the source: a piece ends after every LF, a non-empty rest is the
last piece.
-/
namespace Scrut.Newline

def LF : UInt8 := 10

/-- `split_at_newline` with the current piece as accumulator (`cur` = bytes since the last LF) -/
def splitAux : List UInt8 → List UInt8 → List (List UInt8)
  | [], cur => if cur.isEmpty then [] else [cur]
  | b :: rest, cur =>
    if b = LF then (cur ++ [b]) :: splitAux rest []
    else splitAux rest (cur ++ [b])

def splitAtNewline (bs : List UInt8) : List (List UInt8) := splitAux bs []

/-- `trim_newlines`: strips ALL trailing LF bytes -/
def trimNewlines (bs : List UInt8) : List UInt8 :=
  (bs.reverse.dropWhile (· = LF)).reverse

/-- a line as the matcher sees it: non-empty, LF at most at the very end -/
def IsLine (l : List UInt8) : Prop :=
  l ≠ [] ∧ ∀ i (h : i < l.length), l[i] = LF → i + 1 = l.length

end Scrut.Newline
