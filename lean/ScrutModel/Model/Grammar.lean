/-!
# Model of the expectation grammar (C08)

Anchors (scrut):
* `RuleRegistry::to_expectation_regex` (src/rules/registry.rs): the single regular expression
  `^(.*?)(?:\s\((eq|equal|esc|escaped|gl|glob|no-eol|re|regex|)?([*+?])?\))?$`
  (names sorted, `(?x)` mode, no `(?m)`/`(?s)`: `.` is anything but `\n`, `$` is end of text);
* `ExpectationMaker::extract` / `parse` (src/expectation.rs): the capture-count logic;
* `RuleRegistry::make` + the `make` of each rule; `Rule::to_expression_string` (src/rules/rule.rs).

The regex is modelled by the string function it denotes under leftmost-first (backtracking)
semantics: `scan` walks the lazy `(.*?)` one character at a time and tries the optional suffix
group at every position (`suffixAt`), the alternation of kind names is tried in its textual order
(`firstAlt`), `([*+?])?` greedily, and the match has to end at the end of the text.

Parameters (`Params`): the white-space class `\s`, rule construction for the kinds that can fail
(`escaped`, `glob`, `regex`) and the escaper used for rendering.
-/
namespace Scrut.Grammar

inductive Kind where
  | equal | noEol | escaped | glob | regex
  deriving DecidableEq, Repr

inductive Err where
  /-- index out of bounds on the capture vector (Rust panic) -/
  | crash
  /-- `no rule maker for … registered` -/
  | noMaker
  /-- the rule's `make` returned an error -/
  | makeError
  deriving DecidableEq, Repr

/-- the registered names in the order of the alternation (`names.sort()`), with their rule -/
def kindTable : List (List Char × Kind) :=
  [ (['e','q'], .equal),
    (['e','q','u','a','l'], .equal),
    (['e','s','c'], .escaped),
    (['e','s','c','a','p','e','d'], .escaped),
    (['g','l'], .glob),
    (['g','l','o','b'], .glob),
    (['n','o','-','e','o','l'], .noEol),
    (['r','e'], .regex),
    (['r','e','g','e','x'], .regex) ]

def kindNames : List (List Char) := kindTable.map (·.1)

/-- the alternatives of capture group 2: every name, then the empty alternative -/
def alts : List (List Char) := kindNames ++ [[]]

def equalName : List Char := ['e','q','u','a','l']

/-- the name `Rule::kind()` reports -/
def Kind.name : Kind → List Char
  | .equal => ['e','q','u','a','l']
  | .noEol => ['n','o','-','e','o','l']
  | .escaped => ['e','s','c','a','p','e','d']
  | .glob => ['g','l','o','b']
  | .regex => ['r','e','g','e','x']

def isQuantChar (c : Char) : Bool := c == '*' || c == '+' || c == '?'

/-- `([*+?])?\)$` : what is left after the kind name; the result is capture group 3 -/
def tail? : List Char → Option (Option Char)
  | [c] => if c = ')' then some none else none
  | [q, c] => if c = ')' ∧ isQuantChar q = true then some (some q) else none
  | _ => none

def stripPrefix : List Char → List Char → Option (List Char)
  | [], r => some r
  | _ :: _, [] => none
  | a :: as, c :: cs => if a = c then stripPrefix as cs else none

/-- the alternation, leftmost alternative that lets the rest of the pattern succeed -/
def firstAlt : List (List Char) → List Char → Option (List Char × Option Char)
  | [], _ => none
  | a :: as, r =>
    match stripPrefix a r with
    | some r' =>
      match tail? r' with
      | some q => some (a, q)
      | none => firstAlt as r
    | none => firstAlt as r

/-- the optional group `(?:\s\((…|)?([*+?])?\))` anchored at the end of the text:
    result = (capture 2, capture 3) -/
def suffixAt (isWhite : Char → Bool) : List Char → Option (List Char × Option Char)
  | w :: c :: r => if isWhite w = true ∧ c = '(' then firstAlt alts r else none
  | _ => none

/-- `^(.*?)(?:…)?$`: result = (capture 1, captures 2 and 3 if the group took part);
    `none` = the regex does not match at all -/
def scan (isWhite : Char → Bool) : List Char → Option (List Char × Option (List Char × Option Char))
  | [] => some ([], none)
  | c :: cs =>
    match suffixAt isWhite (c :: cs) with
    | some m => some ([], some m)
    | none =>
      if c = '\n' then none
      else match scan isWhite cs with
        | some (p, m) => some (c :: p, m)
        | none => none

/-- `captures.iter().skip(1).filter_map(..)`: the groups that took part, in order -/
def captures (isWhite : Char → Bool) (l : List Char) : List (List Char) :=
  match scan isWhite l with
  | none => []
  | some (p, none) => [p]
  | some (p, some (k, none)) => [p, k]
  | some (p, some (k, some q)) => [p, k, [q]]

/-- `v[i]` -/
def idx (c : List (List Char)) (i : Nat) : Except Err (List Char) :=
  match c[i]? with
  | some x => .ok x
  | none => .error .crash

/-- `ExpectationMaker::extract`: (expression, kind name, quantifier) -/
def extract (isWhite : Char → Bool) (l : List Char) : Except Err (List Char × List Char × List Char) :=
  let c := captures isWhite l
  if c.length = 1 ∨ (c.length = 2 ∧ c[1]? = some []) then
    .ok (l, equalName, [])
  else if c.length = 2 then do
    let e ← idx c 0
    let k ← idx c 1
    pure (e, k, [])
  else do
    let e ← idx c 0
    let k ← idx c 1
    let q ← idx c 2
    pure (e, if k = [] then equalName else k, q)

/-- the modifier the grammar recognises, if any: (expression, kind text or empty, quantifier);
    the empty group `()` is not one -/
def modifierOf (isWhite : Char → Bool) (l : List Char) : Option (List Char × List Char × Option Char) :=
  match scan isWhite l with
  | some (p, some (k, q)) => if k = [] ∧ q = none then none else some (p, k, q)
  | _ => none

def utf8 (l : List Char) : List UInt8 := l.flatMap String.utf8EncodeChar

structure Params where
  /-- `\s` of the regex crate -/
  isWhite : Char → Bool
  /-- `make` followed by `unmake` of the rules that can reject their expression; for `escaped` the
      part after the ` (no-eol)` strip, i.e. `apply_escaped_filter_bytes` (see `makeRule`) -/
  make : Kind → List Char → Option (List UInt8)
  /-- `Escaper::escaped_printable` -/
  escPrintable : List UInt8 → List Char
  /-- `Escaper::has_unprintable` -/
  hasUnprintable : List UInt8 → Bool
  /-- `char::is_whitespace` (std), used by `ends_like_modifier` -/
  isSpaceStd : Char → Bool

/-- an `Expectation` as `unmake()` shows it -/
structure Expectation where
  kind : Kind
  expr : List UInt8
  optional : Bool
  multiline : Bool
  deriving DecidableEq, Repr

/-- ` (no-eol)` -/
def noEolSuffix : List Char := [' ', '(', 'n', 'o', '-', 'e', 'o', 'l', ')']

/-- `str::strip_suffix` -/
def stripSuffix (suf t : List Char) : Option (List Char) :=
  (stripPrefix suf.reverse t.reverse).map List.reverse

/-- `EscapedRule::make`, Cram compatibility: a trailing ` (no-eol)` is dropped (once) -/
def stripNoEol (t : List Char) : List Char :=
  match stripSuffix noEolSuffix t with
  | some body => body
  | none => t

/-- `guard_tailing_no_eol` (src/escaping.rs): where ` (no-eol)` is content of an escaped text its
    blank is written as the escape sequence `\\x20` -/
def guardTailingNoEol (t : List Char) : List Char :=
  match stripSuffix noEolSuffix t with
  | some body => body ++ ['\\', 'x', '2', '0', '(', 'n', 'o', '-', 'e', 'o', 'l', ')']
  | none => t

/-- `EqualRule::make`/`EqualNoEolRule::make` keep the text and cannot fail; `EscapedRule::make`
    strips ` (no-eol)` and then resolves the escape sequences -/
def makeRule (P : Params) (k : Kind) (e : List Char) : Option (List UInt8) :=
  match k with
  | .equal => some (utf8 e)
  | .noEol => some (utf8 e)
  | .escaped => P.make .escaped (stripNoEol e)
  | k => P.make k e

def lookupKind (name : List Char) : Option Kind := kindTable.lookup name

/-- `ExpectationMaker::parse` -/
def parse (P : Params) (l : List Char) : Except Err Expectation :=
  match extract P.isWhite l with
  | .error e => .error e
  | .ok (e, k, q) =>
    let multiline := q == ['*'] || q == ['+']
    let optional := q == ['*'] || q == ['?']
    match lookupKind k with
    | none => .error .noMaker
    | some kind =>
      match makeRule P kind e with
      | none => .error .makeError
      | some b => .ok ⟨kind, b, optional, multiline⟩

def quantOpt (optional multiline : Bool) : Option Char :=
  if optional then (if multiline then some '*' else some '?') else if multiline then some '+' else none

def quantStr (optional multiline : Bool) : List Char := (quantOpt optional multiline).toList

/-- `text.rfind('(')`: the text before and after the last `(` -/
def splitLast : List Char → Option (List Char × List Char)
  | [] => none
  | c :: cs =>
    match splitLast cs with
    | some (b, a) => some (c :: b, a)
    | none => if c = '(' then some ([], cs) else none

def isLowerDash (c : Char) : Bool := ('a' ≤ c && c ≤ 'z') || c == '-'

/-- `inner.strip_suffix(['*', '+', '?']).unwrap_or(inner)` on the reversed text -/
def stripQuantRev : List Char → List Char
  | [] => []
  | q :: r => if isQuantChar q then r else q :: r

/-- `ends_like_modifier` (src/rules/rule.rs): white space, then a parenthesised word of lower-case
    letters and dashes (possibly empty) with at most one quantifier, at the end of the text -/
def endsLikeModifier (isSpace : Char → Bool) (t : List Char) : Bool :=
  match splitLast t with
  | none => false
  | some (before, after) =>
    match after.reverse with
    | [] => false
    | c :: innerRev =>
      if c = ')' then
        (match before.reverse with
          | [] => false
          | w :: _ => isSpace w) && (stripQuantRev innerRev).all isLowerDash
      else false

/-- `rendered.replace('\\', "\\\\")` -/
def doubleBackslash (t : List Char) : List Char :=
  t.flatMap (fun c => if c = '\\' then ['\\', '\\'] else [c])

/-- ` (escaped)` -/
def escapedMarker : List Char := [' ', '('] ++ Kind.escaped.name ++ [')']

/-- `Rule::to_expression_string` -/
def toExpressionString (P : Params) (e : Expectation) : List Char :=
  let q := quantStr e.optional e.multiline
  let r := P.escPrintable e.expr
  let unprintable := P.hasUnprintable e.expr
  match e.kind with
  | .equal =>
    if unprintable then guardTailingNoEol r ++ [' ', '('] ++ Kind.escaped.name ++ q ++ [')']
    else if q = [] ∧ endsLikeModifier P.isSpaceStd r = true then r ++ [' ', '('] ++ Kind.equal.name ++ [')']
    else if q = [] then r else r ++ [' ', '('] ++ q ++ [')']
  | .escaped =>
    if unprintable then guardTailingNoEol r ++ [' ', '('] ++ Kind.escaped.name ++ q ++ [')']
    else guardTailingNoEol (doubleBackslash r) ++ [' ', '('] ++ Kind.escaped.name ++ q ++ [')']
  | .glob =>
    if unprintable then r ++ escapedMarker ++ [' ', '('] ++ Kind.glob.name ++ q ++ [')']
    else r ++ [' ', '('] ++ Kind.glob.name ++ q ++ [')']
  -- no escaped form of these kinds can be read back: the printable rendering is for display
  | .regex => r ++ [' ', '('] ++ Kind.regex.name ++ q ++ [')']
  | .noEol => r ++ [' ', '('] ++ Kind.noEol.name ++ q ++ [')']

/-- Unicode `White_Space` (what `\s` means in the regex crate); sampled against the crate by the harness -/
def unicodeWhite (c : Char) : Bool :=
  let n := c.toNat
  (9 ≤ n && n ≤ 13) || n == 0x20 || n == 0x85 || n == 0xA0 || n == 0x1680 ||
  (0x2000 ≤ n && n ≤ 0x200A) || n == 0x2028 || n == 0x2029 || n == 0x202F || n == 0x205F || n == 0x3000

/-! ## Specification vocabulary -/

/-- the documented grammar, declaratively: `l` is `p`, one white-space character, and a
    parenthesised group holding a documented kind name `K` (or nothing) followed by a quantifier
    `Q` (or nothing), not both missing -/
def Modifier (isWhite : Char → Bool) (l p K : List Char) (Q : Option Char) : Prop :=
  ∃ w, isWhite w = true ∧ (K = [] ∨ K ∈ kindNames) ∧ (∀ c, Q = some c → isQuantChar c = true) ∧
    ¬(K = [] ∧ Q = none) ∧ l = p ++ w :: '(' :: (K ++ (Q.toList ++ [')']))

/-- the kind an (optional) kind text stands for: nothing means `equal` -/
def orEqual (K : List Char) : List Char := if K = [] then equalName else K

/-- the text itself ends in a modifier -/
def ModifierShaped (isWhite : Char → Bool) (t : List Char) : Bool := (modifierOf isWhite t).isSome

/-- the kind under which the canonical form is read back: an `equal` expectation with unprintable
    content is written as `escaped` -/
def sourceKind (P : Params) (e : Expectation) : Kind :=
  if e.kind = .equal ∧ P.hasUnprintable e.expr = true then .escaped else e.kind

/-- the expression text in front of the modifier of the canonical form -/
def sourceText (P : Params) (e : Expectation) : List Char :=
  match e.kind with
  | .equal => if P.hasUnprintable e.expr then guardTailingNoEol (P.escPrintable e.expr) else P.escPrintable e.expr
  | .escaped =>
    if P.hasUnprintable e.expr then guardTailingNoEol (P.escPrintable e.expr)
    else guardTailingNoEol (doubleBackslash (P.escPrintable e.expr))
  | .glob => if P.hasUnprintable e.expr then P.escPrintable e.expr ++ escapedMarker else P.escPrintable e.expr
  | .regex => P.escPrintable e.expr
  | .noEol => P.escPrintable e.expr

/-- what the canonical form of `e` is expected to read back as -/
def reread (P : Params) (e : Expectation) : Expectation := { e with kind := sourceKind P e }

def Expectation.matches (ruleMatches : Kind → List UInt8 → List UInt8 → Bool) (e : Expectation) (line : List UInt8) : Bool :=
  ruleMatches e.kind e.expr line

end Scrut.Grammar
