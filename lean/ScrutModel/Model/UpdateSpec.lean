import ScrutModel.Model.Update
import ScrutModel.Model.MarkdownSpec
/-!
# Vocabulary for the statements about `update` (no executable content)

`Rewritten L gens strict k src out`: the text `out` arises from the document lines `src` by
copying every line outside scrut blocks (prose, front-matter, foreign code blocks; closed or running
to the end of the document) **as it is, in order, terminated by LF**, and replacing every scrut
block by a freshly fenced block that keeps language, inline configuration and the lines in front of
the code; `k` counts the outcomes used so far.  With `strict = false` one more rule is allowed,
which is what the code does to an unterminated front-matter.
-/
namespace Scrut.Update
open Scrut.Markdown Scrut.LineParser

/-- every line followed by LF -/
def unlines (ls : List Line) : List Char := ls.flatMap (fun l => l ++ ['\n'])

/-- the rewritten scrut block: fence + language + ` {config}` (if the fence line carried a `{…}`
that holds more than white space; white space after `{` dropped), the lines `head` in front of the code, the `body`, the fence -/
def blockText (bt language config : Line) (head : List Line) (body : List Char) : List Char :=
  bt ++ language ++ configSuffix (cfgLines 0 config) ++ ['\n'] ++ unlines head ++ body ++ bt ++ ['\n']

/-- how the body lines of a scrut block (fence line read as `language`, `config`) are rewritten
with the outcomes from `k` on: a block whose lines are all in front of the code (`code = []`,
i.e. empty or comments only) keeps all lines and uses no outcome; otherwise the code lines are
replaced by the text generated for outcome `k`, inside a fence that is longer than any backtick
run at the start of a line of that text. -/
def BlockOut (gens : List (Option (List Char))) (k : Nat) (body : List Line) (language config : Line)
    (blockOut : List Char) (k' : Nat) : Prop :=
  ∃ head code, head ++ code = body ∧
    ((code = [] ∧ blockOut = blockText (backticks 3) language config head [] ∧ k' = k) ∨
     (code ≠ [] ∧ ∃ g, gens[k]? = some (some g) ∧
        blockOut = blockText (backticks (maxBacktickSize g + 1)) language config head g ∧ k' = k + 1))

/-- a closing line for the fence `bt`, or the end of the document -/
def Closes (bt : Line) (closer : Option Line) (rest : List Line) : Prop :=
  match closer with
  | some c => startsWith c bt = true
  | none => rest = []

inductive Rewritten (L : List Line) (gens : List (Option (List Char))) (strict : Bool) :
    Nat → List Line → List Char → Prop where
  | nil (k) : Rewritten L gens strict k [] []
  /-- a line that does not start a code block is kept -/
  | line (k l rest out) :
      extractCodeBlockStart l = .ok none →
      Rewritten L gens strict k rest out →
      Rewritten L gens strict k (l :: rest) (l ++ '\n' :: out)
  /-- front-matter, closed (with or without lines): kept -/
  | front (k body rest out) :
      (∀ x ∈ body, x ≠ frontMatterFence) →
      Rewritten L gens strict k rest out →
      Rewritten L gens strict k (frontMatterFence :: (body ++ frontMatterFence :: rest))
        (unlines (frontMatterFence :: (body ++ [frontMatterFence])) ++ out)
  /-- DEVIATION: front-matter that is never closed gains a closing `---` -/
  | frontOpen (k body) :
      strict = false →
      (∀ x ∈ body, x ≠ frontMatterFence) →
      Rewritten L gens strict k (frontMatterFence :: body)
        (unlines (frontMatterFence :: (body ++ [frontMatterFence])))
  /-- a code block in another language, closed or running to the end: kept -/
  | foreign (k opener bt language config body closer rest out) :
      extractCodeBlockStart opener = .ok (some (bt, language, config)) →
      L.contains language = false →
      (∀ x ∈ body, startsWith x bt = false) → Closes bt closer rest →
      Rewritten L gens strict k rest out →
      Rewritten L gens strict k (opener :: (body ++ (closer.toList ++ rest)))
        (unlines (opener :: (body ++ closer.toList)) ++ out)
  /-- a scrut block, closed or running to the end: rewritten, always closed -/
  | block (k k' opener bt language config body closer rest blockOut out) :
      extractCodeBlockStart opener = .ok (some (bt, language, config)) →
      L.contains language = true →
      (∀ x ∈ body, startsWith x bt = false) → Closes bt closer rest →
      BlockOut gens k body language config blockOut k' →
      Rewritten L gens strict k' rest out →
      Rewritten L gens strict k (opener :: (body ++ (closer.toList ++ rest))) (blockOut ++ out)

/-- number of document lines a token spans when it is closed -/
def tokSpan : Tok → Nat
  | .line _ _ => 1
  | .docConfig ls => ls.length + 2
  | .verbatim _ _ ls => ls.length
  | .test _ _ comments code => comments.length + code.length + 2

/-- guard of the strict reading: every front-matter is closed, i.e. its closing `---` is a line of
the document (`n` lines; `pos` = index of the first line of the first token) -/
def frontClosed (n : Nat) : Nat → List Tok → Bool
  | _, [] => true
  | pos, .docConfig ls :: r => decide (pos + ls.length + 2 ≤ n) && frontClosed n (pos + ls.length + 2) r
  | pos, t :: r => frontClosed n (pos + tokSpan t) r

/-- the same texts, whatever the line numbers: what `update` can see of a token -/
def sameTexts : Tok → Tok → Prop
  | .line _ l, .line _ l' => l = l'
  | .docConfig ls, .docConfig ls' => ls.map (·.2) = ls'.map (·.2)
  | .verbatim _ _ ls, .verbatim _ _ ls' => ls = ls'
  | .test lang cfg cm cd, .test lang' cfg' cm' cd' =>
    lang = lang' ∧ configSuffix cfg = configSuffix cfg' ∧ cm.map (·.2) = cm'.map (·.2) ∧ (cd.isEmpty = cd'.isEmpty)
  | _, _ => False

/-- token streams that carry the same texts, token by token -/
inductive AllSame : List Tok → List Tok → Prop where
  | nil : AllSame [] []
  | cons {a b : Tok} {as bs : List Tok} : sameTexts a b → AllSame as bs → AllSame (a :: as) (b :: bs)

/-- what `update` needs of a generated text so that it is read back as the code of its block: it
ends in LF (otherwise the closing fence is glued to its last line) and its first line is not a
comment (otherwise that line is read as one of the comment lines in front of the code).  Every
text of `generate_testcase` starts with `$ ` and ends in LF. -/
def GenOK (g : List Char) : Prop :=
  g.getLast? = some '\n' ∧ (splitLines g).head?.map isComment = some false

/-- `Reread gens k toks toks'`: the token stream `toks'` of the updated document against the token
stream `toks` of the original (outcomes from `k` on): the same tokens in the same order, with the
same texts outside scrut blocks; a scrut block keeps language, the configuration as `update` writes
it, and the comment lines; a block without code stays without code, the code lines of any other
block are the lines of the text generated for its outcome. -/
inductive Reread (gens : List (Option (List Char))) : Nat → List Tok → List Tok → Prop where
  | nil (k) : Reread gens k [] []
  | line (k i i' l r r') : Reread gens k r r' → Reread gens k (.line i l :: r) (.line i' l :: r')
  | front (k ls ls' r r') : ls'.map (·.2) = ls.map (·.2) → Reread gens k r r' →
      Reread gens k (.docConfig ls :: r) (.docConfig ls' :: r')
  | verbatim (k s s' lang ls r r') : Reread gens k r r' →
      Reread gens k (.verbatim s lang ls :: r) (.verbatim s' lang ls :: r')
  | testNoCode (k lang cfg cfg' cm cm' r r') :
      configSuffix cfg' = configSuffix cfg → cm'.map (·.2) = cm.map (·.2) → Reread gens k r r' →
      Reread gens k (.test lang cfg cm [] :: r) (.test lang cfg' cm' [] :: r')
  | testCode (k lang cfg cfg' cm cm' cd cd' g r r') :
      cd ≠ [] → gens[k]? = some (some g) →
      configSuffix cfg' = configSuffix cfg → cm'.map (·.2) = cm.map (·.2) →
      cd'.map (·.2) = splitLines g → cd' ≠ [] → Reread gens (k + 1) r r' →
      Reread gens k (.test lang cfg cm cd :: r) (.test lang cfg' cm' cd' :: r')

end Scrut.Update
