import ScrutModel.Model.Glob
/-!
# Model of the whole-line wrap of `RegexRule::make` (`src/rules/regex.rs`)

`RegexRule::make e` compiles `format!("^(?:{})$", e')` (`e'` = `e` after three Cram-compat clean-up
passes, NOT modelled here) and `matches line` is an *unanchored search* (`is_match`) on the
newline-trimmed line. The property is about the wrap, not about the regex engine: user regexes are
a small AST with a position-based relational semantics (`Matches r s i j`: `r` matches `s` from
position `i` to position `j`), `^` and `$` are zero-width assertions (no multi-line flag: `^` only
at 0, `$` only at `|s|`), and string concatenation around the user's text is read with the regex
grammar's precedence:

* `^(?:e)$`  is  `seq bol (seq (group e) eol)`            (`wrap`)
* `^e$` (the wrap before the fix) is, for `e = a₁|…|aₙ`, `^a₁ | a₂ | … | aₙ$`   (`oldWrap`)

`matchB`/`searchB` are the executable versions used by the correspondence driver; they are proved
equivalent to the relations in `Lemmas/RegexWrap.lean`.
-/
namespace Scrut.Regex

inductive RE
  | chr (c : Char)      -- a literal character
  | any                 -- `.` (any character except `\n`)
  | eps                 -- the empty expression
  | seq (a b : RE)      -- `ab`
  | alt (a b : RE)      -- `a|b`
  | star (a : RE)       -- `a*`
  | group (a : RE)      -- `(?:a)`
  | bol                 -- `^`
  | eol                 -- `$`
  deriving DecidableEq, Repr

/-- `r` matches `s[i..j]` in the context of the whole haystack `s` (positions `0..|s|`) -/
inductive Matches : RE → List Char → Nat → Nat → Prop
  | chr {s i c} : s[i]? = some c → Matches (.chr c) s i (i + 1)
  | any {s i c} : s[i]? = some c → c ≠ '\n' → Matches .any s i (i + 1)
  | eps {s i} : i ≤ s.length → Matches .eps s i i
  | seq {a b s i k j} : Matches a s i k → Matches b s k j → Matches (.seq a b) s i j
  | altL {a b s i j} : Matches a s i j → Matches (.alt a b) s i j
  | altR {a b s i j} : Matches b s i j → Matches (.alt a b) s i j
  | starNil {a s i} : i ≤ s.length → Matches (.star a) s i i
  | starStep {a s i k j} : Matches a s i k → Matches (.star a) s k j → Matches (.star a) s i j
  | group {a s i j} : Matches a s i j → Matches (.group a) s i j
  | bol {s} : Matches .bol s 0 0
  | eol {s} : Matches .eol s s.length s.length

/-- `Regex::is_match`: a match somewhere in the haystack -/
def searchMatch (r : RE) (s : List Char) : Prop := ∃ i j, Matches r s i j

/-- `format!("^(?:{})$", e)` -/
def wrap (e : RE) : RE := .seq .bol (.seq (.group e) .eol)

/-- `^` glued textually in front of `e`: it binds to the first top-level alternative only -/
def bolFirst : RE → RE
  | .alt a b => .alt (bolFirst a) b
  | e => .seq .bol e

/-- `$` glued textually behind `e`: it binds to the last top-level alternative only -/
def eolLast : RE → RE
  | .alt a b => .alt a (eolLast b)
  | e => .seq e .eol

/-- `format!("^{}$", e)` — the wrap before the fix -/
def oldWrap (e : RE) : RE := eolLast (bolFirst e)

/-- no `^`/`$` inside -/
def anchorFree : RE → Bool
  | .seq a b | .alt a b => anchorFree a && anchorFree b
  | .star a | .group a => anchorFree a
  | .bol | .eol => false
  | _ => true

/-! ## Executable matcher -/

/-- chain of `f`-steps from `i` to `j`, each step making progress; `fuel ≥ j - i` suffices -/
def starB (f : Nat → Nat → Bool) : Nat → Nat → Nat → Bool
  | 0, i, j => i == j
  | fuel + 1, i, j => i == j || (List.range (j + 1)).any fun k => decide (i < k) && f i k && starB f fuel k j

def matchB : RE → List Char → Nat → Nat → Bool
  | .chr c, s, i, j => j == i + 1 && s[i]? == some c
  | .any, s, i, j => j == i + 1 && (match s[i]? with | some c => c != '\n' | none => false)
  | .eps, s, i, j => i == j && decide (i ≤ s.length)
  | .seq a b, s, i, j => (List.range (j + 1)).any fun k => matchB a s i k && matchB b s k j
  | .alt a b, s, i, j => matchB a s i j || matchB b s i j
  | .star a, s, i, j => decide (i ≤ j) && decide (j ≤ s.length) && starB (matchB a s) (j - i) i j
  | .group a, s, i, j => matchB a s i j
  | .bol, _, i, j => i == 0 && j == 0
  | .eol, s, i, j => i == s.length && j == s.length

def searchB (r : RE) (s : List Char) : Bool :=
  (List.range (s.length + 1)).any fun i => (List.range (s.length + 1)).any fun j => matchB r s i j

/-- `RegexRule::matches` for a fragment expression `e` that the clean-up passes leave alone -/
def regexRuleMatches (e : RE) (line : List Char) : Bool := searchB (wrap e) (Glob.trimNewlines line)

end Scrut.Regex
