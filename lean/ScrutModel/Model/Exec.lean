/-!
# Model of verdict, per-document execution and aggregation

* `validate`      — `TestCase::validate` (src/testcase.rs): exit-code gate, then output acceptance.
* `effective`     — the limit handed to a runner (src/executors/stateful_executor.rs:100-120):
                    `min` over the per-test timeout and the remaining document timeout, ordered by
                    duration first, per-test first on a tie (derived `Ord` of `struct Timeout`).
* `execAll`       — `StatefulExecutor::execute_all`: one runner call per test case in order, skip
                    code, timeout, detached, unknown handling.
* `runDocument`   — the result mapping of `scrut test` (src/bin/commands/test.rs:233-410).
* `exitStatus`    — `main` (src/bin/main.rs): 1 on error, 50 iff a test failed, else 0.

Time is a natural number (milliseconds). Whether an output stream is accepted by a test's
expectations (`hasDiff (diff …) = false`, the subject of C01–C03) enters as a Boolean.
-/
namespace Scrut.Exec

/-- `scrut::output::ExitStatus` (the duration carried by `Timeout` is not modelled) -/
inductive Status where
  | code (c : Int)
  | timeout
  | skipped
  | detached
  | unknown
deriving DecidableEq, Repr

/-- `OutputStreamControl` as set on the test case (`none` = unset) -/
inductive Stream where
  | unset | stdout | stderr | combined
deriving DecidableEq, Repr

structure TC where
  /-- `TestCase::exit_code` -/
  expected : Option Int
  /-- `config.output_stream` -/
  stream : Stream
  /-- `config.skip_document_code` after the document defaults are merged -/
  skipCode : Option Int
  /-- `config.timeout` after the document defaults are merged (ms) -/
  timeout : Option Nat
  /-- does the *empty* output satisfy the expectations (all optional)? -/
  accEmpty : Bool
  /-- `config.wait`: milliseconds that pass before the command is started (0 = none) -/
  wait : Nat := 0
deriving Repr

/-- an `Output`: status plus whether stdout / stderr are accepted by the test's expectations -/
structure Out where
  status : Status
  accOut : Bool
  accErr : Bool
deriving Repr, DecidableEq

inductive Verdict where
  | ok
  | invalidExit (actual expected : Int)
  | malformed
  | internal
  | timeout
  | skipped
deriving DecidableEq, Repr

/-- which stream `validate` compares: stderr iff `output_stream == Stderr`, else stdout
    (the combined stream is delivered on stdout by the runner) -/
def selected (tc : TC) (o : Out) : Bool :=
  if tc.stream = .stderr then o.accErr else o.accOut

/-- `TestCase::validate` -/
def validate (tc : TC) (o : Out) : Verdict :=
  match o.status with
  | .code c =>
    let e := tc.expected.getD 0
    if c ≠ e then .invalidExit c e
    else if selected tc o then .ok else .malformed
  | .timeout => .timeout
  | .skipped => .skipped
  | .detached => .internal
  | .unknown => .internal

def skipCodeOf (tc : TC) : Int := tc.skipCode.getD 80

/-- `(is_global, limit)`: minimum of the per-test and the remaining document limit; the duration
    decides, the per-test limit wins a tie -/
def effective (perTest remaining : Option Nat) : Bool × Option Nat :=
  match perTest, remaining with
  | none, none => (false, none)
  | some p, none => (false, some p)
  | none, some r => (true, some r)
  | some p, some r => if p ≤ r then (false, some p) else (true, some r)

/-- the document limit: absent → 900 s, 0 → unlimited -/
def totalLimit (total : Option Nat) : Option Nat :=
  let t := total.getD 900000
  if t = 0 then none else some t

inductive ExecResult where
  | ok (outs : List Out)
  | skipped (idx : Nat)
  | timeout (total : Bool) (idx : Nat) (outs : List Out)
deriving Repr, DecidableEq

/-- A runner: given the test index and the limit it is handed, returns the output and the time
    that passed. -/
abbrev Runner := Nat → Option Nat → Out × Nat

def detachedOut : Out := ⟨.detached, true, true⟩   -- `Output::default()` streams are empty
def unknownOut (tc : TC) : Out := ⟨.unknown, tc.accEmpty, tc.accEmpty⟩

/-- `config.wait` as it is sat out: no longer than what is left of the document limit
    (`timeout_left().map_or(wait.timeout, |left| left.min(wait.timeout))`; `Instant::duration_since`
    saturates, like `Nat` subtraction) -/
def cappedWait (limit : Option Nat) (tc : TC) (now : Nat) : Nat :=
  match limit with
  | some l => min tc.wait (l - now)
  | none => tc.wait

/-- the time on the document's clock at which the runner of `tc` is called when the loop reaches
    `tc` at time `now` -/
def startOf (limit : Option Nat) (tc : TC) (now : Nat) : Nat := now + cappedWait limit tc now

/-- the loop of `StatefulExecutor::execute_all`; `idx` = index of the head of `tcs`, `now` = time
    elapsed since the start, `acc` = outputs so far, `limits` = the limits handed to the runner -/
def execLoop (limit : Option Nat) (runner : Runner) :
    (tcs : List TC) → (idx now : Nat) → (acc : List Out) → (limits : List (Option Nat)) →
    ExecResult × List (Option Nat)
  | [], _, _, acc, limits => (.ok acc, limits)
  | tc :: rest, idx, now, acc, limits =>
    -- since fix 5800e20 the wait of the test case comes before the remaining time is looked at;
    -- the wait is sat out no longer than what is left of the document limit
    let now := startOf limit tc now
    let remaining := limit.map (· - now)          -- `Instant::duration_since` saturates
    let (isGlobal, lim) := effective tc.timeout remaining
    let (o, elapsed) := runner idx lim
    let limits := limits ++ [lim]
    match o.status with
    | .code c =>
      if c = skipCodeOf tc then (.skipped idx, limits)
      else execLoop limit runner rest (idx + 1) (now + elapsed) (acc ++ [o]) limits
    | .timeout => (.timeout isGlobal idx (acc ++ [o]), limits)
    | .skipped => (.skipped idx, limits)
    | .detached => execLoop limit runner rest (idx + 1) (now + elapsed) (acc ++ [detachedOut]) limits
    | .unknown =>
      -- push the output, pad every remaining test case with `Unknown`, stop
      (.ok (acc ++ [o] ++ rest.map unknownOut), limits)

def execAll (total : Option Nat) (runner : Runner) (tcs : List TC) : ExecResult × List (Option Nat) :=
  execLoop (totalLimit total) runner tcs 0 0 [] []

/-- skip code shared by the test cases of a Cram document (`compile_testcase` takes it from the
    test cases, which all carry the Cram default or the same configured value) -/
def scriptSkip (tcs : List TC) : Int := match tcs with
  | tc :: _ => skipCodeOf tc
  | [] => 80

/-- `BashScriptExecutor::execute_all` (Cram, src/executors/bash_script_executor.rs:77-160): all
    test cases run in ONE bash process; `script` is the status of that process, `outs` the
    per-divider outputs found in its stdout (fewer than test cases if a command left the shell).
    Order of the decisions as in the source: script-level skip code, timeout (unless a parsed output carries
    the skip code), unknown; then a
    parsed output carrying the (shared) skip code skips the document; then the count check.
    `none` = execution error (the run exits with 1). -/
def execScript (tcs : List TC) (script : Status) (outs : List Out) : Option ExecResult :=
  let skip : Int := scriptSkip tcs
  let afterStatus : Option ExecResult :=
    match outs.findIdx? (fun o => o.status = .code skip) with
    | some i => some (.skipped i)
    | none => if outs.length ≠ tcs.length then none else some (.ok outs)
  match script with
  | .code c => if c = skip then some (.skipped 0) else afterStatus
  -- since fix 03b50b5 the dividers printed before the time ran out are looked at: a skip code among them wins
  | .timeout =>
    match outs.findIdx? (fun o => o.status = .code skip) with
    | some i => some (.skipped i)
    | none => some (.timeout true 0 [⟨.timeout, false, false⟩])
  -- ... and since fix 384369f also over a shell that was killed
  | .unknown =>
    match outs.findIdx? (fun o => o.status = .code skip) with
    | some i => some (.skipped i)
    | none => none
  | _ => afterStatus

/-- one reported outcome: index of the test case and its verdict -/
abbrev Outcome := Nat × Verdict

/-- zip outputs with test cases from index `i`, dropping detached outputs (both the regular and
    the timeout path of `scrut test`) -/
def judge : List TC → List Out → Nat → List Outcome
  | tc :: tcs, o :: os, i =>
    if o.status = .detached then judge tcs os (i + 1)
    else (i, validate tc o) :: judge tcs os (i + 1)
  | _, _, _ => []

/-- the result mapping of `scrut test` for one document -/
def runDocument (tcs : List TC) (r : ExecResult) : List Outcome :=
  match r with
  | .skipped _ => (List.range tcs.length).map (fun i => (i, Verdict.skipped))
  | .timeout _ _ outs =>
    judge tcs outs 0 ++ ((List.range (tcs.length - outs.length)).map (fun k => (outs.length + k, Verdict.skipped)))
  | .ok outs => judge tcs outs 0

def isFailure : Verdict → Bool
  | .ok => false
  | .skipped => false
  | _ => true

/-- exit status of the process given the per-document outcomes (`none` = the document could not
    be processed: parse error, shell cannot be started, …) -/
def exitStatus (docs : List (Option (List Outcome))) : Nat :=
  if docs.any (·.isNone) then 1
  else if docs.any (fun d => (d.getD []).any (fun o => isFailure o.2)) then 50
  else 0

/-- An honest runner for a command that would run `dur` ms and then end as `fin`: it reports a
    timeout iff the limit is reached first. -/
def honest (cmds : Nat → Nat × Out) : Runner := fun i lim =>
  let (dur, fin) := cmds i
  match lim with
  | some l => if l ≤ dur then (⟨.timeout, false, false⟩, l) else (fin, dur)
  | none => (fin, dur)

end Scrut.Exec
