import ScrutModel.Model.Markdown
/-!
# Vocabulary for the statements about the Markdown model (no executable content)

* `isFenceLine` – what the property calls the opening line of a fenced code block;
* `number`, `Covers` – "the tokens partition the document";
* `Doc`, `render`, `Doc.tests` – the generator's view of a well-formed document.
* `Tail`, `tailTests`, `titleAfter` – … of a document whose last construct is unterminated.
-/
namespace Scrut.Markdown
open Scrut.LineParser

/-! ## what a fence line is, according to the property

The property speaks of "fenced code blocks" and demands that "prose (including inline code and
text containing backticks) never create, hide or truncate tests".  The reading (CommonMark, for
fences that start in the first column): the opening line of a fenced block is a run of three or
more backticks followed by an info string **that holds no backtick** – in scrut's reading: no
backtick in front of the inline configuration `{…}` (the configuration is scrut's own extension of
the info string and may hold any character, e.g. an environment value with a backtick; C17 demands
that it is read back).  A line that starts with three or more backticks and has another backtick
behind them, before any `{`, is an inline code span, e.g.
"```` ``` ```` is how three backticks are written inline." – prose.  `isFenceLine` is this reading,
written without reference to the code; `Lemmas/Markdown.lean` (`fence_iff_spec`) proves that the
fence recogniser of the code (`extractCodeBlockStart`) accepts exactly these lines, and that the
fence it reports is the run of backticks. -/

/-- the run of backticks at the start of the line -/
def fenceTicks (l : Line) : Line := l.takeWhile (· = '`')
/-- the rest of the line behind them: the info string (language and `{…}`), untrimmed -/
def fenceInfo (l : Line) : Line := l.dropWhile (· = '`')

/-- the part of the info string in front of the inline configuration: the text before the first
`{` (the language, untrimmed) -/
def fenceLang (l : Line) : Line := (fenceInfo l).takeWhile (· ≠ '{')

/-- the line opens a fenced code block: at least three backticks, then an info string that holds
no backtick in front of the inline configuration (possibly empty) -/
def isFenceLine (l : Line) : Bool := decide (3 ≤ (fenceTicks l).length) && !(fenceLang l).contains '`'

/-- the lines with their 0-based indices, starting at `start` -/
def number (start : Nat) : List Line → Numbered
  | [] => []
  | l :: r => (start, l) :: number (start + 1) r

/-- the `(index, text)` of the inline configuration of a fence line at index `i` -/
def cfgLines (i : Nat) (config : Line) : Numbered :=
  match stripBraces config with
  | some c => [(i, c)]
  | none => []

/-- `Covers languages i lines toks`: the tokens `toks` are a partition of `lines` (which start at
index `i` of the document) into consecutive segments, in order, such that

* a `line` token is one line that is not a fence start (and not an opening `---`), with its index;
* a `docConfig` token is `---`, lines without `---` carried with their indices, and the first
  following `---` – or everything up to the end of the document;
* a `verbatim` token is a fence start whose language is not a test language, carrying all its lines
  up to and including the first line that starts with the fence – or up to the end;
* a `test` token is a fence start with a test language; its comment and code lines together are
  exactly the body lines with their indices, up to the first line that starts with the fence –
  or up to the end.

Nothing of the document is outside a token, nothing is in two, no index is wrong. -/
inductive Covers (languages : List Line) : Nat → List Line → List Tok → Prop where
  | nil (i) : Covers languages i [] []
  | line (i l rest toks) :
      extractCodeBlockStart l = .ok none →
      Covers languages (i + 1) rest toks →
      Covers languages i (l :: rest) (.line i l :: toks)
  | frontClosed (i body rest toks) :
      (∀ x ∈ body, x ≠ frontMatterFence) →
      Covers languages (i + body.length + 2) rest toks →
      Covers languages i (frontMatterFence :: (body ++ frontMatterFence :: rest))
        (.docConfig (number (i + 1) body) :: toks)
  | frontOpen (i body) :
      (∀ x ∈ body, x ≠ frontMatterFence) →
      Covers languages i (frontMatterFence :: body) [.docConfig (number (i + 1) body)]
  | verbClosed (i opener bt language config body closer rest toks) :
      extractCodeBlockStart opener = .ok (some (bt, language, config)) →
      languages.contains language = false →
      (∀ x ∈ body, startsWith x bt = false) → startsWith closer bt = true →
      Covers languages (i + body.length + 2) rest toks →
      Covers languages i (opener :: (body ++ closer :: rest))
        (.verbatim i language (opener :: (body ++ [closer])) :: toks)
  | verbOpen (i opener bt language config body) :
      extractCodeBlockStart opener = .ok (some (bt, language, config)) →
      languages.contains language = false →
      (∀ x ∈ body, startsWith x bt = false) →
      Covers languages i (opener :: body) [.verbatim i language (opener :: body)]
  | testClosed (i opener bt language config body closer rest toks comments code) :
      extractCodeBlockStart opener = .ok (some (bt, language, config)) →
      languages.contains language = true →
      (∀ x ∈ body, startsWith x bt = false) → startsWith closer bt = true →
      comments ++ code = number (i + 1) body →
      Covers languages (i + body.length + 2) rest toks →
      Covers languages i (opener :: (body ++ closer :: rest))
        (.test language (cfgLines i config) comments code :: toks)
  | testOpen (i opener bt language config body comments code) :
      extractCodeBlockStart opener = .ok (some (bt, language, config)) →
      languages.contains language = true →
      (∀ x ∈ body, startsWith x bt = false) →
      comments ++ code = number (i + 1) body →
      Covers languages i (opener :: body) [.test language (cfgLines i config) comments code]

/-! ## well-formed documents (the statement of `C06_wellformed`) -/

/-- a scrut block with a command, as it is written: fence line, comment lines, `$ cmd`, `> more`
lines, then expectation lines among which at most one exit code line `[n]` may stand anywhere,
closing fence (any line that starts with the backticks of the opening line, e.g. a longer fence) -/
structure Block where
  opener : Line
  /-- what the fence recogniser returns for `opener` -/
  bt : Line
  language : Line
  config : Line
  comments : List Line
  cmd : Line
  more : List Line
  /-- the lines after the command: expectations and possibly an exit code line -/
  after : List Line
  closer : Line

def Block.cmdLine (b : Block) : Line := '$' :: ' ' :: b.cmd
def contLine (x : Line) : Line := '>' :: ' ' :: x
/-- the exit codes written among the lines (a line `[n]` with `n ≤ i32::MAX`) -/
def exitCodes (after : List Line) : List Nat := after.filterMap extractExitCode
/-- the other lines: the expectations (`Block.WF` demands that none of them has the form of an
exit code line, i.e. is an exit code line whose number does not fit into an `i32`) -/
def expLines (after : List Line) : List Line := after.filter (fun a => (extractExitCode a).isNone)
def Block.exps (b : Block) : List Line := expLines b.after
def Block.exit (b : Block) : Option Nat := (exitCodes b.after).head?
/-- the lines after the comments -/
def Block.code (b : Block) : List Line := b.cmdLine :: (b.more.map contLine ++ b.after)
def Block.body (b : Block) : List Line := b.comments ++ b.code
def Block.lines (b : Block) : List Line := b.opener :: (b.body ++ [b.closer])

/-- a fenced block that is not a test: a foreign code block (`language` not a test language, any
body), or a scrut block without command (`language` a test language, body = comment lines only,
possibly none) -/
structure Fenced where
  opener : Line
  bt : Line
  language : Line
  config : Line
  body : List Line
  closer : Line

def Fenced.lines (v : Fenced) : List Line := v.opener :: (v.body ++ [v.closer])

inductive Item where
  /-- any line that is not a fence start (blank, text, heading, backtick-led prose such as a line
  that starts with an inline code span "```` ``` ```` …", …) -/
  | prose (l : Line)
  /-- `---`, lines, `---` -/
  | front (body : List Line)
  /-- scrut block with a command -/
  | block (b : Block)
  /-- foreign code block -/
  | foreign (v : Fenced)
  /-- scrut block without a command -/
  | noCommand (v : Fenced)

def Item.lines : Item → List Line
  | .prose l => [l]
  | .front body => frontMatterFence :: (body ++ [frontMatterFence])
  | .block b => b.lines
  | .foreign v => v.lines
  | .noCommand v => v.lines

def render : List Item → List Line
  | [] => []
  | it :: r => it.lines ++ render r

/-- the inline configuration is acceptable YAML (or absent) -/
def cfgAccepted (env : Env) (config : Line) : Prop :=
  match stripBraces config with
  | some c => env.testCfgOk c = true
  | none => True

/-- what the renderer needs for a block with a command -/
def Block.WF (env : Env) (b : Block) : Prop :=
  extractCodeBlockStart b.opener = .ok (some (b.bt, b.language, b.config)) ∧
  env.languages.contains b.language = true ∧
  cfgAccepted env b.config ∧
  -- no line of the block closes it early; the closing line starts with the opening fence
  (∀ x ∈ b.body, startsWith x b.bt = false) ∧ startsWith b.closer b.bt = true ∧
  (∀ c ∈ b.comments, isComment c = true) ∧
  -- at most one exit code line; the other lines are accepted by the expectation grammar and have not
  -- the form `^\[[0-9]+\]$` of an exit code line (such a line with a number above `i32::MAX` is an
  -- error of the line parser: `exitCodeOutOfRange`); the line directly after the command does not
  -- continue it
  (exitCodes b.after).length ≤ 1 ∧ (∀ e ∈ b.exps, env.expOk e = true ∧ isExitCodeForm e = false) ∧
  (match b.after with
    | a :: _ => stripPrefix ['>', ' '] a = none
    | [] => True)

/-- a foreign block: its language is not a test language and not empty (the bare fence is
reported as `MissingLanguageSpecifier`) -/
def Fenced.ForeignWF (env : Env) (v : Fenced) : Prop :=
  extractCodeBlockStart v.opener = .ok (some (v.bt, v.language, v.config)) ∧
  env.languages.contains v.language = false ∧ v.language ≠ [] ∧
  (∀ x ∈ v.body, startsWith x v.bt = false) ∧ startsWith v.closer v.bt = true

/-- a scrut block that holds comment lines only -/
def Fenced.NoCommandWF (env : Env) (v : Fenced) : Prop :=
  extractCodeBlockStart v.opener = .ok (some (v.bt, v.language, v.config)) ∧
  env.languages.contains v.language = true ∧
  cfgAccepted env v.config ∧
  (∀ x ∈ v.body, startsWith x v.bt = false) ∧ startsWith v.closer v.bt = true ∧
  (∀ c ∈ v.body, isComment c = true)

/-- Well-formedness of one item; `cs` = has content started before it (`content_start`: a
non-blank line or a code block came before).  Front-matter is only front-matter while no content
has started; a prose line `---` is only prose once it has. -/
def Item.WF (env : Env) (cs : Bool) : Item → Prop
  | .prose l => extractCodeBlockStart l = .ok none ∧ (cs = false → l ≠ frontMatterFence)
  | .front body => cs = false ∧ (∀ x ∈ body, x ≠ frontMatterFence) ∧ env.docCfgOk (joinNl body ++ ['\n']) = true
  | .block b => b.WF env
  | .foreign v => v.ForeignWF env
  | .noCommand v => v.NoCommandWF env

/-- `content_start` after an item -/
def Item.csAfter (cs : Bool) : Item → Bool
  | .prose l => cs || !(trim l).isEmpty
  | .front _ => cs
  | _ => true

/-- `content_start` after a list of items -/
def csAfterAll : Bool → List Item → Bool
  | cs, [] => cs
  | cs, it :: r => csAfterAll (it.csAfter cs) r

def ItemsWF (env : Env) : Bool → List Item → Prop
  | _, [] => True
  | cs, it :: r => it.WF env cs ∧ ItemsWF env (it.csAfter cs) r

/-- The tests that are written in the document.  `li` = index of the first line of the items,
`title` = the title collected so far and not yet used by a test, `tp` = the run of title lines
that directly precedes.  The title logic, exactly as the code has it:

* heading and paragraph lines accumulate in `tp`, the title is the run joined by `\n`;
* any other prose line (blank, list item, …) ends the run but keeps the title;
* front-matter and **foreign code blocks neither end the run nor change the title** (a paragraph
  directly before and directly after a foreign block form one title);
* a scrut block without command ends the run and keeps the title;
* a scrut block with a command takes the title; the next test starts without one. -/
def expectedTests (env : Env) : List Item → Nat → Option Line → List Line → List (TestCase Cfg)
  | [], _, _, _ => []
  | .prose l :: r, li, title, tp =>
    match extractTitle env.isLetter l with
    | some x => expectedTests env r (li + 1) (some (joinNl (tp ++ [x]))) (tp ++ [x])
    | none => expectedTests env r (li + 1) title []
  | .front body :: r, li, title, tp => expectedTests env r (li + (body.length + 2)) title tp
  | .foreign v :: r, li, title, tp => expectedTests env r (li + v.lines.length) title tp
  | .noCommand v :: r, li, title, _ => expectedTests env r (li + v.lines.length) title []
  | .block b :: r, li, title, _ =>
    { title := title.getD []
      command := b.cmd :: b.more
      exitCode := b.exit
      expectations := b.exps
      -- 1-based line of the `$` line
      lineNumber := li + 1 + b.comments.length + 1
      config := some (stripBraces b.config) }
      :: expectedTests env r (li + b.lines.length) none []

/-- the front-matter texts of the document, in order -/
def docTexts : List Item → List Line
  | [] => []
  | .front body :: r => joinNl body :: docTexts r
  | _ :: r => docTexts r

/-- what a test says apart from its position and title: command lines, expectation texts, exit
code, inline configuration -/
abbrev Core := List Line × List Line × Option Nat × Option Cfg

def TestCase.core (t : TestCase Cfg) : Core := (t.command, t.expectations, t.exitCode, t.config)

/-- the blocks with a command, in order, as written -/
def writtenCores : List Item → List Core
  | [] => []
  | .block b :: r => (b.cmd :: b.more, b.exps, b.exit, some (stripBraces b.config)) :: writtenCores r
  | _ :: r => writtenCores r

/-- items that are not tests and not front-matter -/
def Item.inert : Item → Bool
  | .prose _ | .foreign _ | .noCommand _ => true
  | _ => false

def noFront : List Item → Bool
  | [] => true
  | .front _ :: _ => false
  | _ :: r => noFront r

/-! ## documents that end in an unterminated construct (the statement of `C06_wellformed_tail`) -/

/-- the title state behind the items: the title collected and not yet used by a test, and the run
of title lines that directly precedes the end (the same bookkeeping as in `expectedTests`) -/
def titleAfter (env : Env) : List Item → Option Line → List Line → Option Line × List Line
  | [], title, tp => (title, tp)
  | .prose l :: r, title, tp =>
    match extractTitle env.isLetter l with
    | some x => titleAfter env r (some (joinNl (tp ++ [x]))) (tp ++ [x])
    | none => titleAfter env r title []
  | .front _ :: r, title, tp => titleAfter env r title tp
  | .foreign _ :: r, title, tp => titleAfter env r title tp
  | .noCommand _ :: r, title, _ => titleAfter env r title []
  | .block _ :: r, _, _ => titleAfter env r none []

/-- the lines of a block whose closing line is missing -/
def Block.openLines (b : Block) : List Line := b.opener :: b.body
def Fenced.openLines (v : Fenced) : List Line := v.opener :: v.body

/-- What the document ends in, behind its complete items: nothing, or one construct whose closing
line is missing.  The records `Fenced` / `Block` are reused; their field `closer` is **not part of
the document** (`Tail.lines` does not render it) and nothing is assumed about it. -/
inductive Tail where
  | none
  /-- `---`, lines, end of the document -/
  | openFront (body : List Line)
  /-- foreign code block without closing line -/
  | openForeign (v : Fenced)
  /-- scrut block without a command and without closing line -/
  | openNoCommand (v : Fenced)
  /-- scrut block with a command, without closing line -/
  | openBlock (b : Block)

def Tail.lines : Tail → List Line
  | .none => []
  | .openFront body => frontMatterFence :: body
  | .openForeign v => v.openLines
  | .openNoCommand v => v.openLines
  | .openBlock b => b.openLines

/-- `Block.WF` without the conditions on the closing line -/
def Block.OpenWF (env : Env) (b : Block) : Prop :=
  extractCodeBlockStart b.opener = .ok (some (b.bt, b.language, b.config)) ∧
  env.languages.contains b.language = true ∧
  cfgAccepted env b.config ∧
  (∀ x ∈ b.body, startsWith x b.bt = false) ∧
  (∀ c ∈ b.comments, isComment c = true) ∧
  (exitCodes b.after).length ≤ 1 ∧ (∀ e ∈ b.exps, env.expOk e = true ∧ isExitCodeForm e = false) ∧
  (match b.after with
    | a :: _ => stripPrefix ['>', ' '] a = none
    | [] => True)

/-- `Fenced.ForeignWF` without the condition on the closing line (the language is still not empty:
an unterminated bare fence is reported as `MissingLanguageSpecifier` like a closed one) -/
def Fenced.OpenForeignWF (env : Env) (v : Fenced) : Prop :=
  extractCodeBlockStart v.opener = .ok (some (v.bt, v.language, v.config)) ∧
  env.languages.contains v.language = false ∧ v.language ≠ [] ∧
  (∀ x ∈ v.body, startsWith x v.bt = false)

/-- `Fenced.NoCommandWF` without the condition on the closing line -/
def Fenced.OpenNoCommandWF (env : Env) (v : Fenced) : Prop :=
  extractCodeBlockStart v.opener = .ok (some (v.bt, v.language, v.config)) ∧
  env.languages.contains v.language = true ∧
  cfgAccepted env v.config ∧
  (∀ x ∈ v.body, startsWith x v.bt = false) ∧
  (∀ c ∈ v.body, isComment c = true)

/-- Well-formedness of the tail; `cs` = has content started before it.  The conditions of the
closed item minus those on the closing line.  Unterminated front-matter is only front-matter while
no content has started (`cs = false`; afterwards a line `---` is prose and the lines behind it are
ordinary items). -/
def Tail.WF (env : Env) (cs : Bool) : Tail → Prop
  | .none => True
  | .openFront body => cs = false ∧ (∀ x ∈ body, x ≠ frontMatterFence) ∧ env.docCfgOk (joinNl body ++ ['\n']) = true
  | .openForeign v => v.OpenForeignWF env
  | .openNoCommand v => v.OpenNoCommandWF env
  | .openBlock b => b.OpenWF env

/-- the front-matter text of the tail -/
def Tail.docTexts : Tail → List Line
  | .openFront body => [joinNl body]
  | _ => []

/-- The test of the tail: an unterminated scrut block with a command yields its test (the same
fields as a closed one in `expectedTests`); the other tails yield none.  `li` = index of the first
line of the tail, `title` = the title collected before it and not yet used. -/
def tailTests (tail : Tail) (li : Nat) (title : Option Line) : List (TestCase Cfg) :=
  match tail with
  | .openBlock b =>
    [{ title := title.getD []
       command := b.cmd :: b.more
       exitCode := b.exit
       expectations := b.exps
       lineNumber := li + 1 + b.comments.length + 1
       config := some (stripBraces b.config) }]
  | _ => []

/-- the tail as an item: what would stand there had the construct been closed (by the line
`closer` of the record, for the fenced kinds) -/
def Tail.closed : Tail → List Item
  | .none => []
  | .openFront body => [.front body]
  | .openForeign v => [.foreign v]
  | .openNoCommand v => [.noCommand v]
  | .openBlock b => [.block b]

end Scrut.Markdown
