import ScrutModel.Model.Markdown
/-!
# Vocabulary for the statements about the Markdown model (no executable content)

* `number`, `Covers` – "the tokens partition the document";
* `Doc`, `render`, `Doc.tests` – the generator's view of a well-formed document.
-/
namespace Scrut.Markdown
open Scrut.LineParser

/-- the lines with their 0-based indices, starting at `start` -/
def number (start : Nat) : List Line → Numbered
  | [] => []
  | l :: r => (start, l) :: number (start + 1) r

/-- the `(index, text)` of the inline configuration of a fence line at index `i` -/
def cfgLines (i : Nat) (config : Line) : Numbered :=
  match stripBraces config with
  | some c => [(i, c)]
  | none => []

/-- `Covers languages i lines toks`: the tokens `toks` are a partition of `lines` (which start at
index `i` of the document) into consecutive segments, in order, such that

* a `line` token is one line that is not a fence start (and not an opening `---`), with its index;
* a `docConfig` token is `---`, lines without `---` carried with their indices, and the first
  following `---` – or everything up to the end of the document;
* a `verbatim` token is a fence start whose language is not a test language, carrying all its lines
  up to and including the first line that starts with the fence – or up to the end;
* a `test` token is a fence start with a test language; its comment and code lines together are
  exactly the body lines with their indices, up to the first line that starts with the fence –
  or up to the end.

Nothing of the document is outside a token, nothing is in two, no index is wrong. -/
inductive Covers (languages : List Line) : Nat → List Line → List Tok → Prop where
  | nil (i) : Covers languages i [] []
  | line (i l rest toks) :
      extractCodeBlockStart l = .ok none →
      Covers languages (i + 1) rest toks →
      Covers languages i (l :: rest) (.line i l :: toks)
  | frontClosed (i body rest toks) :
      (∀ x ∈ body, x ≠ frontMatterFence) →
      Covers languages (i + body.length + 2) rest toks →
      Covers languages i (frontMatterFence :: (body ++ frontMatterFence :: rest))
        (.docConfig (number (i + 1) body) :: toks)
  | frontOpen (i body) :
      (∀ x ∈ body, x ≠ frontMatterFence) →
      Covers languages i (frontMatterFence :: body) [.docConfig (number (i + 1) body)]
  | verbClosed (i opener bt language config body closer rest toks) :
      extractCodeBlockStart opener = .ok (some (bt, language, config)) →
      languages.contains language = false →
      (∀ x ∈ body, startsWith x bt = false) → startsWith closer bt = true →
      Covers languages (i + body.length + 2) rest toks →
      Covers languages i (opener :: (body ++ closer :: rest))
        (.verbatim i language (opener :: (body ++ [closer])) :: toks)
  | verbOpen (i opener bt language config body) :
      extractCodeBlockStart opener = .ok (some (bt, language, config)) →
      languages.contains language = false →
      (∀ x ∈ body, startsWith x bt = false) →
      Covers languages i (opener :: body) [.verbatim i language (opener :: body)]
  | testClosed (i opener bt language config body closer rest toks comments code) :
      extractCodeBlockStart opener = .ok (some (bt, language, config)) →
      languages.contains language = true →
      (∀ x ∈ body, startsWith x bt = false) → startsWith closer bt = true →
      comments ++ code = number (i + 1) body →
      Covers languages (i + body.length + 2) rest toks →
      Covers languages i (opener :: (body ++ closer :: rest))
        (.test language (cfgLines i config) comments code :: toks)
  | testOpen (i opener bt language config body comments code) :
      extractCodeBlockStart opener = .ok (some (bt, language, config)) →
      languages.contains language = true →
      (∀ x ∈ body, startsWith x bt = false) →
      comments ++ code = number (i + 1) body →
      Covers languages i (opener :: body) [.test language (cfgLines i config) comments code]

end Scrut.Markdown
