import ScrutModel.Model.Markdown
/-!
# Vocabulary for the statements about the Markdown model (no executable content)

* `number`, `Covers` – "the tokens partition the document";
* `Doc`, `render`, `Doc.tests` – the generator's view of a well-formed document.
-/
namespace Scrut.Markdown
open Scrut.LineParser

/-- the lines with their 0-based indices, starting at `start` -/
def number (start : Nat) : List Line → Numbered
  | [] => []
  | l :: r => (start, l) :: number (start + 1) r

/-- the `(index, text)` of the inline configuration of a fence line at index `i` -/
def cfgLines (i : Nat) (config : Line) : Numbered :=
  match stripBraces config with
  | some c => [(i, c)]
  | none => []

/-- `Covers languages i lines toks`: the tokens `toks` are a partition of `lines` (which start at
index `i` of the document) into consecutive segments, in order, such that

* a `line` token is one line that is not a fence start (and not an opening `---`), with its index;
* a `docConfig` token is `---`, lines without `---` carried with their indices, and the first
  following `---` – or everything up to the end of the document;
* a `verbatim` token is a fence start whose language is not a test language, carrying all its lines
  up to and including the first line that starts with the fence – or up to the end;
* a `test` token is a fence start with a test language; its comment and code lines together are
  exactly the body lines with their indices, up to the first line that starts with the fence –
  or up to the end.

Nothing of the document is outside a token, nothing is in two, no index is wrong. -/
inductive Covers (languages : List Line) : Nat → List Line → List Tok → Prop where
  | nil (i) : Covers languages i [] []
  | line (i l rest toks) :
      extractCodeBlockStart l = .ok none →
      Covers languages (i + 1) rest toks →
      Covers languages i (l :: rest) (.line i l :: toks)
  | frontClosed (i body rest toks) :
      (∀ x ∈ body, x ≠ frontMatterFence) →
      Covers languages (i + body.length + 2) rest toks →
      Covers languages i (frontMatterFence :: (body ++ frontMatterFence :: rest))
        (.docConfig (number (i + 1) body) :: toks)
  | frontOpen (i body) :
      (∀ x ∈ body, x ≠ frontMatterFence) →
      Covers languages i (frontMatterFence :: body) [.docConfig (number (i + 1) body)]
  | verbClosed (i opener bt language config body closer rest toks) :
      extractCodeBlockStart opener = .ok (some (bt, language, config)) →
      languages.contains language = false →
      (∀ x ∈ body, startsWith x bt = false) → startsWith closer bt = true →
      Covers languages (i + body.length + 2) rest toks →
      Covers languages i (opener :: (body ++ closer :: rest))
        (.verbatim i language (opener :: (body ++ [closer])) :: toks)
  | verbOpen (i opener bt language config body) :
      extractCodeBlockStart opener = .ok (some (bt, language, config)) →
      languages.contains language = false →
      (∀ x ∈ body, startsWith x bt = false) →
      Covers languages i (opener :: body) [.verbatim i language (opener :: body)]
  | testClosed (i opener bt language config body closer rest toks comments code) :
      extractCodeBlockStart opener = .ok (some (bt, language, config)) →
      languages.contains language = true →
      (∀ x ∈ body, startsWith x bt = false) → startsWith closer bt = true →
      comments ++ code = number (i + 1) body →
      Covers languages (i + body.length + 2) rest toks →
      Covers languages i (opener :: (body ++ closer :: rest))
        (.test language (cfgLines i config) comments code :: toks)
  | testOpen (i opener bt language config body comments code) :
      extractCodeBlockStart opener = .ok (some (bt, language, config)) →
      languages.contains language = true →
      (∀ x ∈ body, startsWith x bt = false) →
      comments ++ code = number (i + 1) body →
      Covers languages i (opener :: body) [.test language (cfgLines i config) comments code]

/-! ## well-formed documents (the statement of `C06_wellformed`) -/

/-- a scrut block as it is written: fence line, comment lines, `$ cmd`, `> more` lines,
expectation lines, optionally an exit code line `[n]`, closing fence (the backticks of the opening
line) -/
structure Block where
  opener : Line
  /-- what the fence recogniser returns for `opener` -/
  bt : Line
  language : Line
  config : Line
  comments : List Line
  cmd : Line
  more : List Line
  exps : List Line
  /-- the exit code line and the number it denotes -/
  exit : Option (Line × Nat)

def Block.cmdLine (b : Block) : Line := '$' :: ' ' :: b.cmd
def contLine (x : Line) : Line := '>' :: ' ' :: x
def Block.exitLines (b : Block) : List Line :=
  match b.exit with
  | some (x, _) => [x]
  | none => []
/-- the lines after the comments -/
def Block.code (b : Block) : List Line := b.cmdLine :: (b.more.map contLine ++ (b.exps ++ b.exitLines))
def Block.body (b : Block) : List Line := b.comments ++ b.code
def Block.lines (b : Block) : List Line := b.opener :: (b.body ++ [b.bt])

inductive Item where
  /-- any line that is neither a fence start nor `---` (blank, text, heading, …) -/
  | prose (l : Line)
  | block (b : Block)

def render : List Item → List Line
  | [] => []
  | .prose l :: r => l :: render r
  | .block b :: r => b.lines ++ render r

/-- what the renderer needs -/
def Block.WF (env : Env) (b : Block) : Prop :=
  extractCodeBlockStart b.opener = .ok (some (b.bt, b.language, b.config)) ∧
  env.languages.contains b.language = true ∧
  (match stripBraces b.config with
    | some c => env.testCfgOk c = true
    | none => True) ∧
  -- no line of the block closes it early
  (∀ x ∈ b.body, startsWith x b.bt = false) ∧
  (∀ c ∈ b.comments, isComment c = true) ∧
  -- expectation lines: accepted by the expectation grammar, not an exit code, not `> …`
  (∀ e ∈ b.exps, env.expOk e = true ∧ extractExitCode e = none ∧ stripPrefix ['>', ' '] e = none) ∧
  (match b.exit with
    | some (x, n) => extractExitCode x = some n
    | none => True)

def Item.WF (env : Env) : Item → Prop
  | .prose l => extractCodeBlockStart l = .ok none ∧ l ≠ frontMatterFence
  | .block b => b.WF env

/-- The tests that are written in the document.  `li` = index of the first line of the items,
`title` = the title collected so far and not yet used by a test, `tp` = the run of title lines
that directly precedes (headings and paragraphs accumulate; any other line ends the run; a test
consumes the title). -/
def expectedTests (env : Env) : List Item → Nat → Option Line → List Line → List (TestCase Cfg)
  | [], _, _, _ => []
  | .prose l :: r, li, title, tp =>
    match extractTitle env.isLetter l with
    | some x => expectedTests env r (li + 1) (some (joinNl (tp ++ [x]))) (tp ++ [x])
    | none => expectedTests env r (li + 1) title []
  | .block b :: r, li, title, _ =>
    { title := title.getD []
      command := b.cmd :: b.more
      exitCode := b.exit.map (·.2)
      expectations := b.exps
      -- 1-based line of the `$` line
      lineNumber := li + 1 + b.comments.length + 1
      config := some (stripBraces b.config) }
      :: expectedTests env r (li + b.lines.length) none []

/-- what a test says apart from its position and title: command lines, expectation texts, exit
code, inline configuration -/
abbrev Core := List Line × List Line × Option Nat × Option Cfg

def TestCase.core (t : TestCase Cfg) : Core := (t.command, t.expectations, t.exitCode, t.config)

/-- the blocks of a document, in order, as written -/
def writtenCores : List Item → List Core
  | [] => []
  | .prose _ :: r => writtenCores r
  | .block b :: r => (b.cmd :: b.more, b.exps, b.exit.map (·.2), some (stripBraces b.config)) :: writtenCores r

end Scrut.Markdown
