/-!
# Model of the two glob rules (`src/rules/glob.rs`, `src/rules/glob_cram.rs`)

Text is `List Char`: both rules work on characters (wildmatch iterates `str::chars`; the Cram
variant compiles to a Unicode `regex::bytes::Regex` whose `.` consumes one scalar value).
The *decoding* of the output line is not modelled: the line enters as the characters of a valid
UTF-8 byte string (`GlobRule` decodes lossily, an invalid sequence becomes U+FFFD; the Cram regex
cannot step over an invalid byte at all) — see the hypothesis in `Props/C04.lean`.

* `GlobRule::make e`   = `WildMatch::new e`  (no escaping of any kind; `unmake` prints the
  *simplified* pattern), `matches line` = `wildmatch (lossy (trim_newlines line))`.
* `WildMatch::new` collapses every run of `*` into one `*` (`simplify`).
* `WildMatch::matches`: `?` consumes exactly one `char`, `*` any run (also empty), everything
  else is literal; the whole input must be consumed (`globGo`; `wildLoop` is the transliteration of
  the crate's iterative single-backtrack-point loop, `globGo` its denotation).
* `CramGlobRule::make e` = regex `^…$` where `\*`, `\?`, `\\` are literals, `*` is `.*`, `?` is
  `.` (`.` does not match `\n`), anything else is `regex::escape`d, i.e. literal.
-/
namespace Scrut.Glob

/-- `newline::trim_newlines`: strips *all* trailing `\n` -/
def trimNewlines (l : List Char) : List Char :=
  (l.reverse.dropWhile (· == '\n')).reverse

/-- what the documentation says: "final newline ignored" -/
def dropFinalNewline (l : List Char) : List Char :=
  if l.getLast? = some '\n' then l.dropLast else l

/-- `WildMatch::new`: consecutive `*` are simplified to a single one -/
def simplify : List Char → List Char
  | [] => []
  | c :: rest => if c = '*' ∧ rest.head? = some '*' then simplify rest else c :: simplify rest

/-- `f` holds for some suffix of the input (the run consumed by `*` is the dropped prefix) -/
def anySuffix (f : List Char → Bool) : List Char → Bool
  | [] => f []
  | c :: s => f (c :: s) || anySuffix f s

/-- wildcard matching of a (simplified or not) pattern against the whole input -/
def globGo : List Char → List Char → Bool
  | [], s => s.isEmpty
  | pc :: p, s =>
    if pc = '*' then anySuffix (globGo p) s
    else match s with
      | [] => false
      | c :: s' => (pc = '?' || pc = c) && globGo p s'

/-- `WildMatch::new(p).matches(s)` -/
def globMatch (p s : List Char) : Bool := globGo (simplify p) s

/-- `GlobRule::matches` on a decoded line -/
def globRuleMatches (expr line : List Char) : Bool := globMatch expr (trimNewlines line)

/-! ## The crate's loop, transliterated

State of `WildMatchPattern::matches`: `p` = `pattern[pattern_idx..]`, `c` = `input_char`,
`rest` = `input_chars`, `bt` = `(pattern[start_idx+1..], matched)` when `start_idx != NONE`.
Every iteration either advances the pattern, or the input, or resumes at the backtrack point with
a strictly shorter `matched`; `fuel` bounds the iterations and running out of it is an explicit
result (`none`), never a default. -/

/-- after the loop: skip trailing `*`, succeed iff the pattern is exhausted -/
def wildFinish (p : List Char) : Bool := (p.dropWhile (· == '*')).isEmpty

def wildLoop : Nat → List Char → Char → List Char → Option (List Char × List Char) → Option Bool
  | 0, _, _, _, _ => none
  | fuel + 1, p, c, rest, bt =>
    let backtrack : Option Bool :=
      match bt with
      | some (ps, m) =>
        match m with
        | c' :: m' => wildLoop fuel ps c' m' (some (ps, m'))
        | [] => some (wildFinish ps)
      | none => some false
    match p with
    | pc :: p' =>
      if pc = '*' then wildLoop fuel p' c rest (some (p', rest))
      else if pc = '?' ∨ pc = c then
        match rest with
        | c' :: rest' => wildLoop fuel p' c' rest' bt
        | [] => some (wildFinish p')
      else backtrack
    | [] => backtrack

/-- enough for every run: each backtrack consumes one input char and is followed by at most
`|p|+1` pattern steps -/
def wildFuel (p s : List Char) : Nat := (p.length + 2) * (s.length + 2)

/-- `WildMatch::new(p).matches(s)` by the crate's algorithm; `none` = fuel exhausted -/
def wildMatch (p s : List Char) : Option Bool :=
  let q := simplify p
  if q.isEmpty then some s.isEmpty
  else match s with
    | [] => some (wildFinish q)
    | c :: rest => wildLoop (wildFuel q s) q c rest none

/-! ## Cram-compat glob -/

inductive Tok
  | lit (c : Char)   -- literal (also the escaped `\*`, `\?`, `\\`)
  | one              -- `?` → `.`
  | many             -- `*` → `.*`
  deriving DecidableEq, Repr

/-- `glob_to_regex_string`, as a token list instead of regex text. `esc` = the previous character
was a backslash that has not been emitted yet (the code looks one character ahead instead). -/
def cramTok : List Char → Bool → List Tok
  | [], false => []
  | [], true => [.lit '\\']
  | c :: rest, false =>
    if c = '\\' then cramTok rest true
    else if c = '*' then .many :: cramTok rest false
    else if c = '?' then .one :: cramTok rest false
    else .lit c :: cramTok rest false
  | c :: rest, true =>
    if c = '*' ∨ c = '?' ∨ c = '\\' then .lit c :: cramTok rest false
    else .lit '\\' :: .lit c :: cramTok rest false

def cramTokens (p : List Char) : List Tok := cramTok p false

/-- `.*`: some suffix reached by dropping only non-newline characters -/
def anySuffixNoNl (f : List Char → Bool) : List Char → Bool
  | [] => f []
  | c :: s => f (c :: s) || (c != '\n' && anySuffixNoNl f s)

/-- the anchored regex `^tokens$` on the whole haystack -/
def tokGo : List Tok → List Char → Bool
  | [], s => s.isEmpty
  | .many :: p, s => anySuffixNoNl (tokGo p) s
  | .one :: p, s =>
    match s with
    | [] => false
    | c :: s' => c != '\n' && tokGo p s'
  | .lit x :: p, s =>
    match s with
    | [] => false
    | c :: s' => x == c && tokGo p s'

def cramMatch (p s : List Char) : Bool := tokGo (cramTokens p) s

/-- `CramGlobRule::matches` on a decoded line -/
def cramRuleMatches (expr line : List Char) : Bool := cramMatch expr (trimNewlines line)

end Scrut.Glob
