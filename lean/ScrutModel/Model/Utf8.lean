/-!
# UTF-8 validation/decoding (`String::from_utf8`) as a total function on byte lists

Written after the validity table of the Unicode standard (Table 3-7), which is what
`core::str::from_utf8` implements: lead byte ranges C2..DF / E0..EF / F0..F4, restricted second
byte after E0 (A0..BF), ED (80..9F), F0 (90..BF), F4 (80..8F), continuation bytes 80..BF.
Structural recursion on the byte list. Validated against Rust exhaustively on all strings of
up to three bytes (and seeded longer ones) by the harness op `utf8`.
-/
namespace Scrut.Utf8

/-- the UTF-8 encoding of a text -/
def utf8 (cs : List Char) : List UInt8 := cs.flatMap String.utf8EncodeChar

def utf8Decode : List UInt8 → Option (List Char)
  | [] => some []
  | b0 :: r0 =>
    let v0 := b0.toNat
    if v0 < 0x80 then (utf8Decode r0).map (Char.ofNat v0 :: ·)
    else match r0 with
    | [] => none
    | b1 :: r1 =>
      let v1 := b1.toNat
      if 0xC2 ≤ v0 ∧ v0 ≤ 0xDF then
        if 0x80 ≤ v1 ∧ v1 ≤ 0xBF then
          (utf8Decode r1).map (Char.ofNat (v0 % 32 * 64 + v1 % 64) :: ·)
        else none
      else match r1 with
      | [] => none
      | b2 :: r2 =>
        let v2 := b2.toNat
        if 0xE0 ≤ v0 ∧ v0 ≤ 0xEF then
          if (if v0 = 0xE0 then 0xA0 else 0x80) ≤ v1 ∧ v1 ≤ (if v0 = 0xED then 0x9F else 0xBF)
              ∧ 0x80 ≤ v2 ∧ v2 ≤ 0xBF then
            (utf8Decode r2).map (Char.ofNat (v0 % 16 * 4096 + v1 % 64 * 64 + v2 % 64) :: ·)
          else none
        else match r2 with
        | [] => none
        | b3 :: r3 =>
          let v3 := b3.toNat
          if 0xF0 ≤ v0 ∧ v0 ≤ 0xF4 then
            if (if v0 = 0xF0 then 0x90 else 0x80) ≤ v1 ∧ v1 ≤ (if v0 = 0xF4 then 0x8F else 0xBF)
                ∧ 0x80 ≤ v2 ∧ v2 ≤ 0xBF ∧ 0x80 ≤ v3 ∧ v3 ≤ 0xBF then
              (utf8Decode r3).map
                (Char.ofNat (v0 % 8 * 262144 + v1 % 64 * 4096 + v2 % 64 * 64 + v3 % 64) :: ·)
            else none
          else none

end Scrut.Utf8
