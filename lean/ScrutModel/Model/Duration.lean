/-!
# humantime `format_duration` / `parse_duration` (crate humantime 2.4, src/duration.rs)

A `std::time::Duration` is a pair `(secs, nanos)` with `nanos < 10^9`, `secs < 2^64`.
`formatDuration` is `FormattedDuration::fmt`, `parseDuration` is `Parser::parse` written as a
character-by-character state machine (the Rust code is two nested loops over one iterator).
Checked `u64` arithmetic is explicit; the one place where `Duration::new` can panic is `crash`.
Text is `List Char`.
-/
namespace Scrut.Dur

def U64MAX : Nat := 18446744073709551615
def NS : Nat := 1000000000

/-! ## decimal rendering of a `u64` (Rust `{}` on integers) -/

def digitsAux : Nat → Nat → List Char → List Char
  | 0, _, acc => acc
  | fuel + 1, n, acc =>
    let acc' := Char.ofNat (48 + n % 10) :: acc
    if n / 10 = 0 then acc' else digitsAux fuel (n / 10) acc'

def natDigits (n : Nat) : List Char := digitsAux (n + 1) n []

/-! ## formatting -/

inductive FU | year | month | day | h | m | s | ms | us | ns
  deriving DecidableEq, Repr

/-- `item_plural` for year/month/day (an `s` is appended when the value is > 1), `item` otherwise -/
def FU.text : FU → Nat → List Char
  | .year, v => ['y', 'e', 'a', 'r'] ++ (if v > 1 then ['s'] else [])
  | .month, v => ['m', 'o', 'n', 't', 'h'] ++ (if v > 1 then ['s'] else [])
  | .day, v => ['d', 'a', 'y'] ++ (if v > 1 then ['s'] else [])
  | .h, _ => ['h']
  | .m, _ => ['m']
  | .s, _ => ['s']
  | .ms, _ => ['m', 's']
  | .us, _ => ['u', 's']
  | .ns, _ => ['n', 's']

/-- the sequence of `item…(f, started, name, value)` calls; the Boolean is `*started` -/
def renderItems : Bool → List (Nat × FU) → List Char
  | _, [] => []
  | st, (v, u) :: r =>
    if v = 0 then renderItems st r
    else (if st then [' '] else []) ++ (natDigits v ++ (u.text v ++ renderItems true r))

def items (secs nanos : Nat) : List (Nat × FU) :=
  let years := secs / 31557600
  let ydays := secs % 31557600
  let months := ydays / 2630016
  let mdays := ydays % 2630016
  let days := mdays / 86400
  let daySecs := mdays % 86400
  let hours := daySecs / 3600
  let minutes := daySecs % 3600 / 60
  let seconds := daySecs % 60
  let millis := nanos / 1000000
  let micros := nanos / 1000 % 1000
  let nanosec := nanos % 1000
  [(years, .year), (months, .month), (days, .day), (hours, .h), (minutes, .m), (seconds, .s),
   (millis, .ms), (micros, .us), (nanosec, .ns)]

def formatDuration (secs nanos : Nat) : List Char :=
  if secs = 0 ∧ nanos = 0 then ['0', 's'] else renderItems false (items secs nanos)

/-! ## parsing -/

inductive E | err | crash
  deriving DecidableEq, Repr

abbrev R := Except E

inductive PU | ns | us | ms | s | m | h | d | w | mo | y
  deriving DecidableEq, Repr

/-- `Unit::from_str` -/
def unitOf : List Char → Option PU
  | ['n', 'a', 'n', 'o', 's'] | ['n', 's', 'e', 'c'] | ['n', 's'] => some .ns
  | ['u', 's', 'e', 'c'] | ['u', 's'] | ['µ', 's'] => some .us
  | ['m', 'i', 'l', 'l', 'i', 's'] | ['m', 's', 'e', 'c'] | ['m', 's'] => some .ms
  | ['s', 'e', 'c', 'o', 'n', 'd', 's'] | ['s', 'e', 'c', 'o', 'n', 'd'] | ['s', 'e', 'c', 's']
  | ['s', 'e', 'c'] | ['s'] => some .s
  | ['m', 'i', 'n', 'u', 't', 'e', 's'] | ['m', 'i', 'n', 'u', 't', 'e'] | ['m', 'i', 'n']
  | ['m', 'i', 'n', 's'] | ['m'] => some .m
  | ['h', 'o', 'u', 'r', 's'] | ['h', 'o', 'u', 'r'] | ['h', 'r'] | ['h', 'r', 's'] | ['h'] => some .h
  | ['d', 'a', 'y', 's'] | ['d', 'a', 'y'] | ['d'] => some .d
  | ['w', 'e', 'e', 'k', 's'] | ['w', 'e', 'e', 'k'] | ['w', 'k'] | ['w', 'k', 's'] | ['w'] => some .w
  | ['m', 'o', 'n', 't', 'h', 's'] | ['m', 'o', 'n', 't', 'h'] | ['M'] => some .mo
  | ['y', 'e', 'a', 'r', 's'] | ['y', 'e', 'a', 'r'] | ['y', 'r'] | ['y', 'r', 's'] | ['y'] => some .y
  | _ => none

structure Out where
  secs : Nat
  nanos : Nat
  deriving DecidableEq, Repr

def ckMul (a b : Nat) : R Nat := if a * b ≤ U64MAX then .ok (a * b) else .error .err
def ckAdd (a b : Nat) : R Nat := if a + b ≤ U64MAX then .ok (a + b) else .error .err
/-- `OverflowOp::div`: exact division or error (`d = 0` would be a Rust panic) -/
def exDiv (a d : Nat) : R Nat :=
  if d = 0 then .error .crash else if a % d = 0 then .ok (a / d) else .error .err

/-- `add_current`; `Duration::new(sec, 10^9)` carries into the seconds and panics on overflow -/
def addCurrent (sec nsec : Nat) (out : Out) : R Out := do
  let ns ← ckAdd out.nanos nsec
  let (sec, ns) ← (if ns > NS then do
      let s ← ckAdd sec (ns / NS)
      pure (s, ns % NS)
    else pure (sec, ns) : R (Nat × Nat))
  let s ← ckAdd out.secs sec
  if ns = NS then (if s + 1 ≤ U64MAX then .ok ⟨s + 1, 0⟩ else .error .crash) else .ok ⟨s, ns⟩

def unitMain (k : PU) (n : Nat) : R (Nat × Nat) :=
  match k with
  | .ns => pure (0, n)
  | .us => do pure (0, ← ckMul n 1000)
  | .ms => do pure (0, ← ckMul n 1000000)
  | .s => pure (n, 0)
  | .m => do pure (← ckMul n 60, 0)
  | .h => do pure (← ckMul n 3600, 0)
  | .d => do pure (← ckMul n 86400, 0)
  | .w => do pure (← ckMul n 604800, 0)
  | .mo => do pure (← ckMul n 2630016, 0)
  | .y => do pure (← ckMul n 31557600, 0)

def unitFrac (k : PU) (n d : Nat) : R (Nat × Nat) :=
  match k with
  | .ns => .error .err
  | .us => do pure (0, ← exDiv (← ckMul n 1000) d)
  | .ms => do pure (0, ← exDiv (← ckMul n 1000000) d)
  | .s => do pure (0, ← exDiv (← ckMul n 1000000000) d)
  | .m => do pure (0, ← exDiv (← ckMul n 60000000000) d)
  | .h => do pure (← exDiv (← ckMul n 3600) d, 0)
  | .d => do pure (← exDiv (← ckMul n 86400) d, 0)
  | .w => do pure (← exDiv (← ckMul n 604800) d, 0)
  | .mo => do pure (← exDiv (← ckMul n 2630016) d, 0)
  | .y => do pure (← exDiv (← ckMul n 31557600) d, 0)

/-- `Parser::parse_unit` -/
def parseUnit (n : Nat) (fr : Option (Nat × Nat)) (u : List Char) (out : Out) : R Out :=
  match unitOf u with
  | none => .error .err
  | some k => do
    let (sec, nsec) ← unitMain k n
    let out ← addCurrent sec nsec out
    match fr with
    | none => pure out
    | some (fn, fd) => do
      let (sec, nsec) ← unitFrac k fn fd
      addCurrent sec nsec out

def isDigit (c : Char) : Bool := '0' ≤ c && c ≤ '9'
def digitVal (c : Char) : Nat := c.toNat - 48
def isLetter (c : Char) : Bool := ('a' ≤ c && c ≤ 'z') || ('A' ≤ c && c ≤ 'Z') || c == 'µ'
/-- `char::is_whitespace` (Unicode White_Space) -/
def isWs (c : Char) : Bool :=
  let n := c.toNat
  (9 ≤ n && n ≤ 13) || n == 32 || n == 0x85 || n == 0xA0 || n == 0x1680 || (0x2000 ≤ n && n ≤ 0x200A) ||
  n == 0x2028 || n == 0x2029 || n == 0x202F || n == 0x205F || n == 0x3000

/-- parser position: `first` = in `parse_first_char` (`any` = a unit was completed before),
`num` = first inner loop, `frac` = `parse_fractional_part`, `unit` = second inner loop -/
inductive St
  | first (any : Bool) (out : Out)
  | num (n : Nat) (out : Out)
  | frac (n fnum fden : Nat) (zeros : Bool) (out : Out)
  | unit (n : Nat) (fr : Option (Nat × Nat)) (u : List Char) (out : Out)

def step (st : St) (c : Char) : R St :=
  match st with
  | .first any out =>
    if isDigit c then pure (.num (digitVal c) out)
    else if isWs c then pure (.first any out)
    else .error .err
  | .num n out =>
    if isDigit c then do
      let n10 ← ckMul n 10
      let n' ← ckAdd n10 (digitVal c)
      pure (.num n' out)
    else if isWs c then pure (.num n out)
    else if isLetter c then pure (.unit n none [c] out)
    else if c = '.' then pure (.frac n 0 1 true out)
    else .error .err
  | .frac n fnum fden zeros out =>
    if c = '0' then do
      let fden ← ckMul fden 10
      let fnum ← (if zeros then pure fnum else ckMul fnum 10 : R Nat)
      pure (.frac n fnum fden zeros out)
    else if isDigit c then do
      let fden ← ckMul fden 10
      let f10 ← ckMul fnum 10
      let fnum ← ckAdd f10 (digitVal c)
      pure (.frac n fnum fden false out)
    else if isWs c then pure (.frac n fnum fden zeros out)
    else if isLetter c then
      (if fden = 1 then .error .err else pure (.unit n (some (fnum, fden)) [c] out))
    else .error .err
  | .unit n fr u out =>
    if isDigit c then do
      let out ← parseUnit n fr u out
      pure (.num (digitVal c) out)
    else if isWs c then do
      let out ← parseUnit n fr u out
      pure (.first true out)
    else if isLetter c then pure (.unit n fr (u ++ [c]) out)
    else .error .err

def finish : St → R Out
  | .first false _ => .error .err      -- Error::Empty
  | .first true out => pure out
  | .num _ _ => .error .err            -- number without unit
  | .frac _ _ _ _ _ => .error .err     -- "1." or fraction without unit
  | .unit n fr u out => parseUnit n fr u out

def run : St → List Char → R St
  | st, [] => pure st
  | st, c :: cs => do
    let st ← step st c
    run st cs

/-- `humantime::parse_duration` -/
def parseDuration (s : List Char) : R Out :=
  if s = ['0'] then pure ⟨0, 0⟩ else do
    let st ← run (.first false ⟨0, 0⟩) s
    finish st

end Scrut.Dur
