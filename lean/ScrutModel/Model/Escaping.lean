import ScrutModel.Model.Utf8
/-!
# Model of `src/escaping.rs` (the writer side of `(escaped)` expectations)

`isOther : Char → Bool` stands for `char::is_other()` of the crate `unicode_categories`
(general categories Cc, Cf, Cn, Co, Cs); it is a parameter, the model contains no Unicode table.

`String::from_utf8_lossy` occurs in two places:
* `escaped_printable_ascii` on bytes that are all in 0x20..0x7e: that is the text itself
  (`asciiText`);
* the comparison `encoded == escaped` of `escaped_expectation_*`: for valid UTF-8 the lossy text
  is the text; for invalid UTF-8 it contains U+FFFD while `escaped` (then produced by
  `escaped_printable_ascii`) is pure ASCII, so the comparison is false (`lossyEq`; this reading of
  `from_utf8_lossy` is trusted and checked by the correspondence on every case).
-/
namespace Scrut.Esc
open Scrut.Utf8

inductive Mode | ascii | unicode
  deriving DecidableEq, Repr

def hexChar (n : Nat) : Char :=
  if n < 10 then Char.ofNat (48 + n) else Char.ofNat (87 + n)      -- '0'..'9', 'a'..'f'

def printableByte (b : UInt8) : Bool := 0x20 ≤ b.toNat && b.toNat ≤ 0x7e

/-- `has_unprintable_ascii` -/
def hasUnprintableAscii (bs : List UInt8) : Bool := bs.any (fun b => !printableByte b)

/-- `byte_to_ascii` on the numeric value of the byte -/
def byteToAsciiN (v : Nat) : List Char :=
  if v = 10 then ['\\', 'n'] else if v = 13 then ['\\', 'r'] else if v = 9 then ['\\', 't']
  else if v = 7 then ['\\', 'a'] else if v = 8 then ['\\', 'b'] else if v = 12 then ['\\', 'f']
  else if v = 11 then ['\\', 'v'] else if v = 92 then ['\\', '\\']
  else if 32 ≤ v ∧ v ≤ 126 then [Char.ofNat v]
  else ['\\', 'x', hexChar (v / 16), hexChar (v % 16)]

/-- `byte_to_ascii` -/
def byteToAscii (b : UInt8) : List Char := byteToAsciiN b.toNat

/-- `String::from_utf8_lossy` on bytes that are all printable ASCII -/
def asciiText (bs : List UInt8) : List Char := bs.map (fun b => Char.ofNat b.toNat)

def encodeAscii (bs : List UInt8) : List Char := bs.flatMap byteToAscii

/-- `escaped_printable_ascii` -/
def escapedPrintableAscii (bs : List UInt8) : List Char :=
  if hasUnprintableAscii bs then encodeAscii bs else asciiText bs

/-- the closure inside `escaped_printable_unicode` -/
def renderChar (isOther : Char → Bool) (hasEscapes : Bool) (c : Char) : List Char :=
  if isOther c then escapedPrintableAscii (String.utf8EncodeChar c)
  else if c = '\\' ∧ hasEscapes = true then ['\\', '\\']
  else [c]

def renderText (isOther : Char → Bool) (cs : List Char) : List Char :=
  cs.flatMap (renderChar isOther (cs.any isOther))

/-- `escaped_printable_unicode` -/
def escapedPrintableUnicode (isOther : Char → Bool) (bs : List UInt8) : List Char :=
  match utf8Decode bs with
  | some cs => renderText isOther cs
  | none => escapedPrintableAscii bs

/-- `has_unprintable_unicode` -/
def hasUnprintableUnicode (isOther : Char → Bool) (bs : List UInt8) : Bool :=
  match utf8Decode bs with
  | some cs => cs.any isOther
  | none => true

def escapedPrintable (m : Mode) (isOther : Char → Bool) (bs : List UInt8) : List Char :=
  match m with
  | .ascii => escapedPrintableAscii bs
  | .unicode => escapedPrintableUnicode isOther bs

def hasUnprintable (m : Mode) (isOther : Char → Bool) (bs : List UInt8) : Bool :=
  match m with
  | .ascii => hasUnprintableAscii bs
  | .unicode => hasUnprintableUnicode isOther bs

/-- `BytesNewline::trim_newlines`: without ALL trailing line feeds -/
def trimNewlines (bs : List UInt8) : List UInt8 := (bs.reverse.dropWhile (· == 10)).reverse

/-- `lossy_string!(t) == escaped` -/
def lossyEq (t : List UInt8) (escaped : List Char) : Bool :=
  match utf8Decode t with
  | some cs => cs == escaped
  | none => false

/-- `" (escaped)"` -/
def marker : List Char := [' ', '(', 'e', 's', 'c', 'a', 'p', 'e', 'd', ')']

inductive Kind | equal | escaped
  deriving DecidableEq, Repr

/-- what is chosen for the (already trimmed) line `t`: the kind and the (escaped) rendering, before
`guard_tailing_no_eol` (see `writtenText`) -/
def written (m : Mode) (isOther : Char → Bool) (t : List UInt8) : Kind × List Char :=
  let e := escapedPrintable m isOther t
  if lossyEq t e then (.equal, e) else (.escaped, e)

/-- `" (no-eol)"` -/
def noEolLit : List Char := [' ', '(', 'n', 'o', '-', 'e', 'o', 'l', ')']

/-- `"\\x20(no-eol)"`: the same with the blank written as an escape sequence -/
def x20NoEolLit : List Char := ['\\', 'x', '2', '0', '(', 'n', 'o', '-', 'e', 'o', 'l', ')']

/-- `guard_tailing_no_eol`: the escaped kind drops a tailing ` (no-eol)` from its expression;
where that is content of the line its blank is written `\x20`. (`strip_suffix` cuts on a character
boundary and only under `ends_with`, the subtraction cannot underflow.) -/
def guardTailingNoEol (e : List Char) : List Char :=
  if noEolLit.isSuffixOf e then e.take (e.length - noEolLit.length) ++ x20NoEolLit else e

/-- the text in front of the marker (escaped kind), resp. the whole text (equal kind), that is
written for the (already trimmed) line `t` -/
def writtenText (m : Mode) (isOther : Char → Bool) (t : List UInt8) : List Char :=
  match written m isOther t with
  | (.equal, e) => e
  | (.escaped, e) => guardTailingNoEol e

/-- `escaped_expectation_ascii` / `escaped_expectation_unicode` -/
def escapedExpectation (m : Mode) (isOther : Char → Bool) (line : List UInt8) : List Char :=
  match written m isOther (trimNewlines line) with
  | (.equal, e) => e
  | (.escaped, e) => guardTailingNoEol e ++ marker

end Scrut.Esc
