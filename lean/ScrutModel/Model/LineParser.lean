/-!
# Model of `src/parsers/line_parser.rs` (`LineParser`)

The shared engine of the Markdown and the Cram parser: it is fed the lines of test bodies one
by one (`add_testcase_body`), and told where a test ends (`end_testcase`).

* text is `List Char`; a command is the list of its lines (`shellExpression` joins with `\n`);
* the expectation grammar (`ExpectationMaker::parse`) is a **parameter** `expOk : List Char → Bool`
  (does the line parse as an expectation?) – the model keeps the text of the line
  (the real `Expectation::original_string()`);
* the per-test configuration is an opaque type `κ` (`none` = `TestCaseConfig::default()`);
* every `bail!` / `?` of the Rust is an `Err` value.  There is no index / slice / subtraction in
  `line_parser.rs`, hence no crash value here.
-/
namespace Scrut.LineParser

/-- `bail!`s of `line_parser.rs`, with the 1-based line number of the message -/
inductive Err where
  /-- "command extender '>' requires previous command start '$' which is not given" -/
  | extenderWithoutCommand (line : Nat)
  /-- "exit code provided multiple times" -/
  | exitCodeTwice (line : Nat)
  /-- `expectation_maker.parse(line)` failed ("parsing line N") -/
  | expectationParse (line : Nat)
  /-- "testcase output expectation(s) given, but no shell expression specified" -/
  | noShellExpression (line : Nat)
  /-- "exit code given, but no shell expression specified" -/
  | exitCodeWithoutCommand (line : Nat)
  /-- `add_testcase_body`: "testcase output expectation or exit code given, but no shell expression
  specified" – a body line that is neither command start nor continuation while no command is
  open -/
  | bodyWithoutCommand (line : Nat)
  deriving Repr, DecidableEq, Inhabited

/-- `enum CodeType` -/
inductive CodeType where
  | commandStart | commandContinue | expectation | exitCode
  deriving Repr, DecidableEq, Inhabited

/-- `TestCase` (the fields that the parsers fill) -/
structure TestCase (κ : Type) where
  title : List Char
  /-- the lines of the command; `shell_expression` is their `join("\n")` -/
  command : List (List Char)
  exitCode : Option Nat
  /-- text of the expectation lines, in order -/
  expectations : List (List Char)
  /-- 1-based -/
  lineNumber : Nat
  /-- `none` = `unwrap_or_default()` -/
  config : Option κ
  deriving Repr, DecidableEq

/-- `Vec<String>::join("\n")` -/
def joinNl : List (List Char) → List Char
  | [] => []
  | [l] => l
  | l :: rest => l ++ '\n' :: joinNl rest

def TestCase.shellExpression {κ} (t : TestCase κ) : List Char := joinNl t.command

/-- `struct LineParser` (without the `expectation_maker`, which is the parameter `expOk`) -/
structure State (κ : Type) where
  testcases : List (TestCase κ) := []
  title : Option (List Char) := none
  command : List (List Char) := []
  exitCode : Option Nat := none
  expectations : List (List Char) := []
  inCommand : Bool := false
  allowMultipleCommands : Bool
  outputStartIndex : Option Nat := none
  config : Option κ := none
  deriving Repr, DecidableEq

/-- `LineParser::new` -/
def State.new {κ} (allowMultipleCommands : Bool) : State κ := { allowMultipleCommands }

def isAsciiDigit (c : Char) : Bool := '0'.toNat ≤ c.toNat && c.toNat ≤ '9'.toNat

/-- decimal value of a list of ASCII digits -/
def digitsVal (ds : List Char) : Nat := ds.foldl (fun acc c => acc * 10 + (c.toNat - '0'.toNat)) 0

/-- `i32::MAX` -/
def i32Max : Nat := 2147483647

/-- `extract_exit_code`: `^\[([0-9]+)\]$`, then `parse::<i32>()` (`None` on overflow, so that the
line becomes an expectation). -/
def extractExitCode (line : List Char) : Option Nat :=
  match line with
  | '[' :: rest =>
    match rest.reverse with
    | ']' :: revDigits =>
      let ds := revDigits.reverse
      if !ds.isEmpty && ds.all isAsciiDigit then
        let v := digitsVal ds
        if v ≤ i32Max then some v else none
      else none
    | _ => none
  | _ => none

/-- `str::strip_prefix` -/
def stripPrefix (p : List Char) (l : List Char) : Option (List Char) :=
  match p, l with
  | [], l => some l
  | _ :: _, [] => none
  | a :: p', b :: l' => if a = b then stripPrefix p' l' else none

/-- `is_comment` -/
def isComment (line : List Char) : Bool :=
  match line with
  | '#' :: _ => true
  | _ => false

/-- `LineParser::flush` -/
def State.flush {κ} (s : State κ) : State κ :=
  { s with title := none, command := [], expectations := [], exitCode := none,
           outputStartIndex := none, config := none }

/-- `LineParser::end_testcase(line_index)` -/
def State.endTestcase {κ} (s : State κ) (lineIndex : Nat) : Except Err (State κ) :=
  if s.command.isEmpty then
    if !s.expectations.isEmpty then .error (.noShellExpression (lineIndex + 1))
    else if s.exitCode.isSome then .error (.exitCodeWithoutCommand (lineIndex + 1))
    else .ok s
  else
    let t : TestCase κ :=
      { title := s.title.getD []
        command := s.command
        exitCode := s.exitCode
        expectations := s.expectations
        lineNumber := s.outputStartIndex.getD lineIndex + 1
        config := s.config }
    .ok ({ s with testcases := s.testcases ++ [t] }).flush

/-- the part of `add_testcase_body` after the command-start test -/
def State.addBodyRest {κ} (expOk : List Char → Bool) (s : State κ) (line : List Char) (index : Nat) :
    Except Err (State κ × CodeType) :=
  match (if s.inCommand then stripPrefix ['>', ' '] line else none) with
  | some l =>
    if s.command.isEmpty then .error (.extenderWithoutCommand (index + 1))
    else .ok ({ s with command := s.command ++ [l] }, .commandContinue)
  | none =>
    let s := { s with inCommand := false }
    -- exit codes and output expectations belong to the shell expression above them
    if s.command.isEmpty then .error (.bodyWithoutCommand (index + 1)) else
    match extractExitCode line with
    | some code =>
      if s.exitCode.isSome then .error (.exitCodeTwice (index + 1))
      else .ok ({ s with exitCode := some code }, .exitCode)
    | none =>
      if expOk line then .ok ({ s with expectations := s.expectations ++ [line] }, .expectation)
      else .error (.expectationParse (index + 1))

/-- `LineParser::add_testcase_body(line, index)` -/
def State.addBody {κ} (expOk : List Char → Bool) (s : State κ) (line : List Char) (index : Nat) :
    Except Err (State κ × CodeType) :=
  match (if s.allowMultipleCommands || s.command.isEmpty then stripPrefix ['$', ' '] line
         else none) with
  | some l =>
    let s := { s with inCommand := true }
    match (if !s.command.isEmpty then s.endTestcase index else .ok s) with
    | .error e => .error e
    | .ok s =>
      let s := if s.outputStartIndex.isNone then { s with outputStartIndex := some index } else s
      .ok ({ s with command := s.command ++ [l] }, .commandStart)
  | none => s.addBodyRest expOk line index

/-- `set_testcase_title` -/
def State.setTitle {κ} (s : State κ) (t : List Char) : State κ := { s with title := some t }

/-- `set_testcase_config` -/
def State.setConfig {κ} (s : State κ) (c : κ) : State κ := { s with config := some c }

/-- `has_testcase_body` -/
def State.hasBody {κ} (s : State κ) : Bool := !s.command.isEmpty || !s.expectations.isEmpty

end Scrut.LineParser
