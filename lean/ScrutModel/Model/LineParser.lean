/-!
# Model of `src/parsers/line_parser.rs` (`LineParser`)

The shared engine of the Markdown and the Cram parser: it is fed the lines of test bodies one
by one (`add_testcase_body`), and told where a test ends (`end_testcase`).

* text is `List Char`; a command is the list of its lines (`shellExpression` joins with `\n`);
* the expectation grammar (`ExpectationMaker::parse`) is a **parameter** `expOk : List Char → Bool`
  (does the line parse as an expectation?) – the model keeps the text of the line
  (the real `Expectation::original_string()`);
* the per-test configuration is an opaque type `κ` (`none` = `TestCaseConfig::default()`);
* every `bail!` / `?` of the Rust is an `Err` value.  There is no index / slice / subtraction in
  `line_parser.rs`, hence no crash value here.
-/
namespace Scrut.LineParser

/-- `bail!`s of `line_parser.rs`, with the 1-based line number of the message -/
inductive Err where
  /-- "command extender '>' requires previous command start '$' which is not given" -/
  | extenderWithoutCommand (line : Nat)
  /-- "exit code provided multiple times" -/
  | exitCodeTwice (line : Nat)
  /-- "exit code [..] is out of range": the line has the form `^\[([0-9]+)\]$` but the number does
  not fit into an `i32` -/
  | exitCodeOutOfRange (line : Nat)
  /-- `expectation_maker.parse(line)` failed ("parsing line N") -/
  | expectationParse (line : Nat)
  /-- "testcase output expectation(s) given, but no shell expression specified" -/
  | noShellExpression (line : Nat)
  /-- "exit code given, but no shell expression specified" -/
  | exitCodeWithoutCommand (line : Nat)
  /-- `add_testcase_body`: "testcase output expectation or exit code given, but no shell expression
  specified" – a body line that is neither command start nor continuation while no command is
  open -/
  | bodyWithoutCommand (line : Nat)
  deriving Repr, DecidableEq, Inhabited

/-- `enum CodeType` -/
inductive CodeType where
  | commandStart | commandContinue | expectation | exitCode
  deriving Repr, DecidableEq, Inhabited

/-- `TestCase` (the fields that the parsers fill) -/
structure TestCase (κ : Type) where
  title : List Char
  /-- the lines of the command; `shell_expression` is their `join("\n")` -/
  command : List (List Char)
  exitCode : Option Nat
  /-- text of the expectation lines, in order -/
  expectations : List (List Char)
  /-- 1-based -/
  lineNumber : Nat
  /-- `none` = `unwrap_or_default()` -/
  config : Option κ
  deriving Repr, DecidableEq

/-- `Vec<String>::join("\n")` -/
def joinNl : List (List Char) → List Char
  | [] => []
  | [l] => l
  | l :: rest => l ++ '\n' :: joinNl rest

def TestCase.shellExpression {κ} (t : TestCase κ) : List Char := joinNl t.command

/-- `struct LineParser` (without the `expectation_maker`, which is the parameter `expOk`) -/
structure State (κ : Type) where
  testcases : List (TestCase κ) := []
  title : Option (List Char) := none
  command : List (List Char) := []
  exitCode : Option Nat := none
  expectations : List (List Char) := []
  inCommand : Bool := false
  allowMultipleCommands : Bool
  outputStartIndex : Option Nat := none
  config : Option κ := none
  deriving Repr, DecidableEq

/-- `LineParser::new` -/
def State.new {κ} (allowMultipleCommands : Bool) : State κ := { allowMultipleCommands }

def isAsciiDigit (c : Char) : Bool := '0'.toNat ≤ c.toNat && c.toNat ≤ '9'.toNat

/-- decimal value of a list of ASCII digits -/
def digitsVal (ds : List Char) : Nat := ds.foldl (fun acc c => acc * 10 + (c.toNat - '0'.toNat)) 0

/-- `i32::MAX` -/
def i32Max : Nat := 2147483647

/-- `EXIT_CODE_EXPRESSION.is_match(line)`: `^\[([0-9]+)\]$` (the Rust `regex` crate: `$` is the end
of the text, no multi-line mode, `[0-9]` is ASCII only) -/
def isExitCodeForm (line : List Char) : Bool :=
  match line with
  | '[' :: rest =>
    match rest.reverse with
    | ']' :: revDigits =>
      let ds := revDigits.reverse
      !ds.isEmpty && ds.all isAsciiDigit
    | _ => false
  | _ => false

/-- `extract_exit_code`: `^\[([0-9]+)\]$`, then `parse::<i32>()` (`None` on overflow;
`add_testcase_body` turns that `None` into the error `exitCodeOutOfRange`). -/
def extractExitCode (line : List Char) : Option Nat :=
  match line with
  | '[' :: rest =>
    match rest.reverse with
    | ']' :: revDigits =>
      let ds := revDigits.reverse
      if !ds.isEmpty && ds.all isAsciiDigit then
        let v := digitsVal ds
        if v ≤ i32Max then some v else none
      else none
    | _ => none
  | _ => none

/-- the new test of `add_testcase_body`:
`EXIT_CODE_EXPRESSION.is_match(line) && extract_exit_code(line).is_none()` -/
def exitCodeOverflows (line : List Char) : Bool :=
  isExitCodeForm line && (extractExitCode line).isNone

theorem extractExitCode_eq (line : List Char) :
    extractExitCode line =
      if isExitCodeForm line then
        (if digitsVal (line.drop 1).dropLast ≤ i32Max then some (digitsVal (line.drop 1).dropLast) else none)
      else none := by
  unfold extractExitCode isExitCodeForm
  split
  · rename_i rest
    split
    · rename_i revDigits hrev
      have hr : rest = revDigits.reverse ++ [']'] := by
        have := congrArg List.reverse hrev
        simpa using this
      simp only [List.drop_succ_cons, List.drop_zero, hr, List.dropLast_concat]
    · simp
  · simp

/-- a line that is not of the exit-code form has no exit code -/
theorem extractExitCode_of_not_form {line : List Char} (h : isExitCodeForm line = false) :
    extractExitCode line = none := by
  rw [extractExitCode_eq, h]; rfl

/-- only lines of the exit-code form have an exit code -/
theorem isExitCodeForm_of_extract {line : List Char} {v : Nat} (h : extractExitCode line = some v) :
    isExitCodeForm line = true := by
  cases hf : isExitCodeForm line with
  | true => rfl
  | false => rw [extractExitCode_of_not_form hf] at h; cases h

theorem exitCodeOverflows_of_not_form {line : List Char} (h : isExitCodeForm line = false) :
    exitCodeOverflows line = false := by
  simp [exitCodeOverflows, h]

theorem exitCodeOverflows_of_extract {line : List Char} {v : Nat} (h : extractExitCode line = some v) :
    exitCodeOverflows line = false := by
  simp [exitCodeOverflows, h]

/-- `str::strip_prefix` -/
def stripPrefix (p : List Char) (l : List Char) : Option (List Char) :=
  match p, l with
  | [], l => some l
  | _ :: _, [] => none
  | a :: p', b :: l' => if a = b then stripPrefix p' l' else none

/-- `is_comment` -/
def isComment (line : List Char) : Bool :=
  match line with
  | '#' :: _ => true
  | _ => false

/-- `LineParser::flush` -/
def State.flush {κ} (s : State κ) : State κ :=
  { s with title := none, command := [], expectations := [], exitCode := none,
           outputStartIndex := none, config := none }

/-- `LineParser::end_testcase(line_index)` -/
def State.endTestcase {κ} (s : State κ) (lineIndex : Nat) : Except Err (State κ) :=
  if s.command.isEmpty then
    if !s.expectations.isEmpty then .error (.noShellExpression (lineIndex + 1))
    else if s.exitCode.isSome then .error (.exitCodeWithoutCommand (lineIndex + 1))
    else .ok s
  else
    let t : TestCase κ :=
      { title := s.title.getD []
        command := s.command
        exitCode := s.exitCode
        expectations := s.expectations
        lineNumber := s.outputStartIndex.getD lineIndex + 1
        config := s.config }
    .ok ({ s with testcases := s.testcases ++ [t] }).flush

/-- the part of `add_testcase_body` after the command-start test -/
def State.addBodyRest {κ} (expOk : List Char → Bool) (s : State κ) (line : List Char) (index : Nat) :
    Except Err (State κ × CodeType) :=
  match (if s.inCommand then stripPrefix ['>', ' '] line else none) with
  | some l =>
    if s.command.isEmpty then .error (.extenderWithoutCommand (index + 1))
    else .ok ({ s with command := s.command ++ [l] }, .commandContinue)
  | none =>
    let s := { s with inCommand := false }
    -- exit codes and output expectations belong to the shell expression above them
    if s.command.isEmpty then .error (.bodyWithoutCommand (index + 1)) else
    -- an exit code that does not fit is no output expectation
    if exitCodeOverflows line then
      .error (.exitCodeOutOfRange (index + 1)) else
    match extractExitCode line with
    | some code =>
      if s.exitCode.isSome then .error (.exitCodeTwice (index + 1))
      else .ok ({ s with exitCode := some code }, .exitCode)
    | none =>
      if expOk line then .ok ({ s with expectations := s.expectations ++ [line] }, .expectation)
      else .error (.expectationParse (index + 1))

/-- `LineParser::add_testcase_body(line, index)` -/
def State.addBody {κ} (expOk : List Char → Bool) (s : State κ) (line : List Char) (index : Nat) :
    Except Err (State κ × CodeType) :=
  match (if s.allowMultipleCommands || s.command.isEmpty then stripPrefix ['$', ' '] line
         else none) with
  | some l =>
    let s := { s with inCommand := true }
    match (if !s.command.isEmpty then s.endTestcase index else .ok s) with
    | .error e => .error e
    | .ok s =>
      let s := if s.outputStartIndex.isNone then { s with outputStartIndex := some index } else s
      .ok ({ s with command := s.command ++ [l] }, .commandStart)
  | none => s.addBodyRest expOk line index

/-- `set_testcase_title` -/
def State.setTitle {κ} (s : State κ) (t : List Char) : State κ := { s with title := some t }

/-- `set_testcase_config` -/
def State.setConfig {κ} (s : State κ) (c : κ) : State κ := { s with config := some c }

/-- `has_testcase_body` -/
def State.hasBody {κ} (s : State κ) : Bool := !s.command.isEmpty || !s.expectations.isEmpty

end Scrut.LineParser
