/-!
# Model of `UniqueNamer` (src/bin/utils/namer.rs)

`names` are the names handed out so far, `existsOnDisk` answers `directory.join(name).exists()`.
The counter loop of `next_name` is modelled with explicit fuel; `none` means the fuel ran out
(the Rust loop would still be running).
-/
namespace Scrut.Namer

abbrev Name := List Char

/-- `format!("{}-{}", name, counter)` -/
def withCounter (name : Name) (counter : Nat) : Name := name ++ ['-'] ++ (toString counter).toList

def taken (names : List Name) (existsOnDisk : Name → Bool) (n : Name) : Bool :=
  names.contains n || existsOnDisk n

/-- the `while` loop: first counter ≥ `c` whose name is free -/
def search (names : List Name) (existsOnDisk : Name → Bool) (name : Name) : (fuel c : Nat) → Option Name
  | 0, _ => none
  | fuel + 1, c =>
    if taken names existsOnDisk (withCounter name c) then search names existsOnDisk name fuel (c + 1)
    else some (withCounter name c)

/-- `next_name`: returns the name and the updated set -/
def nextName (names : List Name) (existsOnDisk : Name → Bool) (fuel : Nat) (name : Name) :
    Option (Name × List Name) :=
  if !taken names existsOnDisk name then some (name, name :: names)
  else match search names existsOnDisk name fuel 1 with
    | some n => some (n, n :: names)
    | none => none

/-- a sequence of requests -/
def nextNames (existsOnDisk : Name → Bool) (fuel : Nat) :
    (names : List Name) → (reqs : List Name) → Option (List Name)
  | _, [] => some []
  | names, r :: rs =>
    match nextName names existsOnDisk fuel r with
    | none => none
    | some (n, names') => (nextNames existsOnDisk fuel names' rs).map (n :: ·)

end Scrut.Namer
