import ScrutModel.Model.Escaping
import ScrutModel.Model.EscapedFilter
/-!
# The string-level rules: `EqualRule`, `EqualNoEolRule`, `EscapedRule`
(`src/rules/equal.rs`, `no_eol.rs`, `escaped.rs`)
-/
namespace Scrut.Rules
open Scrut.Utf8 Scrut.Esc Scrut.EscF

def endsInNewline (bs : List UInt8) : Bool := bs.getLast? == some 10

/-- `BytesNewline::assure_newline` -/
def assureNewline (bs : List UInt8) : List UInt8 := if endsInNewline bs then bs else bs ++ [10]

/-- `EqualRule::matches` -/
def equalMatches (e : List Char) (line : List UInt8) : Bool := assureNewline (utf8 e) == line

/-- `EqualNoEolRule::matches` -/
def noEolMatches (e : List Char) (line : List UInt8) : Bool := utf8 e == line

/-- `" (no-eol)"` -/
def noEolSuffix : List Char := [' ', '(', 'n', 'o', '-', 'e', 'o', 'l', ')']

def endsWithNoEol (e : List Char) : Bool := noEolSuffix.isSuffixOf e

/-- the Cram-compat step of `EscapedRule::make`. (`&expression[0..len-9]` is taken only under
`ends_with`, where the subtraction cannot underflow and the cut is on a character boundary.) -/
def stripNoEol (e : List Char) : List Char :=
  if endsWithNoEol e then e.take (e.length - noEolSuffix.length) else e

/-- `EscapedRule::make`: the bytes the rule compares with, `none` = `Err` -/
def escapedMake (e : List Char) : Option (List UInt8) := decode (stripNoEol e)

/-- `EscapedRule::matches` -/
def escapedMatches (bytes : List UInt8) (line : List UInt8) : Bool := bytes == trimNewlines line

/-- read the text `t` back as an expectation of kind `k` and ask whether it matches `line`;
`none` = the expectation cannot be built -/
def readBack (k : Kind) (t : List Char) (line : List UInt8) : Option Bool :=
  match k with
  | .equal => some (equalMatches t line)
  | .escaped => (escapedMake t).map (escapedMatches · line)

end Scrut.Rules
