/-!
# Model of the bash template rendering (`src/executors/bash_runner.rs`, `Runner for BashRunner`)

`BASH_TEMPLATE.replace(a, x).replace(b, y)…` is a chain of Rust `str::replace` calls. `str::replace`
scans left to right and replaces every non-overlapping match of the pattern (leftmost first).

Text is `List Char`. The sub-list search (`splitFirst`) is generic because the divider parser
(`Model/Divider.lean`) uses the same search on bytes (`windows(n).position(|w| w == pat)`).
-/
namespace Scrut.Template

/-- `stripPrefix? pat s = some rest` iff `s = pat ++ rest`. -/
def stripPrefix? {α : Type} [DecidableEq α] : List α → List α → Option (List α)
  | [], s => some s
  | _ :: _, [] => none
  | p :: ps, c :: cs => if p = c then stripPrefix? ps cs else none

/-- Split `s` at the first (leftmost) occurrence of `pat`: `some (before, after)`, `none` when `pat`
does not occur. (`s.find(pat)` / `windows(pat.len()).position(..)`.) -/
def splitFirst {α : Type} [DecidableEq α] (pat : List α) : List α → Option (List α × List α)
  | [] => if pat = [] then some ([], []) else none
  | c :: cs =>
    match stripPrefix? pat (c :: cs) with
    | some rest => some ([], rest)
    | none => (splitFirst pat cs).map (fun ab => (c :: ab.1, ab.2))

/-- the replace loop; every round consumes at least one character of `s` when `pat ≠ []`, so
`s.length` rounds of fuel are always enough (`replaceAllF_fuel` in `Lemmas/Template.lean`). -/
def replaceAllF {α : Type} [DecidableEq α] (pat rep : List α) : Nat → List α → List α
  | 0, s => s
  | n + 1, s =>
    match splitFirst pat s with
    | none => s
    | some (a, b) => a ++ rep ++ replaceAllF pat rep n b

/-- Rust `s.replace(pat, rep)`. For the empty pattern Rust inserts `rep` at every character
boundary (`"ab".replace("", "-") = "-a-b-"`). -/
def replaceAll (pat rep s : List Char) : List Char :=
  if pat = [] then rep ++ s.flatMap (fun c => c :: rep)
  else replaceAllF pat rep s.length s

/-! the placeholders, as character lists (string literals do not reduce in the kernel) -/
def PH_STATE : List Char := ['{','s','t','a','t','e','_','d','i','r','e','c','t','o','r','y','}']
def PH_NAME : List Char := ['{','n','a','m','e','}']
def PH_EXCL : List Char := ['{','e','x','c','l','u','d','e','d','_','v','a','r','i','a','b','l','e','s','}']
def PH_ENV : List Char := ['{','e','n','v','i','r','o','n','m','e','n','t','_','n','a','m','e','s','}']
def PH_PERSIST : List Char := ['{','p','e','r','s','i','s','t','_','s','t','a','t','e','}']
def PH_EXPR : List Char := ['{','s','h','e','l','l','_','e','x','p','r','e','s','s','i','o','n','}']

/-- `{persist_state}` value: `if detached { "0" } else { "1" }` -/
def persistValue (detached : Bool) : List Char := if detached then ['0'] else ['1']

/-- the five substitutions that precede the user's expression, in source order (`envNames`: the names of the
variables of the test case's configured environment, separated by blanks; since fix 843ec3a) -/
def substOthers (tpl stateDir name excluded envNames : List Char) (detached : Bool) : List Char :=
  replaceAll PH_PERSIST (persistValue detached)
    (replaceAll PH_ENV envNames
      (replaceAll PH_EXCL excluded
        (replaceAll PH_NAME name
          (replaceAll PH_STATE stateDir tpl))))

/-- the script handed to the shell: the user's expression is substituted last -/
def render (tpl stateDir name excluded envNames : List Char) (detached : Bool) (expr : List Char) : List Char :=
  replaceAll PH_EXPR expr (substOthers tpl stateDir name excluded envNames detached)

/-- decidable hypothesis of `C13_expression_verbatim`: after the other five substitutions the
expression placeholder occurs exactly once -/
def exprOnce (t : List Char) : Bool :=
  match splitFirst PH_EXPR t with
  | none => false
  | some (_, post) => (splitFirst PH_EXPR post).isNone

end Scrut.Template
