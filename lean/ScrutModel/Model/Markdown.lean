import ScrutModel.Model.LineParser
/-!
# Model of `src/parsers/markdown.rs`

* `splitLines` – `str::lines()` (split after every `\n`, one `\r` directly before the `\n` is
  removed, a final segment without `\n` is kept as it is);
* `extractCodeBlockStart` – the fence recogniser.  The Rust works with **byte offsets** obtained
  from `char_indices` and slices the line with them; the model does the same: `slice` fails
  (`Err.crash`) unless both offsets are character boundaries inside the line, exactly like
  `&line[a..b]`.  A line whose rest behind the leading backticks contains another backtick in
  front of the first `{` (`line[index..].split('{').next()` – the language part; the inline
  configuration may hold backticks) is not a fence line: it starts with an inline code span;
* `run` – `MarkdownIterator::next` iterated to the end of the document.  The `for line in
  self.document_lines.by_ref()` loops inside `next` are the modes `front` / `verb` / `test` of one
  structural recursion over the remaining lines (an inner loop that runs out of lines emits its
  token: "an unterminated construct extends to the end of the document").  `self.line_index - 1`
  is the checked subtraction `csub`;
* `parseTokens` – the `for token in iterator` loop of `MarkdownParser::parse` on top of the
  `LineParser` model.

Parameters (`Env`): the Unicode class `\p{L}` (`isLetter`), the expectation grammar (`expOk`),
and serde_yaml (`docCfgOk`, `testCfgOk`: does the text deserialize?).  Configuration is opaque:
a test carries the raw text between the braces of its fence line (`none` = no inline
configuration), the result carries the raw front-matter texts (the lines joined by `\n`; what
serde_yaml is given is that text plus a final `\n`).
White space is `char::is_whitespace` = `\s` of the regex crate = Unicode `White_Space`, written
out in `isWhite`.
-/
namespace Scrut.Markdown
open Scrut.LineParser

abbrev Line := List Char

inductive Err where
  /-- a Rust panic: slice off a char boundary / out of range, `usize` underflow -/
  | crash
  /-- serde_yaml rejected the front-matter -/
  | docConfigYaml
  /-- serde_yaml rejected the `{…}` of a fence line -/
  | testConfigYaml
  /-- `MarkdownParserError::MissingLanguageSpecifier { line }` (`line` is the 0-based index of the
  opening fence, as in the Rust) -/
  | missingLanguage (line : Nat)
  | lineParser (e : LineParser.Err)
  deriving Repr, DecidableEq, Inhabited

structure Env where
  /-- `\p{L}` -/
  isLetter : Char → Bool
  /-- `ExpectationMaker::parse(line).is_ok()` -/
  expOk : Line → Bool
  /-- `serde_yaml::from_str::<DocumentConfig>(text).is_ok()` -/
  docCfgOk : Line → Bool
  /-- `serde_yaml::from_str::<TestCaseConfig>("{" + text + "}").is_ok()` -/
  testCfgOk : Line → Bool
  /-- `MarkdownParser::languages` -/
  languages : List Line := [['s', 'c', 'r', 'u', 't']]

/-! ## `str::lines()` -/

/-- `acc` is the current line, reversed -/
def splitLinesAux : List Char → List Char → List Line
  | [], acc => if acc.isEmpty then [] else [acc.reverse]
  | c :: rest, acc =>
    if c = '\n' then
      (match acc with
        | '\r' :: acc' => acc'.reverse
        | _ => acc.reverse) :: splitLinesAux rest []
    else splitLinesAux rest (c :: acc)

def splitLines (text : List Char) : List Line := splitLinesAux text []

/-! ## white space, trimming -/

/-- Unicode `White_Space` -/
def isWhite (c : Char) : Bool :=
  let n := c.toNat
  (9 ≤ n && n ≤ 13) || n = 32 || n = 0x85 || n = 0xA0 || n = 0x1680 || (0x2000 ≤ n && n ≤ 0x200A)
    || n = 0x2028 || n = 0x2029 || n = 0x202F || n = 0x205F || n = 0x3000

def trimStart (l : Line) : Line := l.dropWhile isWhite
def trimEnd (l : Line) : Line := (l.reverse.dropWhile isWhite).reverse
def trim (l : Line) : Line := trimEnd (trimStart l)

/-! ## checked arithmetic and slicing -/

/-- `a - b` on `usize` -/
def csub (a b : Nat) : Except Err Nat := if b ≤ a then .ok (a - b) else .error .crash

/-- split a string at a byte offset; `none` if the offset is not a char boundary of the string
(the condition under which `&s[..a]` / `&s[a..]` panic) -/
def splitAtByte : Line → Nat → Option (Line × Line)
  | l, 0 => some ([], l)
  | [], _ + 1 => none
  | c :: rest, a + 1 =>
    if c.utf8Size ≤ a + 1 then
      match splitAtByte rest (a + 1 - c.utf8Size) with
      | some (x, y) => some (c :: x, y)
      | none => none
    else none

/-- `&line[a..b]` -/
def slice (line : Line) (a b : Nat) : Except Err Line :=
  match splitAtByte line a with
  | none => .error .crash
  | some (_, r) =>
    if a ≤ b then
      match splitAtByte r (b - a) with
      | none => .error .crash
      | some (m, _) => .ok m
    else .error .crash

/-- `&line[a..]` -/
def sliceFrom (line : Line) (a : Nat) : Except Err Line :=
  match splitAtByte line a with
  | none => .error .crash
  | some (_, r) => .ok r

/-! ## `extract_code_block_start` -/

/-- `str::len()`: length in UTF-8 bytes -/
def byteLen : Line → Nat
  | [] => 0
  | c :: r => c.utf8Size + byteLen r

/-- `line.len() >= 3 && line.bytes().all(|byte| byte == b'`')` (no byte of a multi-byte character
is `0x60`, so "all bytes" is "all characters") -/
def isBareFence (line : Line) : Bool := decide (3 ≤ byteLen line) && line.all (· = '`')

/-- the `for (index, ch) in line.char_indices()` loop and the final `language_start.map(…)`;
`index` is the byte offset of the head of the remaining characters -/
def scanFence (line : Line) : List Char → Nat → Option Nat → Except Err (Option (Line × Line × Line))
  | [], _, none => .ok none
  | [], _, some ls => do
    let bt ← slice line 0 ls
    let lang ← sliceFrom line ls
    pure (some (bt, trim lang, []))
  | ch :: rest, index, some ls =>
    if ch = '{' then do
      let bt ← slice line 0 ls
      let lang ← slice line ls index
      let cfg ← sliceFrom line index
      pure (some (bt, trim lang, trimEnd cfg))
    else scanFence line rest (index + ch.utf8Size) (some ls)
  | ch :: rest, index, none =>
    if ch ≠ '`' then
      -- a code fence consists of at least three backticks
      if index < 3 then .ok none
      else
        -- the info string of a fence holds no backtick in front of the inline configuration:
        -- `line[index..].split('{').next().is_some_and(|language| language.contains('`'))` (the
        -- slice starts at the byte offset of `ch`; `split('{').next()` is always `Some`: the text
        -- in front of the first `{`, all of it if there is none)
        match sliceFrom line index with
        | .error e => .error e
        | .ok tail =>
          if (tail.takeWhile (· ≠ '{')).contains '`' then .ok none
          else scanFence line rest (index + ch.utf8Size) (some index)
    else scanFence line rest (index + ch.utf8Size) none

/-- `extract_code_block_start(line)`: `(backticks, language, config)` -/
def extractCodeBlockStart (line : Line) : Except Err (Option (Line × Line × Line)) :=
  if isBareFence line then .ok (some (line, [], []))
  else scanFence line line 0 none

/-! ## titles -/

/-- `HEADER_LINE = ^(#+\s+)(.+)$` on a trimmed line: the second group -/
def extractHeader (line : Line) : Option Line :=
  match line with
  | '#' :: _ =>
    let afterHashes := line.dropWhile (· = '#')
    match afterHashes with
    | c :: _ =>
      if isWhite c then
        let rest := afterHashes.dropWhile isWhite
        if rest.isEmpty then none else some rest
      else none
    | [] => none
  | _ => none

/-- `extract_title(line)`: the title text -/
def extractTitle (isLetter : Char → Bool) (line : Line) : Option Line :=
  let line := trim line
  match line with
  | c :: _ => if isLetter c then some line else extractHeader line
  | [] => none

/-! ## the tokenizer -/

abbrev Numbered := List (Nat × Line)

/-- `MarkdownToken` -/
inductive Tok where
  | line (index : Nat) (text : Line)
  | docConfig (lines : Numbered)
  | test (language : Line) (configLines commentLines codeLines : Numbered)
  | verbatim (startingLineNumber : Nat) (language : Line) (lines : List Line)
  deriving Repr, DecidableEq

/-- where `MarkdownIterator::next` currently is -/
inductive Mode where
  /-- at the top of `next` -/
  | top
  /-- in the loop collecting front-matter -/
  | front (acc : Numbered)
  /-- in the loop collecting a verbatim block -/
  | verb (backticks : Line) (start : Nat) (language : Line) (acc : List Line)
  /-- in the loop collecting a test block -/
  | test (backticks language : Line) (cfg comments code : Numbered)
  deriving Repr, DecidableEq

/-- `Vec<(usize, String)>::join_newline` -/
def joinNumbered (l : Numbered) : Line := joinNl (l.map (·.2))

/-- `l.starts_with(p)` -/
def startsWith (l p : Line) : Bool := p.isPrefixOf l

/-- `config.strip_prefix('{').and_then(strip_suffix('}')).and_then(non-empty)` -/
def stripBraces (config : Line) : Option Line :=
  match config with
  | '{' :: r =>
    match r.reverse with
    | '}' :: m => if m.isEmpty then none else some m.reverse
    | _ => none
  | _ => none

def frontMatterFence : Line := ['-', '-', '-']

/-- the token that a mode emits when the document ends inside it -/
def Mode.flushTok : Mode → List Tok
  | .top => []
  | .front acc => [.docConfig acc]
  | .verb _ start language acc => [.verbatim start language acc]
  | .test _ language cfg comments code => [.test language cfg comments code]

/-- `MarkdownIterator` run to the end.  `lineIndex` = `self.line_index`, `cs` =
`self.content_start`. -/
def run (languages : List Line) : Mode → Bool → Nat → List Line → Except Err (List Tok)
  | m, _, _, [] => .ok m.flushTok
  | .top, cs, lineIndex, l :: rest =>
    let lineIndex := lineIndex + 1
    if !cs && l = frontMatterFence then run languages (.front []) cs lineIndex rest
    else
      match extractCodeBlockStart l with
      | .error e => .error e
      | .ok (some (bt, language, config)) =>
        if !languages.contains language then
          match csub lineIndex 1 with
          | .error e => .error e
          | .ok start => run languages (.verb bt start language [l]) true lineIndex rest
        else
          match stripBraces config with
          | some c =>
            match csub lineIndex 1 with
            | .error e => .error e
            | .ok i => run languages (.test bt language [(i, c)] [] []) true lineIndex rest
          | none => run languages (.test bt language [] [] []) true lineIndex rest
      | .ok none =>
        let cs := cs || !(trim l).isEmpty
        match csub lineIndex 1 with
        | .error e => .error e
        | .ok i =>
          match run languages .top cs lineIndex rest with
          | .error e => .error e
          | .ok toks => .ok (.line i l :: toks)
  | .front acc, cs, lineIndex, l :: rest =>
    let lineIndex := lineIndex + 1
    if l = frontMatterFence then
      match run languages .top cs lineIndex rest with
      | .error e => .error e
      | .ok toks => .ok (.docConfig acc :: toks)
    else
      match csub lineIndex 1 with
      | .error e => .error e
      | .ok i => run languages (.front (acc ++ [(i, l)])) cs lineIndex rest
  | .verb bt start language acc, cs, lineIndex, l :: rest =>
    let lineIndex := lineIndex + 1
    let acc := acc ++ [l]
    if startsWith l bt then
      match run languages .top cs lineIndex rest with
      | .error e => .error e
      | .ok toks => .ok (.verbatim start language acc :: toks)
    else run languages (.verb bt start language acc) cs lineIndex rest
  | .test bt language cfg comments code, cs, lineIndex, l :: rest =>
    let lineIndex := lineIndex + 1
    if startsWith l bt then
      match run languages .top cs lineIndex rest with
      | .error e => .error e
      | .ok toks => .ok (.test language cfg comments code :: toks)
    else
      match csub lineIndex 1 with
      | .error e => .error e
      | .ok i =>
        if code.isEmpty && isComment l then
          run languages (.test bt language cfg (comments ++ [(i, l)]) code) cs lineIndex rest
        else run languages (.test bt language cfg comments (code ++ [(i, l)])) cs lineIndex rest

/-- all tokens of a document -/
def tokenize (languages : List Line) (lines : List Line) : Except Err (List Tok) :=
  run languages .top false 0 lines

/-! ## `MarkdownParser::parse` -/

/-- per-test configuration: the raw text between the braces, `none` if there is none -/
abbrev Cfg := Option Line

structure PState where
  lp : LineParser.State Cfg := LineParser.State.new false
  titleParagraph : List Line := []
  /-- raw front-matter texts, in order -/
  docConfigs : List Line := []
  deriving Repr, DecidableEq

/-- `for (index, line) in &code_lines { line_parser.add_testcase_body(line, *index)?; }` -/
def addAll (expOk : Line → Bool) : LineParser.State Cfg → Numbered → Except Err (LineParser.State Cfg)
  | s, [] => .ok s
  | s, (i, l) :: rest =>
    match s.addBody expOk l i with
    | .error e => .error (.lineParser e)
    | .ok (s, _) => addAll expOk s rest

/-- one iteration of `for token in iterator` -/
def stepTok (env : Env) (st : PState) : Tok → Except Err PState
  | .docConfig lines =>
    -- `serde_yaml::from_str(&format!("{}\n", config_lines.join_newline()))`: the last line has its
    -- line ending as well (a block scalar that is the last entry keeps its final line break)
    let text := joinNumbered lines
    if env.docCfgOk (text ++ ['\n']) then .ok { st with docConfigs := st.docConfigs ++ [text] }
    else .error .docConfigYaml
  | .line _ l =>
    match extractTitle env.isLetter l with
    | some title =>
      let tp := st.titleParagraph ++ [title]
      .ok { st with titleParagraph := tp, lp := st.lp.setTitle (joinNl tp) }
    | none => .ok { st with titleParagraph := [] }
  | .verbatim start language _ =>
    if language.isEmpty then .error (.missingLanguage start) else .ok st
  | .test _ configLines _ codeLines =>
    let cfg : Except Err Cfg :=
      if configLines.isEmpty then .ok none
      else
        let text := joinNumbered configLines
        if env.testCfgOk text then .ok (some text) else .error .testConfigYaml
    match cfg with
    | .error e => .error e
    | .ok cfg =>
      match addAll env.expOk (st.lp.setConfig cfg) codeLines with
      | .error e => .error e
      | .ok lp =>
        -- an empty code block holds no test
        match codeLines.getLast? with
        | some (lastIndex, _) =>
          match lp.endTestcase lastIndex with
          | .error e => .error (.lineParser e)
          | .ok lp => .ok { st with lp := lp, titleParagraph := [] }
        | none => .ok { st with lp := lp, titleParagraph := [] }

def parseTokens (env : Env) : PState → List Tok → Except Err PState
  | st, [] => .ok st
  | st, t :: rest =>
    match stepTok env st t with
    | .error e => .error e
    | .ok st => parseTokens env st rest

structure Parsed where
  docConfigs : List Line
  tests : List (TestCase Cfg)
  deriving Repr, DecidableEq

/-- `MarkdownParser::parse` on the list of lines -/
def parseLines (env : Env) (lines : List Line) : Except Err Parsed :=
  match tokenize env.languages lines with
  | .error e => .error e
  | .ok toks =>
    match parseTokens env {} toks with
    | .error e => .error e
    | .ok st => .ok { docConfigs := st.docConfigs, tests := st.lp.testcases }

/-- `MarkdownParser::parse(text)` -/
def parseMarkdown (env : Env) (text : List Char) : Except Err Parsed :=
  parseLines env (splitLines text)

end Scrut.Markdown
