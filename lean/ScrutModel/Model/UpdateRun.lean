import ScrutModel.Model.TestRun
import ScrutModel.Model.Generate
import ScrutModel.Model.Update
/-!
# `scrut update --replace --assume-yes` on one Markdown document, end to end: the COMPOSITION

Like `Model/TestRun.lean` this file models no piece of scrut; it wires the piece models together in
the order of `src/bin/commands/update.rs` (`Args::run`, one document on the command line, no other
flag than `--replace --assume-yes`), so that the GLUE between judging and rewriting -- which outcome
goes to which block, which stream a test is judged on and which one it is regenerated from, that a
passing test keeps its lines, when the file is written at all -- is tied to the real BINARY
(`harness/src/updaterun.rs`, stream `e2e-upddoc`) and not only through calls of the real library.

Code path followed:

1. `file_parser.rs::read_file` (`TestRun.readFile`): `test.content` is the text AFTER `replace_crlf`;
   an undecodable document is an error.
2. `MarkdownParser::parse` exactly as in `TestRun.testDocument` (`TestRun.parseEnv`, the harmless
   front-matter only, `TestRun.prepare` per test: inline configuration over `default_markdown`;
   `detached`, `wait`, `environment`, regex expectations → `unsupported`).  A parse error is an error
   of the command.  No command-line overrides (`to_testcase_config()` is empty), `with_environment`
   followed by `without_environment` of the same variables is the identity on a configuration without
   `environment` (the only ones composed), so the test case an `Outcome` carries is the parsed one.
3. `test.testcases.is_empty()` → "skipped, because no testcases were found": the file stays.
4. `executor.execute_all` (`Exec.execAll`; completed commands only, given as `TestRun.Ran`, recorded
   after `render_output`: `TestRun.record`): a test that ends in its skip code →
   `ExecutionError::Skipped` → the document is skipped, the file stays.
5. per `(testcase, output)` of `test.testcases.iter().zip(outputs.iter())` (`judgeAll`: in order, the
   i-th run goes with the i-th test): `testcase.validate(output)` = exit-code gate, then the diff of
   the expectations against the selected stream (`validateStream`: stderr iff
   `output_stream == stderr`): `Gen.updResult`.
6. `MarkdownUpdateGenerator::generate_update(&test.content, outcomes)` (`Update.generateUpdate` with
   the languages `["scrut"]`), where the text of outcome `i` is `Outcome::generate_testcase`
   (`Gen.generateTestcaseUpd`): command = `shell_expression`, `origs` = the texts of the expectation
   lines, escaper = `output_escaping(Some(Markdown))` = Unicode; for `MalformedOutput` the lines are
   those of the stream the test was validated against, for `InvalidExitCode` those of the stream
   chosen in `outcome.rs` (`regenStream`: again stderr iff `output_stream == stderr` -- a second place
   in the source, hence a second definition here).
7. `updated == test.content` → "keep as-is": nothing is written.  Otherwise (`--replace`,
   `--assume-yes`) `fs::write(test.path, updated)`.

`print_changes` (the pretty rendering of the outcomes on STDERR) is not modelled (its `expect` is
taken not to fire).

Parameter: `isOther` = `char::is_other()` (as in `Model/Escaping.lean`, `Model/Generate.lean`).
-/
namespace Scrut.UpdateRun
open Scrut Scrut.TestRun

/-- a parsed test, ready to be judged AND rewritten -/
structure UTest where
  test : Test
  /-- `shell_expression` -/
  cmd : List Char
  /-- `expectation.original_string()` by expectation index -/
  origs : List (List Char)
  deriving Repr

/-- a parsed test → `UTest` -/
def prepareU (t : LineParser.TestCase Markdown.Cfg) : Except StepErr UTest :=
  match prepare t with
  | .error e => .error e
  | .ok pt => .ok ⟨pt, t.shellExpression, t.expectations⟩

/-- `TestCase::validate`: `if self.config.output_stream == Some(Stderr) { stderr } else { stdout }` -/
def validateStream (c : Yaml.Cfg) (recorded : Bytes × Bytes) : Bytes :=
  if c.outputStream = some .stderr then recorded.2 else recorded.1

/-- `Outcome::generate_testcase`, branch `InvalidExitCode`:
`if self.testcase.config.output_stream == Some(Stderr) { stderr } else { stdout }` -/
def regenStream (c : Yaml.Cfg) (recorded : Bytes × Bytes) : Bytes :=
  if c.outputStream = some .stderr then recorded.2 else recorded.1

/-- `testcase.validate(output)` on a completed command, with the diff it carries -/
def judge (t : Test) (recorded : Bytes × Bytes) (code : Int) : Option Gen.UpdResult :=
  -- the exit-code gate comes first: no diff is computed behind it
  if code ≠ t.expected.getD 0 then some (.invalidExit code)
  else (diffOf t.exps (validateStream t.cfg recorded)).map (fun d => Gen.updResult t.expected d code)

/-- the lines `generate_testcase` reads for a result: those the diff of `MalformedOutput` indexes
(the stream that was validated), or those of the stream the `InvalidExitCode` branch selects -/
def genLines (c : Yaml.Cfg) (recorded : Bytes × Bytes) : Gen.UpdResult → List Bytes
  | .invalidExit _ => Newline.splitAtNewline (regenStream c recorded)
  | _ => Newline.splitAtNewline (validateStream c recorded)

/-- one `Outcome` and its `generate_testcase()`: `.ok none` = it fails (never for the three results
built here), `.ok (some text)` otherwise -/
def outcomeText (isOther : Char → Bool) (u : UTest) (r : Ran) :
    Except StepErr (Gen.UpdResult × Option (List Char)) :=
  match record u.test.cfg r with
  | none => .error .crash
  | some recorded =>
    match judge u.test recorded r.code with
    | none => .error .unsupported
    | some res =>
      match Gen.generateTestcaseUpd .unicode isOther u.cmd u.origs res (genLines u.test.cfg recorded res) r.code with
      -- `expression_lines[0]` of an empty command, a diff that points outside its own lines
      | none => .error .crash
      | some text => .ok (res, some text)

/-- `for (testcase, output) in test.testcases.iter().zip(outputs.iter())` -/
def judgeAll (isOther : Char → Bool) :
    List UTest → List Ran → Except StepErr (List (Gen.UpdResult × Option (List Char)))
  | [], _ => .ok []
  | _ :: _, [] => .ok []
  | u :: us, r :: rs =>
    match outcomeText isOther u r, judgeAll isOther us rs with
    | .error e, _ => .error e
    | _, .error e => .error e
    | .ok o, .ok os => .ok (o :: os)

inductive Result where
  /-- the command fails (exit status ≠ 0): unreadable or malformed document, `generate_update` fails -/
  | error
  /-- a modelled panic -/
  | crash
  /-- outside the composition -/
  | unsupported
  /-- fewer runs given than the document has tests -/
  | missingRun
  /-- the file is not written: no test case, a test ended in the skip code, or `updated == content`;
  `results` are the results of the judged tests (empty when nothing was judged) -/
  | unchanged (results : List Gen.UpdResult)
  /-- the file is overwritten with this text -/
  | updated (text : List Char) (results : List Gen.UpdResult)
  deriving DecidableEq, Repr

/-- does `execute_all` end in `ExecutionError::Skipped`?  (completed commands: nothing else can end it) -/
def skipsDocument (tests : List UTest) (runs : List Ran) : Bool :=
  let ra := runs.toArray
  let runner : Exec.Runner := fun i _ =>
    match ra[i]? with
    | some r => (⟨.code r.code, false, false⟩, 0)
    | none => (⟨.unknown, false, false⟩, 0)        -- not reached: one run per test case
  match (Exec.execAll none runner (tests.map (fun u => u.test.tc false))).1 with
  | .skipped _ => true
  | _ => false

/-- the part of `Args::run` behind the parser -/
def updateTests (isOther : Char → Bool) (content : List Char) (tests : List UTest) (runs : List Ran) : Result :=
  -- "skipped, because no testcases were found in the document"
  if tests.isEmpty then .unchanged [] else
  if runs.length < tests.length then .missingRun else
  if skipsDocument tests runs then .unchanged [] else
  match judgeAll isOther tests runs with
  | .error .crash => .crash
  | .error .unsupported => .unsupported
  | .ok outcomes =>
    let results := outcomes.map (·.1)
    match Update.generateUpdate [Gen.language] content (outcomes.map (·.2)) with
    | .error .crash => .crash
    | .error _ => .error
    | .ok updated => if updated = content then .unchanged results else .updated updated results

/-- `scrut update --replace --assume-yes <document>` given the text of the document (after
`read_file`) and, per test case in document order, the completed run of its command -/
def updateDocument (isOther : Char → Bool) (content : List Char) (runs : List Ran) : Result :=
  match Markdown.parseMarkdown parseEnv content with
  | .error .crash => .crash
  | .error _ => .error
  | .ok p =>
    if !p.docConfigs.all frontMatterHarmless then .unsupported else
    match p.tests.mapM prepareU with
    | .error .crash => .crash
    | .error .unsupported => .unsupported
    | .ok tests => updateTests isOther content tests runs

/-- the same from the bytes of the file -/
def updateDocumentBytes (isOther : Char → Bool) (bytes : Bytes) (runs : List Ran) : Result :=
  match readFile bytes with
  | .error .crash => .crash
  | .error .notUtf8 => .error
  | .ok content => updateDocument isOther content runs

end Scrut.UpdateRun
