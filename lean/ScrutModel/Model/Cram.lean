import ScrutModel.Model.LineParser
/-!
# Model of `src/parsers/cram.rs` (`CramParser::parse`)

The document is split with `str::lines()`; every line is classified in the order of the code:

1. `is_comment` (starts with `#`)            → skipped entirely (does not end a test);
2. empty                                     → `end_testcase` if a body was collected;
3. starts with the indentation (`" " * n`)   → `add_testcase_body` of the rest, then
                                                `set_testcase_config(default_cram)`;
4. anything else (incl. `" "`, `" $ x"`)     → `end_testcase`, then `set_testcase_title(line)`.

At the end of the document a collected body is closed (`set_testcase_config`, `end_testcase(len)`).
The engine is the shared `LineParser` model with `allow_multiple_commands = true`.
Expectation parsing is the parameter `expOk`.  There is no index / slice / subtraction / `unwrap`
in `cram.rs`, hence no crash value: the result is `Except LineParser.Err _`.
-/
namespace Scrut.Cram
open Scrut.LineParser

/-- `OutputStreamControl` -/
inductive Stream where
  | stdout | stderr | combined
  deriving Repr, DecidableEq, Inhabited

/-- `TestCaseConfig` (values of the fields the Cram parser can set; the others are only ever unset) -/
structure TCConfig where
  detached : Option Bool := none
  keepCrlf : Option Bool := none
  outputStream : Option Stream := none
  skipDocumentCode : Option Int := none
  stripAnsiEscaping : Option Bool := none
  timeoutSecs : Option Nat := none
  waitSet : Bool := false
  environment : List (List Char × List Char) := []
  deriving Repr, DecidableEq, Inhabited

/-- `TestCaseConfig::default_cram()`: combined output, CRLF kept, skip code 80 -/
def TCConfig.defaultCram : TCConfig :=
  { outputStream := some .combined, keepCrlf := some true, skipDocumentCode := some 80 }

/-- `DocumentConfig` -/
structure DocConfig where
  shellSet : Bool := false
  totalTimeoutSecs : Option Nat := none
  prepend : List (List Char) := []
  append : List (List Char) := []
  defaults : TCConfig := {}
  deriving Repr, DecidableEq, Inhabited

/-- `DocumentConfig::default_cram()`: total timeout 900 s -/
def DocConfig.defaultCram : DocConfig := { totalTimeoutSecs := some 900 }

abbrev St := State TCConfig
abbrev Test := TestCase TCConfig

/-! ## `str::lines()` -/

/-- a finished line (reversed accumulator) that was terminated by `\n`: one `\r` before it is dropped -/
def stripCr (revLine : List Char) : List Char :=
  match revLine with
  | '\r' :: r => r.reverse
  | r => r.reverse

/-- `acc` = the characters of the current line, reversed -/
def linesGo : List Char → List Char → List (List Char)
  | [], acc => if acc.isEmpty then [] else [acc.reverse]
  | c :: rest, acc => if c = '\n' then stripCr acc :: linesGo rest [] else linesGo rest (c :: acc)

/-- `str::lines()`: split at `\n`, a `\r` directly before the `\n` is removed, no empty last line;
a final line without `\n` is kept as it is (also a trailing `\r`). -/
def lines (text : List Char) : List (List Char) := linesGo text []

/-! ## the parser -/

/-- `" ".repeat(indention)` -/
def indentOf (n : Nat) : List Char := List.replicate n ' '

/-- one iteration of the `for (index, line)` loop -/
def step (expOk : List Char → Bool) (ind : List Char) (s : St) (index : Nat) (line : List Char) :
    Except Err St :=
  if isComment line then .ok s
  else if line.isEmpty then (if s.hasBody then s.endTestcase index else .ok s)
  else
    match stripPrefix ind line with
    | some body =>
      match s.addBody expOk body index with
      | .error e => .error e
      | .ok (s, _) => .ok (s.setConfig TCConfig.defaultCram)
    | none =>
      match s.endTestcase index with
      | .error e => .error e
      | .ok s => .ok (s.setTitle line)

/-- the loop over the lines, `index` = index of the head of the list -/
def run (expOk : List Char → Bool) (ind : List Char) : St → Nat → List (List Char) → Except Err St
  | s, _, [] => .ok s
  | s, i, l :: ls =>
    match step expOk ind s i l with
    | .error e => .error e
    | .ok s' => run expOk ind s' (i + 1) ls

/-- after the loop: `if engine.has_testcase_body() { set config; end_testcase(lines.len())? }` -/
def finish (s : St) (n : Nat) : Except Err St :=
  if s.hasBody then (s.setConfig TCConfig.defaultCram).endTestcase n else .ok s

/-- the parser on the list of lines -/
def parseLines (expOk : List Char → Bool) (ind : List Char) (ls : List (List Char)) :
    Except Err (List Test) :=
  match run expOk ind (State.new true) 0 ls with
  | .error e => .error e
  | .ok s =>
    match finish s ls.length with
    | .error e => .error e
    | .ok s => .ok s.testcases

/-- the test cases of `CramParser::new(maker, n).parse(text)` -/
def parseCramTests (expOk : List Char → Bool) (n : Nat) (text : List Char) : Except Err (List Test) :=
  parseLines expOk (indentOf n) (lines text)

/-- `CramParser::new(maker, n).parse(text)` -/
def parseCram (expOk : List Char → Bool) (n : Nat) (text : List Char) :
    Except Err (DocConfig × List Test) :=
  match parseCramTests expOk n text with
  | .error e => .error e
  | .ok ts => .ok (DocConfig.defaultCram, ts)

/-! ## documents by construction -/

/-- a line below a command -/
inductive BodyLine where
  /-- an expectation line, written with the indentation in front -/
  | exp (text : List Char)
  /-- `[digits]`, written with the indentation in front -/
  | exit (digits : List Char)
  /-- an unindented `#` line between the lines of a test -/
  | comment (text : List Char)
  deriving Repr, DecidableEq

/-- a line continuing a command -/
inductive ContLine where
  /-- `> text`, written with the indentation in front -/
  | cont (text : List Char)
  | comment (text : List Char)
  deriving Repr, DecidableEq

structure TestItem where
  cmd : List Char
  conts : List ContLine
  body : List BodyLine
  deriving Repr, DecidableEq

inductive Item where
  | title (text : List Char)
  | blank
  | comment (text : List Char)
  | test (t : TestItem)
  deriving Repr, DecidableEq

abbrev CramDoc := List Item

def renderCont (ind : List Char) : ContLine → List Char
  | .cont t => ind ++ '>' :: ' ' :: t
  | .comment c => '#' :: c

def renderBody (ind : List Char) : BodyLine → List Char
  | .exp t => ind ++ t
  | .exit ds => ind ++ '[' :: (ds ++ [']'])
  | .comment c => '#' :: c

def renderTest (ind : List Char) (t : TestItem) : List (List Char) :=
  (ind ++ '$' :: ' ' :: t.cmd) :: (t.conts.map (renderCont ind) ++ t.body.map (renderBody ind))

def renderItem (ind : List Char) : Item → List (List Char)
  | .title t => [t]
  | .blank => [[]]
  | .comment c => ['#' :: c]
  | .test t => renderTest ind t

/-- the lines of the document -/
def renderLines (ind : List Char) : CramDoc → List (List Char)
  | [] => []
  | it :: rest => renderItem ind it ++ renderLines ind rest

/-- every line terminated by `\n` -/
def unlines : List (List Char) → List Char
  | [] => []
  | l :: ls => l ++ '\n' :: unlines ls

/-- the document text -/
def render (n : Nat) (d : CramDoc) : List Char := unlines (renderLines (indentOf n) d)

def contTexts : List ContLine → List (List Char)
  | [] => []
  | .cont t :: r => t :: contTexts r
  | .comment _ :: r => contTexts r

def expTexts : List BodyLine → List (List Char)
  | [] => []
  | .exp t :: r => t :: expTexts r
  | _ :: r => expTexts r

def exitDigits : List BodyLine → List (List Char)
  | [] => []
  | .exit ds :: r => ds :: exitDigits r
  | _ :: r => exitDigits r

/-- the exit code written below the command (the guard allows at most one) -/
def exitOf (b : List BodyLine) : Option Nat :=
  match exitDigits b with
  | [] => none
  | ds :: _ => some (digitsVal ds)

/-- the test that a `TestItem` denotes: `title` = the pending title, `idx` = 0-based index of its `$` line -/
def testOf (title : Option (List Char)) (idx : Nat) (t : TestItem) : Test :=
  { title := title.getD []
    command := t.cmd :: contTexts t.conts
    exitCode := exitOf t.body
    expectations := expTexts t.body
    lineNumber := idx + 1
    config := some TCConfig.defaultCram }

/-- the tests written in the document, with the title **as the code computes it**: the last title
line since the previous test (a test consumes the title: `flush`), `""` if there is none.
`pending` = that title, `idx` = index of the first line of the remaining items. -/
def testsFrom : Option (List Char) → Nat → CramDoc → List Test
  | _, _, [] => []
  | _, idx, .title t :: rest => testsFrom (some t) (idx + 1) rest
  | p, idx, .blank :: rest => testsFrom p (idx + 1) rest
  | p, idx, .comment _ :: rest => testsFrom p (idx + 1) rest
  | p, idx, .test t :: rest =>
    testOf p idx t :: testsFrom none (idx + (1 + t.conts.length + t.body.length)) rest

def CramDoc.tests (d : CramDoc) : List Test := testsFrom none 0 d

/-! ### well-formedness of the atoms (decidable) -/

def noNl (t : List Char) : Bool := t.all (fun c => c != '\n' && c != '\r')

def startsWith (p l : List Char) : Bool := (stripPrefix p l).isSome

/-- a title line: not empty, not a comment, not indented -/
def titleOk (ind : List Char) (t : List Char) : Bool :=
  noNl t && !t.isEmpty && !isComment t && !startsWith ind t

/-- an expectation text: parses as an expectation, is not a command start and has not the form of
an exit code line `^\[[0-9]+\]$` (in range: an exit code; out of range: an error) -/
def expTextOk (expOk : List Char → Bool) (t : List Char) : Bool :=
  noNl t && expOk t && !startsWith ['$', ' '] t && !isExitCodeForm t

def exitOk (ds : List Char) : Bool :=
  !ds.isEmpty && ds.all isAsciiDigit && decide (digitsVal ds ≤ i32Max)

def bodyLineOk (expOk : List Char → Bool) : BodyLine → Bool
  | .exp t => expTextOk expOk t
  | .exit ds => exitOk ds
  | .comment c => noNl c

def contLineOk : ContLine → Bool
  | .cont t => noNl t
  | .comment c => noNl c

/-- the first non-comment line below the command lines must not look like a continuation -/
def firstBodyOk : List BodyLine → Bool
  | [] => true
  | .comment _ :: r => firstBodyOk r
  | .exp t :: _ => !startsWith ['>', ' '] t
  | .exit _ :: _ => true

def testOk (expOk : List Char → Bool) (t : TestItem) : Bool :=
  noNl t.cmd && t.conts.all contLineOk && t.body.all (bodyLineOk expOk) && firstBodyOk t.body &&
    decide ((exitDigits t.body).length ≤ 1)

def itemOk (expOk : List Char → Bool) (ind : List Char) : Item → Bool
  | .title t => titleOk ind t
  | .blank => true
  | .comment c => noNl c
  | .test t => testOk expOk t

/-- the guard of `C07_wellformed` -/
def docOk (expOk : List Char → Bool) (n : Nat) (d : CramDoc) : Bool := d.all (itemOk expOk (indentOf n))

/-! ### the command lines of an arbitrary document -/

/-- the text after `$ ` if `line` is a command line (starts with the indentation, not a `#` line) -/
def cmdOf (ind : List Char) (line : List Char) : Option (List Char) :=
  if isComment line then none
  else match stripPrefix ind line with
    | some body => stripPrefix ['$', ' '] body
    | none => none

/-- (1-based line number, command text) of the command lines, `i` = index of the head -/
def cmdLinesFrom (ind : List Char) : Nat → List (List Char) → List (Nat × Option (List Char))
  | _, [] => []
  | i, l :: ls =>
    match cmdOf ind l with
    | some c => (i + 1, some c) :: cmdLinesFrom ind (i + 1) ls
    | none => cmdLinesFrom ind (i + 1) ls

/-- (line number, first command line) of a test -/
def keyOf (t : Test) : Nat × Option (List Char) := (t.lineNumber, t.command.head?)

/-! ### indented lines that are not below a command -/

/-- after these lines no command is open: the last line that is not a `#` line is blank or not
indented, or there is no such line (`b` = the answer for the lines seen so far) -/
def closedAfterGo (ind : List Char) : Bool → List (List Char) → Bool
  | b, [] => b
  | b, l :: ls =>
    if isComment l then closedAfterGo ind b ls
    else if l.isEmpty then closedAfterGo ind true ls
    else match stripPrefix ind l with
      | some _ => closedAfterGo ind false ls
      | none => closedAfterGo ind true ls

def closedAfter (ind : List Char) (pre : List (List Char)) : Bool := closedAfterGo ind true pre

/-- an indented, non-empty, non-`#` line that does not start a command (`$ `) -/
def isBodyLine (ind : List Char) (line : List Char) : Bool :=
  !isComment line && !line.isEmpty &&
    match stripPrefix ind line with
    | some body => (stripPrefix ['$', ' '] body).isNone
    | none => false

/-! ### titles: the property's reading ("nearest preceding title line") -/

/-- title of each test = the nearest preceding title line of the document (`""` if none) -/
def nearestTitles : Option (List Char) → CramDoc → List (List Char)
  | _, [] => []
  | _, .title t :: rest => nearestTitles (some t) rest
  | l, .test _ :: rest => l.getD [] :: nearestTitles l rest
  | l, _ :: rest => nearestTitles l rest

/-- guard: every test that has a title line somewhere before it is the first test after a title line -/
def ownTitles : Bool → Bool → CramDoc → Bool
  | _, _, [] => true
  | _, _, .title _ :: rest => ownTitles true true rest
  | seen, fresh, .test _ :: rest => (!seen || fresh) && ownTitles seen false rest
  | seen, fresh, _ :: rest => ownTitles seen fresh rest

end Scrut.Cram
