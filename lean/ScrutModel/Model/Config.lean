/-!
# Model of configuration layering (src/config.rs)

Values and environment variable names/values are natural numbers (an abstract type with
decidable equality). A `BTreeMap<String, String>` built by `collect()`ing an iterator or by
repeated `insert` is modelled as the list of bindings in insertion order, looked up with
"the last binding wins" (`Env.get`); two maps are equal iff all lookups agree.
-/
namespace Scrut.Config

abbrev Env := List (Nat × Nat)

/-- lookup with "last insert wins" -/
def Env.get (e : Env) (k : Nat) : Option Nat :=
  match e with
  | [] => none
  | (k', v) :: rest =>
    match Env.get rest k with
    | some w => some w
    | none => if k' = k then some v else none

/-- `TestCaseConfig` -/
structure TCC where
  detached : Option Nat := none
  keepCrlf : Option Nat := none
  outputStream : Option Nat := none
  skipCode : Option Nat := none
  stripAnsi : Option Nat := none
  timeout : Option Nat := none
  wait : Option Nat := none
  env : Env := []
deriving Repr, DecidableEq

def TCC.empty : TCC := {}

/-- `TestCaseConfig::with_defaults_from`: unset values are filled from `d`; the environment is
    `d.environment` chained with `self.environment` and collected (own bindings win) -/
def TCC.wd (s d : TCC) : TCC :=
  { detached := s.detached.or d.detached
    keepCrlf := s.keepCrlf.or d.keepCrlf
    outputStream := s.outputStream.or d.outputStream
    skipCode := s.skipCode.or d.skipCode
    stripAnsi := s.stripAnsi.or d.stripAnsi
    timeout := s.timeout.or d.timeout
    wait := s.wait.or d.wait
    env := d.env ++ s.env }

/-- `with_overrides_from` -/
def TCC.ov (s o : TCC) : TCC := o.wd s

/-- `with_environment`: every given variable is inserted (and replaces an existing binding) -/
def TCC.withEnv (s : TCC) (e : Env) : TCC := { s with env := s.env ++ e }

/-- `DocumentConfig` -/
structure DC where
  append : List Nat := []
  defaults : TCC := {}
  prepend : List Nat := []
  shell : Option Nat := none
  totalTimeout : Option Nat := none
deriving Repr, DecidableEq

/-- `DocumentConfig::with_defaults_from` -/
def DC.wd (s d : DC) : DC :=
  { append := d.append ++ s.append
    prepend := s.prepend ++ d.prepend
    defaults := s.defaults.wd d.defaults
    shell := s.shell.or d.shell
    totalTimeout := s.totalTimeout.or d.totalTimeout }

def DC.ov (s o : DC) : DC := o.wd s

/-- The configuration in effect for a test case, composed exactly as the code does:
    parser: `inline.wd(doc.defaults).wd(format)`; test command: `.ov(cli).withEnv(scrutEnv)`.
    (Until fix 0515072 the per-process executor applied `.wd(context.config.defaults)` once more, with
    `context.config = doc.ov cliDoc` of the document that is RUN: a no-op for the document's own test cases,
    a leak into the test cases of prepended / appended documents. `cliDoc` is kept as a parameter: the
    command line has no way to set per-test defaults.) -/
def effectiveTC (cli inline : TCC) (doc _cliDoc : DC) (fmt : TCC) (scrutEnv : Env) : TCC :=
  let parsed := (inline.wd doc.defaults).wd fmt
  (parsed.ov cli).withEnv scrutEnv

/-- `GlobalSharedParameters::to_testcase_config` (src/bin/commands/root.rs): the layer the command line
contributes to every test case. It is built from four flags only -- `--no-combine-output`, `--combine-output`,
`--no-keep-output-crlf`, `--keep-output-crlf` -- the negative flag winning over the positive one; `--cram-compat`
is not among them (it changes the FORMAT default of Markdown documents, nothing else).
Values as everywhere in this model: `outputStream` 1 = stdout, 3 = combined; `keepCrlf` 1 = true, 2 = false. -/
def cliLayer (noCombine combine noKeepCrlf keepCrlf : Bool) : TCC :=
  { outputStream := if noCombine then some 1 else if combine then some 3 else none
    keepCrlf := if noKeepCrlf then some 2 else if keepCrlf then some 1 else none }

/-- the document configuration in effect: front-matter over the format default, the command
    line over both -/
def effectiveDC (cliDoc frontMatter fmtDoc : DC) : DC :=
  (fmtDoc.ov frontMatter).ov cliDoc

end Scrut.Config
