
namespace Scrut.Diff
/-! Prototype: transliteration of DiffTool::diff (src/diff.rs:90-247). -/

structure Exp where
  optional : Bool
  multiline : Bool
deriving Repr, DecidableEq

inductive DL where
  | matched (idx : Nat) (lines : List Nat)
  | unmatched (idx : Nat)
  | unexpected (lines : List Nat)
deriving Repr, DecidableEq

/-- first index `k` in `[start, start+cnt)` with `p k` -/
def findFrom (p : Nat → Bool) : (start cnt : Nat) → Option Nat
  | _, 0 => none
  | start, cnt+1 => if p start then some start else findFrom p (start+1) cnt

theorem findFrom_some {p : Nat → Bool} : ∀ {start cnt k}, findFrom p start cnt = some k →
    start ≤ k ∧ k < start + cnt ∧ p k = true ∧ ∀ j, start ≤ j → j < k → p j = false := by
  intro start cnt
  induction cnt generalizing start with
  | zero => intro k h; simp [findFrom] at h
  | succ c ih =>
    intro k h
    unfold findFrom at h
    split at h
    · rename_i hp
      cases h
      exact ⟨Nat.le_refl _, by omega, hp, by intro j h1 h2; omega⟩
    · rename_i hp
      have := ih h
      refine ⟨by omega, by omega, this.2.2.1, ?_⟩
      intro j h1 h2
      by_cases hj : j = start
      · subst hj; simpa using hp
      · exact this.2.2.2 j (by omega) h2

theorem findFrom_none {p : Nat → Bool} : ∀ {start cnt}, findFrom p start cnt = none →
    ∀ j, start ≤ j → j < start + cnt → p j = false := by
  intro start cnt
  induction cnt generalizing start with
  | zero => intro _ j h1 h2; omega
  | succ c ih =>
    intro h j h1 h2
    unfold findFrom at h
    split at h
    · cases h
    · rename_i hp
      by_cases hj : j = start
      · subst hj; simpa using hp
      · exact ih h j (by omega) (by omega)

def rangeFrom (a b : Nat) : List Nat := (List.range (b - a)).map (· + a)

section
variable (n m : Nat) (es : Nat → Exp) (mt : Nat → Nat → Bool)

def unmatchedOf (a b : Nat) : List DL :=
  ((rangeFrom a b).filter (fun i => !(es i).optional)).map DL.unmatched

def loop (ei li : Nat) (ms : Option Nat) (acc : List DL) : Nat × Nat × Option Nat × List DL :=
  if h : ei < n ∧ li < m then
    if mt ei li then
      if (es ei).multiline then
        if ei + 1 < n ∧ ((es ei).optional || ms.isSome) ∧ mt (ei+1) li then
          loop (ei+1) li none
            (acc ++ (match ms with | some s => [DL.matched ei (rangeFrom s li)] | none => []))
        else
          loop ei (li+1) (some (ms.getD li)) acc
      else
        loop (ei+1) (li+1) ms (acc ++ [DL.matched ei [li]])
    else
      match ms with
      | some s => loop (ei+1) li none (acc ++ [DL.matched ei (rangeFrom s li)])
      | none =>
        match hk : findFrom (fun k => mt k li) (ei+1) (n - (ei+1)) with
        | some k =>
          have := (findFrom_some hk).1
          loop k li none (acc ++ unmatchedOf es ei k)
        | none =>
          match hl : findFrom (fun l => mt ei l) (li+1) (m - (li+1)) with
          | some l =>
            have := (findFrom_some hl).1
            loop ei l none (acc ++ [DL.unexpected (rangeFrom li l)])
          | none =>
            loop (ei+1) li none (acc ++ (if (es ei).optional then [] else [DL.unmatched ei]))
  else (ei, li, ms, acc)
termination_by (n - ei) + (m - li)
decreasing_by all_goals omega

def diff : List DL :=
  let (ei, li, ms, acc) := loop n m es mt 0 0 none []
  let (ei, acc) := match ms with
    | some s => (ei+1, acc ++ [DL.matched ei (rangeFrom s li)])
    | none => (ei, acc)
  let acc := acc ++ unmatchedOf es ei n
  if li < m then acc ++ [DL.unexpected (rangeFrom li m)] else acc

def hasDiff (d : List DL) : Bool :=
  d.any (fun | .matched .. => false | _ => true)
end

-- doc example: foo1, bar, baz vs bla foo1 foo2 foo3 bar
def exEs : Nat → Exp := fun _ => ⟨false, false⟩
def exMt : Nat → Nat → Bool := fun e l => (e, l) ∈ [(0,1),(1,4)]

end Scrut.Diff
