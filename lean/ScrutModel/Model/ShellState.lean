/-!
# Model of state carrying between test cases (src/executors/bash_runner.template,
# src/executors/stateful_executor.rs)

Part 1 — abstract: any shell semantics `run`, any carrier (`persist`, `restore`); per-process
execution of a history vs. one session.

Part 2 — concrete, executable: the *variable* carrier as the template implements it:
`declare -p` records every variable that is set, except read-only ones and excluded names;
nothing records that a variable was unset; a new process starts from the environment scrut
itself runs in (`inherited`) and then sources the recorded bindings.
-/
namespace Scrut.Shell

/-! ## Part 1: abstract simulation -/

section Abstract
variable {σ Snip Out File : Type}

/-- one process per test case: restore, run, persist unless detached -/
def perProcess (run : Snip → σ → σ × Out) (restore : Option File → σ) (persist : σ → File) :
    List (Snip × Bool) → Option File → List (Option Out)
  | [], _ => []
  | (c, detached) :: rest, f =>
    let (s', o) := run c (restore f)
    if detached then none :: perProcess run restore persist rest f
    else some o :: perProcess run restore persist rest (some (persist s'))

/-- one session; a detached snippet leaves nothing behind (and its output is not observed) -/
def session (run : Snip → σ → σ × Out) : List (Snip × Bool) → σ → List (Option Out)
  | [], _ => []
  | (c, detached) :: rest, s =>
    let (s', o) := run c s
    if detached then none :: session run rest s
    else some o :: session run rest s'

end Abstract

/-! ## Part 2: the variable carrier -/

abbrev Val := List Nat   -- a value as a list of byte values (opaque)

structure Var where
  name : Nat
  value : Val
  exported : Bool
  readonly : Bool
deriving Repr, DecidableEq

abbrev Vars := List Var    -- at most one entry per name (maintained by `setVar`)

def lookup (vs : Vars) (n : Nat) : Option Var := vs.find? (·.name = n)

def remove (vs : Vars) (n : Nat) : Vars := vs.filter (·.name ≠ n)

def setVar (vs : Vars) (v : Var) : Vars := remove vs v.name ++ [v]

inductive Action where
  | assign (n : Nat) (v : Val)        -- `N=v`        (keeps the export attribute)
  | export (n : Nat) (v : Val)        -- `export N=v`
  | unset (n : Nat)                   -- `unset N`
  | readonly (n : Nat) (v : Val)      -- `readonly N=v`
  | other                             -- touches no variable
deriving Repr, DecidableEq

/-- bash semantics of one action on the variables of the running shell; assignments to and
    unsets of a read-only variable fail and change nothing -/
def act (vs : Vars) : Action → Vars
  | .assign n v =>
    match lookup vs n with
    | some old => if old.readonly then vs else setVar vs { old with value := v }
    | none => setVar vs ⟨n, v, false, false⟩
  | .export n v =>
    match lookup vs n with
    | some old => if old.readonly then vs else setVar vs { old with value := v, exported := true }
    | none => setVar vs ⟨n, v, true, false⟩
  | .unset n =>
    match lookup vs n with
    | some old => if old.readonly then vs else remove vs n
    | none => vs
  | .readonly n v =>
    match lookup vs n with
    | some old => if old.readonly then vs else setVar vs { old with value := v, readonly := true }
    | none => setVar vs ⟨n, v, false, true⟩
  | .other => vs

/-- what the EXIT trap writes: every variable except read-only ones (`grep -Ev "^declare -.?r"`)
    and excluded names -/
def persistVars (excluded : Nat → Bool) (vs : Vars) : Vars :=
  vs.filter (fun v => !v.readonly && !excluded v.name)

/-- a new process: the inherited environment, then the recorded bindings are sourced over it -/
def restoreVars (inherited : Vars) (file : Option Vars) : Vars :=
  match file with
  | none => inherited
  | some f => f.foldl setVar inherited

/-- observation after a step: the value of each probed name, if set -/
def observe (probes : List Nat) (vs : Vars) : List (Option Val) :=
  probes.map (fun n => (lookup vs n).map (·.value))

/-- per-process execution as scrut does it -/
def runPerProcess (excluded : Nat → Bool) (inherited : Vars) (probes : List Nat) :
    List (Action × Bool) → Option Vars → List (Option (List (Option Val)))
  | [], _ => []
  | (a, detached) :: rest, f =>
    let vs := act (restoreVars inherited f) a
    if detached then none :: runPerProcess excluded inherited probes rest f
    else some (observe probes vs) :: runPerProcess excluded inherited probes rest (some (persistVars excluded vs))

/-- one bash session started in the same environment -/
def runSession (probes : List Nat) : List (Action × Bool) → Vars → List (Option (List (Option Val)))
  | [], _ => []
  | (a, detached) :: rest, vs =>
    let vs' := act vs a
    if detached then none :: runSession probes rest vs
    else some (observe probes vs') :: runSession probes rest vs'

end Scrut.Shell
