/-!
# Model of the ORDER of the state file and of the hook that writes it (src/executors/bash_runner.template)

`__scrut_persist_state` writes one shell script (`state`) that the next test case `source`s. bash
reads a sourced file command by command, and every command is PARSED and RUN under what the commands
in front of it have set up. Four facts about bash decide in which order the state has to be written;
they are the assumptions of this model, and harness/src/shellstate.rs runs each of them against real
bash on every check (classes `function-extglob`, `alias-function-name`, `function-calls-alias-word`,
`set-o-allexport`, stream `options-then-plain-exhaustive`):

* a function definition whose body uses extended patterns (`+(…)`, `!(…)`) is a syntax error unless
  `extglob` is set, and a function definition whose NAME is a known alias is one as well (the alias is
  expanded into `name () {`); at a syntax error bash stops reading the file -- everything behind it is
  not restored;
* while `allexport` is set every variable that is assigned becomes exported;
* `shopt -u extdebug` also switches `errtrace` and `functrace` off (and `-s` switches them on);
* the hook that writes the file is itself run by the shell whose options the test case changed: under
  `errexit` it ends at its first command that returns non-zero, and the test case then ends with that
  status; under `noclobber` the redirection `>` refuses to overwrite the state file of the previous
  test case.

`persist` is the order as it is now (fixes e15e02e, 6fb091a, bb09a36, 75c64cd): `shopt -s extglob`, the
functions, the variables, the aliases, and last the options (`shopt` before `set -o`). The earlier orders
are kept (`persistOld`, `persistSetFirst`, `persistAliasesFirst`, `persistOptionsFirst`) with a witness
each on which they lose state (Props/C12.lean).
-/
namespace Scrut.StateFile

structure Fn where
  name : Nat
  /-- the body can only be parsed while `extglob` is set -/
  needsExtglob : Bool
  deriving DecidableEq, Repr

structure Var where
  name : Nat
  value : Nat
  exported : Bool
  deriving DecidableEq, Repr

structure St where
  extglob : Bool
  /-- `shopt extdebug` -/
  extdebug : Bool := false
  /-- `set -o errtrace` (and `functrace`, which behaves the same) -/
  errtrace : Bool := false
  /-- `set -o allexport` -/
  allexport : Bool := false
  funcs : List Fn
  /-- names of the aliases -/
  aliases : List Nat := []
  vars : List Var
  deriving DecidableEq, Repr

inductive Line where
  | setExtglob (b : Bool)
  | setExtdebug (b : Bool)
  | setErrtrace (b : Bool)
  | setAllexport (b : Bool)
  | defFn (f : Fn)
  | defAlias (name : Nat)
  /-- `declare -x name=value` / `declare -- name=value` -/
  | setVar (v : Var)
  deriving DecidableEq, Repr

/-- `source state`: the lines are read in order under the state the lines in front have made -/
def source : St → List Line → St
  | s, [] => s
  | s, .setExtglob b :: r => source { s with extglob := b } r
  -- switching `extdebug` drags `errtrace` / `functrace` along
  | s, .setExtdebug b :: r => source { s with extdebug := b, errtrace := b } r
  | s, .setErrtrace b :: r => source { s with errtrace := b } r
  | s, .setAllexport b :: r => source { s with allexport := b } r
  | s, .defFn f :: r =>
    -- a syntax error: bash stops reading the file
    if (f.needsExtglob && !s.extglob) || s.aliases.contains f.name then s
    else source { s with funcs := s.funcs ++ [f] } r
  | s, .defAlias n :: r => source { s with aliases := s.aliases ++ [n] } r
  | s, .setVar v :: r => source { s with vars := s.vars ++ [{ v with exported := v.exported || s.allexport }] } r

/-- a new bash process -/
def fresh : St := { extglob := false, funcs := [], vars := [] }

def optionLines (s : St) : List Line :=
  [.setExtdebug s.extdebug, .setExtglob s.extglob, .setErrtrace s.errtrace, .setAllexport s.allexport]

/-- the state file as it is written now: `shopt -s extglob`, `declare -f`, the variables (and directories, which
this model does not have), `alias -p`, `shopt -p`, `set +o`. (Between fixes bb09a36 and 919989c the aliases stood in
front of the variables; for what is modelled here that made no difference -- the lines that restore variables and
directories are not subject to alias expansion in this model --, the stream of the harness shows the difference.) -/
def persist (s : St) : List Line :=
  [.setExtglob true] ++ s.funcs.map .defFn ++ s.vars.map .setVar ++ s.aliases.map .defAlias ++ optionLines s

/-- the state file as it was written before fix e15e02e: options first, functions after them, no forced extglob -/
def persistOld (s : St) : List Line :=
  [.setExtglob s.extglob] ++ s.funcs.map .defFn ++ s.vars.map .setVar

/-- the order before fix 6fb091a: `set +o` in front of `shopt -p` -/
def persistSetFirst (s : St) : List Line :=
  [.setErrtrace s.errtrace, .setExtdebug s.extdebug, .setExtglob s.extglob, .setExtglob true] ++
    s.funcs.map .defFn ++ [.setExtglob s.extglob] ++ s.vars.map .setVar

/-- the order before fix bb09a36: the aliases in front of the functions -/
def persistAliasesFirst (s : St) : List Line :=
  [.setExtglob true] ++ s.aliases.map .defAlias ++ s.funcs.map .defFn ++ s.vars.map .setVar ++ optionLines s

/-- the order before fix 75c64cd: the options in front of everything else -/
def persistOptionsFirst (s : St) : List Line :=
  optionLines s ++ [.setExtglob true] ++ s.funcs.map .defFn ++ [.setExtglob s.extglob] ++
    s.aliases.map .defAlias ++ s.vars.map .setVar

/-! ## the hook that writes the file -/

/-- what of the test case's shell decides whether its own persist hook gets through -/
structure Hook where
  errexit : Bool
  noclobber : Bool
  /-- the state file of an earlier test case, if one was written -/
  old : Option (List Line)
  deriving DecidableEq, Repr

/-- one command of the hook's sub-shell: the lines it prints and its exit status -/
structure Cmd where
  out : List Line
  status : Nat
  deriving DecidableEq, Repr

/-- the commands of the sub-shell as they are now: every one of them returns 0 -/
def hookCmds (s : St) : List Cmd :=
  [ ⟨[.setExtglob true], 0⟩,                 -- echo "shopt -s extglob"
    ⟨s.funcs.map .defFn, 0⟩,                 -- declare -f
    ⟨s.vars.map .setVar, 0⟩,                 -- declare -p | grep …
    ⟨s.aliases.map .defAlias, 0⟩,            -- alias -p
    ⟨optionLines s, 0⟩ ]                     -- shopt -p; set +o

/-- the commands between fixes e15e02e and 296e2dd: `shopt -p extglob` behind the functions, whose status is 1
while the option is off -/
def hookCmdsUnguarded (s : St) : List Cmd :=
  [ ⟨optionLines s, 0⟩,
    ⟨[.setExtglob true], 0⟩,
    ⟨s.funcs.map .defFn, 0⟩,
    ⟨[.setExtglob s.extglob], if s.extglob then 0 else 1⟩,
    ⟨s.aliases.map .defAlias, 0⟩,
    ⟨s.vars.map .setVar, 0⟩ ]

/-- the sub-shell: under `errexit` it ends behind the first command that returns non-zero, with that status -/
def runCmds (errexit : Bool) : List Cmd → List Line × Nat
  | [] => ([], 0)
  | c :: r =>
    if errexit && c.status != 0 then (c.out, c.status)
    else let (o, st) := runCmds errexit r; (c.out ++ o, st)

/-- `( … ) > state` (`force = false`) or `( … ) >| state` (`force = true`, since fix 79ceed0), then
`exit $__SCRUT_EXIT_CODE`: the state file afterwards and the exit status of the test case whose command ended
with `code`. Under `noclobber` a plain `>` onto an existing file fails before the sub-shell runs; a failing
sub-shell or redirection ends the hook under `errexit` with its status (1 in this model). -/
def writeState (cmds : List Cmd) (force : Bool) (h : Hook) (code : Nat) : Option (List Line) × Nat :=
  if h.noclobber && !force && h.old.isSome then
    (h.old, if h.errexit then 1 else code)
  else
    let (lines, st) := runCmds h.errexit cmds
    (some lines, if h.errexit && st != 0 then st else code)

end Scrut.StateFile
