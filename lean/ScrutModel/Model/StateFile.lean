/-!
# Model of the ORDER of the state file (src/executors/bash_runner.template)

`__scrut_persist_state` writes one shell script (`state`) that the next test case `source`s. bash
reads a sourced file command by command, and a command is PARSED under the options in force at that
moment: a function definition whose body uses extended patterns (`+(…)`, `!(…)`) is a syntax error
unless `extglob` is set, and at a syntax error bash stops reading the file -- everything behind it
(later functions, all variables, working directory, directory stack) is not restored.

Only what matters for that is modelled: the `extglob` option, functions (with the one bit "needs
extglob to be parsed") and variables (which stand for everything written behind the functions).
`persist` is the order after fix e15e02e (recorded options, `shopt -s extglob`, functions, the
recorded `extglob` again, variables); `persistOld` is the order before it.

Two more facts about bash are modelled since fixes 296e2dd, 79ceed0 and 6fb091a:
* `shopt -u extdebug` also switches `errtrace` and `functrace` off (and `-s` switches them on), so the
  recorded `shopt` options have to be restored BEFORE the recorded `set -o` options (`errtrace` stands for
  both); `persistSetFirst` is the order before fix 6fb091a.
* the hook that writes the file is itself run by the shell whose options the test case changed: under
  `errexit` it ends at its first command that returns non-zero (`shopt -p extglob` does while the option
  is off) and the test case then ends with status 1; under `noclobber` the redirection `>` refuses to
  overwrite the state file of the previous test case (`writeState`).
The parse-time behaviour of bash is the assumption of this model; the history
`shopt -s extglob; g() { case $1 in +([0-9])) …; }`, then `shopt -u extglob` of the harness pool
(harness/src/shellstate.rs, class `function-extglob`) runs it against real bash on every check.
-/
namespace Scrut.StateFile

structure Fn where
  name : Nat
  /-- the body can only be parsed while `extglob` is set -/
  needsExtglob : Bool
  deriving DecidableEq, Repr

structure St where
  extglob : Bool
  /-- `shopt extdebug` -/
  extdebug : Bool := false
  /-- `set -o errtrace` (and `functrace`, which behaves the same) -/
  errtrace : Bool := false
  funcs : List Fn
  vars : List (Nat × Nat)
  deriving DecidableEq, Repr

inductive Line where
  | setExtglob (b : Bool)
  | setExtdebug (b : Bool)
  | setErrtrace (b : Bool)
  | defFn (f : Fn)
  | setVar (k v : Nat)
  deriving DecidableEq, Repr

/-- `source state`: the lines are read in order; a function definition that needs `extglob` while
it is off is a syntax error, and bash stops reading the file there -/
def source : St → List Line → St
  | s, [] => s
  | s, .setExtglob b :: r => source { s with extglob := b } r
  -- switching `extdebug` drags `errtrace` / `functrace` along
  | s, .setExtdebug b :: r => source { s with extdebug := b, errtrace := b } r
  | s, .setErrtrace b :: r => source { s with errtrace := b } r
  | s, .defFn f :: r =>
    if f.needsExtglob && !s.extglob then s
    else source { s with funcs := s.funcs ++ [f] } r
  | s, .setVar k v :: r => source { s with vars := s.vars ++ [(k, v)] } r

/-- a new bash process -/
def fresh : St := { extglob := false, funcs := [], vars := [] }

/-- the state file as it is written now: `shopt -p`, `set +o`, `shopt -s extglob`, `declare -f`,
`shopt -p extglob`, the variables -/
def persist (s : St) : List Line :=
  [.setExtdebug s.extdebug, .setExtglob s.extglob, .setErrtrace s.errtrace, .setExtglob true] ++
    s.funcs.map .defFn ++ [.setExtglob s.extglob] ++ s.vars.map (fun kv => .setVar kv.1 kv.2)

/-- the state file as it was written before fix e15e02e: options first, functions after them -/
def persistOld (s : St) : List Line :=
  [.setExtglob s.extglob] ++ s.funcs.map .defFn ++ s.vars.map (fun kv => .setVar kv.1 kv.2)

/-- the order before fix 6fb091a: `set +o` in front of `shopt -p` -/
def persistSetFirst (s : St) : List Line :=
  [.setErrtrace s.errtrace, .setExtdebug s.extdebug, .setExtglob s.extglob, .setExtglob true] ++
    s.funcs.map .defFn ++ [.setExtglob s.extglob] ++ s.vars.map (fun kv => .setVar kv.1 kv.2)

/-! ## the hook that writes the file -/

/-- what of the test case's shell decides whether its own persist hook gets through -/
structure Hook where
  errexit : Bool
  noclobber : Bool
  /-- the state file of an earlier test case, if one was written -/
  old : Option (List Line)
  deriving DecidableEq, Repr

/-- one command of the hook's sub-shell: the lines it prints and its exit status -/
structure Cmd where
  out : List Line
  status : Nat
  deriving DecidableEq, Repr

/-- the commands of the sub-shell in order; `guarded`: `shopt -p extglob || true` (since fix 296e2dd) instead of
`shopt -p extglob`, whose status is 1 while the option is off -/
def hookCmds (guarded : Bool) (s : St) : List Cmd :=
  [ ⟨[.setExtdebug s.extdebug, .setExtglob s.extglob], 0⟩,                 -- shopt -p
    ⟨[.setErrtrace s.errtrace], 0⟩,                                         -- set +o
    ⟨[.setExtglob true], 0⟩,                                                -- echo "shopt -s extglob"
    ⟨s.funcs.map .defFn, 0⟩,                                                -- declare -f
    ⟨[.setExtglob s.extglob], if guarded || s.extglob then 0 else 1⟩,       -- shopt -p extglob
    ⟨s.vars.map (fun kv => .setVar kv.1 kv.2), 0⟩ ]                         -- declare -p | grep …

/-- the sub-shell: under `errexit` it ends behind the first command that returns non-zero, with that status -/
def runCmds (errexit : Bool) : List Cmd → List Line × Nat
  | [] => ([], 0)
  | c :: r =>
    if errexit && c.status != 0 then (c.out, c.status)
    else let (o, st) := runCmds errexit r; (c.out ++ o, st)

/-- `( … ) > state` (`force = false`) or `( … ) >| state` (`force = true`, since fix 79ceed0), then `exit $code`:
the state file afterwards and the exit status of the test case whose command ended with `code`.
Under `noclobber` a plain `>` onto an existing file fails before the sub-shell runs; a failing sub-shell or
redirection ends the hook under `errexit`, with status 1 (the statuses of this model are 0 and 1). -/
def writeState (guarded force : Bool) (h : Hook) (s : St) (code : Nat) : Option (List Line) × Nat :=
  if h.noclobber && !force && h.old.isSome then
    (h.old, if h.errexit then 1 else code)
  else
    let (lines, st) := runCmds h.errexit (hookCmds guarded s)
    (some lines, if h.errexit && st != 0 then st else code)

end Scrut.StateFile
