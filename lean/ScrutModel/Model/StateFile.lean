/-!
# Model of the ORDER of the state file (src/executors/bash_runner.template)

`__scrut_persist_state` writes one shell script (`state`) that the next test case `source`s. bash
reads a sourced file command by command, and a command is PARSED under the options in force at that
moment: a function definition whose body uses extended patterns (`+(…)`, `!(…)`) is a syntax error
unless `extglob` is set, and at a syntax error bash stops reading the file -- everything behind it
(later functions, all variables, working directory, directory stack) is not restored.

Only what matters for that is modelled: the `extglob` option, functions (with the one bit "needs
extglob to be parsed") and variables (which stand for everything written behind the functions).
`persist` is the order after fix e15e02e (recorded options, `shopt -s extglob`, functions, the
recorded `extglob` again, variables); `persistOld` is the order before it.
The parse-time behaviour of bash is the assumption of this model; the history
`shopt -s extglob; g() { case $1 in +([0-9])) …; }`, then `shopt -u extglob` of the harness pool
(harness/src/shellstate.rs, class `function-extglob`) runs it against real bash on every check.
-/
namespace Scrut.StateFile

structure Fn where
  name : Nat
  /-- the body can only be parsed while `extglob` is set -/
  needsExtglob : Bool
  deriving DecidableEq, Repr

structure St where
  extglob : Bool
  funcs : List Fn
  vars : List (Nat × Nat)
  deriving DecidableEq, Repr

inductive Line where
  | setExtglob (b : Bool)
  | defFn (f : Fn)
  | setVar (k v : Nat)
  deriving DecidableEq, Repr

/-- `source state`: the lines are read in order; a function definition that needs `extglob` while
it is off is a syntax error, and bash stops reading the file there -/
def source : St → List Line → St
  | s, [] => s
  | s, .setExtglob b :: r => source { s with extglob := b } r
  | s, .defFn f :: r =>
    if f.needsExtglob && !s.extglob then s
    else source { s with funcs := s.funcs ++ [f] } r
  | s, .setVar k v :: r => source { s with vars := s.vars ++ [(k, v)] } r

/-- a new bash process -/
def fresh : St := ⟨false, [], []⟩

/-- the state file as it is written now -/
def persist (s : St) : List Line :=
  [.setExtglob s.extglob, .setExtglob true] ++ s.funcs.map .defFn ++ [.setExtglob s.extglob] ++
    s.vars.map (fun kv => .setVar kv.1 kv.2)

/-- the state file as it was written before fix e15e02e: options first, functions after them -/
def persistOld (s : St) : List Line :=
  [.setExtglob s.extglob] ++ s.funcs.map .defFn ++ s.vars.map (fun kv => .setVar kv.1 kv.2)

end Scrut.StateFile
