/-!
# Model of `src/rules/escaped_filter.rs` (the reader side of `(escaped)` expectations)

Two passes over the characters of the expression: `unescape_tabs`, then
`resolve_escape_sequences_to_bytes`. `none` = the Rust function returns `Err`.
As the code is now: after an unrecognised `\c` the character `c` is pushed UTF-8 encoded;
the two characters after `\x` / `\0` go through `u8::from_str_radix`, which accepts a leading
`+` (so `\x+7` is byte 7) and nothing else besides digits of the radix (either case for hex).
-/
namespace Scrut.EscF

/-- `char::to_digit(16)` -/
def hexVal (c : Char) : Option Nat :=
  let v := c.toNat
  if 48 ≤ v ∧ v ≤ 57 then some (v - 48)
  else if 97 ≤ v ∧ v ≤ 102 then some (v - 87)
  else if 65 ≤ v ∧ v ≤ 70 then some (v - 55)
  else none

/-- `char::to_digit(8)` -/
def octVal (c : Char) : Option Nat :=
  let v := c.toNat
  if 48 ≤ v ∧ v ≤ 55 then some (v - 48) else none

/-- `u8::from_str_radix` on a string of exactly two characters, both of which are digits (until fix 1ed9ffe a
leading `+` was let through to the number parser, which reads it as a sign: `\x+1` was the byte 1) -/
def parsePair (digit : Char → Option Nat) (radix : Nat) (c1 c2 : Char) : Option Nat :=
  match digit c1, digit c2 with
  | some a, some b => some (a * radix + b)
  | _, _ => none

/-- pass 1: `unescape_tabs` -/
def unescapeTabs : List Char → List Char
  | [] => []
  | [c] => [c]
  | c :: d :: rest =>
    if c = '\\' then
      (if d = 'a' then [Char.ofNat 7] else if d = 'b' then [Char.ofNat 8] else if d = 'e' then [Char.ofNat 27]
       else if d = 'f' then [Char.ofNat 12] else if d = 'r' then [Char.ofNat 13] else if d = 't' then [Char.ofNat 9]
       else if d = 'v' then [Char.ofNat 11] else ['\\', d]) ++ unescapeTabs rest
    else c :: unescapeTabs (d :: rest)

/-- pass 2: `resolve_escape_sequences_to_bytes` -/
def resolve : List Char → Option (List UInt8)
  | [] => some []
  | c :: rest =>
    if c = '\\' then
      match rest with
      | [] => none                                            -- "unused tailing escape"
      | d :: rest' =>
        if d = '0' then
          match rest' with
          | o1 :: o2 :: r =>
            match parsePair octVal 8 o1 o2, resolve r with
            | some v, some tl => some (UInt8.ofNat v :: tl)
            | _, _ => none
          | _ => none                                         -- "missing … character in escape sequence"
        else if d = 'x' then
          match rest' with
          | h1 :: h2 :: r =>
            match parsePair hexVal 16 h1 h2, resolve r with
            | some v, some tl => some (UInt8.ofNat v :: tl)
            | _, _ => none
          | _ => none
        else if d = '\\' then (resolve rest').map (UInt8.ofNat 92 :: ·)
        else (resolve rest').map (fun tl => UInt8.ofNat 92 :: (String.utf8EncodeChar d ++ tl))
    else (resolve rest).map (String.utf8EncodeChar c ++ ·)

/-- `apply_escaped_filter_bytes` -/
def decode (e : List Char) : Option (List UInt8) := resolve (unescapeTabs e)

end Scrut.EscF
