import ScrutModel.Model.Diff

namespace Scrut.Diff

def DL.lines : DL → List Nat
  | .matched _ ls => ls
  | .unmatched _ => []
  | .unexpected ls => ls
def DL.idx : DL → List Nat
  | .matched i _ => [i]
  | .unmatched i => [i]
  | .unexpected _ => []

def linesOf (acc : List DL) : List Nat := acc.flatMap DL.lines
def idxOf (acc : List DL) : List Nat := acc.flatMap DL.idx

@[simp] theorem linesOf_append (a b : List DL) : linesOf (a ++ b) = linesOf a ++ linesOf b := by simp [linesOf]
@[simp] theorem idxOf_append (a b : List DL) : idxOf (a ++ b) = idxOf a ++ idxOf b := by simp [idxOf]
@[simp] theorem linesOf_nil : linesOf [] = [] := rfl
@[simp] theorem idxOf_nil : idxOf [] = [] := rfl
@[simp] theorem linesOf_m (i ls) : linesOf [DL.matched i ls] = ls := by simp [linesOf, DL.lines]
@[simp] theorem linesOf_u (i) : linesOf [DL.unmatched i] = [] := by simp [linesOf, DL.lines]
@[simp] theorem linesOf_x (ls) : linesOf [DL.unexpected ls] = ls := by simp [linesOf, DL.lines]
@[simp] theorem idxOf_m (i ls) : idxOf [DL.matched i ls] = [i] := by simp [idxOf, DL.idx]
@[simp] theorem idxOf_u (i) : idxOf [DL.unmatched i] = [i] := by simp [idxOf, DL.idx]
@[simp] theorem idxOf_x (ls) : idxOf [DL.unexpected ls] = [] := by simp [idxOf, DL.idx]

theorem mem_rangeFrom {a b x : Nat} : x ∈ rangeFrom a b ↔ a ≤ x ∧ x < b := by
  simp [rangeFrom]; constructor
  · rintro ⟨y, hy, rfl⟩; omega
  · intro h; exact ⟨x - a, by omega, by omega⟩

theorem rangeFrom_append {a b c : Nat} (h1 : a ≤ b) (h2 : b ≤ c) :
    rangeFrom a b ++ rangeFrom b c = rangeFrom a c := by
  unfold rangeFrom
  apply List.ext_getElem
  · simp; omega
  · intro i h1' h2'
    simp at h1' h2'
    simp [List.getElem_append]
    omega
@[simp] theorem rangeFrom_self (a : Nat) : rangeFrom a a = [] := by simp [rangeFrom]
theorem rangeFrom_succ (a : Nat) : rangeFrom a (a+1) = [a] := by simp [rangeFrom]

variable (n m : Nat) (es : Nat → Exp) (mt : Nat → Nat → Bool)

@[simp] theorem linesOf_unmatchedOf (a b : Nat) : linesOf (unmatchedOf es a b) = [] := by
  simp [linesOf, unmatchedOf, DL.lines, List.flatMap_map]
@[simp] theorem idxOf_unmatchedOf (a b : Nat) :
    idxOf (unmatchedOf es a b) = (rangeFrom a b).filter (fun i => !(es i).optional) := by
  simp [idxOf, unmatchedOf, DL.idx, List.flatMap_map]

def DL.Good (d : DL) : Prop :=
  match d with
  | .matched i ls => i < n ∧ ls ≠ [] ∧ (∀ l ∈ ls, l < m ∧ mt i l = true) ∧ ((es i).multiline = false → ls.length = 1)
  | .unmatched i => i < n ∧ (es i).optional = false
  | .unexpected ls => ls ≠ []

structure LInv (ei li : Nat) (ms : Option Nat) (acc : List DL) : Prop where
  li_le : li ≤ m
  ei_le : ei ≤ n
  cover : linesOf acc = rangeFrom 0 (ms.getD li)
  open_ : ∀ s, ms = some s → s < li ∧ ei < n ∧ (es ei).multiline = true ∧ ∀ l, s ≤ l → l < li → mt ei l = true
  idx_lt : ∀ i ∈ idxOf acc, i < ei
  idx_sorted : (idxOf acc).Pairwise (· < ·)
  idx_all : ∀ i, i < ei → (es i).optional = false → i ∈ idxOf acc
  good : ∀ d ∈ acc, DL.Good n m es mt d

theorem pairwise_append_lt {a b : List Nat} {k : Nat} (ha : a.Pairwise (· < ·)) (hb : b.Pairwise (· < ·))
    (h1 : ∀ i ∈ a, i < k) (h2 : ∀ i ∈ b, k ≤ i) : (a ++ b).Pairwise (· < ·) := by
  rw [List.pairwise_append]
  exact ⟨ha, hb, fun x hx y hy => Nat.lt_of_lt_of_le (h1 x hx) (h2 y hy)⟩

theorem rangeFrom_pairwise (a b : Nat) : (rangeFrom a b).Pairwise (· < ·) := by
  unfold rangeFrom
  rw [List.pairwise_map]
  have := List.pairwise_lt_range (n := b - a)
  exact this.imp (by intro x y h; omega)

theorem rangeFrom_ne_nil {a b : Nat} (h : a < b) : rangeFrom a b ≠ [] := by
  intro hc
  have : a ∈ rangeFrom a b := mem_rangeFrom.2 ⟨Nat.le_refl _, h⟩
  rw [hc] at this; simp at this

theorem loop_inv (ei li : Nat) (ms : Option Nat) (acc : List DL) :
    LInv n m es mt ei li ms acc →
    LInv n m es mt (loop n m es mt ei li ms acc).1 (loop n m es mt ei li ms acc).2.1
      (loop n m es mt ei li ms acc).2.2.1 (loop n m es mt ei li ms acc).2.2.2 := by
  fun_induction loop n m es mt ei li ms acc
  all_goals intro h
  all_goals first
    | assumption
    | apply_assumption
  all_goals obtain ⟨h1, h2, h3, h4, h5, h5s, h6, h7⟩ := h
  case case1 ei li ms acc hlt hm hmul hy _ =>
    obtain ⟨hy1, hy2, hy3⟩ := hy
    cases ms with
    | none =>
      refine ⟨h1, by omega, by simpa using h3, by simp, ?_, by simpa using h5s, ?_, by simpa using h7⟩
      · intro i hi; have := h5 i (by simpa using hi); omega
      · intro i hi ho
        by_cases hie : i = ei
        · subst hie; simp at hy2; simp [hy2] at ho
        · exact by simpa using h6 i (by omega) ho
    | some s =>
      obtain ⟨hs1, hs2, hs3, hs4⟩ := h4 s rfl
      refine ⟨h1, by omega, ?_, by simp, ?_, ?_, ?_, ?_⟩
      · simp at h3; simp [h3, rangeFrom_append (Nat.zero_le s) (Nat.le_of_lt hs1)]
      · intro i hi; simp at hi; rcases hi with hi | hi
        · have := h5 i hi; omega
        · omega
      · simp; exact pairwise_append_lt h5s (by simp) h5 (by simp)
      · intro i hi ho
        by_cases hie : i = ei
        · subst hie; simp
        · simp; left; exact h6 i (by omega) ho
      · intro d hd; simp at hd; rcases hd with hd | hd
        · exact h7 d hd
        · subst hd
          refine ⟨hs2, rangeFrom_ne_nil hs1, ?_, ?_⟩
          · intro l hl; have := mem_rangeFrom.1 hl; exact ⟨by omega, hs4 l this.1 this.2⟩
          · intro hc; rw [hs3] at hc; cases hc
  case case2 ei li ms acc hlt hm hmul hy _ =>
    refine ⟨by omega, h2, ?_, ?_, h5, h5s, h6, h7⟩
    · cases ms <;> simpa using h3
    · intro s hs
      simp at hs
      cases ms with
      | none =>
        simp at hs; subst hs
        exact ⟨by omega, hlt.1, hmul, fun l h1 h2 => by have : l = li := by omega
                                                        subst this; exact hm⟩
      | some s0 =>
        simp at hs; subst hs
        obtain ⟨hs1, hs2, hs3, hs4⟩ := h4 s0 rfl
        refine ⟨by omega, hs2, hs3, fun l h1 h2 => ?_⟩
        by_cases hl : l = li
        · subst hl; exact hm
        · exact hs4 l h1 (by omega)
  case case3 ei li ms acc hlt hm hmul _ =>
    have hms : ms = none := by
      cases ms with
      | none => rfl
      | some s => have := (h4 s rfl).2.2.1; simp [this] at hmul
    subst hms
    simp at h3
    refine ⟨by omega, by omega, ?_, by simp, ?_, ?_, ?_, ?_⟩
    · simp [h3]; rw [← rangeFrom_succ li, rangeFrom_append (Nat.zero_le _) (Nat.le_succ _)]
    · intro i hi; simp at hi; rcases hi with hi | hi
      · have := h5 i hi; omega
      · omega
    · simp; exact pairwise_append_lt h5s (by simp) h5 (by simp)
    · intro i hi ho
      by_cases hie : i = ei
      · subst hie; simp
      · simp; left; exact h6 i (by omega) ho
    · intro d hd; simp at hd; rcases hd with hd | hd
      · exact h7 d hd
      · subst hd; exact ⟨hlt.1, by simp, by intro l hl; simp at hl; subst hl; exact ⟨hlt.2, hm⟩, by simp⟩
  case case4 ei li acc hlt hm s _ =>
    obtain ⟨hs1, hs2, hs3, hs4⟩ := h4 s rfl
    simp at h3
    refine ⟨h1, by omega, ?_, by simp, ?_, ?_, ?_, ?_⟩
    · simp [h3, rangeFrom_append (Nat.zero_le s) (Nat.le_of_lt hs1)]
    · intro i hi; simp at hi; rcases hi with hi | hi
      · have := h5 i hi; omega
      · omega
    · simp; exact pairwise_append_lt h5s (by simp) h5 (by simp)
    · intro i hi ho
      by_cases hie : i = ei
      · subst hie; simp
      · simp; left; exact h6 i (by omega) ho
    · intro d hd; simp at hd; rcases hd with hd | hd
      · exact h7 d hd
      · subst hd
        refine ⟨hs2, rangeFrom_ne_nil hs1, ?_, ?_⟩
        · intro l hl; have := mem_rangeFrom.1 hl; exact ⟨by omega, hs4 l this.1 this.2⟩
        · intro hc; rw [hs3] at hc; cases hc
  case case5 ei li acc hlt hm k hk hge _ =>
    have hk' := findFrom_some hk
    simp at h3
    refine ⟨h1, by omega, by simpa using h3, by simp, ?_, ?_, ?_, ?_⟩
    · intro i hi; simp at hi; rcases hi with hi | hi
      · have := h5 i hi; omega
      · exact (mem_rangeFrom.1 hi.1).2
    · simp
      refine pairwise_append_lt h5s ((rangeFrom_pairwise ei k).filter _) h5 ?_
      intro i hi; simp at hi; exact (mem_rangeFrom.1 hi.1).1
    · intro i hi ho
      simp
      by_cases hie : i < ei
      · left; exact h6 i hie ho
      · right; exact ⟨mem_rangeFrom.2 ⟨by omega, hi⟩, ho⟩
    · intro d hd; simp at hd; rcases hd with hd | hd
      · exact h7 d hd
      · simp [unmatchedOf] at hd
        obtain ⟨i, ⟨hi1, hi2⟩, rfl⟩ := hd
        exact ⟨by have := (mem_rangeFrom.1 hi1).2; omega, hi2⟩
  case case6 ei li acc hlt hm hk l hl hge _ =>
    have hl' := findFrom_some hl
    simp at h3
    refine ⟨by omega, h2, ?_, by simp, by simpa using h5, by simpa using h5s, by simpa using h6, ?_⟩
    · simp [h3, rangeFrom_append (Nat.zero_le li) (by omega : li ≤ l)]
    · intro d hd; simp at hd; rcases hd with hd | hd
      · exact h7 d hd
      · subst hd; exact rangeFrom_ne_nil (by omega)
  case case7 ei li acc hlt hm hk hl _ =>
    simp at h3
    refine ⟨h1, by omega, ?_, by simp, ?_, ?_, ?_, ?_⟩
    · split <;> simp [h3]
    · intro i hi; simp at hi; rcases hi with hi | hi
      · have := h5 i hi; omega
      · split at hi <;> simp at hi; omega
    · simp; refine pairwise_append_lt h5s ?_ h5 ?_
      · split <;> simp
      · intro i hi; split at hi <;> simp at hi; omega
    · intro i hi ho
      by_cases hie : i = ei
      · subst hie; simp [ho]
      · simp; left; exact h6 i (by omega) ho
    · intro d hd; simp at hd; rcases hd with hd | hd
      · exact h7 d hd
      · obtain ⟨ho, rfl⟩ := hd; exact ⟨hlt.1, ho⟩

theorem loop_exit (ei li : Nat) (ms : Option Nat) (acc : List DL) :
    ¬ ((loop n m es mt ei li ms acc).1 < n ∧ (loop n m es mt ei li ms acc).2.1 < m) := by
  fun_induction loop n m es mt ei li ms acc <;> assumption

/-- Well-formedness of a complete diff result (property C02). -/
structure WF (d : List DL) : Prop where
  cover : linesOf d = rangeFrom 0 m
  idx_sorted : (idxOf d).Pairwise (· < ·)
  idx_lt : ∀ i ∈ idxOf d, i < n
  idx_all : ∀ i, i < n → (es i).optional = false → i ∈ idxOf d
  good : ∀ x ∈ d, DL.Good n m es mt x

theorem linv_init : LInv n m es mt 0 0 none [] :=
  ⟨Nat.zero_le _, Nat.zero_le _, by simp, by simp, by simp, by simp, by intro i hi; omega, by simp⟩

theorem diff_wf : WF n m es mt (diff n m es mt) := by
  have hinv := loop_inv n m es mt 0 0 none [] (linv_init n m es mt)
  have hexit := loop_exit n m es mt 0 0 none []
  unfold diff
  generalize loop n m es mt 0 0 none [] = r at hinv hexit
  obtain ⟨ei, li, ms, acc⟩ := r
  obtain ⟨h1, h2, h3, h4, h5, h5s, h6, h7⟩ := hinv
  simp only at h1 h2 h3 h4 h5 h5s h6 h7 hexit
  cases ms with
  | some s =>
    obtain ⟨hs1, hs2, hs3, hs4⟩ := h4 s rfl
    have hli : li = m := by omega
    subst hli
    simp at h3
    simp only [Nat.lt_irrefl, if_false]
    refine ⟨?_, ?_, ?_, ?_, ?_⟩
    · simp only [linesOf_append, linesOf_m, linesOf_unmatchedOf, h3, List.append_nil]
      exact rangeFrom_append (Nat.zero_le s) (Nat.le_of_lt hs1)
    · simp only [idxOf_append, idxOf_m, idxOf_unmatchedOf]
      refine pairwise_append_lt (k := ei + 1) (pairwise_append_lt h5s (by simp) h5 (by simp))
        ((rangeFrom_pairwise _ _).filter _) ?_ ?_
      · intro i hi; simp at hi; rcases hi with hi | hi
        · have := h5 i hi; omega
        · omega
      · intro i hi; simp at hi; exact (mem_rangeFrom.1 hi.1).1
    · intro i hi
      simp only [idxOf_append, idxOf_m, idxOf_unmatchedOf, List.mem_append, List.mem_singleton, List.mem_filter] at hi
      rcases hi with (hi | hi) | hi
      · have := h5 i hi; omega
      · omega
      · exact (mem_rangeFrom.1 hi.1).2
    · intro i hi ho
      simp only [idxOf_append, idxOf_m, idxOf_unmatchedOf, List.mem_append, List.mem_singleton, List.mem_filter]
      by_cases h : i < ei
      · left; left; exact h6 i h ho
      · by_cases h' : i = ei
        · left; right; exact h'
        · right; exact ⟨mem_rangeFrom.2 ⟨by omega, hi⟩, by simp [ho]⟩
    · intro d hd
      simp only [List.mem_append, List.mem_singleton] at hd
      rcases hd with (hd | hd) | hd
      · exact h7 d hd
      · subst hd
        refine ⟨hs2, rangeFrom_ne_nil hs1, ?_, ?_⟩
        · intro l hl; have := mem_rangeFrom.1 hl; exact ⟨by omega, hs4 l this.1 this.2⟩
        · intro hc; rw [hs3] at hc; cases hc
      · simp [unmatchedOf] at hd
        obtain ⟨i, ⟨hi1, hi2⟩, rfl⟩ := hd
        exact ⟨(mem_rangeFrom.1 hi1).2, hi2⟩
  | none =>
    simp at h3
    have hbase : WF n li es mt (acc ++ unmatchedOf es ei n) ∨ True := Or.inr trivial
    have hidx_sorted : (idxOf (acc ++ unmatchedOf es ei n)).Pairwise (· < ·) := by
      simp
      refine pairwise_append_lt h5s ((rangeFrom_pairwise _ _).filter _) h5 ?_
      intro i hi; simp at hi; exact (mem_rangeFrom.1 hi.1).1
    have hidx_lt : ∀ i ∈ idxOf (acc ++ unmatchedOf es ei n), i < n := by
      intro i hi; simp at hi; rcases hi with hi | hi
      · have := h5 i hi; omega
      · exact (mem_rangeFrom.1 hi.1).2
    have hidx_all : ∀ i, i < n → (es i).optional = false → i ∈ idxOf (acc ++ unmatchedOf es ei n) := by
      intro i hi ho
      simp
      by_cases h : i < ei
      · left; exact h6 i h ho
      · right; exact ⟨mem_rangeFrom.2 ⟨by omega, hi⟩, ho⟩
    have hgood : ∀ d ∈ acc ++ unmatchedOf es ei n, DL.Good n m es mt d := by
      intro d hd; simp at hd; rcases hd with hd | hd
      · exact h7 d hd
      · simp [unmatchedOf] at hd
        obtain ⟨i, ⟨hi1, hi2⟩, rfl⟩ := hd
        exact ⟨(mem_rangeFrom.1 hi1).2, hi2⟩
    simp only
    split
    · rename_i hlt
      refine ⟨?_, by simpa using hidx_sorted, by simpa using hidx_lt, by simpa using hidx_all, ?_⟩
      · simp [h3, rangeFrom_append (Nat.zero_le li) h1]
      · intro d hd; simp at hd; rcases hd with hd | hd | hd
        · exact hgood d (by simp [hd])
        · exact hgood d (by simp [hd])
        · subst hd; exact rangeFrom_ne_nil hlt
    · rename_i hge
      have : li = m := by omega
      subst this
      exact ⟨by simp [h3], hidx_sorted, hidx_lt, hidx_all, hgood⟩

end Scrut.Diff
