import ScrutModel.Model.Namer
namespace Scrut.Namer

theorem search_free {names : List Name} {ex : Name → Bool} {name : Name} :
    ∀ {fuel c n}, search names ex name fuel c = some n → taken names ex n = false := by
  intro fuel
  induction fuel with
  | zero => intro c n h; simp [search] at h
  | succ f ih =>
    intro c n h
    simp only [search] at h
    split at h
    · exact ih h
    · rename_i hfree
      cases h
      simpa using hfree

theorem nextName_free {names : List Name} {ex : Name → Bool} {fuel : Nat} {name n : Name}
    {names' : List Name} (h : nextName names ex fuel name = some (n, names')) :
    taken names ex n = false ∧ names' = n :: names := by
  unfold nextName at h
  split at h
  · rename_i hfree
    cases h
    exact ⟨by simpa using hfree, rfl⟩
  · split at h
    · rename_i m hs
      cases h
      exact ⟨search_free hs, rfl⟩
    · cases h

theorem taken_false {names : List Name} {ex : Name → Bool} {n : Name} (h : taken names ex n = false) :
    n ∉ names ∧ ex n = false := by
  simp [taken] at h
  exact ⟨by simpa using h.1, h.2⟩

/-- all names handed out by a request sequence are new w.r.t. the initial set, absent from the
    disk, and pairwise distinct -/
theorem nextNames_spec (ex : Name → Bool) (fuel : Nat) :
    ∀ (reqs names out : List Name), nextNames ex fuel names reqs = some out →
      (∀ n ∈ out, n ∉ names ∧ ex n = false) ∧ out.Pairwise (· ≠ ·) ∧ out.length = reqs.length := by
  intro reqs
  induction reqs with
  | nil => intro names out h; simp [nextNames] at h; subst h; simp
  | cons r rs ih =>
    intro names out h
    simp only [nextNames] at h
    split at h
    · cases h
    · rename_i n names' hn
      obtain ⟨hfree, rfl⟩ := nextName_free hn
      obtain ⟨hnot, hex⟩ := taken_false hfree
      cases hrest : nextNames ex fuel (n :: names) rs with
      | none => simp [hrest] at h
      | some tl =>
        simp [hrest] at h
        subst h
        obtain ⟨h1, h2, h3⟩ := ih (n :: names) tl hrest
        refine ⟨?_, ?_, by simp [h3]⟩
        · intro x hx
          cases hx with
          | head => exact ⟨hnot, hex⟩
          | tail _ hx' =>
            have := h1 x hx'
            exact ⟨fun hmem => this.1 (List.mem_cons_of_mem _ hmem), this.2⟩
        · refine List.pairwise_cons.2 ⟨?_, h2⟩
          intro x hx heq
          have := (h1 x hx).1
          exact this (by rw [← heq]; exact List.mem_cons_self)

end Scrut.Namer
