import ScrutModel.Model.Namer
namespace Scrut.Namer

theorem search_free {names : List Name} {ex : Name → Bool} {name : Name} :
    ∀ {fuel c n}, search names ex name fuel c = some n → taken names ex n = false := by
  intro fuel
  induction fuel with
  | zero => intro c n h; simp [search] at h
  | succ f ih =>
    intro c n h
    simp only [search] at h
    split at h
    · exact ih h
    · rename_i hfree
      cases h
      simpa using hfree

theorem nextName_free {names : List Name} {ex : Name → Bool} {fuel : Nat} {name n : Name}
    {names' : List Name} (h : nextName names ex fuel name = some (n, names')) :
    taken names ex n = false ∧ names' = n :: names := by
  unfold nextName at h
  split at h
  · rename_i hfree
    cases h
    exact ⟨by simpa using hfree, rfl⟩
  · split at h
    · rename_i m hs
      cases h
      exact ⟨search_free hs, rfl⟩
    · cases h

theorem taken_false {names : List Name} {ex : Name → Bool} {n : Name} (h : taken names ex n = false) :
    n ∉ names ∧ ex n = false := by
  simp [taken] at h
  exact ⟨by simpa using h.1, h.2⟩

/-- all names handed out by a request sequence are new w.r.t. the initial set, absent from the
    disk, and pairwise distinct -/
theorem nextNames_spec (ex : Name → Bool) (fuel : Nat) :
    ∀ (reqs names out : List Name), nextNames ex fuel names reqs = some out →
      (∀ n ∈ out, n ∉ names ∧ ex n = false) ∧ out.Pairwise (· ≠ ·) ∧ out.length = reqs.length := by
  intro reqs
  induction reqs with
  | nil => intro names out h; simp [nextNames] at h; subst h; simp
  | cons r rs ih =>
    intro names out h
    simp only [nextNames] at h
    split at h
    · cases h
    · rename_i n names' hn
      obtain ⟨hfree, rfl⟩ := nextName_free hn
      obtain ⟨hnot, hex⟩ := taken_false hfree
      cases hrest : nextNames ex fuel (n :: names) rs with
      | none => simp [hrest] at h
      | some tl =>
        simp [hrest] at h
        subst h
        obtain ⟨h1, h2, h3⟩ := ih (n :: names) tl hrest
        refine ⟨?_, ?_, by simp [h3]⟩
        · intro x hx
          cases hx with
          | head => exact ⟨hnot, hex⟩
          | tail _ hx' =>
            have := h1 x hx'
            exact ⟨fun hmem => this.1 (List.mem_cons_of_mem _ hmem), this.2⟩
        · refine List.pairwise_cons.2 ⟨?_, h2⟩
          intro x hx heq
          have := (h1 x hx).1
          exact this (by rw [← heq]; exact List.mem_cons_self)

end Scrut.Namer

namespace Scrut.Namer

/-! ### the counter loop terminates: fuel `|names| + |existing| + 1` always suffices -/

theorem withCounter_inj {name : Name} {a b : Nat} (h : withCounter name a = withCounter name b) : a = b := by
  unfold withCounter at h
  have h1 : (toString a).toList = (toString b).toList := by
    have := List.append_cancel_left h
    exact this
  rw [Nat.toString_eq_ofList_toDigits, Nat.toString_eq_ofList_toDigits] at h1
  have h2 : Nat.toDigits 10 a = Nat.toDigits 10 b := by simpa using h1
  have := congrArg (fun l => Nat.ofDigitChars 10 l 0) h2
  simpa [Nat.ofDigitChars_ten_toDigits] using this

/-- `search` only looks at candidates `withCounter name k` with `k ≥ c`; two states that agree on
them give the same result -/
theorem search_congr {name : Name} (n1 n2 : List Name) (e1 e2 : Name → Bool) :
    ∀ fuel c, (∀ k, c ≤ k → taken n1 e1 (withCounter name k) = taken n2 e2 (withCounter name k)) →
      search n1 e1 name fuel c = search n2 e2 name fuel c := by
  intro fuel
  induction fuel with
  | zero => intro c _; rfl
  | succ f ih =>
    intro c h
    simp only [search]
    rw [h c (Nat.le_refl _)]
    split
    · exact ih (c + 1) (fun k hk => h k (by omega))
    · rfl

/-- with the taken names given as one finite list `T`, fuel `|T| + 1` suffices -/
theorem search_terminates {name : Name} :
    ∀ (fuel : Nat) (T : List Name) (c : Nat), T.length < fuel →
      ∃ n, search [] (fun x => T.contains x) name fuel c = some n := by
  intro fuel
  induction fuel with
  | zero => intro T c h; omega
  | succ f ih =>
    intro T c h
    simp only [search]
    by_cases ht : taken [] (fun x => T.contains x) (withCounter name c) = true
    · simp only [ht, if_true]
      have hmem : withCounter name c ∈ T := by simpa [taken] using ht
      -- remove the taken candidate: later candidates are different strings
      have hpos : 0 < T.length := List.length_pos_of_mem hmem
      have hlen : (T.erase (withCounter name c)).length < f := by
        rw [List.length_erase_of_mem hmem]; omega
      obtain ⟨n, hn⟩ := ih (T.erase (withCounter name c)) (c + 1) hlen
      refine ⟨n, ?_⟩
      rw [← hn]
      apply search_congr
      intro k hk
      have hne : withCounter name k ≠ withCounter name c := by
        intro heq; have := withCounter_inj heq; omega
      simp [taken, List.mem_erase_of_ne hne]
    · have hf : taken [] (fun x => T.contains x) (withCounter name c) = false := by
        cases h' : taken [] (fun x => T.contains x) (withCounter name c) <;> simp_all
      exact ⟨withCounter name c, by rw [hf]; rfl⟩

/-- **termination of `next_name`**: if the names that exist on disk are the finite list `ex`, the
counter loop finds a free name within `|names| + |ex| + 1` steps -/
theorem nextName_terminates (names ex : List Name) (name : Name) :
    ∃ r, nextName names (fun x => ex.contains x) (names.length + ex.length + 1) name = some r := by
  unfold nextName
  split
  · exact ⟨_, rfl⟩
  · obtain ⟨n, hn⟩ := search_terminates (name := name) (names.length + ex.length + 1) (names ++ ex) 1 (by simp)
    have : search names (fun x => ex.contains x) name (names.length + ex.length + 1) 1 = some n := by
      rw [← hn]
      apply search_congr
      intro k _
      simp [taken, List.contains_eq_mem, List.mem_append]
    rw [this]
    exact ⟨_, rfl⟩

end Scrut.Namer
