import ScrutModel.Model.Cram
/-! Proofs about the Cram parser model. -/
namespace Scrut.Cram
open Scrut.LineParser

/-! ## small facts -/

theorem stripPrefix_append (p x : List Char) : stripPrefix p (p ++ x) = some x := by
  induction p with
  | nil => cases x <;> simp [stripPrefix]
  | cons a p ih => simp [stripPrefix, ih]

theorem stripPrefix_eq_some {p l r : List Char} (h : stripPrefix p l = some r) : l = p ++ r := by
  induction p generalizing l with
  | nil => cases l <;> simp_all [stripPrefix]
  | cons a p ih =>
    cases l with
    | nil => simp [stripPrefix] at h
    | cons b l =>
      simp only [stripPrefix] at h
      split at h
      · next hab => subst hab; simp [ih h]
      · simp at h

/-- explicit engine state (`allow_multiple_commands = true`) -/
abbrev mk (T : List Test) (p : Option (List Char)) (c : List (List Char)) (e : Option Nat)
    (x : List (List Char)) (b : Bool) (o : Option Nat) (k : Option TCConfig) : St :=
  { testcases := T, title := p, command := c, exitCode := e, expectations := x, inCommand := b,
    allowMultipleCommands := true, outputStartIndex := o, config := k }

abbrev dC : Option TCConfig := some TCConfig.defaultCram

/-- the test that `end_testcase` pushes from an open state -/
abbrev pushed (p : Option (List Char)) (c : List (List Char)) (e : Option Nat) (x : List (List Char))
    (o : Nat) : Test :=
  { title := p.getD [], command := c, exitCode := e, expectations := x, lineNumber := o + 1, config := dC }

section steps
variable (expOk : List Char → Bool) (ind' : List Char)

theorem step_comment (s : St) (i : Nat) (c : List Char) (ind : List Char) :
    step expOk ind s i ('#' :: c) = .ok s := by
  simp [step, isComment]

theorem step_blank_idle (T p b i) (ind : List Char) :
    step expOk ind (mk T p [] none [] b none none) i [] = .ok (mk T p [] none [] b none none) := by
  simp [step, isComment, State.hasBody]

theorem step_blank_open (T p c cs e x b o i) (ind : List Char) :
    step expOk ind (mk T p (c :: cs) e x b (some o) dC) i [] =
      .ok (mk (T ++ [pushed p (c :: cs) e x o]) none [] none [] b none none) := by
  simp [step, isComment, State.hasBody, State.endTestcase, State.flush]

theorem titleOk_facts {ind t : List Char} (h : titleOk ind t = true) :
    isComment t = false ∧ t.isEmpty = false ∧ stripPrefix ind t = none := by
  simp only [titleOk, startsWith, Bool.and_eq_true, Bool.not_eq_true'] at h
  obtain ⟨⟨⟨_, h1⟩, h2⟩, h3⟩ := h
  refine ⟨h2, h1, ?_⟩
  cases hs : stripPrefix ind t with
  | none => rfl
  | some v => simp [hs] at h3

theorem step_title_idle (T p b i) (ind t : List Char) (h : titleOk ind t = true) :
    step expOk ind (mk T p [] none [] b none none) i t = .ok (mk T (some t) [] none [] b none none) := by
  obtain ⟨h1, h2, h3⟩ := titleOk_facts h
  simp [step, h1, h2, h3, State.endTestcase, State.setTitle]

theorem step_title_open (T p c cs e x b o i) (ind t : List Char) (h : titleOk ind t = true) :
    step expOk ind (mk T p (c :: cs) e x b (some o) dC) i t =
      .ok (mk (T ++ [pushed p (c :: cs) e x o]) (some t) [] none [] b none none) := by
  obtain ⟨h1, h2, h3⟩ := titleOk_facts h
  simp [step, h1, h2, h3, State.endTestcase, State.setTitle, State.flush]

theorem ind_facts (y : List Char) :
    isComment ((' ' :: ind') ++ y) = false ∧ ((' ' :: ind') ++ y).isEmpty = false ∧
      stripPrefix (' ' :: ind') ((' ' :: ind') ++ y) = some y :=
  ⟨by simp [isComment], by simp, stripPrefix_append _ _⟩

theorem step_cmd_idle (T p b i) (cmd : List Char) :
    step expOk (' ' :: ind') (mk T p [] none [] b none none) i ((' ' :: ind') ++ '$' :: ' ' :: cmd) =
      .ok (mk T p [cmd] none [] true (some i) dC) := by
  obtain ⟨h1, h2, h3⟩ := ind_facts ind' ('$' :: ' ' :: cmd)
  simp only [step, h1, h2, h3]
  simp [State.addBody, stripPrefix, State.setConfig]

theorem step_cmd_open (T p c cs e x b o i) (cmd : List Char) :
    step expOk (' ' :: ind') (mk T p (c :: cs) e x b (some o) dC) i ((' ' :: ind') ++ '$' :: ' ' :: cmd) =
      .ok (mk (T ++ [pushed p (c :: cs) e x o]) none [cmd] none [] true (some i) dC) := by
  obtain ⟨h1, h2, h3⟩ := ind_facts ind' ('$' :: ' ' :: cmd)
  simp only [step, h1, h2, h3]
  simp [State.addBody, stripPrefix, State.setConfig, State.endTestcase, State.flush]

theorem step_cont (T p c cs e x o i) (t : List Char) :
    step expOk (' ' :: ind') (mk T p (c :: cs) e x true (some o) dC) i ((' ' :: ind') ++ '>' :: ' ' :: t) =
      .ok (mk T p (c :: (cs ++ [t])) e x true (some o) dC) := by
  obtain ⟨h1, h2, h3⟩ := ind_facts ind' ('>' :: ' ' :: t)
  simp only [step, h1, h2, h3]
  simp [State.addBody, State.addBodyRest, stripPrefix, State.setConfig]

theorem expTextOk_facts {t : List Char} (h : expTextOk expOk t = true) :
    expOk t = true ∧ stripPrefix ['$', ' '] t = none ∧ extractExitCode t = none ∧
      exitCodeOverflows t = false := by
  simp only [expTextOk, startsWith, Bool.and_eq_true, Bool.not_eq_true'] at h
  obtain ⟨⟨⟨_, h1⟩, h2⟩, h3⟩ := h
  refine ⟨h1, ?_, extractExitCode_of_not_form h3, exitCodeOverflows_of_not_form h3⟩
  · cases hs : stripPrefix ['$', ' '] t with
    | none => rfl
    | some v => simp [hs] at h2

theorem step_exp (T p c cs e x b o i) (t : List Char) (h : expTextOk expOk t = true)
    (hb : b = true → stripPrefix ['>', ' '] t = none) :
    step expOk (' ' :: ind') (mk T p (c :: cs) e x b (some o) dC) i ((' ' :: ind') ++ t) =
      .ok (mk T p (c :: cs) e (x ++ [t]) false (some o) dC) := by
  obtain ⟨h1, h2, h3⟩ := ind_facts ind' t
  obtain ⟨g1, g2, g3, g4⟩ := expTextOk_facts expOk h
  simp only [step, h1, h2, h3]
  cases b with
  | false => simp [State.addBody, State.addBodyRest, State.setConfig, g1, g2, g3, g4]
  | true => simp [State.addBody, State.addBodyRest, State.setConfig, g1, g2, g3, g4, hb rfl]

theorem extractExitCode_bracket (ds : List Char) (h : exitOk ds = true) :
    extractExitCode ('[' :: (ds ++ [']'])) = some (digitsVal ds) := by
  simp only [exitOk, Bool.and_eq_true, Bool.not_eq_true', decide_eq_true_eq] at h
  obtain ⟨⟨h1, h2⟩, h3⟩ := h
  simp [extractExitCode, List.reverse_append, h1, h2, h3]

theorem step_exit (T p c cs x b o i) (ds : List Char) (h : exitOk ds = true) :
    step expOk (' ' :: ind') (mk T p (c :: cs) none x b (some o) dC) i ((' ' :: ind') ++ '[' :: (ds ++ [']'])) =
      .ok (mk T p (c :: cs) (some (digitsVal ds)) x false (some o) dC) := by
  obtain ⟨h1, h2, h3⟩ := ind_facts ind' ('[' :: (ds ++ [']']))
  simp only [step, h1, h2, h3]
  have g := extractExitCode_bracket ds h
  have g' := exitCodeOverflows_of_extract g
  cases b <;> simp [State.addBody, State.addBodyRest, State.setConfig, stripPrefix, g, g']

end steps

/-! ## the loop followed by the end-of-document handling -/

/-- `run` then `finish` (with the index of the end of the document) -/
def runFin (expOk : List Char → Bool) (ind : List Char) : St → Nat → List (List Char) → Except Err St
  | s, i, [] => finish s i
  | s, i, l :: ls =>
    match step expOk ind s i l with
    | .error e => .error e
    | .ok s' => runFin expOk ind s' (i + 1) ls

theorem run_finish_eq (expOk : List Char → Bool) (ind : List Char) (ls : List (List Char)) (s : St) (i : Nat) :
    (match run expOk ind s i ls with
      | .error e => .error e
      | .ok s' => finish s' (i + ls.length)) = runFin expOk ind s i ls := by
  induction ls generalizing s i with
  | nil => simp [run, runFin]
  | cons l ls ih =>
    simp only [run, runFin]
    cases step expOk ind s i l with
    | error e => rfl
    | ok s' =>
      have : i + (l :: ls).length = (i + 1) + ls.length := by simp; omega
      simp only [this]
      exact ih s' (i + 1)

theorem parseLines_eq (expOk : List Char → Bool) (ind : List Char) (ls : List (List Char)) :
    parseLines expOk ind ls = (runFin expOk ind (State.new true) 0 ls).map (·.testcases) := by
  rw [← run_finish_eq]
  simp only [parseLines, Nat.zero_add]
  cases run expOk ind (State.new true) 0 ls with
  | error e => rfl
  | ok s =>
    show (match finish s ls.length with
      | .error e => .error e
      | .ok s => .ok s.testcases) = Except.map (·.testcases) (finish s ls.length)
    cases finish s ls.length <;> rfl

section runs
variable (expOk : List Char → Bool) (ind' : List Char)

theorem runFin_conts (conts : List ContLine) (h : conts.all contLineOk = true) (rest : List (List Char))
    (T p c cs e x o i) :
    runFin expOk (' ' :: ind') (mk T p (c :: cs) e x true (some o) dC) i
        (conts.map (renderCont (' ' :: ind')) ++ rest) =
      runFin expOk (' ' :: ind') (mk T p (c :: (cs ++ contTexts conts)) e x true (some o) dC)
        (i + conts.length) rest := by
  induction conts generalizing cs i with
  | nil => simp [contTexts]
  | cons cl conts ih =>
    simp only [List.all_cons, Bool.and_eq_true] at h
    have e1 : i + (cl :: conts).length = (i + 1) + conts.length := by simp; omega
    cases cl with
    | cont t =>
      simp only [List.map_cons, List.cons_append, renderCont, runFin]
      have := step_cont expOk ind' T p c cs e x o i t
      simp only [List.cons_append] at this
      rw [this]
      simp only [contTexts, e1]
      rw [ih h.2]
      simp
    | comment cm =>
      simp only [List.map_cons, List.cons_append, renderCont, runFin, step_comment, contTexts, e1]
      exact ih h.2 _ _

theorem runFin_body (body : List BodyLine) (hok : body.all (bodyLineOk expOk) = true)
    (rest : List (List Char)) (T p c cs) (e : Option Nat) (x) (b : Bool) (o i)
    (hfirst : b = true → firstBodyOk body = true)
    (hex : (exitDigits body).length + (if e.isSome then 1 else 0) ≤ 1) :
    ∃ b', runFin expOk (' ' :: ind') (mk T p (c :: cs) e x b (some o) dC) i
        (body.map (renderBody (' ' :: ind')) ++ rest) =
      runFin expOk (' ' :: ind') (mk T p (c :: cs) (e.or (exitOf body)) (x ++ expTexts body) b' (some o) dC)
        (i + body.length) rest := by
  induction body generalizing e x b i with
  | nil => exact ⟨b, by simp [exitOf, exitDigits, expTexts]⟩
  | cons bl body ih =>
    simp only [List.all_cons, Bool.and_eq_true] at hok
    have e1 : i + (bl :: body).length = (i + 1) + body.length := by simp; omega
    cases bl with
    | exp t =>
      have hb : b = true → stripPrefix ['>', ' '] t = none := by
        intro hb
        have := hfirst hb
        simp only [firstBodyOk, startsWith, Bool.not_eq_true'] at this
        cases hs : stripPrefix ['>', ' '] t with
        | none => rfl
        | some v => simp [hs] at this
      have hst := step_exp expOk ind' T p c cs e x b o i t (by simpa [bodyLineOk] using hok.1) hb
      simp only [List.cons_append] at hst
      obtain ⟨b', hb'⟩ := ih hok.2 e (x ++ [t]) false (i + 1) (by simp) (by simpa [exitDigits] using hex)
      refine ⟨b', ?_⟩
      simp only [List.map_cons, List.cons_append, renderBody, runFin, hst, e1]
      rw [hb']
      simp [expTexts, exitOf, exitDigits]
    | exit ds =>
      have he : e = none := by
        cases e with
        | none => rfl
        | some v => simp [exitDigits] at hex
      subst he
      have hst := step_exit expOk ind' T p c cs x b o i ds (by simpa [bodyLineOk] using hok.1)
      simp only [List.cons_append] at hst
      obtain ⟨b', hb'⟩ := ih hok.2 (some (digitsVal ds)) x false (i + 1) (by simp)
        (by simp [exitDigits] at hex; simp [hex])
      refine ⟨b', ?_⟩
      simp only [List.map_cons, List.cons_append, renderBody, runFin, hst, e1]
      rw [hb']
      simp [expTexts, exitOf, exitDigits]
    | comment cm =>
      obtain ⟨b', hb'⟩ := ih hok.2 e x b (i + 1) (by simpa [firstBodyOk] using hfirst)
        (by simpa [exitDigits] using hex)
      refine ⟨b', ?_⟩
      simp only [List.map_cons, List.cons_append, renderBody, runFin, step_comment, e1]
      rw [hb']
      simp [expTexts, exitOf, exitDigits]

/-- from an idle or an open engine state, a well-formed document yields exactly its tests -/
theorem runFin_doc (d : CramDoc) (hd : d.all (itemOk expOk (' ' :: ind')) = true) :
    (∀ T p b i, (runFin expOk (' ' :: ind') (mk T p [] none [] b none none) i
        (renderLines (' ' :: ind') d)).map (·.testcases) = .ok (T ++ testsFrom p i d)) ∧
    (∀ T p c cs e x b o i, (runFin expOk (' ' :: ind') (mk T p (c :: cs) e x b (some o) dC) i
        (renderLines (' ' :: ind') d)).map (·.testcases) =
          .ok (T ++ pushed p (c :: cs) e x o :: testsFrom none i d)) := by
  induction d with
  | nil =>
    constructor
    · intro T p b i
      simp [renderLines, runFin, finish, State.hasBody, testsFrom, Except.map]
    · intro T p c cs e x b o i
      simp [renderLines, runFin, finish, State.hasBody, State.setConfig, State.endTestcase, State.flush,
        testsFrom, Except.map]
  | cons it rest ih =>
    simp only [List.all_cons, Bool.and_eq_true] at hd
    obtain ⟨ihI, ihO⟩ := ih hd.2
    have hit := hd.1
    cases it with
    | title t =>
      have ht : titleOk (' ' :: ind') t = true := by simpa [itemOk] using hit
      constructor
      · intro T p b i
        simp only [renderLines, renderItem, List.cons_append, List.nil_append, runFin,
          step_title_idle expOk T p b i _ t ht, testsFrom]
        exact ihI T (some t) b (i + 1)
      · intro T p c cs e x b o i
        simp only [renderLines, renderItem, List.cons_append, List.nil_append, runFin,
          step_title_open expOk T p c cs e x b o i _ t ht, testsFrom]
        rw [ihI]
        simp
    | blank =>
      constructor
      · intro T p b i
        simp only [renderLines, renderItem, List.cons_append, List.nil_append, runFin,
          step_blank_idle, testsFrom]
        exact ihI T p b (i + 1)
      · intro T p c cs e x b o i
        simp only [renderLines, renderItem, List.cons_append, List.nil_append, runFin,
          step_blank_open, testsFrom]
        rw [ihI]
        simp
    | comment cm =>
      constructor
      · intro T p b i
        simp only [renderLines, renderItem, List.cons_append, List.nil_append, runFin,
          step_comment, testsFrom]
        exact ihI T p b (i + 1)
      · intro T p c cs e x b o i
        simp only [renderLines, renderItem, List.cons_append, List.nil_append, runFin,
          step_comment, testsFrom]
        exact ihO T p c cs e x b o (i + 1)
    | test t =>
      have ht : testOk expOk t = true := by simpa [itemOk] using hit
      simp only [testOk, Bool.and_eq_true, decide_eq_true_eq] at ht
      obtain ⟨⟨⟨⟨_, hconts⟩, hbody⟩, hfirst⟩, hex⟩ := ht
      -- what happens below the command line, from the state right after the `$` line
      have below : ∀ T' p' i0, (runFin expOk (' ' :: ind') (mk T' p' [t.cmd] none [] true (some i0) dC) (i0 + 1)
          (t.conts.map (renderCont (' ' :: ind')) ++ (t.body.map (renderBody (' ' :: ind')) ++
            renderLines (' ' :: ind') rest))).map (·.testcases) =
          .ok (T' ++ testOf p' i0 t :: testsFrom none (i0 + (1 + t.conts.length + t.body.length)) rest) := by
        intro T' p' i0
        rw [runFin_conts expOk ind' t.conts hconts]
        obtain ⟨b', hb'⟩ := runFin_body expOk ind' t.body hbody (renderLines (' ' :: ind') rest) T' p' t.cmd
          ([] ++ contTexts t.conts) none [] true i0 (i0 + 1 + t.conts.length) (fun _ => hfirst) (by simpa using hex)
        rw [hb', ihO]
        have : i0 + 1 + t.conts.length + t.body.length = i0 + (1 + t.conts.length + t.body.length) := by omega
        simp [testOf, this]
      constructor
      · intro T p b i
        simp only [renderLines, renderItem, renderTest, List.cons_append, List.append_assoc, runFin, testsFrom]
        have hst := step_cmd_idle expOk ind' T p b i t.cmd
        simp only [List.cons_append] at hst
        rw [hst]
        exact below T p i
      · intro T p c cs e x b o i
        simp only [renderLines, renderItem, renderTest, List.cons_append, List.append_assoc, runFin, testsFrom]
        have hst := step_cmd_open expOk ind' T p c cs e x b o i t.cmd
        simp only [List.cons_append] at hst
        rw [hst]
        simp only []
        rw [below]
        simp

end runs

/-! ## `str::lines()` on rendered text -/

theorem linesGo_line (l rest acc : List Char) (h : noNl l = true) :
    linesGo (l ++ '\n' :: rest) acc = stripCr (l.reverse ++ acc) :: linesGo rest [] := by
  induction l generalizing acc with
  | nil => simp [linesGo]
  | cons c l ih =>
    simp only [noNl, List.all_cons, Bool.and_eq_true, bne_iff_ne, ne_eq] at h
    have hl : noNl l = true := by simpa [noNl] using h.2
    simp only [List.cons_append, linesGo, h.1.1, if_false, ih _ hl]
    simp

theorem stripCr_reverse (l : List Char) (h : noNl l = true) : stripCr l.reverse = l := by
  have hr : ∀ c ∈ l.reverse, c ≠ '\r' := by
    intro c hc
    have : c ∈ l := by simpa using hc
    simp only [noNl, List.all_eq_true, Bool.and_eq_true, bne_iff_ne, ne_eq] at h
    exact (h c this).2
  cases hrev : l.reverse with
  | nil => simp [stripCr, List.reverse_eq_nil_iff.mp hrev]
  | cons c r =>
    have hc : c ≠ '\r' := hr c (by simp [hrev])
    have : stripCr (c :: r) = (c :: r).reverse := by
      unfold stripCr
      split
      · next h1 => cases h1; exact absurd rfl hc
      · rfl
    rw [this, ← hrev, List.reverse_reverse]

theorem lines_unlines (ls : List (List Char)) (h : ls.all noNl = true) : lines (unlines ls) = ls := by
  induction ls with
  | nil => simp [lines, unlines, linesGo]
  | cons l ls ih =>
    simp only [List.all_cons, Bool.and_eq_true] at h
    have := ih h.2
    simp only [lines] at this ⊢
    simp only [unlines, linesGo_line l _ [] h.1, List.append_nil, stripCr_reverse l h.1, this]

theorem noNl_append (a b : List Char) : noNl (a ++ b) = (noNl a && noNl b) := by
  simp [noNl, List.all_append]

theorem noNl_indent (n : Nat) : noNl (indentOf n) = true := by
  simp [noNl, indentOf]

theorem noNl_digits (ds : List Char) (h : ds.all isAsciiDigit = true) : noNl ds = true := by
  simp only [noNl, List.all_eq_true] at h ⊢
  intro c hc
  have := h c hc
  simp only [isAsciiDigit, Bool.and_eq_true, decide_eq_true_eq] at this
  have h1 : c ≠ '\n' := by intro h; subst h; revert this; decide
  have h2 : c ≠ '\r' := by intro h; subst h; revert this; decide
  simp [h1, h2]

theorem renderLines_noNl (expOk : List Char → Bool) (n : Nat) (d : CramDoc) (h : docOk expOk n d = true) :
    (renderLines (indentOf n) d).all noNl = true := by
  have hi := noNl_indent n
  induction d with
  | nil => simp [renderLines]
  | cons it rest ih =>
    simp only [docOk, List.all_cons, Bool.and_eq_true] at h
    have ihr := ih (by simpa [docOk] using h.2)
    simp only [renderLines, List.all_append, Bool.and_eq_true]
    refine ⟨?_, ihr⟩
    have hit := h.1
    cases it with
    | title t =>
      simp only [itemOk, titleOk, Bool.and_eq_true] at hit
      simp [renderItem, hit.1.1.1]
    | blank => simp [renderItem, noNl]
    | comment c =>
      simp only [itemOk] at hit
      simpa [renderItem, noNl] using hit
    | test t =>
      simp only [itemOk, testOk, Bool.and_eq_true, decide_eq_true_eq] at hit
      obtain ⟨⟨⟨⟨hcmd, hconts⟩, hbody⟩, _⟩, _⟩ := hit
      simp only [renderItem, renderTest, List.all_cons, List.all_append, Bool.and_eq_true]
      refine ⟨?_, ?_, ?_⟩
      · rw [noNl_append, hi]; simpa [noNl] using hcmd
      · rw [List.all_map, List.all_eq_true]
        intro cl hcl
        have := (List.all_eq_true.mp hconts) cl hcl
        cases cl with
        | cont x =>
          simp only [contLineOk] at this
          simp only [Function.comp, renderCont]
          rw [noNl_append, hi]; simpa [noNl] using this
        | comment x =>
          simp only [contLineOk] at this
          simpa [Function.comp, renderCont, noNl] using this
      · rw [List.all_map, List.all_eq_true]
        intro bl hbl
        have := (List.all_eq_true.mp hbody) bl hbl
        cases bl with
        | exp x =>
          simp only [bodyLineOk, expTextOk, Bool.and_eq_true] at this
          simp only [Function.comp, renderBody]
          rw [noNl_append, hi, this.1.1.1]; rfl
        | exit ds =>
          simp only [bodyLineOk, exitOk, Bool.and_eq_true] at this
          have hd := noNl_digits ds this.1.2
          simp only [Function.comp, renderBody]
          rw [noNl_append, hi]
          simp only [noNl, List.all_cons, List.all_append, Bool.true_and] at hd ⊢
          simp [hd]
        | comment x =>
          simp only [bodyLineOk] at this
          simpa [Function.comp, renderBody, noNl] using this

/-- **round trip**: a well-formed document parses to exactly the tests written in it -/
theorem parse_render (expOk : List Char → Bool) (n : Nat) (d : CramDoc) (h : docOk expOk (n + 1) d = true) :
    parseCramTests expOk (n + 1) (render (n + 1) d) = .ok d.tests := by
  have hl := lines_unlines _ (renderLines_noNl expOk (n + 1) d h)
  simp only [parseCramTests, render, hl, parseLines_eq]
  have hi : indentOf (n + 1) = ' ' :: List.replicate n ' ' := by simp [indentOf, List.replicate_succ]
  rw [hi]
  have := (runFin_doc expOk (List.replicate n ' ') d (by simpa [docOk, hi] using h)).1 [] none false 0
  have hn : (State.new true : St) = mk [] none [] none [] false none none := rfl
  rw [hn]
  simpa [CramDoc.tests] using this

end Scrut.Cram
