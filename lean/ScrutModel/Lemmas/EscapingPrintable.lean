import ScrutModel.Lemmas.EscapingLossless
/-!
# C11: the written text is printable
-/
namespace Scrut.EscLemmas
open Scrut.Utf8 Scrut.Esc Scrut.EscF Scrut.Rules

/-- printable ASCII: 0x20..0x7e -/
def PrintableAscii (c : Char) : Prop := 0x20 ≤ c.toNat ∧ c.toNat ≤ 0x7e

instance (c : Char) : Decidable (PrintableAscii c) := by unfold PrintableAscii; infer_instance

set_option maxRecDepth 8000 in
theorem byteToAsciiN_printable : ∀ v, v < 256 → ∀ c ∈ byteToAsciiN v, PrintableAscii c := by decide

theorem marker_printable : ∀ c ∈ marker, PrintableAscii c := by decide

theorem x20NoEolLit_printable : ∀ c ∈ x20NoEolLit, PrintableAscii c := by decide

/-- `guard_tailing_no_eol` only adds the characters of `\x20(no-eol)` -/
theorem mem_guardTailingNoEol {c : Char} {e : List Char} (h : c ∈ guardTailingNoEol e) :
    c ∈ e ∨ c ∈ x20NoEolLit := by
  unfold guardTailingNoEol at h
  split at h
  · rcases List.mem_append.mp h with h | h
    · exact Or.inl (List.mem_of_mem_take h)
    · exact Or.inr h
  · exact Or.inl h

set_option maxRecDepth 8000 in
theorem ofNat_printable' : ∀ v, v < 127 → 32 ≤ v → PrintableAscii (Char.ofNat v) := by decide

theorem ofNat_printable (v : Nat) (h1 : 32 ≤ v) (h2 : v ≤ 126) : PrintableAscii (Char.ofNat v) :=
  ofNat_printable' v (by omega) h1

theorem written_snd (m : Mode) (isOther : Char → Bool) (t : List UInt8) :
    (written m isOther t).2 = escapedPrintable m isOther t := by
  unfold written
  simp only
  split <;> rfl

theorem escapedPrintableAscii_printable (bs : List UInt8) : ∀ c ∈ escapedPrintableAscii bs, PrintableAscii c := by
  intro c hc
  unfold escapedPrintableAscii at hc
  split at hc
  · simp only [encodeAscii, List.mem_flatMap] at hc
    obtain ⟨b, _, hb⟩ := hc
    exact byteToAsciiN_printable b.toNat b.toNat_lt c hb
  · rename_i hu
    have hu' : hasUnprintableAscii bs = false := by simpa using hu
    simp only [asciiText, List.mem_map] at hc
    obtain ⟨b, hb, rfl⟩ := hc
    simp only [hasUnprintableAscii, List.any_eq_false, printableByte, Bool.not_eq_true,
      Bool.not_eq_false', Bool.and_eq_true, decide_eq_true_eq] at hu'
    have := hu' b hb
    exact ofNat_printable _ this.1 this.2

/-- ascii mode: everything written is printable ASCII -/
theorem ascii_printable (isOther : Char → Bool) (line : List UInt8) :
    ∀ c ∈ escapedExpectation .ascii isOther line, PrintableAscii c := by
  intro c hc
  have hw : ∀ c ∈ (written .ascii isOther (trimNewlines line)).2, PrintableAscii c := by
    intro c hc
    rw [written_snd] at hc
    exact escapedPrintableAscii_printable _ c hc
  unfold escapedExpectation at hc
  split at hc
  · rename_i e he; rw [he] at hw; exact hw c hc
  · rename_i e he; rw [he] at hw
    rcases List.mem_append.mp hc with h | h
    · rcases mem_guardTailingNoEol h with h | h
      · exact hw c h
      · exact x20NoEolLit_printable c h
    · exact marker_printable c h

theorem not_other_of_printable {isOther : Char → Bool} (hC : AsciiContract isOther) {c : Char}
    (h : PrintableAscii c) : isOther c = false := by
  cases ho : isOther c with
  | false => rfl
  | true =>
    have := (hC c (by unfold PrintableAscii at h; omega)).mp ho
    unfold PrintableAscii at h
    omega

theorem renderText_not_other {isOther : Char → Bool} (hC : AsciiContract isOther) (cs : List Char) :
    ∀ c ∈ renderText isOther cs, isOther c = false := by
  intro c hc
  simp only [renderText, List.mem_flatMap] at hc
  obtain ⟨a, _, ha⟩ := hc
  unfold renderChar at ha
  split at ha
  · exact not_other_of_printable hC (escapedPrintableAscii_printable _ c ha)
  · rename_i hno
    split at ha
    · have : c = '\\' := by simpa using ha
      subst this
      exact not_other_of_printable hC (by decide)
    · have : c = a := by simpa using ha
      subst this
      simpa using hno

/-- unicode mode: nothing written is an `is_other` character (under the contract) -/
theorem unicode_printable (isOther : Char → Bool) (hC : AsciiContract isOther) (line : List UInt8) :
    ∀ c ∈ escapedExpectation .unicode isOther line, isOther c = false := by
  intro c hc
  have hw : ∀ c ∈ (written .unicode isOther (trimNewlines line)).2, isOther c = false := by
    intro c hc
    have he : ∀ c ∈ escapedPrintable .unicode isOther (trimNewlines line), isOther c = false := by
      intro c hc
      simp only [escapedPrintable, escapedPrintableUnicode] at hc
      split at hc
      · exact renderText_not_other hC _ c hc
      · exact not_other_of_printable hC (escapedPrintableAscii_printable _ c hc)
    rw [written_snd] at hc
    exact he c hc
  unfold escapedExpectation at hc
  split at hc
  · rename_i e he; rw [he] at hw; exact hw c hc
  · rename_i e he; rw [he] at hw
    rcases List.mem_append.mp hc with h | h
    · rcases mem_guardTailingNoEol h with h | h
      · exact hw c h
      · exact not_other_of_printable hC (x20NoEolLit_printable c h)
    · exact not_other_of_printable hC (marker_printable c h)

end Scrut.EscLemmas
