import ScrutModel.Lemmas.EscapingRoundTrip
import ScrutModel.Lemmas.RulesStr
import ScrutModel.Lemmas.Utf8
/-!
# C11: what is written reads back as the line it was written for, and as nothing else
-/
namespace Scrut.EscLemmas
open Scrut.Utf8 Scrut.Esc Scrut.EscF Scrut.Rules

/-- the contract on `char::is_other()` used by the unicode-mode theorems: on ASCII it is exactly
the control characters (category Cc: 0x00..0x1f and 0x7f) -/
def AsciiContract (isOther : Char → Bool) : Prop :=
  ∀ c : Char, c.toNat < 0x80 → (isOther c = true ↔ (c.toNat < 0x20 ∨ c.toNat = 0x7f))

/-! ### printable ASCII bytes are their own text -/

theorem printable_lt {bs : List UInt8} (h : hasUnprintableAscii bs = false) : ∀ b ∈ bs, b.toNat < 0x80 := by
  intro b hb
  simp only [hasUnprintableAscii, List.any_eq_false, printableByte, Bool.not_eq_true,
    Bool.not_eq_false', Bool.and_eq_true, decide_eq_true_eq] at h
  have := h b hb
  omega

theorem utf8Decode_printable {bs : List UInt8} (h : hasUnprintableAscii bs = false) :
    utf8Decode bs = some (asciiText bs) := utf8Decode_ascii bs (printable_lt h)

theorem lossyEq_printable {bs : List UInt8} (h : hasUnprintableAscii bs = false) :
    lossyEq bs (asciiText bs) = true := by
  simp [lossyEq, utf8Decode_printable h]

/-- if the comparison with the lossy text succeeds, the escaped text is the text of the line -/
theorem utf8_of_lossyEq {bs : List UInt8} {e : List Char} (h : lossyEq bs e = true) : utf8 e = bs := by
  unfold lossyEq at h
  split at h
  · rename_i cs hd
    have : cs = e := by simpa using h
    subst this
    exact utf8Decode_sound bs cs hd
  · simp at h

/-! ### is_other characters are rendered byte-wise (under the contract) -/

theorem toNat_ofNat_lt (n : Nat) (h : n < 256) : (UInt8.ofNat n).toNat = n := by
  simp [Nat.mod_eq_of_lt h]

theorem hasUnprintable_of_other {isOther : Char → Bool} (hC : AsciiContract isOther) (c : Char)
    (h : isOther c = true) : hasUnprintableAscii (String.utf8EncodeChar c) = true := by
  have hv : c.val.toNat = c.toNat := rfl
  by_cases hlt : c.toNat < 0x80
  · have := (hC c hlt).mp h
    simp only [String.utf8EncodeChar, hv]
    rw [if_pos (by omega)]
    simp only [hasUnprintableAscii, List.any_cons, List.any_nil, Bool.or_false, printableByte,
      toNat_ofNat_lt c.toNat (by omega)]
    rcases this with h1 | h1
    · simp; omega
    · simp [h1]
  · simp only [String.utf8EncodeChar, hv]
    rw [if_neg (by omega)]
    have hu : ∀ n r, 0x7f ≤ n → n < 256 → hasUnprintableAscii (UInt8.ofNat n :: r) = true := by
      intro n r h1 h2
      simp only [hasUnprintableAscii, List.any_cons, printableByte, toNat_ofNat_lt n h2]
      simp; omega
    split
    · exact hu _ _ (by omega) (by omega)
    · split
      · exact hu _ _ (by omega) (by omega)
      · exact hu _ _ (by omega) (by omega)

theorem utf8EncodeChar_backslash : String.utf8EncodeChar '\\' = [92] := by decide

theorem mem_utf8 {c : Char} {cs : List Char} (hc : c ∈ cs) : ∀ b ∈ String.utf8EncodeChar c, b ∈ utf8 cs := by
  intro b hb
  simp only [utf8, List.mem_flatMap]
  exact ⟨c, hc, hb⟩

/-- with escapes present, every piece `escaped_printable_unicode` writes is a token for the UTF-8
encoding of its character -/
theorem Tok.renderChar {isOther : Char → Bool} (hC : AsciiContract isOther) (c : Char)
    (hlf : NoLF (String.utf8EncodeChar c)) :
    Tok (renderChar isOther true c) (String.utf8EncodeChar c) := by
  unfold Esc.renderChar
  by_cases ho : isOther c = true
  · simp only [ho, if_true, escapedPrintableAscii, hasUnprintable_of_other hC c ho]
    exact Tok.encodeAscii _ hlf
  · simp only [ho]
    by_cases hb : c = '\\'
    · subst hb
      simp only [and_self, if_true, utf8EncodeChar_backslash]
      exact Tok.byte 92 (by decide)
    · simp only [hb, false_and, if_false]
      exact Tok.char hb

theorem renderText_of_no_other {isOther : Char → Bool} (cs : List Char) (h : cs.any isOther = false) :
    renderText isOther cs = cs := by
  unfold renderText
  rw [h]
  have : ∀ l : List Char, (l.any isOther = false) → l.flatMap (Esc.renderChar isOther false) = l := by
    intro l
    induction l with
    | nil => simp
    | cons a l ih =>
      intro hl
      simp only [List.any_cons, Bool.or_eq_false_iff] at hl
      simp [Esc.renderChar, hl.1, ih hl.2]
  exact this cs h

/-! ### the two ways a line is written -/

/-- the text written for a line: either it is the text of the line itself (kind `equal`), or it is
a sequence of tokens the escaped-filter reads as the bytes of the line (kind `escaped`) -/
theorem written_cases (m : Mode) (isOther : Char → Bool) (hC : m = .unicode → AsciiContract isOther)
    (bs : List UInt8) (hlf : NoLF bs) :
    ((written m isOther bs).1 = .equal ∧ utf8 (written m isOther bs).2 = bs) ∨
    ((written m isOther bs).1 = .escaped ∧ Tok (written m isOther bs).2 bs) := by
  by_cases hl : lossyEq bs (escapedPrintable m isOther bs) = true
  · left
    have hw : written m isOther bs = (.equal, escapedPrintable m isOther bs) := by simp [written, hl]
    rw [hw]
    exact ⟨rfl, utf8_of_lossyEq hl⟩
  · right
    have hl' : lossyEq bs (escapedPrintable m isOther bs) = false := by simpa using hl
    have hw : written m isOther bs = (.escaped, escapedPrintable m isOther bs) := by simp [written, hl']
    rw [hw]
    refine ⟨rfl, ?_⟩
    show Tok (escapedPrintable m isOther bs) bs
    -- the byte-wise rendering, whenever it is used
    have hascii : lossyEq bs (escapedPrintableAscii bs) = false → Tok (escapedPrintableAscii bs) bs := by
      intro h
      unfold escapedPrintableAscii at h ⊢
      by_cases hu : hasUnprintableAscii bs = true
      · simp only [hu, if_true]
        exact Tok.encodeAscii bs hlf
      · have hu' : hasUnprintableAscii bs = false := by simpa using hu
        simp [hu', lossyEq_printable hu'] at h
    cases m with
    | ascii => exact hascii hl'
    | unicode =>
      have hC := hC rfl
      simp only [escapedPrintable, escapedPrintableUnicode] at hl' ⊢
      cases hd : utf8Decode bs with
      | none =>
        simp only [hd] at hl' ⊢
        exact hascii hl'
      | some cs =>
        simp only [hd] at hl' ⊢
        have hbs : utf8 cs = bs := utf8Decode_sound bs cs hd
        have hne : cs.any isOther = true := by
          cases ha : cs.any isOther with
          | true => rfl
          | false =>
            rw [renderText_of_no_other cs ha] at hl'
            simp [lossyEq, hd] at hl'
        unfold renderText
        rw [hne, ← hbs]
        apply Tok.flatMap
        intro c hc
        apply Tok.renderChar hC
        intro b hb
        exact hlf b (hbs ▸ mem_utf8 hc b hb)

/-- reading a text back: an `equal` text whose UTF-8 is the line, or an `escaped` text that is a
token sequence for the line and does not end in ` (no-eol)`, matches the line and only lines with
that content -/
theorem lossless_core (k : Kind) (t : List Char) (bs : List UInt8) (hlf : NoLF bs)
    (h : (k = .equal ∧ utf8 t = bs) ∨ (k = .escaped ∧ Tok t bs ∧ endsWithNoEol t = false)) :
    readBack k t (bs ++ [10]) = some true ∧
    (k = .escaped → readBack k t bs = some true) ∧
    ∀ line, readBack k t line = some true → trimNewlines line = bs := by
  rcases h with ⟨hk, hu⟩ | ⟨hk, ht, hg⟩
  · have hlast : (utf8 t).getLast? ≠ some 10 := by rw [hu]; exact hlf.getLast
    rw [hk]
    simp only [readBack, Option.some.injEq, equal_iff' _ _ hlast, hu, true_and]
    refine ⟨fun h => Kind.noConfusion h, ?_⟩
    intro line hline
    rw [hline, trimNewlines_append_lf, trimNewlines_noLF hlf]
  · have hm : escapedMake t = some bs := by
      rw [escapedMake_eq_decode _ hg]; exact ht.decode_eq
    rw [hk]
    simp only [readBack, escaped_iff _ _ _ hm]
    refine ⟨by rw [trimNewlines_append_lf, trimNewlines_noLF hlf], fun _ => trimNewlines_noLF hlf, fun _ h => h⟩

/-- the unguarded rendering reads back whenever it does not end in ` (no-eol)` (the text scrut
writes is `writtenText`, see `Lemmas/EscapingGuard.lean` for the unconditional statement) -/
theorem lossless (m : Mode) (isOther : Char → Bool) (hC : m = .unicode → AsciiContract isOther)
    (bs : List UInt8) (hlf : NoLF bs)
    (hg : (written m isOther bs).1 = .escaped → endsWithNoEol (written m isOther bs).2 = false) :
    readBack (written m isOther bs).1 (written m isOther bs).2 (bs ++ [10]) = some true ∧
    ((written m isOther bs).1 = .escaped →
      readBack (written m isOther bs).1 (written m isOther bs).2 bs = some true) ∧
    ∀ line, readBack (written m isOther bs).1 (written m isOther bs).2 line = some true →
      trimNewlines line = bs := by
  apply lossless_core _ _ _ hlf
  rcases written_cases m isOther hC bs hlf with ⟨hk, hu⟩ | ⟨hk, ht⟩
  · exact Or.inl ⟨hk, hu⟩
  · exact Or.inr ⟨hk, ht, hg hk⟩

end Scrut.EscLemmas
