import ScrutModel.Lemmas.EscapingLossless
import ScrutModel.Lemmas.EscapedGrammar
import ScrutModel.Lemmas.EscapingPrintable
/-!
# The escaped rendering as a sequence of pieces

Everything the escaper writes is a concatenation of *pieces*: a piece is a token of the two-pass
decoder (`Tok`) that is either a single character or starts with a backslash, and the only piece
containing a blank is the blank itself. Hence a blank of the rendering can be rewritten `\x20`
(`Rep.replace_space`), which is what `guard_tailing_no_eol` does.

(First proved for C09 in `Lemmas/GeneratePieces.lean`, namespace `Scrut.GenLemmas`; this is the
same development one level down, in `Scrut.EscLemmas`, so that C11 does not depend on the generator.)
-/
namespace Scrut.EscLemmas
open Scrut.Utf8 Scrut.Esc Scrut.EscF Scrut.Rules

structure PieceOK (p : List Char) (b : List UInt8) : Prop where
  tok : Tok p b
  ne : p ≠ []
  nl : '\n' ∉ p
  space : ' ' ∈ p → p = [' ']
  head : ∀ c r, p = c :: r → c ≠ '\\' → r = []

abbrev Piece := List Char × List UInt8

def Pcs (ps : List Piece) : Prop := ∀ x ∈ ps, PieceOK x.1 x.2
def text (ps : List Piece) : List Char := ps.flatMap (·.1)
def bytes (ps : List Piece) : List UInt8 := ps.flatMap (·.2)

theorem Tok.unique {t : List Char} {b1 b2 : List UInt8} (h1 : Tok t b1) (h2 : Tok t b2) : b1 = b2 := by
  have := h1.decode_eq.symm.trans h2.decode_eq
  simpa using this

theorem Pcs.tok {ps : List Piece} (h : Pcs ps) : Tok (text ps) (bytes ps) :=
  Tok.flatMap _ _ ps (fun a ha => (h a ha).tok)

theorem Pcs.tail {x : Piece} {ps : List Piece} (h : Pcs (x :: ps)) : Pcs ps :=
  fun y hy => h y (List.mem_cons_of_mem _ hy)

theorem Pcs.no_nl {ps : List Piece} (h : Pcs ps) : '\n' ∉ text ps := by
  intro hm
  simp only [text, List.mem_flatMap] at hm
  obtain ⟨x, hx, hc⟩ := hm
  exact (h x hx).nl hc

theorem tok_x20 : Tok ['\\', 'x', '2', '0'] [32] := by
  have := Tok.hex (h1 := '2') (h2 := '0') (a := 2) (b := 0) (by decide) (by decide)
  simpa using this

theorem tok_space : Tok [' '] [32] := by
  have h : String.utf8EncodeChar ' ' = [32] := by decide
  have := Tok.char (c := ' ') (by decide)
  rwa [h] at this

/-- a blank inside the text of a piece sequence can be written `\x20` -/
theorem Pcs.replace_space {ps : List Piece} (h : Pcs ps) :
    ∀ (body s0 : List Char), text ps = body ++ ' ' :: s0 →
      Tok (body ++ '\\' :: 'x' :: '2' :: '0' :: s0) (bytes ps) := by
  induction ps with
  | nil => intro body s0 he; simp [text] at he
  | cons x ps ih =>
    intro body s0 he
    have hx := h x (by simp)
    have htl := Pcs.tail h
    have he' : x.1 ++ text ps = body ++ ' ' :: s0 := by simpa [text] using he
    have hb : bytes (x :: ps) = x.2 ++ bytes ps := by simp [bytes]
    rw [hb]
    rcases List.append_eq_append_iff.mp he' with ⟨a', h1, h2⟩ | ⟨c', h1, h2⟩
    · -- the piece lies inside `body`
      have := Tok.append hx.tok (ih htl a' s0 h2)
      rw [h1]
      simpa [List.append_assoc] using this
    · cases c' with
      | nil =>
        have h1' : x.1 = body := by simpa using h1
        have h2' : text ps = [] ++ ' ' :: s0 := by simpa using h2.symm
        have := Tok.append hx.tok (ih htl [] s0 h2')
        rw [← h1']
        simpa using this
      | cons d c'' =>
        have hd : d = ' ' := by
          have := congrArg List.head? h2
          simpa using this.symm
        subst hd
        have hmem : ' ' ∈ x.1 := by rw [h1]; simp
        have hp := hx.space hmem
        have hbody : body = [] ∧ c'' = [] := by
          rw [hp] at h1
          cases body with
          | nil => simpa using h1
          | cons b0 bt =>
            have := congrArg List.length h1
            simp at this
        obtain ⟨rfl, rfl⟩ := hbody
        have hs0 : s0 = text ps := by simpa using h2
        have hb32 : x.2 = [32] := by
          have ht := hx.tok
          rw [hp] at ht
          exact Tok.unique ht tok_space
        rw [hb32, hs0]
        have := Tok.append tok_x20 htl.tok
        simpa using this

/-- text `w` is a piece sequence standing for the bytes `bs` -/
def Rep (w : List Char) (bs : List UInt8) : Prop := ∃ ps, Pcs ps ∧ text ps = w ∧ bytes ps = bs

theorem Rep.nil : Rep [] [] := ⟨[], fun x hx => (by cases hx), rfl, rfl⟩

theorem Rep.single {p : List Char} {b : List UInt8} (h : PieceOK p b) : Rep p b :=
  ⟨[(p, b)], fun x hx => (by simp at hx; subst hx; exact h), by simp [text], by simp [bytes]⟩

theorem Rep.append {w1 w2 : List Char} {b1 b2 : List UInt8} (h1 : Rep w1 b1) (h2 : Rep w2 b2) :
    Rep (w1 ++ w2) (b1 ++ b2) := by
  obtain ⟨p1, hp1, rfl, rfl⟩ := h1
  obtain ⟨p2, hp2, rfl, rfl⟩ := h2
  refine ⟨p1 ++ p2, ?_, by simp [text], by simp [bytes]⟩
  intro x hx
  rcases List.mem_append.mp hx with h | h
  · exact hp1 x h
  · exact hp2 x h

theorem Rep.flatMap {α : Type} (f : α → List Char) (g : α → List UInt8) (l : List α)
    (h : ∀ a ∈ l, Rep (f a) (g a)) : Rep (l.flatMap f) (l.flatMap g) := by
  induction l with
  | nil => exact Rep.nil
  | cons a l ih =>
    simp only [List.flatMap_cons]
    exact Rep.append (h a (by simp)) (ih (fun x hx => h x (by simp [hx])))

theorem Rep.tok {w : List Char} {bs : List UInt8} (h : Rep w bs) : Tok w bs := by
  obtain ⟨ps, hp, rfl, rfl⟩ := h
  exact hp.tok

theorem Rep.no_nl {w : List Char} {bs : List UInt8} (h : Rep w bs) : '\n' ∉ w := by
  obtain ⟨ps, hp, rfl, rfl⟩ := h
  exact hp.no_nl

theorem Rep.replace_space {body s0 : List Char} {bs : List UInt8} (h : Rep (body ++ ' ' :: s0) bs) :
    Tok (body ++ '\\' :: 'x' :: '2' :: '0' :: s0) bs := by
  obtain ⟨ps, hp, ht, rfl⟩ := h
  exact hp.replace_space body s0 ht

theorem x20Piece : PieceOK ['\\', 'x', '2', '0'] [32] := by
  refine ⟨tok_x20, by simp, by decide, by decide, ?_⟩
  intro c r he hc
  exact absurd ((List.cons.inj he).1).symm hc

/-- … and the result is again a piece sequence (`\x20` is a piece) -/
theorem Pcs.replace_space_rep {ps : List Piece} (h : Pcs ps) :
    ∀ (body s0 : List Char), text ps = body ++ ' ' :: s0 →
      Rep (body ++ '\\' :: 'x' :: '2' :: '0' :: s0) (bytes ps) := by
  induction ps with
  | nil => intro body s0 he; simp [text] at he
  | cons x ps ih =>
    intro body s0 he
    have hx := h x (by simp)
    have htl := Pcs.tail h
    have he' : x.1 ++ text ps = body ++ ' ' :: s0 := by simpa [text] using he
    have hb : bytes (x :: ps) = x.2 ++ bytes ps := by simp [bytes]
    rw [hb]
    rcases List.append_eq_append_iff.mp he' with ⟨a', h1, h2⟩ | ⟨c', h1, h2⟩
    · have := Rep.append (Rep.single hx) (ih htl a' s0 h2)
      rw [h1]
      simpa [List.append_assoc] using this
    · cases c' with
      | nil =>
        have h1' : x.1 = body := by simpa using h1
        have h2' : text ps = [] ++ ' ' :: s0 := by simpa using h2.symm
        have := Rep.append (Rep.single hx) (ih htl [] s0 h2')
        rw [← h1']
        simpa using this
      | cons d c'' =>
        have hd : d = ' ' := by
          have := congrArg List.head? h2
          simpa using this.symm
        subst hd
        have hmem : ' ' ∈ x.1 := by rw [h1]; simp
        have hp := hx.space hmem
        have hbody : body = [] ∧ c'' = [] := by
          rw [hp] at h1
          cases body with
          | nil => simpa using h1
          | cons b0 bt =>
            have := congrArg List.length h1
            simp at this
        obtain ⟨rfl, rfl⟩ := hbody
        have hs0 : s0 = text ps := by simpa using h2
        have hb32 : x.2 = [32] := by
          have ht := hx.tok
          rw [hp] at ht
          exact Tok.unique ht tok_space
        rw [hb32, hs0]
        have := Rep.append (Rep.single x20Piece) (⟨ps, htl, rfl, rfl⟩ : Rep (text ps) (bytes ps))
        simpa using this

theorem Rep.replace_space_rep {body s0 : List Char} {bs : List UInt8} (h : Rep (body ++ ' ' :: s0) bs) :
    Rep (body ++ '\\' :: 'x' :: '2' :: '0' :: s0) bs := by
  obtain ⟨ps, hp, ht, rfl⟩ := h
  exact hp.replace_space_rep body s0 ht

/-- a text that starts with a character other than the backslash starts with the piece of that
character -/
theorem Rep.head {c : Char} {r : List Char} {bs : List UInt8} (h : Rep (c :: r) bs) (hc : c ≠ '\\') :
    ∃ b bs', bs = b ++ bs' ∧ Tok [c] b ∧ Rep r bs' := by
  obtain ⟨ps, hp, ht, rfl⟩ := h
  cases ps with
  | nil => simp [text] at ht
  | cons x ps =>
    have hx := hp x (by simp)
    have ht' : x.1 ++ text ps = c :: r := by simpa [text] using ht
    cases hx1 : x.1 with
    | nil => exact absurd hx1 hx.ne
    | cons c0 r0 =>
      rw [hx1] at ht'
      have hc0 : c0 = c := by
        have := congrArg List.head? ht'
        simpa using this
      subst hc0
      have hr0 := hx.head c0 r0 hx1 hc
      subst hr0
      have hr : text ps = r := by simpa using ht'
      refine ⟨x.2, bytes ps, by simp [bytes], ?_, ps, Pcs.tail hp, hr, rfl⟩
      have := hx.tok
      rwa [hx1] at this

/-! ### the pieces the escaper writes -/

set_option maxRecDepth 16384 in
theorem byteToAsciiN_piece : ∀ v, v < 256 → v ≠ 10 →
    byteToAsciiN v ≠ [] ∧ '\n' ∉ byteToAsciiN v ∧ (' ' ∈ byteToAsciiN v → byteToAsciiN v = [' ']) ∧
    ((byteToAsciiN v).head? = some '\\' ∨ (byteToAsciiN v).length = 1) := by decide

theorem bytePiece (b : UInt8) (hb : b.toNat ≠ 10) : PieceOK (byteToAscii b) [b] := by
  obtain ⟨h1, h2, h3, h4⟩ := byteToAsciiN_piece b.toNat b.toNat_lt hb
  refine ⟨Tok.byte b hb, h1, h2, h3, ?_⟩
  intro c r he hc
  unfold byteToAscii at he
  rw [he] at h4
  rcases h4 with h | h
  · exact absurd (by simpa using h) hc
  · simpa using h

theorem rep_encodeAscii (bs : List UInt8) (h : NoLF bs) : Rep (encodeAscii bs) bs := by
  have := Rep.flatMap byteToAscii (fun b => [b]) bs (fun b hb => Rep.single (bytePiece b (h b hb)))
  simpa [encodeAscii] using this

theorem utf8EncodeChar_lf : String.utf8EncodeChar '\n' = [10] := by decide

theorem charPiece {c : Char} (hb : c ≠ '\\') (hlf : NoLF (String.utf8EncodeChar c)) :
    PieceOK [c] (String.utf8EncodeChar c) := by
  refine ⟨Tok.char hb, by simp, ?_, ?_, ?_⟩
  · intro hm
    have : c = '\n' := (List.mem_singleton.mp hm).symm
    subst this
    exact hlf 10 (by rw [utf8EncodeChar_lf]; simp) (by decide)
  · intro hm
    have : c = ' ' := (List.mem_singleton.mp hm).symm
    rw [this]
  · intro c0 r he _
    simpa using (List.cons.inj he).2.symm

theorem backslashPiece : PieceOK ['\\', '\\'] [92] := by
  refine ⟨?_, by simp, by decide, by decide, ?_⟩
  · have := Tok.byte 92 (by decide)
    simpa [byteToAscii, byteToAsciiN] using this
  · intro c r he hc
    have := (List.cons.inj he).1
    exact absurd this.symm hc

theorem rep_renderChar {isOther : Char → Bool} (hC : AsciiContract isOther) (c : Char)
    (hlf : NoLF (String.utf8EncodeChar c)) :
    Rep (renderChar isOther true c) (String.utf8EncodeChar c) := by
  unfold Esc.renderChar
  by_cases ho : isOther c = true
  · simp only [ho, if_true, escapedPrintableAscii, hasUnprintable_of_other hC c ho]
    exact rep_encodeAscii _ hlf
  · simp only [ho]
    by_cases hb : c = '\\'
    · subst hb
      simp only [and_self, if_true, utf8EncodeChar_backslash]
      exact Rep.single backslashPiece
    · simp only [hb, false_and, if_false]
      exact Rep.single (charPiece hb hlf)

/-- the escaped rendering, whenever it is chosen, is a piece sequence for the bytes of the line -/
theorem written_rep (m : Mode) (isOther : Char → Bool) (hC : m = .unicode → AsciiContract isOther)
    (bs : List UInt8) (hlf : NoLF bs) (hk : (written m isOther bs).1 = .escaped) :
    Rep (written m isOther bs).2 bs := by
  have hl' : lossyEq bs (escapedPrintable m isOther bs) = false := by
    cases hl : lossyEq bs (escapedPrintable m isOther bs) with
    | false => rfl
    | true => simp [written, hl] at hk
  rw [written_snd]
  have hascii : lossyEq bs (escapedPrintableAscii bs) = false → Rep (escapedPrintableAscii bs) bs := by
    intro h
    unfold escapedPrintableAscii at h ⊢
    by_cases hu : hasUnprintableAscii bs = true
    · simp only [hu, if_true]
      exact rep_encodeAscii bs hlf
    · have hu' : hasUnprintableAscii bs = false := by simpa using hu
      simp [hu', lossyEq_printable hu'] at h
  cases m with
  | ascii => exact hascii hl'
  | unicode =>
    have hC := hC rfl
    simp only [escapedPrintable, escapedPrintableUnicode] at hl' ⊢
    cases hd : utf8Decode bs with
    | none =>
      simp only [hd] at hl' ⊢
      exact hascii hl'
    | some cs =>
      simp only [hd] at hl' ⊢
      have hbs : utf8 cs = bs := utf8Decode_sound bs cs hd
      have hne : cs.any isOther = true := by
        cases ha : cs.any isOther with
        | true => rfl
        | false =>
          rw [renderText_of_no_other cs ha] at hl'
          simp [lossyEq, hd] at hl'
      unfold renderText
      rw [hne, ← hbs]
      apply Rep.flatMap
      intro c hc
      apply rep_renderChar hC
      intro b hb
      exact hlf b (hbs ▸ mem_utf8 hc b hb)

end Scrut.EscLemmas
