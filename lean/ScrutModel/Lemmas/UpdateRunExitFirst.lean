import ScrutModel.Lemmas.UpdateRunReparse
/-!
# The two repairs of `generate_testcase` (fixes 961e96b, cfef990), at the level of the LINE PARSER

* `generate_testcase_expression` writes every piece of `split('\n')` of the command as a line (`$ ` first, `> `
  the others): `exprLines`.  The line parser, fed these lines, collects exactly these pieces, whose `join("\n")`
  is the command again -- for EVERY command (`expression_roundtrip`).
* behind these lines `generate_testcase` writes `afterLines newOrigs code` for a passing test (and for a test
  with `MalformedOutput` whose first written line is retained): `[code]` first if the first text starts with
  `> `.  Whatever these texts are, if the line parser accepts the lines, the command it reads is the command
  (`written_block_command`).
-/
namespace Scrut.UpdateRun
open Scrut Scrut.TestRun Scrut.Markdown Scrut.Update Scrut.LineParser Scrut.GenLemmas Scrut.EscLemmas

/-- the lines `generate_testcase_expression` writes: `$ ` + the first piece of `split('\n')`, `> ` + every
further piece -/
def exprLines (cmd : List Char) : List Markdown.Line :=
  match Gen.splitNl cmd [] with
  | c0 :: more => ('$' :: ' ' :: c0) :: more.map contLine
  | [] => []

theorem exprLines_of_split {cmd c0 : List Char} {more : List (List Char)} (h : Gen.splitNl cmd [] = c0 :: more) :
    exprLines cmd = ('$' :: ' ' :: c0) :: more.map contLine := by
  simp only [exprLines, h]

/-- `generate_testcase_expression` is the text of these lines, for every command -/
theorem expression_exprLines (cmd : List Char) : Gen.expression cmd = some (Update.unlines (exprLines cmd)) := by
  cases h : Gen.splitNl cmd [] with
  | nil => exact absurd h (splitNl_ne_nil cmd [])
  | cons c0 more =>
    rw [exprLines_of_split h]
    exact expression_split cmd c0 more h

/-- … and they are lines: none holds a line feed -/
theorem exprLines_no_nl (cmd : List Char) : ∀ l ∈ exprLines cmd, '\n' ∉ l := by
  cases h : Gen.splitNl cmd [] with
  | nil => exact absurd h (splitNl_ne_nil cmd [])
  | cons c0 more =>
    have hnl := splitNl_no_nl cmd [] (by simp)
    rw [h] at hnl
    rw [exprLines_of_split h]
    intro l hl
    rcases List.mem_cons.mp hl with rfl | hl
    · have := hnl c0 (by simp)
      simp [this]
    · obtain ⟨x, hx, rfl⟩ := List.mem_map.mp hl
      have := hnl x (by simp [hx])
      simp [contLine, this]

/-- the command lines: the pieces of `split('\n')`, written `$ ` / `> `; their `join("\n")` is the command -/
theorem command_lines (cmd : List Char) :
    (∃ c0 more, Gen.splitNl cmd [] = c0 :: more ∧
      Gen.expression cmd = some (Update.unlines (('$' :: ' ' :: c0) :: more.map (fun x => '>' :: ' ' :: x)))) ∧
    (∀ l ∈ Gen.splitNl cmd [], '\n' ∉ l) ∧ LineParser.joinNl (Gen.splitNl cmd []) = cmd ∧
    (∀ c0 more, (∀ l ∈ c0 :: more, '\n' ∉ l) → Gen.splitNl (Gen.joinNl (c0 :: more)) [] = c0 :: more) := by
  refine ⟨?_, splitNl_no_nl cmd [] (by simp), by rw [joinNl_eq]; simpa using joinNl_splitNl cmd [],
    fun c0 more h => splitNl_joinNl (c0 :: more) (by simp) h⟩
  cases h : Gen.splitNl cmd [] with
  | nil => exact absurd h (splitNl_ne_nil cmd [])
  | cons c0 more => exact ⟨c0, more, rfl, expression_split cmd c0 more h⟩

/-- **the shell expression round trip**: the line parser (between two tests), fed the lines that
`generate_testcase_expression` writes for `cmd`, accepts them all as command lines and holds the command whose
`join("\n")` is `cmd` -- for every `cmd`: the empty one, one that ends in line feeds, any characters -/
theorem expression_roundtrip (expOk : Markdown.Line → Bool) (s : LineParser.State Cfg) (hc : Markdown.Clean s)
    (cmd : List Char) (k : Nat) :
    ∃ s', addAll expOk s (number k (exprLines cmd)) = .ok s' ∧
      s'.command = Gen.splitNl cmd [] ∧ LineParser.joinNl s'.command = cmd ∧
      s'.expectations = [] ∧ s'.exitCode = none ∧ s'.inCommand = true ∧ s'.testcases = s.testcases := by
  cases h : Gen.splitNl cmd [] with
  | nil => exact absurd h (splitNl_ne_nil cmd [])
  | cons c0 more =>
    rw [exprLines_of_split h]
    simp only [number, addAll, addBody_cmd expOk s hc]
    have hconts := addAll_conts expOk more
      { s with inCommand := true, outputStartIndex := some k, command := [c0] } (k + 1) rfl (by simp) hc.amc
    rw [hconts]
    refine ⟨_, rfl, by simp, ?_, hc.exps, hc.code, rfl, rfl⟩
    have := joinNl_splitNl cmd []
    rw [h] at this
    rw [joinNl_eq]
    simpa using this

/-- the text `generate_testcase` returns for a passing test with the expectation texts `origs` (lines of the
document: no line feed inside) is the text of the lines `exprLines cmd ++ afterLines origs code` -/
theorem written_text_lines (cmd : List Char) (origs : List (List Char)) (code : Int)
    (h : ∀ o ∈ origs, '\n' ∉ o) :
    (Update.unlines (exprLines cmd)) ++ Gen.withExitCode true (origs.flatMap Gen.assureNewlineC) code
      = Update.unlines (exprLines cmd ++ afterLines origs code) := by
  rw [withExitCode_unlines origs code h, Update.unlines_append]

/-- the text of an outcome of the integrated model, as lines: the command lines, then `afterLines` of the
written expectation texts (retained or generated) -/
theorem outcome_lines {isOther : Char → Bool} (hC : AsciiContract isOther) {u : UTest} {r : Ran}
    {res : Gen.UpdResult} {g : List Char} (h : outcomeText isOther u r = .ok (res, some g))
    (horigs : ∀ o ∈ u.origs, '\n' ∉ o) :
    ∃ newOrigs, g = Update.unlines (exprLines u.cmd ++ afterLines newOrigs r.code) ∧
      ∀ o ∈ newOrigs, o ∈ u.origs ∨ ∃ l, Newline.IsLine l ∧ Gen.expectationLine .unicode isOther l = some o := by
  obtain ⟨ex, newOrigs, hex, hg, hno, _⟩ := outcome_full hC h
  rw [expression_exprLines] at hex
  cases hex
  refine ⟨newOrigs, ?_, hno⟩
  rw [hg]
  apply written_text_lines
  intro o ho
  rcases hno o ho with hin | ⟨l, hl, hgen⟩
  · exact horigs o hin
  · obtain ⟨t0, ht0, hok⟩ := line_ok grammarParams_std .unicode isOther (fun _ => hC) hl
    rw [hgen] at ht0
    cases ht0
    exact hok.no_nl

/-- **the command of a written block**: whatever the expectation texts `newOrigs` are (also `> x`) and whatever
the exit code, if the line parser accepts the lines `generate_testcase` writes -- the command lines, then
`afterLines newOrigs code` --, it reads them as the command `cmd`, and the lines behind the command as
expectations and exit code: no expectation is taken for a continuation of the command -/
theorem written_block_command (expOk : Markdown.Line → Bool) (s s' : LineParser.State Cfg) (hc : Markdown.Clean s)
    (cmd : List Char) (newOrigs : List (List Char)) (code : Int) (k : Nat)
    (h : addAll expOk s (number k (exprLines cmd ++ afterLines newOrigs code)) = .ok s') :
    s'.command = Gen.splitNl cmd [] ∧ LineParser.joinNl s'.command = cmd ∧
      s'.expectations = expLines (afterLines newOrigs code) ∧
      s'.exitCode = (exitCodes (afterLines newOrigs code)).head? := by
  cases hs : Gen.splitNl cmd [] with
  | nil => exact absurd hs (splitNl_ne_nil cmd [])
  | cons c0 more =>
    rw [exprLines_of_split hs] at h
    have hne : number k (('$' :: ' ' :: c0) :: more.map contLine ++ afterLines newOrigs code) ≠ [] := by
      simp [number]
    obtain ⟨c0', more', after', hcode, hn', h1, h2, h3, _⟩ := addAll_block_inv expOk _ s s' hc hne h
    rw [Update.number_map_snd] at hcode
    simp only [List.cons_append, List.cons.injEq] at hcode
    obtain ⟨hc0, hrest⟩ := hcode
    have hc0' : c0 = c0' := by simpa using hc0
    obtain ⟨hm, ha⟩ := conts_unique more more' _ after' hrest (afterLines_notCont newOrigs code) hn'
    subst hc0' hm ha
    refine ⟨h1, ?_, h2, h3⟩
    rw [h1, joinNl_eq]
    have := joinNl_splitNl cmd []
    rw [hs] at this
    simpa using this

end Scrut.UpdateRun
