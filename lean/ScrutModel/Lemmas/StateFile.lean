import ScrutModel.Model.StateFile
namespace Scrut.StateFile

theorem source_funcs (d t : Bool) (fs0 : List Fn) (vs0 : List (Nat × Nat)) (fs : List Fn) (rest : List Line) :
    source ⟨true, d, t, fs0, vs0⟩ (fs.map .defFn ++ rest) = source ⟨true, d, t, fs0 ++ fs, vs0⟩ rest := by
  induction fs generalizing fs0 with
  | nil => simp
  | cons f r ih =>
    simp only [List.map_cons, List.cons_append, source, Bool.not_true, Bool.and_false, Bool.false_eq_true,
      if_false]
    rw [ih (fs0 ++ [f])]
    simp

theorem source_vars (e d t : Bool) (fs0 : List Fn) (vs0 vs : List (Nat × Nat)) :
    source ⟨e, d, t, fs0, vs0⟩ (vs.map (fun kv => Line.setVar kv.1 kv.2)) = ⟨e, d, t, fs0, vs0 ++ vs⟩ := by
  induction vs generalizing vs0 with
  | nil => simp [source]
  | cons v r ih =>
    simp only [List.map_cons, source]
    rw [ih (vs0 ++ [v])]
    simp

/-- **everything is restored, whatever the options are when the state is written** -/
theorem source_persist (s : St) : source fresh (persist s) = s := by
  obtain ⟨e, d, t, fs, vs⟩ := s
  simp only [persist, fresh, List.cons_append, List.nil_append, source, List.append_assoc]
  rw [source_funcs d t [] [] fs]
  simp only [List.nil_append, List.cons_append, source]
  rw [source_vars e d t fs [] vs]
  simp

/-- without `errexit` every command of the sub-shell runs -/
theorem runCmds_all (cs : List Cmd) : (runCmds false cs).1 = (cs.map (·.out)).flatten := by
  induction cs with
  | nil => simp [runCmds]
  | cons c r ih => simp [runCmds, ih]

/-- when every command returns 0 the option does not matter -/
theorem runCmds_ok (e : Bool) (cs : List Cmd) (h : ∀ c ∈ cs, c.status = 0) :
    runCmds e cs = ((cs.map (·.out)).flatten, 0) := by
  induction cs with
  | nil => simp [runCmds]
  | cons c r ih =>
    have hc : c.status = 0 := h c (by simp)
    have hr := ih (fun c hc => h c (by simp [hc]))
    simp [runCmds, hc, hr]

theorem hookCmds_guarded_ok (s : St) : ∀ c ∈ hookCmds true s, c.status = 0 := by
  intro c hc
  simp [hookCmds] at hc
  rcases hc with rfl | rfl | rfl | rfl | rfl | rfl <;> rfl

theorem hookCmds_out (g : Bool) (s : St) : ((hookCmds g s).map (·.out)).flatten = persist s := by
  simp [hookCmds, persist]

/-- **the hook as it is now gets through under every option**: the complete state file is written and the test
case ends with the status of its command -/
theorem writeState_now (h : Hook) (s : St) (code : Nat) :
    writeState true true h s code = (some (persist s), code) := by
  simp [writeState, runCmds_ok h.errexit _ (hookCmds_guarded_ok s), hookCmds_out]

end Scrut.StateFile
