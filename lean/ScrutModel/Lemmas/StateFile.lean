import ScrutModel.Model.StateFile
namespace Scrut.StateFile

theorem source_funcs (e : Bool) (fs0 : List Fn) (vs0 : List (Nat × Nat)) (fs : List Fn) (rest : List Line) :
    source ⟨true, fs0, vs0⟩ (fs.map .defFn ++ rest) = source ⟨true, fs0 ++ fs, vs0⟩ rest := by
  induction fs generalizing fs0 with
  | nil => simp
  | cons f r ih =>
    simp only [List.map_cons, List.cons_append, source, Bool.not_true, Bool.and_false, Bool.false_eq_true,
      if_false]
    rw [ih (fs0 ++ [f])]
    simp

theorem source_vars (e : Bool) (fs0 : List Fn) (vs0 vs : List (Nat × Nat)) :
    source ⟨e, fs0, vs0⟩ (vs.map (fun kv => Line.setVar kv.1 kv.2)) = ⟨e, fs0, vs0 ++ vs⟩ := by
  induction vs generalizing vs0 with
  | nil => simp [source]
  | cons v r ih =>
    simp only [List.map_cons, source]
    rw [ih (vs0 ++ [v])]
    simp

/-- **everything is restored, whatever the option is when the state is written** -/
theorem source_persist (s : St) : source fresh (persist s) = s := by
  obtain ⟨e, fs, vs⟩ := s
  simp only [persist, fresh, List.cons_append, List.nil_append, source, List.append_assoc]
  rw [source_funcs true [] [] fs]
  simp only [List.nil_append, List.cons_append, source]
  rw [source_vars e fs [] vs]
  simp

end Scrut.StateFile
