import ScrutModel.Model.StateFile
namespace Scrut.StateFile

/-- while `extglob` is set and no alias is known, every function definition is read -/
theorem source_funcs (d t a : Bool) (fs0 : List Fn) (vs0 : List Var) (fs : List Fn) (rest : List Line) :
    source ⟨true, d, t, a, fs0, [], vs0⟩ (fs.map .defFn ++ rest) = source ⟨true, d, t, a, fs0 ++ fs, [], vs0⟩ rest := by
  induction fs generalizing fs0 with
  | nil => simp
  | cons f r ih =>
    simp only [List.map_cons, List.cons_append, source, Bool.not_true, Bool.and_false, List.contains_nil,
      Bool.or_self, Bool.false_eq_true, if_false]
    rw [ih (fs0 ++ [f])]
    simp

theorem source_aliases (e d t a : Bool) (fs0 : List Fn) (as0 as : List Nat) (vs0 : List Var) (rest : List Line) :
    source ⟨e, d, t, a, fs0, as0, vs0⟩ (as.map .defAlias ++ rest) = source ⟨e, d, t, a, fs0, as0 ++ as, vs0⟩ rest := by
  induction as generalizing as0 with
  | nil => simp
  | cons x r ih =>
    simp only [List.map_cons, List.cons_append, source]
    rw [ih (as0 ++ [x])]
    simp

/-- while `allexport` is off, every variable comes back with the attribute it was written with -/
theorem source_vars (e d t : Bool) (fs0 : List Fn) (as0 : List Nat) (vs0 vs : List Var) (rest : List Line) :
    source ⟨e, d, t, false, fs0, as0, vs0⟩ (vs.map .setVar ++ rest) = source ⟨e, d, t, false, fs0, as0, vs0 ++ vs⟩ rest := by
  induction vs generalizing vs0 with
  | nil => simp
  | cons v r ih =>
    simp only [List.map_cons, List.cons_append, source, Bool.or_false]
    rw [ih (vs0 ++ [v])]
    simp

/-- **everything is restored, whatever the options are when the state is written** -/
theorem source_persist (s : St) : source fresh (persist s) = s := by
  obtain ⟨e, d, t, a, fs, as, vs⟩ := s
  simp only [persist, fresh, optionLines, List.cons_append, List.nil_append, source, List.append_assoc]
  rw [source_funcs false false false [] [] fs]
  rw [source_vars true false false ([] ++ fs) [] [] vs]
  rw [source_aliases true false false false ([] ++ fs) [] as]
  simp [source]

/-- without `errexit` every command of the sub-shell runs -/
theorem runCmds_all (cs : List Cmd) : (runCmds false cs).1 = (cs.map (·.out)).flatten := by
  induction cs with
  | nil => simp [runCmds]
  | cons c r ih => simp [runCmds, ih]

/-- when every command returns 0 the option does not matter -/
theorem runCmds_ok (e : Bool) (cs : List Cmd) (h : ∀ c ∈ cs, c.status = 0) :
    runCmds e cs = ((cs.map (·.out)).flatten, 0) := by
  induction cs with
  | nil => simp [runCmds]
  | cons c r ih =>
    have hc : c.status = 0 := h c (by simp)
    have hr := ih (fun c hc => h c (by simp [hc]))
    simp [runCmds, hc, hr]

theorem hookCmds_ok (s : St) : ∀ c ∈ hookCmds s, c.status = 0 := by
  intro c hc
  simp [hookCmds] at hc
  rcases hc with rfl | rfl | rfl | rfl | rfl <;> rfl

theorem hookCmds_out (s : St) : ((hookCmds s).map (·.out)).flatten = persist s := by
  simp [hookCmds, persist]

/-- **the hook as it is now gets through under every option**: the complete state file is written and the test
case ends with the status of its command -/
theorem writeState_now (h : Hook) (s : St) (code : Nat) :
    writeState (hookCmds s) true h code = (some (persist s), code) := by
  simp [writeState, runCmds_ok h.errexit _ (hookCmds_ok s), hookCmds_out]

end Scrut.StateFile
