import ScrutModel.Lemmas.UpdateRunExitFirst
/-!
# The written document is read with the same test configurations (the former hypothesis `SameConfigs`)

`update` writes the inline configuration of a block as `" {" + text.trim_start_matches([' ', '\t']) + "}"`
(`configSuffix`, `blankStart`; fix 15b47d2), and the tokenizer reads exactly that text back (`writtenCfg`,
`run_reread_cfg`).  The blanks and tabs dropped are exactly what the YAML flow parser skips behind `{`
(`blankStart_eq_skipWs`), so the configuration read back is the original one (`Yaml.parseFlow_skipWs`,
`inlineCfg_written`) -- for every document.  Until fix 15b47d2 `update` used `trim_start()`, which also drops
Unicode `White_Space` that YAML reads as part of the first key: `{<U+00A0>output_stream: stderr}` is the unknown
key `<U+00A0>output_stream` (ignored) and was written back as `{output_stream: stderr}`, another configuration
(the former guard `CfgBlankLed`; regression witness: `UpdateRunWitness`, W5).

A configuration text of white space only is written back as NO configuration (`config_text.trim().is_empty()`,
Unicode `White_Space`).  If the original one is read at all it is the empty mapping (`parseFlow_white`: such a
text holds no `:`), hence the same configuration again; `{<U+00A0>}` itself is a YAML error and such a document
is never updated.
-/
namespace Scrut.UpdateRun
open Scrut Scrut.TestRun Scrut.Markdown Scrut.Update Scrut.LineParser Scrut.GenLemmas Scrut.EscLemmas

/-- what `update` drops in front of an inline configuration is what the YAML parser skips there -/
theorem blankStart_eq_skipWs : ∀ (t : List Char), blankStart t = Yaml.skipWs t
  | [] => rfl
  | c :: r => by
    simp only [blankStart, Yaml.skipWs, Yaml.isBlank, Bool.or_eq_true, decide_eq_true_eq, blankStart_eq_skipWs r]

theorem testBlocks_cfg_mem : ∀ (toks : List Tok) (b : Numbered × List Markdown.Line), b ∈ testBlocks toks →
    b.1 ∈ cfgsOf toks
  | [], b, h => by simp [testBlocks] at h
  | .line _ _ :: r, b, h => testBlocks_cfg_mem r b (by simpa [testBlocks] using h)
  | .docConfig _ :: r, b, h => testBlocks_cfg_mem r b (by simpa [testBlocks] using h)
  | .verbatim _ _ _ :: r, b, h => testBlocks_cfg_mem r b (by simpa [testBlocks] using h)
  | .test _ cfg _ code :: r, b, h => by
    simp only [testBlocks] at h
    simp only [cfgsOf, List.mem_cons]
    split at h
    · exact Or.inr (testBlocks_cfg_mem r b h)
    · rcases List.mem_cons.mp h with rfl | h
      · exact Or.inl rfl
      · exact Or.inr (testBlocks_cfg_mem r b h)

theorem dropWhile_head_not {p : Char → Bool} : ∀ (l : List Char) (c : Char) (r : List Char),
    l.dropWhile p = c :: r → p c = false
  | [], c, r, h => by simp at h
  | a :: l, c, r, h => by
    by_cases ha : p a = true
    · simp only [List.dropWhile, ha] at h
      exact dropWhile_head_not l c r h
    · have ha' : p a = false := by simpa using ha
      simp only [List.dropWhile, ha'] at h
      cases h
      exact ha'

theorem dropWhile_nil_all {p : Char → Bool} : ∀ (l : List Char), l.dropWhile p = [] → ∀ x ∈ l, p x = true
  | [], _, x, hx => by simp at hx
  | a :: l, h, x, hx => by
    by_cases ha : p a = true
    · simp only [List.dropWhile, ha] at h
      rcases List.mem_cons.mp hx with rfl | hx
      · exact ha
      · exact dropWhile_nil_all l h x hx
    · have ha' : p a = false := by simpa using ha
      simp [List.dropWhile, ha'] at h

/-- a text of white space only has no `trim_start` -/
theorem trimStart_nil_of_trim {t : Markdown.Line} (h : (trim t).isEmpty = true) : trimStart t = [] := by
  cases hts : trimStart t with
  | nil => rfl
  | cons c r =>
    exfalso
    have hc : isWhite c = false := dropWhile_head_not t c r hts
    have h' : trim t = [] := by simpa using h
    unfold trim trimEnd at h'
    rw [hts] at h'
    have h2 : ((c :: r).reverse.dropWhile isWhite) = [] := by simpa using h'
    have := dropWhile_nil_all _ h2 c (by simp)
    rw [hc] at this
    cases this

theorem parseFlow_empty : Yaml.parseFlow ['{', '}'] = .ok {} := by decide

/-- **a configuration of white space only that is read is the empty mapping** -/
theorem parseFlow_white (t : List Char) (hw : ∀ x ∈ t, isWhite x = true) (c : Yaml.Cfg)
    (h : Yaml.parseFlow ('{' :: (t ++ ['}'])) = .ok c) : c = {} := by
  rw [← Yaml.parseFlow_skipWs] at h
  cases hs : Yaml.skipWs t with
  | nil =>
    rw [hs, List.nil_append, parseFlow_empty] at h
    cases h
    rfl
  | cons d r =>
    exfalso
    rw [hs] at h
    have hmem : ∀ x ∈ d :: r, isWhite x = true := fun x hx => hw x (Yaml.mem_skipWs t x (by rw [hs]; exact hx))
    have hd := hmem d (by simp)
    have ha : Yaml.parseAst ('{' :: d :: (r ++ ['}'])) = none := by
      apply Yaml.parseAst_no_colon d _ (Yaml.skipWs_head_nonblank t d r hs)
      · intro e; rw [e] at hd; exact absurd hd (by decide)
      · intro e; rw [e] at hd; exact absurd hd (by decide)
      · intro hc
        rcases List.mem_cons.mp hc with e | hc
        · rw [← e] at hd; exact absurd hd (by decide)
        · rcases List.mem_append.mp hc with hc | hc
          · exact absurd (hmem ':' (List.mem_cons_of_mem _ hc)) (by decide)
          · simp at hc
    unfold Yaml.parseFlow at h
    simp only [List.cons_append, ha] at h
    split at h
    · cases h
    · split at h <;> cases h

theorem all_white_of_trim {t : Markdown.Line} (h : (trim t).isEmpty = true) : ∀ x ∈ t, isWhite x = true :=
  dropWhile_nil_all t (trimStart_nil_of_trim h)

/-- **the configuration read back from the fence line `update` wrote is the original one**, provided the
original one is read (no YAML error, inside the modelled fragment).  Needed for a text of Unicode white space
only, which is written back as no configuration: `{<U+00A0>}` is a YAML error, no configuration is the empty
one (`inlineCfg_white_unread`). -/
theorem inlineCfg_written {cfg cfg' : Numbered} (hw : cfg'.map (·.2) = writtenCfg cfg)
    (hr : (inlineCfg (some (cfgOf cfg))).isSome = true) :
    inlineCfg (some (cfgOf cfg')) = inlineCfg (some (cfgOf cfg)) := by
  unfold writtenCfg at hw
  by_cases he : (trim (joinNumbered cfg)).isEmpty = true
  · simp only [he, if_true, List.map_eq_nil_iff] at hw
    subst hw
    by_cases hc : cfg.isEmpty = true
    · have : cfg = [] := by simpa using hc
      subst this; rfl
    · have hc' : cfg.isEmpty = false := by simpa using hc
      have e : cfgOf cfg = some (joinNumbered cfg) := by simp [cfgOf, hc']
      rw [e] at hr ⊢
      show some {} = inlineCfg (some (some (joinNumbered cfg)))
      simp only [inlineCfg] at hr ⊢
      cases hp : Yaml.parseFlow ('{' :: (joinNumbered cfg ++ ['}'])) with
      | ok c => rw [parseFlow_white _ (all_white_of_trim he) c hp]
      | error => simp [hp] at hr
      | crash => simp [hp] at hr
      | outside => simp [hp] at hr
  · have he' : (trim (joinNumbered cfg)).isEmpty = false := by simpa using he
    simp only [he', Bool.false_eq_true, if_false] at hw
    have hc' : cfg.isEmpty = false := by
      cases cfg with
      | nil => exact absurd rfl he
      | cons a r => rfl
    have e : cfgOf cfg = some (joinNumbered cfg) := by simp [cfgOf, hc']
    match cfg', hw with
    | [], hw => simp at hw
    | [a], hw =>
      have ha : a.2 = blankStart (joinNumbered cfg) := by simpa using hw
      have e' : cfgOf [a] = some a.2 := by simp [cfgOf, joinNumbered, LineParser.joinNl]
      rw [e, e', ha]
      simp only [inlineCfg]
      rw [blankStart_eq_skipWs, Yaml.parseFlow_skipWs]
    | _ :: _ :: _, hw => simp at hw

/-- … and the hypothesis "the original configuration is read" is not needed where the text is not white space
only -/
theorem inlineCfg_written_nonwhite {cfg cfg' : Numbered} (hw : cfg'.map (·.2) = writtenCfg cfg)
    (he : (trim (joinNumbered cfg)).isEmpty = false) :
    inlineCfg (some (cfgOf cfg')) = inlineCfg (some (cfgOf cfg)) := by
  unfold writtenCfg at hw
  simp only [he, Bool.false_eq_true, if_false] at hw
  have hc' : cfg.isEmpty = false := by
    cases cfg with
    | nil => simp [joinNumbered, LineParser.joinNl, trim, trimStart, trimEnd] at he
    | cons a r => rfl
  have e : cfgOf cfg = some (joinNumbered cfg) := by simp [cfgOf, hc']
  match cfg', hw with
  | [], hw => simp at hw
  | [a], hw =>
    have ha : a.2 = blankStart (joinNumbered cfg) := by simpa using hw
    have e' : cfgOf [a] = some a.2 := by simp [cfgOf, joinNumbered, LineParser.joinNl]
    rw [e, e', ha]
    simp only [inlineCfg]
    rw [blankStart_eq_skipWs, Yaml.parseFlow_skipWs]
  | _ :: _ :: _, hw => simp at hw

/-- the hypothesis of `inlineCfg_written` cannot be dropped: the configuration text `<U+00A0>` is a YAML error,
and it is written back as no configuration, which is read -/
theorem inlineCfg_white_unread :
    writtenCfg [(0, ['\u00a0'])] = [] ∧ inlineCfg (some (cfgOf [(0, ['\u00a0'])])) = none ∧
      inlineCfg (some (cfgOf [])) = some {} := by decide

/-- a prepared test has a configuration that is read -/
theorem prepareU_cfg_read {t : TestCase Markdown.Cfg} {u : UTest} (hu : prepareU t = .ok u) :
    (inlineCfg t.config).isSome = true := by
  unfold prepareU at hu
  cases hp : prepare t with
  | error e => simp [hp] at hu
  | ok pt =>
    unfold prepare at hp
    cases hi : inlineCfg t.config with
    | none => simp [hi] at hp
    | some c => rfl

/-- a test read with the same configuration and compilable expectation texts is prepared, with the same
configuration -/
theorem prepareU_ok_of {t t' : TestCase Markdown.Cfg} {u : UTest} (hu : prepareU t = .ok u)
    (hcfg : inlineCfg t'.config = inlineCfg t.config) (hsome : t'.config.isSome = t.config.isSome)
    {exps : List CExp} (hexp : Pairs (fun o e => compile o = .ok e) t'.expectations exps) :
    ∃ u', prepareU t' = .ok u' ∧ u'.test.cfg = u.test.cfg := by
  unfold prepareU at hu ⊢
  cases hp : prepare t with
  | error e => simp [hp] at hu
  | ok pt =>
    simp only [hp] at hu
    cases hu
    unfold prepare at hp ⊢
    rw [hcfg, hsome]
    cases hi : inlineCfg t.config with
    | none => simp [hi] at hp
    | some c =>
      simp only [hi] at hp ⊢
      by_cases hs : (!cfgSupported (if t.config.isSome then withMarkdownDefaults c else c)) = true
      · simp [hs] at hp
      · simp only [hs] at hp ⊢
        rw [pairs_mapM_except compile hexp]
        cases hm : t.expectations.mapM compile with
        | error e => cases e <;> simp [hm] at hp
        | ok exps0 =>
          simp only [hm] at hp
          cases hp
          exact ⟨_, rfl, rfl⟩

theorem pairs_of_forall {α β : Type} {R : α → β → Prop} :
    ∀ (l : List α), (∀ a ∈ l, ∃ b, R a b) → ∃ r, Pairs R l r
  | [], _ => ⟨[], .nil⟩
  | a :: l, h => by
    obtain ⟨b, hb⟩ := h a (by simp)
    obtain ⟨r, hr⟩ := pairs_of_forall l (fun x hx => h x (by simp [hx]))
    exact ⟨b :: r, .cons hb hr⟩

/-- **`SameConfigs`, discharged**: if the written document parses, it is read -- its front-matter is the
harmless one, its expectation lines compile -- with the same test configurations as the original, test by test;
under the guards of U4 (the former guard `CfgBlankLed` is gone with fix 15b47d2) -/
theorem sameConfigs_of_guard {isOther : Char → Bool} (hC : AsciiContract isOther) {content : List Char}
    {runs : List Ran} {text : List Char} {results : List Gen.UpdResult}
    (h : updateDocument isOther content runs = .updated text results)
    (hcr : NoStrayCR content) (hf : FrontClosed content)
    {p p' : Parsed} (hp : parseMarkdown parseEnv content = .ok p) (hp' : parseMarkdown parseEnv text = .ok p')
    (hcodes : ∀ r ∈ runs, 0 ≤ r.code ∧ r.code ≤ 255)
    (hq : QuantFree content results) : SameConfigs content text := by
  obtain ⟨tests, ht⟩ := docTests_of_result isOther content runs (Or.inr ⟨text, results, h⟩)
  obtain ⟨p0, hp0, hharm, hprep⟩ := docTests_spec ht
  rw [hp] at hp0
  cases hp0
  obtain ⟨hlen, hdc, hall⟩ := run_aligned h hcr hf hp hp'
  have key : ∀ (j : Nat) (t' : TestCase Markdown.Cfg), p'.tests[j]? = some t' →
      ∃ u u', tests[j]? = some u ∧ prepareU t' = .ok u' ∧ u'.test.cfg = u.test.cfg := by
    intro j t' ht'j
    obtain ⟨t, u, r, res, g, b, b', ha⟩ := hall j t' ht'j
    obtain ⟨ex, newOrigs, hex, hg, hpass, c1, c2, c3, c4, c5⟩ :=
      reparse_block hC ha.block ha.clean ha.prepared ha.outcome ha.block'
    obtain ⟨hcode0, hcode1⟩ := hcodes r (List.mem_of_getElem? ha.run)
    rw [expLines_afterLines newOrigs (fun o h => extractExitCode_of_not_form (c5 o h)) r.code hcode0 hcode1] at c2
    obtain ⟨uu, huu, hpu⟩ := hprep.get j t ha.test
    rw [ha.prepared] at hpu
    cases hpu
    have hcomp : u.Compiled := (prepareU_compiled ha.prepared).1
    have hquant : (∃ d, res = .malformed d) → Unquantified u := by
      rintro ⟨d, rfl⟩
      exact hq tests ht j u d huu ha.result
    obtain ⟨newExps, hne, _⟩ := hpass hcomp hquant
    have htc : t.config = some (cfgOf b.1) := by
      obtain ⟨_, _, _, _, _, _, _, _, _, _, h11⟩ := ha.block
      exact h11
    have hi : inlineCfg t'.config = inlineCfg t.config := by
      rw [c4, htc]
      refine inlineCfg_written ha.configRead ?_
      rw [← htc]
      exact prepareU_cfg_read ha.prepared
    obtain ⟨u', hu', hcfg'⟩ := prepareU_ok_of ha.prepared hi (by rw [c4, htc]; rfl) (by rw [c2]; exact hne)
    exact ⟨u, u', huu, hu', hcfg'⟩
  obtain ⟨tests', hpairs⟩ := pairs_of_forall (R := fun t u => prepareU t = .ok u) p'.tests (by
    intro t' ht'
    obtain ⟨j, hj, rfl⟩ := List.getElem_of_mem ht'
    obtain ⟨_, u', _, hu', _⟩ := key j _ (List.getElem?_eq_getElem hj)
    exact ⟨u', hu'⟩)
  refine ⟨tests, tests', ht, ?_, ?_⟩
  · unfold docTests
    have hh : (!p'.docConfigs.all frontMatterHarmless) = false := by rw [hdc, hharm]; rfl
    simp only [hp', hh, Bool.false_eq_true, if_false, pairs_mapM_except prepareU hpairs]
  · apply List.ext_getElem?
    intro j
    rw [List.getElem?_map, List.getElem?_map]
    cases hj : tests'[j]? with
    | none =>
      have : tests[j]? = none := by
        rw [List.getElem?_eq_none_iff] at hj ⊢
        have h1 := hpairs.length_eq
        have h2 := hprep.length_eq
        omega
      rw [this]
    | some u'' =>
      obtain ⟨t', ht'j, hpt'⟩ := hpairs.get' j u'' hj
      obtain ⟨u, u', huj, hu', hcfg'⟩ := key j t' ht'j
      rw [hpt'] at hu'
      cases hu'
      rw [huj]
      simp [hcfg']

/-- **U4**: the second update with the same runs changes nothing, IF the written document parses -/
theorem run_idempotent_guarded {isOther : Char → Bool} (hC : AsciiContract isOther) {content : List Char}
    {runs : List Ran} {text : List Char} {results : List Gen.UpdResult}
    (h : updateDocument isOther content runs = .updated text results)
    (hcr : NoStrayCR content) (hf : FrontClosed content)
    {p p' : Parsed} (hp : parseMarkdown parseEnv content = .ok p) (hp' : parseMarkdown parseEnv text = .ok p')
    (hcodes : ∀ r ∈ runs, 0 ≤ r.code ∧ r.code ≤ 255)
    (hq : QuantFree content results) :
    ∃ rs, updateDocument isOther text runs = .unchanged rs :=
  run_idempotent_readback hC h hcr hf hp hcodes hq (sameConfigs_of_guard hC h hcr hf hp hp' hcodes hq)

end Scrut.UpdateRun
