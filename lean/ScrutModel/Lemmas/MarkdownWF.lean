import ScrutModel.Lemmas.Markdown
/-!
# `parse (render d) = d.tests` for well-formed documents

Tokenizer side: a rendered block becomes exactly one `test` token with the comment / code split
as written.  Parser side: on a clean `LineParser` state that token becomes exactly the test that
is written.
-/
namespace Scrut.Markdown
open Scrut.LineParser

/-! ## tokenizer side -/

theorem startsWith_self (l : Line) : startsWith l l = true := by
  unfold startsWith
  induction l with
  | nil => rfl
  | cons c r ih => simp [List.isPrefixOf]

theorem test_comments (L : List Line) (cs : Bool) (bt language : Line) (cfg : Numbered) (cms : List Line) :
    ∀ (cm : Numbered) (li : Nat) (rest : List Line),
      (∀ c ∈ cms, isComment c = true) → (∀ c ∈ cms, startsWith c bt = false) →
      runP L (.test bt language cfg cm []) cs li (cms ++ rest)
        = runP L (.test bt language cfg (cm ++ number li cms) []) cs (li + cms.length) rest := by
  induction cms with
  | nil => intro cm li rest _ _; simp [number]
  | cons c r ih =>
    intro cm li rest h1 h2
    have hc := h1 c (by simp)
    have hs := h2 c (by simp)
    simp only [List.cons_append, runP, hs, hc]
    simp only [List.isEmpty_nil, Bool.and_self, if_true, Bool.false_eq_true, if_false]
    rw [ih _ _ _ (fun x hx => h1 x (by simp [hx])) (fun x hx => h2 x (by simp [hx]))]
    simp [number, Nat.add_assoc, Nat.add_comm 1]

theorem test_code (L : List Line) (cs : Bool) (bt language : Line) (cfg cm : Numbered) (ls : List Line) :
    ∀ (cd : Numbered) (li : Nat) (rest : List Line), cd ≠ [] →
      (∀ c ∈ ls, startsWith c bt = false) →
      runP L (.test bt language cfg cm cd) cs li (ls ++ rest)
        = runP L (.test bt language cfg cm (cd ++ number li ls)) cs (li + ls.length) rest := by
  induction ls with
  | nil => intro cd li rest _ _; simp [number]
  | cons c r ih =>
    intro cd li rest hne h2
    have hs := h2 c (by simp)
    have he : cd.isEmpty = false := by cases cd <;> simp_all
    simp only [List.cons_append, runP, hs, he]
    simp only [Bool.false_and, Bool.false_eq_true, if_false]
    rw [ih _ _ _ (by simp) (fun x hx => h2 x (by simp [hx]))]
    simp [number, Nat.add_assoc, Nat.add_comm 1]

/-- a rendered well-formed block is one `test` token; the tokenizer continues behind it -/
theorem runP_block (env : Env) (b : Block) (wf : b.WF env) (cs : Bool) (li : Nat) (rest : List Line) :
    runP env.languages .top cs li (b.lines ++ rest)
      = .test b.language (cfgLines li b.config) (number (li + 1) b.comments)
          (number (li + 1 + b.comments.length) b.code)
        :: runP env.languages .top true (li + b.lines.length) rest := by
  obtain ⟨hx, hl, _, hbody, hcl, hcm, _, _⟩ := wf
  have hcomm : ∀ c ∈ b.comments, startsWith c b.bt = false := fun c hc => hbody c (by simp [Block.body, hc])
  have hcode : ∀ c ∈ b.code, startsWith c b.bt = false := fun c hc => hbody c (by simp [Block.body, hc])
  have hcmd : startsWith b.cmdLine b.bt = false := hcode _ (by simp [Block.code])
  have hrest : ∀ c ∈ b.more.map contLine ++ b.after, startsWith c b.bt = false :=
    fun c hc => hcode c (by simp only [Block.code, List.mem_cons]; exact Or.inr hc)
  have h1 : (!cs && decide (b.opener = frontMatterFence)) = false := by simp [opener_ne_front hx]
  simp only [Block.lines, List.cons_append]
  rw [runP_top_cons]
  simp only [h1, fencePure_of hx, hl]
  simp only [Bool.not_true, Bool.false_eq_true, if_false]
  -- comments
  simp only [Block.body, List.append_assoc]
  rw [test_comments _ _ _ _ _ _ [] _ _ hcm hcomm]
  -- the `$` line
  simp only [Block.code, List.cons_append, List.nil_append]
  have hnc : isComment b.cmdLine = false := rfl
  simp only [runP, hcmd, hnc]
  simp only [Bool.and_false, Bool.false_eq_true, if_false, List.nil_append]
  -- the other code lines
  rw [show b.more.map contLine ++ b.after ++ b.closer :: rest
      = (b.more.map contLine ++ b.after) ++ (b.closer :: rest) by simp]
  rw [test_code _ _ _ _ _ _ _ _ _ _ (by simp) hrest]
  -- the closing fence
  simp only [runP, hcl, if_true]
  simp only [number, List.length_cons, List.length_append, List.length_map, List.cons_append, List.nil_append,
    List.length_nil]
  congr 2
  all_goals omega

theorem verb_exact (L : List Line) (cs : Bool) (bt : Line) (start : Nat) (language : Line) (body : List Line) :
    ∀ (acc : List Line) (li : Nat) (closer : Line) (rest : List Line),
      (∀ x ∈ body, startsWith x bt = false) → startsWith closer bt = true →
      runP L (.verb bt start language acc) cs li (body ++ closer :: rest)
        = .verbatim start language (acc ++ body ++ [closer]) :: runP L .top cs (li + body.length + 1) rest := by
  induction body with
  | nil => intro acc li closer rest _ hc; simp [runP, hc]
  | cons l r ih =>
    intro acc li closer rest hb hc
    have hl := hb l (by simp)
    simp only [List.cons_append, runP, hl, Bool.false_eq_true, if_false]
    rw [ih _ _ _ _ (fun x hx => hb x (by simp [hx])) hc]
    have ha : li + 1 + r.length + 1 = li + (r.length + 1) + 1 := by omega
    simp [ha]

/-- a rendered foreign block is one `verbatim` token; the tokenizer continues behind it -/
theorem runP_foreign (env : Env) (v : Fenced) (wf : v.ForeignWF env) (cs : Bool) (li : Nat) (rest : List Line) :
    runP env.languages .top cs li (v.lines ++ rest)
      = .verbatim li v.language v.lines :: runP env.languages .top true (li + v.lines.length) rest := by
  obtain ⟨hx, hl, _, hbody, hcl⟩ := wf
  have h1 : (!cs && decide (v.opener = frontMatterFence)) = false := by simp [opener_ne_front hx]
  simp only [Fenced.lines, List.cons_append]
  rw [runP_top_cons]
  simp only [h1, fencePure_of hx, hl]
  simp only [Bool.not_false, if_true, Bool.false_eq_true, if_false, List.append_assoc, List.cons_append,
    List.nil_append]
  rw [verb_exact _ _ _ _ _ _ _ _ _ _ hbody hcl]
  have ha : li + 1 + v.body.length + 1 = li + (v.body.length + (0 + 1) + 1) := by omega
  simp [ha]

/-- a rendered scrut block without command is one `test` token without code lines -/
theorem runP_noCommand (env : Env) (v : Fenced) (wf : v.NoCommandWF env) (cs : Bool) (li : Nat) (rest : List Line) :
    runP env.languages .top cs li (v.lines ++ rest)
      = .test v.language (cfgLines li v.config) (number (li + 1) v.body) []
        :: runP env.languages .top true (li + v.lines.length) rest := by
  obtain ⟨hx, hl, _, hbody, hcl, hcm⟩ := wf
  have h1 : (!cs && decide (v.opener = frontMatterFence)) = false := by simp [opener_ne_front hx]
  simp only [Fenced.lines, List.cons_append]
  rw [runP_top_cons]
  simp only [h1, fencePure_of hx, hl]
  simp only [Bool.not_true, Bool.false_eq_true, if_false, List.append_assoc, List.cons_append, List.nil_append]
  rw [test_comments _ _ _ _ _ _ [] _ _ hcm hbody]
  simp only [runP, hcl, if_true, List.nil_append]
  have ha : li + 1 + v.body.length + 1 = li + (v.body.length + (0 + 1) + 1) := by omega
  simp [ha]

theorem front_exact (L : List Line) (cs : Bool) (body : List Line) :
    ∀ (acc : Numbered) (li : Nat) (rest : List Line), (∀ x ∈ body, x ≠ frontMatterFence) →
      runP L (.front acc) cs li (body ++ frontMatterFence :: rest)
        = .docConfig (acc ++ number li body) :: runP L .top cs (li + body.length + 1) rest := by
  induction body with
  | nil => intro acc li rest _; simp [runP, number]
  | cons l r ih =>
    intro acc li rest hb
    have hl := hb l (by simp)
    simp only [List.cons_append, runP, hl, if_false]
    rw [ih _ _ _ (fun x hx => hb x (by simp [hx]))]
    have ha : li + 1 + r.length + 1 = li + (r.length + 1) + 1 := by omega
    simp [ha, number]

/-- rendered front-matter, while no content has started, is one `docConfig` token; content has
still not started behind it -/
theorem runP_front (L : List Line) (body : List Line) (hb : ∀ x ∈ body, x ≠ frontMatterFence)
    (li : Nat) (rest : List Line) :
    runP L .top false li ((Item.front body).lines ++ rest)
      = .docConfig (number (li + 1) body) :: runP L .top false (li + (body.length + 2)) rest := by
  simp only [Item.lines, List.cons_append, List.append_assoc, List.nil_append]
  rw [runP_top_cons]
  simp only [Bool.not_false, Bool.true_and, decide_true, if_true]
  rw [front_exact _ _ _ _ _ _ hb]
  have ha : li + 1 + body.length + 1 = li + (body.length + 2) := by omega
  simp [ha]

theorem joinNumbered_number (k : Nat) (ls : List Line) : joinNumbered (number k ls) = joinNl ls := by
  have : ∀ k, (number k ls).map (·.2) = ls := by
    induction ls with
    | nil => intro k; rfl
    | cons l r ih => intro k; simp [number, ih]
  simp [joinNumbered, this]

/-! ## parser side -/

/-- the `LineParser` state between tests -/
structure Clean (s : LineParser.State Cfg) : Prop where
  cmd : s.command = []
  exps : s.expectations = []
  code : s.exitCode = none
  osi : s.outputStartIndex = none
  amc : s.allowMultipleCommands = false

theorem addAll_append (expOk : Line → Bool) (a b : Numbered) :
    ∀ (s : LineParser.State Cfg), addAll expOk s (a ++ b) =
      match addAll expOk s a with
      | .error e => .error e
      | .ok s' => addAll expOk s' b := by
  induction a with
  | nil => intro s; simp [addAll]
  | cons x r ih =>
    intro s
    obtain ⟨i, l⟩ := x
    simp only [List.cons_append, addAll]
    split
    · rfl
    · exact ih _

theorem addBody_cmd (expOk : Line → Bool) (s : LineParser.State Cfg) (hc : Clean s) (cmd : Line) (k : Nat) :
    s.addBody expOk ('$' :: ' ' :: cmd) k
      = .ok ({ s with inCommand := true, outputStartIndex := some k, command := [cmd] }, .commandStart) := by
  simp [State.addBody, hc.amc, hc.cmd, hc.osi, stripPrefix]

theorem addAll_conts (expOk : Line → Bool) (xs : List Line) :
    ∀ (s : LineParser.State Cfg) (k : Nat), s.inCommand = true → s.command ≠ [] →
      s.allowMultipleCommands = false →
      addAll expOk s (number k (xs.map contLine)) = .ok { s with command := s.command ++ xs } := by
  induction xs with
  | nil => intro s k _ _ _; simp [number, addAll]
  | cons x r ih =>
    intro s k h1 h2 h3
    have he : s.command.isEmpty = false := by cases hh : s.command <;> simp_all
    simp only [List.map_cons, number, addAll, State.addBody, h3, he, Bool.or_self, Bool.false_eq_true, if_false,
      State.addBodyRest, h1, if_true, contLine, stripPrefix]
    have := ih { s with command := s.command ++ [x] } (k + 1) h1 (by simp) h3
    simpa [h1, h3] using this

theorem exit_line_head {x : Line} {n : Nat} (h : extractExitCode x = some n) :
    stripPrefix ['>', ' '] x = none := by
  unfold extractExitCode at h
  split at h
  · simp [stripPrefix]
  · cases h

/-- the lines after the command: expectations, among them at most one exit code -/
theorem addAll_after (expOk : Line → Bool) (after : List Line) :
    ∀ (s : LineParser.State Cfg) (k : Nat), s.command ≠ [] → s.allowMultipleCommands = false →
      (s.inCommand = true → match after with
        | a :: _ => stripPrefix ['>', ' '] a = none
        | [] => True) →
      (∀ e ∈ expLines after, expOk e = true ∧ isExitCodeForm e = false) →
      (match s.exitCode with
        | some _ => exitCodes after = []
        | none => (exitCodes after).length ≤ 1) →
      ∃ ic, addAll expOk s (number k after)
        = .ok { s with inCommand := ic, expectations := s.expectations ++ expLines after,
                       exitCode := s.exitCode.or (exitCodes after).head? } := by
  induction after with
  | nil =>
    intro s k _ _ _ _ _
    refine ⟨s.inCommand, ?_⟩
    simp [number, addAll, expLines, exitCodes]
  | cons a r ih =>
    intro s k h2 h3 hcont hexp hcode
    have he : s.command.isEmpty = false := by cases hh : s.command <;> simp_all
    cases hx : extractExitCode a with
    | some n =>
      -- an exit code line
      have hnone : s.exitCode = none := by
        cases hh : s.exitCode with
        | none => rfl
        | some c => rw [hh] at hcode; simp [exitCodes, hx] at hcode
      have hsp : (if s.inCommand = true then stripPrefix ['>', ' '] a else none) = none := by
        split <;> simp [exit_line_head hx]
      have hr : exitCodes r = [] := by
        rw [hnone] at hcode
        simp only [exitCodes, List.filterMap_cons, hx, List.length_cons] at hcode
        exact List.eq_nil_of_length_eq_zero (by simp only [exitCodes]; omega)
      obtain ⟨ic, hic⟩ := ih { s with inCommand := false, exitCode := some n } (k + 1) h2 h3
        (by intro h; cases h) (fun e he' => hexp e (by simp [expLines, hx] at he' ⊢; exact he')) (by simpa using hr)
      refine ⟨ic, ?_⟩
      simp only [number, addAll, State.addBody, h3, he, Bool.or_self, Bool.false_eq_true, if_false,
        State.addBodyRest, hsp, hx, hnone, Option.isSome_none, exitCodeOverflows_of_extract hx]
      simp only [h3] at hic ⊢
      rw [hic]
      simp [expLines, exitCodes, hx, hnone]
    | none =>
      -- an expectation line
      have hsp : (if s.inCommand = true then stripPrefix ['>', ' '] a else none) = none := by
        split
        · rename_i h; exact hcont h
        · rfl
      have g1 : expOk a = true := (hexp a (by simp [expLines, hx])).1
      have g2 : exitCodeOverflows a = false :=
        exitCodeOverflows_of_not_form (hexp a (by simp [expLines, hx])).2
      obtain ⟨ic, hic⟩ := ih { s with inCommand := false, expectations := s.expectations ++ [a] } (k + 1) h2 h3
        (by intro h; cases h) (fun e he' => hexp e (by simp [expLines, hx] at he' ⊢; exact Or.inr he'))
        (by simpa [exitCodes, hx] using hcode)
      refine ⟨ic, ?_⟩
      simp only [number, addAll, State.addBody, h3, he, Bool.or_self, Bool.false_eq_true, if_false,
        State.addBodyRest, hsp, hx, g1, g2, if_true]
      simp only [h3] at hic ⊢
      rw [hic]
      simp [expLines, exitCodes, hx]

/-- all code lines of a well-formed block, fed to a clean state -/
theorem addAll_block (env : Env) (b : Block) (wf : b.WF env) (s : LineParser.State Cfg) (hc : Clean s) (k : Nat) :
    ∃ s', addAll env.expOk s (number k b.code) = .ok s' ∧ s'.command = b.cmd :: b.more ∧
      s'.expectations = b.exps ∧ s'.exitCode = b.exit ∧ s'.outputStartIndex = some k ∧
      s'.testcases = s.testcases ∧ s'.title = s.title ∧ s'.config = s.config ∧
      s'.allowMultipleCommands = false := by
  obtain ⟨_, _, _, _, _, _, hcodes, hexps, hfirst⟩ := wf
  -- the `$` line
  simp only [Block.code, number, addAll, Block.cmdLine, addBody_cmd env.expOk s hc]
  -- the `> ` lines
  rw [number_append, addAll_append]
  have hconts := addAll_conts env.expOk b.more
    { s with inCommand := true, outputStartIndex := some k, command := [b.cmd] } (k + 1) rfl (by simp) hc.amc
  rw [hconts]
  simp only []
  -- the lines after the command
  obtain ⟨ic, hic⟩ := addAll_after env.expOk b.after
    { s with inCommand := true, outputStartIndex := some (k), command := [b.cmd] ++ b.more }
    (k + 1 + (b.more.map contLine).length) (by simp) hc.amc (fun _ => hfirst) hexps
    (by simp only [hc.code]; exact hcodes)
  rw [hic]
  exact ⟨_, rfl, by simp, by simp [hc.exps, Block.exps], by simp [hc.code, Block.exit], rfl, rfl, rfl, rfl, hc.amc⟩

theorem code_getLast (b : Block) (k : Nat) : ∃ i l, (number k b.code).getLast? = some (i, l) := by
  cases h : (number k b.code).getLast? with
  | none =>
    have : number k b.code = [] := List.getLast?_eq_none_iff.mp h
    simp [Block.code, number] at this
  | some p => exact ⟨p.1, p.2, rfl⟩

theorem cfg_eval (env : Env) (li : Nat) (config : Line) (h3 : cfgAccepted env config) :
    (if (cfgLines li config).isEmpty then (.ok none : Except Err Cfg)
      else if env.testCfgOk (joinNumbered (cfgLines li config)) then .ok (some (joinNumbered (cfgLines li config)))
      else .error .testConfigYaml) = .ok (stripBraces config) := by
  unfold cfgAccepted at h3
  unfold cfgLines
  cases hs : stripBraces config with
  | none => simp
  | some c =>
    rw [hs] at h3
    simp at h3
    simp [joinNumbered, joinNl, h3]

/-- on a clean state, the token of a well-formed block becomes exactly the test that is written -/
theorem stepTok_block (env : Env) (b : Block) (wf : b.WF env) (st : PState) (hc : Clean st.lp)
    (li k : Nat) (cms : Numbered) :
    ∃ st', stepTok env st (.test b.language (cfgLines li b.config) cms (number k b.code)) = .ok st' ∧
      Clean st'.lp ∧ st'.lp.title = none ∧ st'.titleParagraph = [] ∧ st'.docConfigs = st.docConfigs ∧
      st'.lp.testcases = st.lp.testcases ++
        [{ title := st.lp.title.getD [], command := b.cmd :: b.more, exitCode := b.exit,
           expectations := b.exps, lineNumber := k + 1, config := some (stripBraces b.config) }] := by
  have hcfg := cfg_eval env li b.config wf.2.2.1
  have hclean : Clean (st.lp.setConfig (stripBraces b.config)) :=
    ⟨hc.cmd, hc.exps, hc.code, hc.osi, hc.amc⟩
  obtain ⟨s', h1, h2, h3, h4, h5, h6, h7, h8, h9⟩ :=
    addAll_block env b wf (st.lp.setConfig (stripBraces b.config)) hclean k
  obtain ⟨i, l, hl⟩ := code_getLast b k
  simp only [stepTok, hcfg, h1, hl]
  have hne : s'.command.isEmpty = false := by rw [h2]; rfl
  simp only [State.endTestcase, hne, Bool.false_eq_true, if_false]
  refine ⟨_, rfl, ⟨rfl, rfl, rfl, rfl, ?_⟩, rfl, rfl, rfl, ?_⟩
  · simpa [State.flush] using h9
  · simp [State.flush, h2, h3, h4, h5, h6, h7, h8, State.setConfig]

/-! ## the whole document -/

theorem fencePure_none_of {l : Line} (h : extractCodeBlockStart l = .ok none) : fencePure l = none := by
  rw [extractCodeBlockStart_eq] at h
  injection h

/-- the token of a scrut block without command: no test, the title is kept, the run of title
lines ends -/
theorem stepTok_noCommand (env : Env) (v : Fenced) (wf : v.NoCommandWF env) (st : PState) (li : Nat)
    (cms : Numbered) :
    stepTok env st (.test v.language (cfgLines li v.config) cms [])
      = .ok { st with lp := st.lp.setConfig (stripBraces v.config), titleParagraph := [] } := by
  have hcfg := cfg_eval env li v.config wf.2.2.1
  simp only [stepTok, hcfg, addAll, List.getLast?_nil]

/-- The induction over the items, open at the end: the tokenizer and the parser work through the
rendered items and arrive – with a clean `LineParser`, the front-matter texts, the tests and the
title state of the items – in front of whatever follows (`rest`). -/
theorem parse_items_then (env : Env) :
    ∀ (items : List Item) (cs : Bool), ItemsWF env cs items →
      ∀ (li : Nat) (st : PState), Clean st.lp → ∀ (rest : List Line),
        ∃ st', Clean st'.lp ∧
          st'.docConfigs = st.docConfigs ++ docTexts items ∧
          st'.lp.testcases
            = st.lp.testcases ++ expectedTests env items li st.lp.title st.titleParagraph ∧
          (st'.lp.title, st'.titleParagraph) = titleAfter env items st.lp.title st.titleParagraph ∧
          parseTokens env st (runP env.languages .top cs li (render items ++ rest))
            = parseTokens env st' (runP env.languages .top (csAfterAll cs items) (li + (render items).length) rest) := by
  intro items
  induction items with
  | nil =>
    intro cs _ li st hc rest
    exact ⟨st, hc, by simp [docTexts], by simp [expectedTests], by simp [titleAfter],
      by simp [render, csAfterAll]⟩
  | cons it r ih =>
    intro cs hwf li st hc rest
    obtain ⟨hit, hr⟩ := hwf
    have hlen : li + (render (it :: r)).length = li + it.lines.length + (render r).length := by
      simp [render, Nat.add_assoc]
    rw [hlen]
    simp only [render, List.append_assoc, csAfterAll]
    cases it with
    | prose l =>
      obtain ⟨hx, hne⟩ : extractCodeBlockStart l = .ok none ∧ (cs = false → l ≠ frontMatterFence) := hit
      have h1 : (!cs && decide (l = frontMatterFence)) = false := by
        cases cs
        · simp [hne rfl]
        · rfl
      simp only [Item.lines, List.cons_append, List.nil_append, List.length_cons, List.length_nil, Nat.zero_add]
      rw [runP_top_cons]
      simp only [h1, fencePure_none_of hx, Bool.false_eq_true, if_false, parseTokens, stepTok, expectedTests,
        docTexts, titleAfter, Item.csAfter]
      cases ht : extractTitle env.isLetter l with
      | some x =>
        simp only []
        exact ih _ hr _ { st with titleParagraph := st.titleParagraph ++ [x],
                                  lp := st.lp.setTitle (joinNl (st.titleParagraph ++ [x])) }
          ⟨hc.cmd, hc.exps, hc.code, hc.osi, hc.amc⟩ rest
      | none =>
        simp only []
        exact ih _ hr _ { st with titleParagraph := [] } hc rest
    | front body =>
      obtain ⟨hcs, hb, hok⟩ : cs = false ∧ (∀ x ∈ body, x ≠ frontMatterFence) ∧ env.docCfgOk (joinNl body ++ ['\n']) = true := hit
      subst hcs
      rw [runP_front _ body hb]
      have hl : (Item.front body).lines.length = body.length + 2 := by simp [Item.lines]
      simp only [parseTokens, stepTok, joinNumbered_number, hok, if_true, expectedTests, docTexts, titleAfter,
        Item.csAfter, hl]
      obtain ⟨st', hc', hd2, htc2, htt2, h2⟩ := ih false hr (li + (body.length + 2))
        { st with docConfigs := st.docConfigs ++ [joinNl body] } hc rest
      exact ⟨st', hc', by simp [hd2], htc2, htt2, h2⟩
    | block b =>
      have wf : b.WF env := hit
      simp only [Item.lines]
      rw [runP_block env b wf]
      obtain ⟨st1, h1, hc1, ht1, htp1, hd1, htc1⟩ :=
        stepTok_block env b wf st hc li (li + 1 + b.comments.length) (number (li + 1) b.comments)
      simp only [parseTokens, h1, Item.csAfter]
      obtain ⟨st', hc', hd2, htc2, htt2, h2⟩ := ih true hr (li + b.lines.length) st1 hc1 rest
      refine ⟨st', hc', by rw [hd2, hd1]; simp [docTexts], ?_, ?_, h2⟩
      · rw [htc2, htc1, ht1, htp1]
        simp [expectedTests]
      · rw [htt2, ht1, htp1]
        simp [titleAfter]
    | foreign v =>
      have wf : v.ForeignWF env := hit
      have hlang : v.language.isEmpty = false := by
        have := wf.2.2.1
        cases hh : v.language <;> simp_all
      simp only [Item.lines]
      rw [runP_foreign env v wf]
      simp only [parseTokens, stepTok, hlang, Bool.false_eq_true, if_false, expectedTests, docTexts, titleAfter,
        Item.csAfter]
      exact ih true hr (li + v.lines.length) st hc rest
    | noCommand v =>
      have wf : v.NoCommandWF env := hit
      simp only [Item.lines]
      rw [runP_noCommand env v wf]
      simp only [parseTokens, stepTok_noCommand env v wf, expectedTests, docTexts, titleAfter, Item.csAfter]
      exact ih true hr (li + v.lines.length)
        { st with lp := st.lp.setConfig (stripBraces v.config), titleParagraph := [] }
        ⟨hc.cmd, hc.exps, hc.code, hc.osi, hc.amc⟩ rest

theorem parse_items (env : Env) :
    ∀ (items : List Item) (cs : Bool), ItemsWF env cs items →
      ∀ (li : Nat) (st : PState), Clean st.lp →
        ∃ st', parseTokens env st (runP env.languages .top cs li (render items)) = .ok st' ∧
          st'.docConfigs = st.docConfigs ++ docTexts items ∧
          st'.lp.testcases
            = st.lp.testcases ++ expectedTests env items li st.lp.title st.titleParagraph := by
  intro items cs hwf li st hc
  obtain ⟨st', _, hd, ht, _, h⟩ := parse_items_then env items cs hwf li st hc []
  refine ⟨st', ?_, hd, ht⟩
  rw [List.append_nil] at h
  rw [h]
  simp [runP, Mode.flushTok, parseTokens]

theorem parseLines_render (env : Env) (items : List Item) (hwf : ItemsWF env false items) :
    parseLines env (render items)
      = .ok { docConfigs := docTexts items, tests := expectedTests env items 0 none [] } := by
  obtain ⟨st', h, hd, ht⟩ := parse_items env items false hwf 0 {} ⟨rfl, rfl, rfl, rfl, rfl⟩
  simp only [parseLines, tokenize_eq, h]
  rw [hd, ht]
  rfl

/-! ## count, order and content do not depend on what stands between the blocks -/

theorem expectedTests_core (env : Env) :
    ∀ (items : List Item) (li : Nat) (t : Option Line) (tp : List Line),
      (expectedTests env items li t tp).map TestCase.core = writtenCores items := by
  intro items
  induction items with
  | nil => intro _ _ _; rfl
  | cons it r ih =>
    intro li t tp
    cases it with
    | prose l =>
      simp only [expectedTests, writtenCores]
      split <;> exact ih _ _ _
    | block b =>
      simp only [expectedTests, writtenCores, List.map_cons, ih]
      rfl
    | front body => simp only [expectedTests, writtenCores]; exact ih _ _ _
    | foreign v => simp only [expectedTests, writtenCores]; exact ih _ _ _
    | noCommand v => simp only [expectedTests, writtenCores]; exact ih _ _ _

theorem writtenCores_insert (pre post : List Item) (x : Item) (hx : x.inert = true) :
    writtenCores (pre ++ x :: post) = writtenCores (pre ++ post) := by
  induction pre with
  | nil => cases x <;> simp_all [writtenCores, Item.inert]
  | cons it r ih => cases it <;> simp [writtenCores, ih]

theorem docTexts_insert (pre post : List Item) (x : Item) (hx : x.inert = true) :
    docTexts (pre ++ x :: post) = docTexts (pre ++ post) := by
  induction pre with
  | nil => cases x <;> simp_all [docTexts, Item.inert]
  | cons it r ih => cases it <;> simp [docTexts, ih]

theorem itemsWF_append (env : Env) (pre post : List Item) :
    ∀ cs, ItemsWF env cs (pre ++ post) ↔ ItemsWF env cs pre ∧ ItemsWF env (csAfterAll cs pre) post := by
  induction pre with
  | nil => intro cs; simp [ItemsWF, csAfterAll]
  | cons it r ih => intro cs; simp [ItemsWF, csAfterAll, ih, and_assoc]

/-- without front-matter, well-formedness survives a later `content_start` -/
theorem itemsWF_mono (env : Env) (items : List Item) (hnf : noFront items = true) :
    ∀ cs cs', (cs = true → cs' = true) → ItemsWF env cs items → ItemsWF env cs' items := by
  induction items with
  | nil => intro _ _ _ _; trivial
  | cons it r ih =>
    intro cs cs' hle hwf
    obtain ⟨hit, hr⟩ := hwf
    cases it with
    | prose l =>
      refine ⟨⟨hit.1, fun h => hit.2 ?_⟩, ih (by simpa [noFront] using hnf) _ _ ?_ hr⟩
      · cases cs
        · rfl
        · simp [hle rfl] at h
      · intro h
        simp only [Item.csAfter, Bool.or_eq_true] at h ⊢
        rcases h with h | h
        · exact Or.inl (hle h)
        · exact Or.inr h
    | front body => simp [noFront] at hnf
    | block b => exact ⟨hit, ih (by simpa [noFront] using hnf) _ _ (fun h => h) hr⟩
    | foreign v => exact ⟨hit, ih (by simpa [noFront] using hnf) _ _ (fun h => h) hr⟩
    | noCommand v => exact ⟨hit, ih (by simpa [noFront] using hnf) _ _ (fun h => h) hr⟩

theorem csAfter_mono (cs : Bool) (x : Item) (hx : x.inert = true) : cs = true → x.csAfter cs = true := by
  intro h
  cases x <;> simp_all [Item.csAfter, Item.inert]

/-- inserting an inert item (prose line, foreign block, scrut block without command) anywhere
behind the front-matter keeps the document well-formed -/
theorem itemsWF_insert (env : Env) (pre post : List Item) (x : Item) (hx : x.inert = true)
    (hnf : noFront post = true) (cs : Bool) (hwf : ItemsWF env cs (pre ++ post))
    (hxwf : x.WF env (csAfterAll cs pre)) : ItemsWF env cs (pre ++ x :: post) := by
  rw [itemsWF_append] at hwf ⊢
  exact ⟨hwf.1, hxwf, itemsWF_mono env post hnf _ _ (csAfter_mono _ x hx) hwf.2⟩

theorem insert_inert (env : Env) (pre post : List Item) (x : Item) (hx : x.inert = true)
    (hnf : noFront post = true) (hwf : ItemsWF env false (pre ++ post))
    (hxwf : x.WF env (csAfterAll false pre)) :
    ∃ ts ts', parseLines env (render (pre ++ post)) = .ok { docConfigs := docTexts (pre ++ post), tests := ts } ∧
      parseLines env (render (pre ++ x :: post))
        = .ok { docConfigs := docTexts (pre ++ post), tests := ts' } ∧
      ts'.map TestCase.core = ts.map TestCase.core := by
  have hwf' := itemsWF_insert env pre post x hx hnf false hwf hxwf
  refine ⟨expectedTests env (pre ++ post) 0 none [], expectedTests env (pre ++ x :: post) 0 none [],
    parseLines_render env _ hwf, ?_, ?_⟩
  · rw [← docTexts_insert pre post x hx]
    exact parseLines_render env _ hwf'
  · rw [expectedTests_core, expectedTests_core, writtenCores_insert pre post x hx]

/-! ## one prose line is as good as another

The parser looks at a prose line in two ways only: is it a title line (`extractTitle`), is it blank
(`content_start`).  Two prose lines that agree in both are interchangeable: the whole result
(document configuration, every test with its title and line number) is the same. -/

theorem expectedTests_replace_prose (env : Env) (pre post : List Item) (p q : Line)
    (ht : extractTitle env.isLetter p = extractTitle env.isLetter q) :
    ∀ (li : Nat) (t : Option Line) (tp : List Line),
      expectedTests env (pre ++ .prose p :: post) li t tp = expectedTests env (pre ++ .prose q :: post) li t tp := by
  induction pre with
  | nil => intro li t tp; simp only [List.nil_append, expectedTests, ht]
  | cons it r ih =>
    intro li t tp
    cases it with
    | prose l =>
      simp only [List.cons_append, expectedTests]
      split <;> exact ih _ _ _
    | front body => simp only [List.cons_append, expectedTests]; exact ih _ _ _
    | foreign v => simp only [List.cons_append, expectedTests]; exact ih _ _ _
    | noCommand v => simp only [List.cons_append, expectedTests]; exact ih _ _ _
    | block b => simp only [List.cons_append, expectedTests, ih]

theorem itemsWF_replace_prose (env : Env) (pre post : List Item) (p q : Line) (cs : Bool)
    (hb : (trim p).isEmpty = (trim q).isEmpty)
    (hq : Item.WF env (csAfterAll cs pre) (.prose q))
    (hwf : ItemsWF env cs (pre ++ .prose p :: post)) : ItemsWF env cs (pre ++ .prose q :: post) := by
  rw [itemsWF_append] at hwf ⊢
  refine ⟨hwf.1, hq, ?_⟩
  have := hwf.2.2
  simpa only [Item.csAfter, hb] using this

theorem replace_prose (env : Env) (pre post : List Item) (p q : Line)
    (ht : extractTitle env.isLetter p = extractTitle env.isLetter q)
    (hb : (trim p).isEmpty = (trim q).isEmpty)
    (hq : Item.WF env (csAfterAll false pre) (.prose q))
    (hwf : ItemsWF env false (pre ++ .prose p :: post)) :
    parseLines env (render (pre ++ .prose q :: post)) = parseLines env (render (pre ++ .prose p :: post)) := by
  rw [parseLines_render env _ hwf,
    parseLines_render env _ (itemsWF_replace_prose env pre post p q false hb hq hwf),
    docTexts_insert pre post (.prose q) rfl, docTexts_insert pre post (.prose p) rfl,
    expectedTests_replace_prose env pre post p q ht]

/-! ## a line that starts with an inline code span -/

theorem ticks_replicate (n : Nat) (c : Char) (rest : Line) (hc : c ≠ '`') :
    fenceTicks (List.replicate n '`' ++ c :: rest) = List.replicate n '`' ∧
    fenceInfo (List.replicate n '`' ++ c :: rest) = c :: rest := by
  induction n with
  | zero => simpa using fence_cons_other c rest hc
  | succ n ih =>
    have e : List.replicate (n + 1) '`' ++ c :: rest = '`' :: (List.replicate n '`' ++ c :: rest) := by
      simp [List.replicate_succ]
    rw [e, (fence_cons_tick _).1, (fence_cons_tick _).2, ih.1, ih.2]
    simp [List.replicate_succ]

/-- three or more backticks, then text (not starting with a backtick) that contains a backtick in
front of its first `{`: not a fence line -/
theorem inline_span_not_fence (n : Nat) (c : Char) (rest : Line) (hc : c ≠ '`')
    (hbt : '`' ∈ (c :: rest).takeWhile (· ≠ '{')) :
    extractCodeBlockStart (List.replicate n '`' ++ c :: rest) = .ok none := by
  rw [fence_iff_spec]
  unfold isFenceLine fenceLang
  rw [(ticks_replicate n c rest hc).2]
  have : ((c :: rest).takeWhile (· ≠ '{')).contains '`' = true := by simpa using hbt
  rw [this]
  simp

theorem trimEnd_cons_nonwhite (c : Char) (t : Line) (hc : isWhite c = false) :
    ∃ t', trimEnd (c :: t) = c :: t' := by
  unfold trimEnd
  rw [List.reverse_cons, List.dropWhile_append]
  split
  · refine ⟨[], ?_⟩
    simp [List.dropWhile, hc]
  · refine ⟨(List.dropWhile isWhite t.reverse).reverse, ?_⟩
    simp

/-- … it is not a title line (a backtick is not a letter) and not blank -/
theorem inline_span_no_title (env : Env) (hl : env.isLetter '`' = false) (n : Nat) (hn : 1 ≤ n) (x : Line) :
    extractTitle env.isLetter (List.replicate n '`' ++ x) = none ∧
    (trim (List.replicate n '`' ++ x)).isEmpty = false := by
  obtain ⟨m, rfl⟩ : ∃ m, n = m + 1 := ⟨n - 1, by omega⟩
  have e : List.replicate (m + 1) '`' ++ x = '`' :: (List.replicate m '`' ++ x) := by simp [List.replicate_succ]
  have hw : isWhite '`' = false := by decide
  have h1 : trimStart ('`' :: (List.replicate m '`' ++ x)) = '`' :: (List.replicate m '`' ++ x) := by
    simp [trimStart, List.dropWhile, hw]
  obtain ⟨t', h2⟩ := trimEnd_cons_nonwhite '`' (List.replicate m '`' ++ x) hw
  have h3 : trim (List.replicate (m + 1) '`' ++ x) = '`' :: t' := by rw [e]; unfold trim; rw [h1, h2]
  refine ⟨?_, by rw [h3]; rfl⟩
  unfold extractTitle
  simp only [h3, hl, Bool.false_eq_true, if_false]
  rfl

/-- line numbers of the tests: each the line of a `$` -/
theorem render_skip (its : List Line) (rest : List Line) (n : Nat) :
    (its ++ rest)[its.length + n]? = rest[n]? := by
  rw [List.getElem?_append_right (by omega)]
  simp

theorem expectedTests_lines (env : Env) :
    ∀ (items : List Item) (li : Nat) (t : Option Line) (tp : List Line),
      ∀ x ∈ expectedTests env items li t tp, li < x.lineNumber ∧
        (render items)[x.lineNumber - 1 - li]? = some ('$' :: ' ' :: (x.command.headD [])) := by
  intro items
  induction items with
  | nil => intro _ _ _ x hx; simp [expectedTests] at hx
  | cons it r ih =>
    intro li t tp x hx
    -- an item that yields no test: skip its lines
    have skip : ∀ (t' : Option Line) (tp' : List Line), x ∈ expectedTests env r (li + it.lines.length) t' tp' →
        li < x.lineNumber ∧ (render (it :: r))[x.lineNumber - 1 - li]? = some ('$' :: ' ' :: (x.command.headD [])) := by
      intro t' tp' h
      obtain ⟨h1, h2⟩ := ih _ _ _ x h
      refine ⟨by omega, ?_⟩
      have e : x.lineNumber - 1 - li = it.lines.length + (x.lineNumber - 1 - (li + it.lines.length)) := by omega
      rw [e]
      simp only [render]
      rw [render_skip]
      exact h2
    cases it with
    | prose l =>
      simp only [expectedTests] at hx
      have : ∃ t' tp', x ∈ expectedTests env r (li + 1) t' tp' := by
        split at hx <;> exact ⟨_, _, hx⟩
      obtain ⟨t', tp', h⟩ := this
      exact skip t' tp' (by simpa [Item.lines] using h)
    | front body =>
      simp only [expectedTests] at hx
      exact skip _ _ (by simpa [Item.lines] using hx)
    | foreign v =>
      simp only [expectedTests] at hx
      exact skip _ _ (by simpa [Item.lines] using hx)
    | noCommand v =>
      simp only [expectedTests] at hx
      exact skip _ _ (by simpa [Item.lines] using hx)
    | block b =>
      simp only [expectedTests, List.mem_cons] at hx
      rcases hx with rfl | h
      · refine ⟨by simp; omega, ?_⟩
        have e : li + 1 + b.comments.length + 1 - 1 - li = b.comments.length + 1 := by omega
        simp only [e, render, Item.lines, Block.lines, Block.body, Block.code, Block.cmdLine, List.headD_cons]
        simp
      · exact skip _ _ (by simpa [Item.lines] using h)

end Scrut.Markdown
